(* PlotModelProofs.v - theorems about the plot model (C20).
   Part 1: list theorems, polymorphic in the element type (pure data movement).
   Part 2: numeric theorems over R (frame markers, x arrays, speeds, cumulative errors).
   Part 3: finite theorems about the term regenerated from the Python source (EvoGen.PlotGen),
           proved by vm_compute on every run, and the tie of the hand model's tables to that term. *)
From Coq Require Import String.
From Coq Require Import List Arith Bool ZArith Reals Lia Lra.
From Evo Require Import Num Linalg LinalgR PlotModel PyAstPlot.
From EvoGen Require PlotGen.
Import ListNotations.

(* ================================================================== Part 1: lists *)
Section Lists.
Context {X : Type}.

Lemma last_nth_ne (l : list X) d d' : l <> [] -> last l d = nth (length l - 1) l d'.
Proof.
  induction l as [|a l IH]; [congruence|]. intros _. destruct l as [|b l]; [reflexivity|].
  change (last (a :: b :: l) d) with (last (b :: l) d).
  rewrite IH by discriminate. simpl. rewrite Nat.sub_0_r. reflexivity.
Qed.

Lemma removelast_len (l : list X) : length (removelast l) = length l - 1.
Proof.
  induction l as [|a l IH]; [reflexivity|]. destruct l as [|b l]; [reflexivity|].
  change (removelast (a :: b :: l)) with (a :: removelast (b :: l)).
  cbn [length] in *. rewrite IH. lia.
Qed.

Lemma nth_tl (l : list X) k d : nth k (tl l) d = nth (S k) l d.
Proof. destruct l; [destruct k; reflexivity|reflexivity]. Qed.

(* consecutive pairs: zip(a[:-1], a[1:]) *)
Lemma adjacent_nth (l : list X) : forall k d, S k < length l ->
  nth_error (combine (removelast l) (tl l)) k = Some (nth k l d, nth (S k) l d).
Proof.
  induction l as [|a l IH]; intros k d H; [simpl in H; lia|].
  destruct l as [|b l]; [simpl in H; lia|].
  destruct k as [|k]; [reflexivity|].
  assert (H' : S k < length (b :: l)) by (simpl in *; lia).
  exact (IH k d H').
Qed.

Lemma adjacent_length (l : list X) : length (combine (removelast l) (tl l)) = length l - 1.
Proof. rewrite combine_length, removelast_len. destruct l; simpl; lia. Qed.

Lemma nth_error_combine {Y} (a : list X) (b : list Y) : forall k x y,
  nth_error a k = Some x -> nth_error b k = Some y -> nth_error (combine a b) k = Some (x, y).
Proof.
  revert b. induction a as [|p a IH]; intros b k x y Ha Hb; [destruct k; discriminate|].
  destruct b as [|q b]; [destruct k; discriminate|].
  destruct k; simpl in *; [congruence|eauto].
Qed.

Lemma combine_map_same {Y Z} (f : X -> Y) (g : X -> Z) (l : list X) :
  combine (map f l) (map g l) = map (fun x => (f x, g x)) l.
Proof. induction l; simpl; congruence. Qed.

Lemma combine_map_both {Y} (f : X -> Y) (a b : list X) :
  combine (map f a) (map f b) = map (fun q => (f (fst q), f (snd q))) (combine a b).
Proof. revert b; induction a as [|x a IH]; intros [|y b]; simpl; try reflexivity. rewrite IH; reflexivity. Qed.

(* every step-th element *)
Lemma every_1 (l : list X) : every 1 l = l.
Proof. unfold every. induction l; simpl; congruence. Qed.

Definition flat2 (Q : list (X * X)) : list X := flat_map (fun q => [fst q; snd q]) Q.

Lemma flat2_length Q : length (flat2 Q) = 2 * length Q.
Proof. unfold flat2. induction Q; simpl in *; lia. Qed.
Lemma every_2_even Q : every_from 2 0 (flat2 Q) = map fst Q
with every_2_odd Q : every_from 2 1 (flat2 Q) = map snd Q.
Proof.
  - destruct Q as [|q Q]; [reflexivity|]. simpl. f_equal. apply every_2_even.
  - destruct Q as [|q Q]; [reflexivity|]. simpl. f_equal. apply every_2_odd.
Qed.
Lemma every_2_tl Q : every 2 (tl (flat2 Q)) = map snd Q.
Proof. unfold every. destruct Q as [|q Q]; [reflexivity|]. simpl. f_equal. apply every_2_odd. Qed.
Lemma every_2_removelast Q : every 2 (removelast (flat2 Q)) = map fst Q.
Proof.
  unfold every. induction Q as [|q Q IH]; [reflexivity|].
  change (flat2 (q :: Q)) with (fst q :: snd q :: flat2 Q).
  destruct Q as [|q' Q]; [reflexivity|].
  change (flat2 (q' :: Q)) with (fst q' :: snd q' :: flat2 Q) in *.
  change (removelast (fst q :: snd q :: fst q' :: snd q' :: flat2 Q))
    with (fst q :: snd q :: removelast (fst q' :: snd q' :: flat2 Q)).
  simpl every_from at 1. simpl map. f_equal. exact IH.
Qed.

Lemma flat2_interleave (a b : list X) : interleave a b = flat2 (combine a b).
Proof. reflexivity. Qed.
Lemma flat2_split Q : flat2 Q = interleave (map fst Q) (map snd Q).
Proof. unfold interleave, flat2. induction Q as [|[x y] Q IH]; simpl; congruence. Qed.
End Lists.

(* ---------------------------------------------------------------- artists' data *)
Section Artists.
Context {A : Type}.
Implicit Types (m : PlotMode) (ps xyz : list (V3 A)).

Lemma column_length i ps : length (column i ps) = length ps.
Proof. apply map_length. Qed.
Lemma column_nth i ps k d : nth k (column i ps) (vcomp i d) = vcomp i (nth k ps d).
Proof. unfold column. apply map_nth. Qed.

(* traj(): line data = the selected coordinate columns, in pose order *)
Theorem traj_line_columns m ps :
  traj_line m ps = map (fun i => column i ps) (mode_axes m) /\
  forall i, length (column i ps) = length ps /\
            forall k d, nth k (column i ps) (vcomp i d) = vcomp i (nth k ps d).
Proof.
  split; [destruct m; reflexivity|]. intro i; split; [apply column_length|intros; apply column_nth].
Qed.

(* add_start_end_markers(): first and last pose position, on the axes of the mode *)
Theorem start_end_markers_spec m ps d :
  match ps with
  | [] => start_end_markers m ps = []
  | _ => start_end_markers m ps = [point m (nth 0 ps d); point m (nth (length ps - 1) ps d)]
  end.
Proof.
  destruct ps as [|p0 r]; [reflexivity|].
  unfold start_end_markers. rewrite (last_nth_ne (p0 :: r) p0 d) by discriminate.
  destruct m; reflexivity.
Qed.

Definition segment m (q : V3 A * V3 A) : list (list A) := [point m (fst q); point m (snd q)].

(* colored_line_collection in terms of rows: segment j joins row j of xyz[:-1:step] and row j of xyz[1::step] *)
Lemma line_collection_rows step m xyz nc :
  (1 <? step) && negb (length xyz =? step * nc) = false ->
  line_collection step m xyz nc =
  Drawn (map (segment m) (combine (every step (removelast xyz)) (every step (tl xyz)))).
Proof.
  intro G. unfold line_collection. rewrite G.
  set (ra := every step (removelast xyz)). set (rb := every step (tl xyz)).
  unfold pairs_col, column. fold ra rb.
  destruct m; simpl mode_idx; cbv iota beta; f_equal; unfold segs_2d, segs_3d;
    rewrite !combine_map_both, ?combine_map_same, ?map_map;
    try (rewrite (combine_map_same (fun q => (vcomp _ (fst q), vcomp _ (snd q)))
                                   (fun q => ((vcomp _ (fst q), vcomp _ (snd q)), (vcomp _ (fst q), vcomp _ (snd q))))), map_map);
    apply map_ext; intros [a b]; reflexivity.
Qed.

(* step = 1: segment k = (p_k, p_k+1); one segment less than poses; never refused *)
Theorem segments_step1 m xyz nc :
  exists segs, line_collection 1 m xyz nc = Drawn segs /\
    length segs = length xyz - 1 /\
    forall k d, S k < length xyz ->
      nth_error segs k = Some [point m (nth k xyz d); point m (nth (S k) xyz d)].
Proof.
  eexists. split; [apply line_collection_rows; reflexivity|]. rewrite !every_1. split.
  - rewrite map_length. apply adjacent_length.
  - intros k d H. erewrite map_nth_error by (apply adjacent_nth with (d := d); exact H). reflexivity.
Qed.

(* step = 2 on an array of interleaved vertices a_0 b_0 a_1 b_1 ... with one colour per pair *)
Lemma segments_step2_pairs m (Q : list (V3 A * V3 A)) :
  line_collection 2 m (flat2 Q) (length Q) = Drawn (map (segment m) Q).
Proof.
  rewrite line_collection_rows.
  - rewrite every_2_removelast, every_2_tl. do 2 f_equal.
    induction Q as [|[a b] Q IH]; simpl; congruence.
  - rewrite flat2_length, Nat.eqb_refl. reflexivity.
Qed.

Theorem segments_step2 m (a b : list (V3 A)) :
  length a = length b ->
  exists segs, line_collection 2 m (interleave a b) (length a) = Drawn segs /\
    length segs = length a /\
    forall k d, k < length a -> nth_error segs k = Some [point m (nth k a d); point m (nth k b d)].
Proof.
  intro L. exists (map (segment m) (combine a b)). split; [|split].
  - rewrite flat2_interleave. rewrite <- (Nat.min_id (length a)) at 1. rewrite L at 2.
    rewrite <- combine_length. apply segments_step2_pairs.
  - rewrite map_length, combine_length. lia.
  - intros k d H.
    erewrite map_nth_error; [|apply nth_error_combine; [apply (nth_error_nth' a d)|apply (nth_error_nth' b d)]; lia].
    reflexivity.
Qed.

(* a wrong number of colours is refused for step > 1 *)
Lemma line_collection_refuses m xyz nc : length xyz <> 2 * nc -> line_collection 2 m xyz nc = Refused.
Proof.
  intro H. unfold line_collection. replace (length xyz =? 2 * nc) with false; [reflexivity|].
  symmetry. apply Nat.eqb_neq. exact H.
Qed.

(* draw_correspondence_edges(): edge k joins pose k of both trajectories; different lengths are refused *)
Theorem correspondence_edges_spec m ps1 ps2 :
  (length ps1 <> length ps2 -> correspondence_edges m ps1 ps2 = Refused) /\
  (length ps1 = length ps2 ->
   exists segs, correspondence_edges m ps1 ps2 = Drawn segs /\ length segs = length ps1 /\
     forall k d, k < length ps1 -> nth_error segs k = Some [point m (nth k ps1 d); point m (nth k ps2 d)]).
Proof.
  unfold correspondence_edges. split; intro H.
  - apply Nat.eqb_neq in H. rewrite H. reflexivity.
  - pose proof H as E. apply Nat.eqb_eq in E. rewrite E. simpl negb. cbv iota. apply segments_step2. exact H.
Qed.

(* traj_colormap(): one segment per consecutive pose pair, whatever the number of colour values *)
Theorem colormap_segments_spec m ps narray :
  exists segs, colormap_segments m ps narray = Drawn segs /\ length segs = length ps - 1 /\
    forall k d, S k < length ps -> nth_error segs k = Some [point m (nth k ps d); point m (nth (S k) ps d)].
Proof. apply segments_step1. Qed.
End Artists.

(* ================================================================== Part 2: numeric, over R *)
Section Reals.
Local Open Scope R_scope.
Notation V3R := (V3 R). Notation PoseR := (Pose R).

Definition basis (a : nat) : V3R :=
  match a with 0%nat => mkV3 1 0 0 | 1%nat => mkV3 0 1 0 | _ => mkV3 0 0 1 end.

(* the tip of a frame marker: p.dot(unit_a)[:3] = t + scale * R e_a *)
Lemma pdot_unit (p : PoseR) (a : nat) (s : R) :
  pdot p (unit_vec a s) = vadd (ptr p) (vscale s (mv (prot p) (basis a))).
Proof.
  destruct p as [r t]. destruct r as [r00 r01 r02 r10 r11 r12 r20 r21 r22]. destruct t as [tx ty tz].
  destruct a as [|[|a]]; unfold pdot, unit_vec, dot4, vadd, vscale, mv, basis; simpl; rnum; f_equal; ring.
Qed.

Lemma marker_vertices_flat2 s (poses : list PoseR) :
  marker_vertices s poses = flat2 (vertex_pairs 0 s poses ++ vertex_pairs 1 s poses ++ vertex_pairs 2 s poses).
Proof. reflexivity. Qed.

Lemma vertex_pairs_length a s (poses : list PoseR) : length (vertex_pairs a s poses) = length poses.
Proof. apply map_length. Qed.
Lemma vertex_pairs_nth a s (poses : list PoseR) k d : (k < length poses)%nat ->
  nth_error (vertex_pairs a s poses) k =
  Some (ptr (nth k poses d), vadd (ptr (nth k poses d)) (vscale s (mv (prot (nth k poses d)) (basis a)))).
Proof.
  intro H. unfold vertex_pairs. erewrite map_nth_error by (apply nth_error_nth'; exact H).
  rewrite pdot_unit. reflexivity.
Qed.

(* draw_coordinate_axes(): nothing for scale <= 0; otherwise 3n segments, axis a of pose k is segment a*n + k,
   it starts at the pose position and ends at p + scale * R e_a, drawn on the axes of the mode *)
Theorem coordinate_axes_spec (m : PlotMode) (s : R) (poses : list PoseR) :
  (s <= 0 -> coordinate_axes m s poses = Nothing) /\
  (0 < s ->
   exists segs, coordinate_axes m s poses = Drawn segs /\ length segs = (3 * length poses)%nat /\
     forall a k d, (a < 3)%nat -> (k < length poses)%nat ->
       nth_error segs (a * length poses + k) =
       Some [point m (ptr (nth k poses d));
             point m (vadd (ptr (nth k poses d)) (vscale s (mv (prot (nth k poses d)) (basis a))))]).
Proof.
  unfold coordinate_axes. rnum. split; intro H.
  - apply Rleb_true in H. rewrite H. reflexivity.
  - apply Rleb_false in H. rewrite H.
    set (n := length poses).
    set (Q := vertex_pairs 0 s poses ++ vertex_pairs 1 s poses ++ vertex_pairs 2 s poses).
    assert (LQ : length Q = (n + n + n)%nat) by (unfold Q; rewrite !app_length, !vertex_pairs_length; fold n; lia).
    exists (map (segment m) Q). split; [|split].
    + rewrite marker_vertices_flat2. fold Q. rewrite <- LQ. apply segments_step2_pairs.
    + rewrite map_length, LQ. lia.
    + intros a k d Ha Hk.
      assert (E : nth_error Q (a * n + k) =
                  Some (ptr (nth k poses d), vadd (ptr (nth k poses d)) (vscale s (mv (prot (nth k poses d)) (basis a))))).
      { unfold Q. destruct a as [|[|[|a]]]; [| | |lia].
        - simpl Nat.add. rewrite nth_error_app1 by (rewrite vertex_pairs_length; exact Hk).
          apply vertex_pairs_nth; exact Hk.
        - rewrite nth_error_app2 by (rewrite vertex_pairs_length; fold n; lia).
          rewrite vertex_pairs_length. fold n. replace (1 * n + k - n)%nat with k by lia.
          rewrite nth_error_app1 by (rewrite vertex_pairs_length; exact Hk).
          apply vertex_pairs_nth; exact Hk.
        - rewrite nth_error_app2 by (rewrite vertex_pairs_length; fold n; lia).
          rewrite vertex_pairs_length. fold n.
          rewrite nth_error_app2 by (rewrite vertex_pairs_length; fold n; lia).
          rewrite vertex_pairs_length. fold n. replace (2 * n + k - n - n)%nat with k by lia.
          apply vertex_pairs_nth; exact Hk. }
      erewrite map_nth_error by exact E. reflexivity.
Qed.

(* x arrays of traj_xyz / traj_rpy: timestamps shifted by the start time (none or 0: unshifted),
   or the pose index without timestamps *)
Lemma index_array_length n : length (@index_array R _ n) = n.
Proof. unfold index_array. rewrite map_length, seq_length. reflexivity. Qed.
Lemma index_array_nth n k d : (k < n)%nat -> nth k (@index_array R _ n) d = INR k.
Proof.
  intro H. unfold index_array. rewrite nth_indep with (d' := nofZ (Z.of_nat 0)) by (rewrite map_length, seq_length; exact H).
  rewrite (map_nth (fun k => nofZ (Z.of_nat k))). rewrite seq_nth by exact H. rnum. simpl. symmetry. apply INR_IZR_INZ.
Qed.

Theorem x_array_spec (stamps : option (list R)) (start : option R) (n : nat) :
  match stamps with
  | Some ts =>
      x_array stamps start n = map (fun t => t - match start with Some s => s | None => 0 end) ts
  | None =>
      length (x_array stamps start n) = n /\ forall k d, (k < n)%nat -> nth k (x_array stamps start n) d = INR k
  end.
Proof.
  destruct stamps as [ts|]; simpl.
  - assert (Z : map (fun t : R => t - 0) ts = ts).
    { rewrite <- (map_id ts) at 2. apply map_ext. intro; ring. }
    destruct start as [s|]; [|symmetry; exact Z].
    unfold shifted, start_given. rnum. unfold Reqb. destruct (Req_EM_T s 0) as [E|E]; simpl.
    + subst s. symmetry; exact Z.
    + reflexivity.
  - split; [apply index_array_length|intros; apply index_array_nth; assumption].
Qed.

(* traj_xyz(): subplot i shows coordinate i of the positions against that x array *)
Theorem traj_xyz_lines_spec stamps start (ps : list V3R) i : (i < 3)%nat ->
  nth_error (traj_xyz_lines stamps start ps) i = Some (x_array stamps start (length ps), column i ps).
Proof. intro H. destruct i as [|[|[|i]]]; [reflexivity..|lia]. Qed.

(* traj_rpy(): subplot i shows Euler angle i converted to degrees (factor k = 180/pi) *)
Theorem traj_rpy_lines_spec (k : R) stamps start (angles : list V3R) i : (i < 3)%nat ->
  nth_error (traj_rpy_lines k stamps start angles) i =
  Some (x_array stamps start (length angles), map (fun a => vcomp i a * k) angles).
Proof.
  intro H. destruct i as [|[|[|i]]]; [| | |lia]; unfold traj_rpy_lines, column, rad2deg; simpl nth_error;
    rewrite map_map; reflexivity.
Qed.

(* speeds(): value k is shown at the (shifted) timestamp of the newer pose k+1 *)
Theorem speeds_line_spec (stamps : list R) (start : option R) (sp : list R) :
  snd (speeds_line stamps start sp) = sp /\
  length (fst (speeds_line stamps start sp)) = (length stamps - 1)%nat /\
  forall k, (S k < length stamps)%nat ->
    nth k (fst (speeds_line stamps start sp)) 0 = nth (S k) stamps 0 - match start with Some s => s | None => 0 end.
Proof.
  unfold speeds_line, tail_of. simpl fst; simpl snd.
  pose proof (x_array_spec (Some stamps) start 0) as E. simpl in E. rewrite E.
  split; [reflexivity|split].
  - destruct stamps; simpl; [reflexivity|rewrite map_length; lia].
  - intros k H. rewrite nth_tl.
    set (s0 := match start with Some s => s | None => 0 end).
    rewrite nth_indep with (d' := (fun t => t - s0) 0) by (rewrite map_length; exact H).
    rewrite (map_nth (fun t => t - s0)). reflexivity.
Qed.

(* PoseTrajectory3D.speeds *)
Theorem speed_values_spec (ps : list V3R) (stamps : list R) k dp :
  (S k < length ps)%nat -> (S k < length stamps)%nat ->
  nth_error (speed_values ps stamps) k =
  Some (dist (nth (S k) ps dp) (nth k ps dp) / (nth (S k) stamps 0 - nth k stamps 0)).
Proof.
  intros H1 H2. unfold speed_values.
  erewrite map_nth_error; [|apply nth_error_combine; [apply adjacent_nth with (d := dp)|apply adjacent_nth with (d := 0)]; assumption].
  reflexivity.
Qed.

(* error_array(): values against the given x array, in order; cumulative = running sums *)
Fixpoint sum_first (k : nat) (l : list R) : R :=
  match k, l with S k', x :: r => x + sum_first k' r | _, _ => 0 end.
Lemma cumsum_from_nth (l : list R) : forall acc k, (k < length l)%nat ->
  nth k (cumsum_from acc l) 0 = acc + sum_first (S k) l.
Proof.
  induction l as [|x r IH]; intros acc k H; [simpl in H; lia|].
  destruct k as [|k]; simpl; rnum.
  - destruct r; simpl; ring.
  - rewrite IH by (simpl in H; lia). simpl. ring.
Qed.
Lemma cumsum_nth (l : list R) k : (k < length l)%nat -> nth k (cumsum l) 0 = sum_first (S k) l.
Proof.
  destruct l as [|x r]; intro H; [simpl in H; lia|].
  destruct k as [|k]; simpl.
  - destruct r; simpl; ring.
  - rewrite cumsum_from_nth by (simpl in H; lia). simpl. ring.
Qed.
Lemma cumsum_length (l : list R) : length (cumsum l) = length l.
Proof.
  destruct l as [|x r]; [reflexivity|]. simpl. f_equal. generalize x. induction r; intros; simpl; [reflexivity|].
  f_equal. apply IHr.
Qed.

Theorem error_array_line_spec (err : list R) (xs : option (list R)) (cumulative : bool) :
  (forall x, xs = Some x -> fst (error_array_line err xs cumulative) = x) /\
  (xs = None -> length (fst (error_array_line err xs cumulative)) = length err /\
                forall k d, (k < length err)%nat -> nth k (fst (error_array_line err xs cumulative)) d = INR k) /\
  (cumulative = false -> snd (error_array_line err xs cumulative) = err) /\
  (cumulative = true -> length (snd (error_array_line err xs cumulative)) = length err /\
                        forall k, (k < length err)%nat ->
                          nth k (snd (error_array_line err xs cumulative)) 0 = sum_first (S k) err).
Proof.
  unfold error_array_line. simpl fst; simpl snd. repeat split.
  - intros x E; subst; reflexivity.
  - subst xs. rewrite index_array_length. destruct cumulative; [apply cumsum_length|reflexivity].
  - subst xs. intros k d Hk. apply index_array_nth. destruct cumulative; [rewrite cumsum_length|]; exact Hk.
  - intro E; subst; reflexivity.
  - subst cumulative. apply cumsum_length.
  - subst cumulative. intros; apply cumsum_nth; assumption.
Qed.
End Reals.

(* ================================================================== Part 3: the regenerated term *)
Module Gen.
Import PlotGen.
Local Open Scope string_scope.

Definition tabs : tables :=
  match mk_tables PlotMode_members Unit_members with Some t => t | None => [] end.
Definition mode_names : list string := ["xy"; "xz"; "yx"; "yz"; "zx"; "zy"; "xyz"].
Definition length_unit_names : list string := ["millimeters"; "centimeters"; "meters"; "kilometers"].
Definition other_unit_names : list string := ["none"; "seconds"; "degrees"; "radians"; "frames"; "percent"].

Lemma all_flags_complete (f : axis_flags) : In f all_flags.
Proof. destruct f as [[] [] []]; simpl; tauto. Qed.

Lemma labels_table :
  forallb (fun m => forallb (fun u => forallb (fun f =>
     label_check tabs LENGTH_UNITS plot_mode_to_idx_body prepare_axis_body m u f) all_flags) length_unit_names) mode_names
  = true.
Proof. vm_compute. reflexivity. Qed.

(* for each of the 7 plot modes, 4 length units and all settings of the flags: the labels name the axes
   whose indices plot_mode_to_idx returns and carry the unit's value string *)
Theorem labels_name_the_plotted_axes :
  map fst PlotMode_members = mode_names /\
  interp_length_units tabs LENGTH_UNITS = Some length_unit_names /\
  forall m u f, In m mode_names -> In u length_unit_names ->
    LabelSpec tabs LENGTH_UNITS plot_mode_to_idx_body prepare_axis_body m u f.
Proof.
  split; [vm_compute; reflexivity|]. split; [vm_compute; reflexivity|].
  intros m u f Hm Hu. apply label_check_sound.
  pose proof labels_table as T. rewrite forallb_forall in T. specialize (T m Hm).
  rewrite forallb_forall in T. specialize (T u Hu).
  rewrite forallb_forall in T. apply T. apply all_flags_complete.
Qed.

Lemma refusal_table :
  forallb (fun m => forallb (fun u => forallb (fun f =>
     refuse_check tabs LENGTH_UNITS prepare_axis_body m u f) all_flags) other_unit_names) mode_names = true.
Proof. vm_compute. reflexivity. Qed.

Theorem other_units_are_refused :
  map fst Unit_members = "none" :: length_unit_names ++ tl other_unit_names /\
  forall m u f, In m mode_names -> In u other_unit_names ->
    exists r, interp_prepare tabs LENGTH_UNITS prepare_axis_body m u f = Some r /\ ar_raised r = true.
Proof.
  split; [vm_compute; reflexivity|].
  intros m u f Hm Hu.
  pose proof refusal_table as T. rewrite forallb_forall in T. specialize (T m Hm).
  rewrite forallb_forall in T. specialize (T u Hu).
  rewrite forallb_forall in T. specialize (T f (all_flags_complete f)).
  unfold refuse_check in T. destruct (interp_prepare tabs LENGTH_UNITS prepare_axis_body m u f) as [r|]; [|discriminate].
  exists r. split; [reflexivity|exact T].
Qed.

(* the tables of the hand model are those of the source: same modes, same indices, same labels *)
Definition idxZ (t : nat * nat * option nat) : Z * Z * option Z :=
  let '(a, b, c) := t in (Z.of_nat a, Z.of_nat b, option_map Z.of_nat c).

Definition idx_eqb (t t' : Z * Z * option Z) : bool :=
  let '(a, b, c) := t in let '(a', b', c') := t' in
  Z.eqb a a' && Z.eqb b b' &&
  match c, c' with Some x, Some y => Z.eqb x y | None, None => true | _, _ => false end.
Lemma idx_eqb_true t t' : idx_eqb t t' = true -> t = t'.
Proof.
  destruct t as [[a b] c], t' as [[a' b'] c']. unfold idx_eqb. intro H.
  apply andb_prop in H; destruct H as [H Hc]. apply andb_prop in H; destruct H as [Ha Hb].
  apply Z.eqb_eq in Ha, Hb. subst.
  destruct c, c'; try discriminate; [apply Z.eqb_eq in Hc; subst|]; reflexivity.
Qed.
Definition model_check (m : PlotMode) (u : LengthUnit) (f : axis_flags) : bool :=
  match interp_idx tabs plot_mode_to_idx_body (mode_name m),
        interp_prepare tabs LENGTH_UNITS prepare_axis_body (mode_name m) (unit_name u) f with
  | Some t, Some r =>
      idx_eqb t (idxZ (mode_idx m)) && negb (ar_raised r) &&
      slist_eqb (ar_xlabels r ++ ar_ylabels r ++ ar_zlabels r)%list (axis_labels m u)
  | _, _ => false end.
Lemma model_table :
  forallb (fun m => forallb (fun u => forallb (model_check m u) all_flags) all_length_units) all_modes = true.
Proof. vm_compute. reflexivity. Qed.

Theorem model_tables_match_source :
  map mode_name all_modes = map fst PlotMode_members /\
  Some (map unit_name all_length_units) = interp_length_units tabs LENGTH_UNITS /\
  forall (m : PlotMode) (u : LengthUnit) (f : axis_flags),
    interp_idx tabs plot_mode_to_idx_body (mode_name m) = Some (idxZ (mode_idx m)) /\
    exists r, interp_prepare tabs LENGTH_UNITS prepare_axis_body (mode_name m) (unit_name u) f = Some r /\
      ar_raised r = false /\ (ar_xlabels r ++ ar_ylabels r ++ ar_zlabels r)%list = axis_labels m u.
Proof.
  split; [vm_compute; reflexivity|]. split; [vm_compute; reflexivity|].
  intros m u f.
  pose proof model_table as T. rewrite forallb_forall in T.
  specialize (T m ltac:(destruct m; simpl; tauto)). rewrite forallb_forall in T.
  specialize (T u ltac:(destruct u; simpl; tauto)). rewrite forallb_forall in T.
  specialize (T f (all_flags_complete f)). unfold model_check in T.
  destruct (interp_idx tabs plot_mode_to_idx_body (mode_name m)) as [t|]; [|discriminate].
  destruct (interp_prepare tabs LENGTH_UNITS prepare_axis_body (mode_name m) (unit_name u) f) as [r|]; [|discriminate].
  apply andb_prop in T; destruct T as [T Hl]. apply andb_prop in T; destruct T as [Hi Hr].
  split; [f_equal; apply idx_eqb_true; exact Hi|].
  exists r. split; [reflexivity|]. split; [destruct (ar_raised r); [discriminate|reflexivity]|].
  apply slist_eqb_true; exact Hl.
Qed.
End Gen.

(* ================================================================== non-vacuity *)
Module Example.
Local Open Scope string_scope.
Definition p (a b c : nat) : V3 nat := mkV3 a b c.
Definition path : list (V3 nat) := [p 1 2 3; p 4 5 6; p 7 8 9].
Definition path2 : list (V3 nat) := [p 11 12 13; p 14 15 16; p 17 18 19].

Lemma concrete :
  traj_line PMzx path = [[3; 6; 9]; [1; 4; 7]] /\
  start_end_markers PMyz path = [[2; 3]; [8; 9]] /\
  line_collection 1 PMzy path 3 = Drawn [[[3; 2]; [6; 5]]; [[6; 5]; [9; 8]]] /\
  correspondence_edges PMxyz path path2 =
    Drawn [[[1; 2; 3]; [11; 12; 13]]; [[4; 5; 6]; [14; 15; 16]]; [[7; 8; 9]; [17; 18; 19]]] /\
  correspondence_edges PMxy path (tl path2) = Refused /\
  axis_labels PMzx LUmm = ["$z$ (mm)"; "$x$ (mm)"] /\
  exists r, interp_prepare Gen.tabs PlotGen.LENGTH_UNITS PlotGen.prepare_axis_body "zx" "millimeters" (mkFlags false false true) = Some r /\
            ar_xlabels r = ["$z$ (mm)"] /\ ar_ylabels r = ["$x$ (mm)"] /\ ar_zlabels r = [] /\
            interp_idx Gen.tabs PlotGen.plot_mode_to_idx_body "zx" = Some (2%Z, 0%Z, None).
Proof.
  repeat split; try (vm_compute; reflexivity).
  eexists. split; [vm_compute; reflexivity|]. repeat split; vm_compute; reflexivity.
Qed.

(* frame marker of a pose rotated a quarter turn about z, at (10, 20, 30), scale 2, drawn in mode yx *)
Local Open Scope R_scope.
Definition quarter : Pose R := mkPose (mkM3 0 (-1) 0 1 0 0 0 0 1) (mkV3 10 20 30).
Lemma seg_eq (a b c d a' b' c' d' : R) : a = a' -> b = b' -> c = c' -> d = d' ->
  Some [[a; b]; [c; d]] = Some [[a'; b']; [c'; d']].
Proof. intros; subst; reflexivity. Qed.
Lemma concrete_marker :
  exists segs, coordinate_axes PMyx 2 [quarter] = Drawn segs /\
    nth_error segs 0 = Some [[20; 10]; [20 + 2 * 1; 10 + 2 * 0]] /\      (* x axis of the pose points along +y *)
    nth_error segs 1 = Some [[20; 10]; [20 + 2 * 0; 10 + 2 * -1]] /\     (* y axis of the pose points along -x *)
    nth_error segs 2 = Some [[20; 10]; [20 + 2 * 0; 10 + 2 * 0]].        (* z axis: out of the picture plane *)
Proof.
  destruct (coordinate_axes_spec PMyx 2 [quarter]) as [_ H]. destruct (H ltac:(lra)) as [segs [E [L N]]].
  exists segs. split; [exact E|].
  pose proof (N 0%nat 0%nat quarter ltac:(lia) ltac:(simpl; lia)) as N0.
  pose proof (N 1%nat 0%nat quarter ltac:(lia) ltac:(simpl; lia)) as N1.
  pose proof (N 2%nat 0%nat quarter ltac:(lia) ltac:(simpl; lia)) as N2.
  change (0 * length [quarter] + 0)%nat with 0%nat in N0.
  change (1 * length [quarter] + 0)%nat with 1%nat in N1.
  change (2 * length [quarter] + 0)%nat with 2%nat in N2.
  rewrite N0, N1, N2.
  unfold point, mode_axes, vcomp, quarter, basis, vadd, vscale, mv; simpl; rnum.
  repeat split; apply seg_eq; lra.
Qed.
End Example.
