(* C13 - merging and tabulating results. Property theorems only; proofs live in Evo.ResultMergeProofs.
   The model Evo.ResultMerge mirrors evo/core/result.py:merge_results (current code: array sizes are
   compared per key of the first result) and the label/row assembly of pandas_bridge + main_res. *)
From Coq Require Import Reals List String.
From Evo Require Import Num ResultMerge ResultMergeProofs.
Import ListNotations.
Local Open Scope R_scope.

(* every statistic of the merge is the arithmetic mean of the N input values; the key list is the first's *)
Theorem C13_stats_are_arithmetic_means :
  forall (I : Type) (rs : list (Result R I)) m, merge_results rs = Merged m ->
    keys (stats m) = keys (stats (hd m rs)) /\
    forall k v, get k (stats m) = Some v -> v = mean (map (fun r => getd 0 k (stats r)) rs).
Proof. exact @merge_stats_mean. Qed.
Print Assumptions C13_stats_are_arithmetic_means.

(* all inputs have, for every array key, equal lengths  ->  element-wise mean *)
Theorem C13_arrays_equal_lengths_elementwise_mean :
  forall (I : Type) (rs : list (Result R I)) m, merge_results rs = Merged m -> same_sizes rs ->
    keys (arrays m) = keys (arrays (hd m rs)) /\
    forall k a, get k (arrays m) = Some a ->
      List.length a = List.length (getd [] k (arrays (hd m rs))) /\
      forall i, (i < List.length a)%nat -> nth i a 0 = mean (map (fun r => nth i (getd [] k (arrays r)) 0) rs).
Proof. exact @merge_arrays_average. Qed.
Print Assumptions C13_arrays_equal_lengths_elementwise_mean.

(* otherwise: concatenation in input order *)
Theorem C13_arrays_unequal_lengths_concatenated_in_input_order :
  forall (I : Type) (rs : list (Result R I)) m, merge_results rs = Merged m -> ~ same_sizes rs ->
    keys (arrays m) = keys (arrays (hd m rs)) /\
    forall k a, get k (arrays m) = Some a -> a = List.concat (map (fun r => getd [] k (arrays r)) rs).
Proof. exact @merge_arrays_append. Qed.
Print Assumptions C13_arrays_unequal_lengths_concatenated_in_input_order.

(* the strategy test of the code decides exactly "equal lengths per key across all inputs" *)
Theorem C13_strategy_is_per_key_length_equality :
  forall (I : Type) (rs : list (Result R I)), rs <> [] -> (choose_strategy rs = Average <-> same_sizes rs).
Proof. exact @choose_strategy_spec. Qed.
Print Assumptions C13_strategy_is_per_key_length_equality.

Theorem C13_info_of_the_first_result :
  forall (I : Type) (rs : list (Result R I)) m, merge_results rs = Merged m -> info m = info (hd m rs).
Proof. exact @merge_info_first. Qed.
Print Assumptions C13_info_of_the_first_result.

Theorem C13_single_result_returned_unchanged :
  forall (I : Type) (r : Result R I), merge_results [r] = Merged r.
Proof. exact @merge_single. Qed.
Print Assumptions C13_single_result_returned_unchanged.

Theorem C13_empty_list_refused :
  forall (I : Type), merge_results (@nil (Result R I)) = NoResults.
Proof. exact @merge_empty. Qed.
Print Assumptions C13_empty_list_refused.

(* two or more results: refused exactly when two inputs differ in their statistic or array key set *)
Theorem C13_different_keys_refused_equal_keys_merged :
  forall (I : Type) (rs : list (Result R I)), (2 <= List.length rs)%nat ->
    (merge_results rs = KeyMismatch <-> ~ same_keys rs) /\
    ((exists m, merge_results rs = Merged m) <-> same_keys rs).
Proof. exact @merge_refuses_iff. Qed.
Print Assumptions C13_different_keys_refused_equal_keys_merged.

(* in a successful merge every input has exactly the keys of the merged result (no default is ever used) *)
Theorem C13_every_input_has_the_merged_keys :
  forall (I : Type) (rs : list (Result R I)) m r, merge_results rs = Merged m -> In r rs ->
    (forall k, In k (keys (stats r)) <-> In k (keys (stats m))) /\
    (forall k, In k (keys (arrays r)) <-> In k (keys (arrays m))).
Proof. exact @merge_keys_all. Qed.
Print Assumptions C13_every_input_has_the_merged_keys.

(* table: one row per input file under its label, cells = that file's statistics; duplicate labels refused *)
Theorem C13_table_rows :
  forall (T : Type) (uf : bool) (fs : list (@ResFile T)),
  match table uf fs with
  | Some rows =>
      NoDup (map (label_of uf) fs) /\ List.length rows = List.length fs /\
      forall i f, nth_error fs i = Some f -> nth_error rows i = Some (label_of uf f, fstats f)
  | None => ~ NoDup (map (label_of uf) fs)
  end.
Proof. exact @table_rows. Qed.
Print Assumptions C13_table_rows.

Theorem C13_label_is_estimate_basename_or_file_name :
  forall (T : Type) (uf : bool) (f : @ResFile T),
  label_of uf f = if uf then fname f
                  else match est_name f with Some e => basename e | None => "unnamed_result"%string end.
Proof. exact @label_rule. Qed.
Print Assumptions C13_label_is_estimate_basename_or_file_name.

Theorem C13_table_with_merge_option :
  forall (rs : list (Result R (option string))),
  match table_merged rs with
  | Some (lab, row) => exists m, merge_results rs = Merged m /\ lab = label_of_info (info (hd m rs)) /\ row = stats m
  | None => forall m, merge_results rs <> Merged m
  end.
Proof. exact table_merged_row. Qed.
Print Assumptions C13_table_with_merge_option.

(* regression witness for finding F8: the old positional size comparison chose "average" for
   {a:3,b:1} and {b:3,a:1}; the current per-key comparison chooses "append" *)
Theorem C13_old_positional_comparison_refuted :
  exists rs : list (Result R unit),
    choose_strategy_old rs = Average /\ choose_strategy rs = Append /\ ~ same_sizes rs.
Proof. exists [w_r1; w_r2]. exact old_strategy_averages_unequal_lengths. Qed.
Print Assumptions C13_old_positional_comparison_refuted.

(* non-vacuity *)
Theorem C13_example_two_results :
  exists m, merge_results [mkResult tt [("rmse"%string, 1)] [("e"%string, [1; 3])];
                           mkResult tt [("rmse"%string, 3)] [("e"%string, [3; 5])]] = Merged m /\
            get "rmse"%string (stats m) = Some ((1 + 3) / (IZR 2)).
Proof. exact merge_example_average. Qed.
Print Assumptions C13_example_two_results.
