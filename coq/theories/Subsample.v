(* Subsample.v - executable model of evo's sub-sampling, cropping, splitting and merging (property C11):
     evo/core/trajectory.py  PosePath3D.reduce_to_ids / downsample / motion_filter / _jumps,
                             PoseTrajectory3D.reduce_to_time_range / split_time_gaps /
                             split_distance_gaps / split_speed_outliers, merge
     evo/core/filters.py     filter_by_motion
   Generic over NumOps (F_ops against numpy, R_ops in SubsampleProofs.v). Rotation angles
   (lie.so3_log_angle of lie.relative_so3) and numpy's argsort enter as oracles. No proofs here. *)
From Coq Require Import List Arith Bool ZArith.
From Evo Require Import Num Linalg Filters.
Import ListNotations.
Local Open Scope num_scope.

(* reduce_to_ids: arr[ids] applied to every per-pose array of the trajectory *)
Definition select_ids {A : Type} (d : A) (l : list A) (ids : list nat) : list A := map (fun i => nth i l d) ids.
(* l[a:b] *)
Definition slice {A : Type} (l : list A) (a b : nat) : list A := firstn (b - a) (skipn a l).
(* numpy.where(flags)[0] *)
Fixpoint where_from (i : nat) (flags : list bool) : list nat :=
  match flags with [] => [] | f :: r => if f then i :: where_from (S i) r else where_from (S i) r end.
Definition where_idx (flags : list bool) : list nat := where_from 0 flags.

(* split_time_gaps / split_distance_gaps / split_speed_outliers, given the flags "step k -> k+1 exceeds
   the threshold": fewer than two poses or no flagged step -> the whole trajectory; otherwise the slices
   between consecutive entries of [0] ++ (where + 1) ++ [n] *)
Definition split_bounds (flags : list bool) (n : nat) : list nat := 0 :: map S (where_idx flags) ++ [n].
Definition split_slices {A : Type} (flags : list bool) (l : list A) : list (list A) :=
  if Nat.ltb (length l) 2 then [l] else
  match where_idx flags with
  | [] => [l]
  | _ => map (fun ab => slice l (fst ab) (snd ab)) (zip_next (split_bounds flags (length l)))
  end.

(* "evenly spaced by index": N indices, first 0, last n-1 (N >= 2), strictly increasing, every gap
   floor((n-1)/(N-1)) or ceil((n-1)/(N-1)). Indices are kept in Z inside the sampling model (binary
   arithmetic; nat is unary and far too slow for the bounded enumeration). *)
Local Open Scope Z_scope.
Fixpoint ziota (len : nat) (start : Z) : list Z :=
  match len with O => [] | S l => start :: ziota l (start + 1) end.
(* exact-rational reading of evenly spaced sampling: ids_k = floor(k (n-1) / (N-1)) *)
Definition exact_z (n N : Z) : list Z := map (fun k => k * (n - 1) / (N - 1)) (ziota (Z.to_nat N) 0).
Fixpoint zgaps (l : list Z) : list Z :=
  match l with a :: ((b :: _) as r) => (b - a) :: zgaps r | _ => [] end.
Definition evenly_spaced_zb (n N : Z) (ids : list Z) : bool :=
  let q := (n - 1) / (N - 1) in
  let exact := (n - 1) mod (N - 1) =? 0 in
  (Z.of_nat (length ids) =? N) && (hd 1 ids =? 0) &&
  ((N <? 2) || (last ids 0 =? n - 1)) &&
  forallb (fun g => (1 <=? g) && ((g =? q) || ((g =? q + 1) && negb exact))) (zgaps ids).
Local Close Scope Z_scope.

Section Model.
Context {T : Type} {ops : NumOps T}.

(* floor of a non-negative number known to lie within 2 of the integer guess g *)
Fixpoint adj_down (fuel : nat) (g : Z) (r : T) : Z :=
  match fuel with O => g | S f => if r <?! nofZ g then adj_down f (g - 1)%Z r else g end.
Fixpoint adj_up (fuel : nat) (g : Z) (r : T) : Z :=
  match fuel with O => g | S f => if nofZ (g + 1)%Z <=?! r then adj_up f (g + 1)%Z r else g end.
Definition floor_near (g : Z) (r : T) : Z := adj_up 2 (adj_down 2 g r) r.

(* numpy.linspace(0, n-1, N, dtype=int):  step = (n-1)/(N-1);  y = arange(N) * step;  y[-1] = n-1;  floor *)
Definition linspace_z (n N : Z) : list Z :=
  if (N =? 1)%Z then [0%Z] else
  let step := nofZ (n - 1)%Z /! nofZ (N - 1)%Z in
  map (fun k => if (k =? N - 1)%Z then (n - 1)%Z
                else floor_near (k * (n - 1) / (N - 1))%Z (nofZ k *! step))
      (ziota (Z.to_nat N) 0%Z).

(* PosePath3D.downsample: None = TrajectoryException; nothing to do when there are at most N poses *)
Definition downsample_z (n N : Z) : option (list Z) :=
  if (n <=? N)%Z then Some (ziota (Z.to_nat n) 0%Z)
  else if (N <? 1)%Z then None
  else Some (linspace_z n N).
Definition downsample_ids (n N : nat) : option (list nat) :=
  option_map (map Z.to_nat) (downsample_z (Z.of_nat n) (Z.of_nat N)).

(* ---------------- filters.filter_by_motion ---------------- *)
Fixpoint motion_aux (dthr athr : T) (ang : nat -> nat -> T) (prev : nat) (prev_d : T) (i : nat) (ds : list T)
  : list nat :=
  match ds with
  | [] => []
  | d :: r =>
      if dthr <=?! (d -! prev_d) then i :: motion_aux dthr athr ang i d (S i) r
      else if athr <=?! ang prev i then i :: motion_aux dthr athr ang i d (S i) r
      else motion_aux dthr athr ang prev prev_d (S i) r
  end.
(* None = FilterException *)
Definition motion_ids (pi : T) (ps : list (V3 T)) (ang : nat -> nat -> T) (dthr athr : T) (degrees : bool)
  : option (list nat) :=
  if Nat.ltb (length ps) 2 then None
  else if dthr <?! n0 then None
  else if athr <?! n0 then None
  else let a := if degrees then deg2rad pi athr else athr in
       Some (0 :: motion_aux dthr a ang 0 n0 1 (tl (acc_dists ps))).
(* oracle table keyed by the pair of rotation-matrix classes: cls_p = cls_q iff poses p and q have the
   same rotation matrix, so the angle is a function of (cls_p, cls_i); row c2 is an association list
   c1 |-> angle between a pose of class c1 and a pose of class c2. Class ids are binary integers
   (unary literals of this size make the case files too slow to type-check). *)
Fixpoint assoc (a : Z) (row : list (Z * T)) (dflt : T) : T :=
  match row with [] => dflt | (x, v) :: r => if Z.eqb x a then v else assoc a r dflt end.
Definition class_ang (cls : list Z) (rows : list (list (Z * T))) (dflt : T) (p i : nat) : T :=
  assoc (nth p cls 0%Z) (nth (Z.to_nat (nth i cls 0%Z)) rows []) dflt.

(* ---------------- reduce_to_time_range ---------------- *)
Definition crop_ids (ts : list T) (start stop : option T) : option (list nat) :=
  match ts with
  | [] => None
  | t0 :: _ =>
      let s := match start with Some x => x | None => t0 end in
      let e := match stop with Some x => x | None => last ts t0 end in
      if e <?! s then None
      else Some (where_idx (map (fun t => (s <=?! t) && (t <=?! e)) ts))
  end.

(* ---------------- the split criteria ---------------- *)
(* x[1:] - x[:-1] > thr *)
Fixpoint diff_flags (thr : T) (l : list T) : list bool :=
  match l with a :: ((b :: _) as r) => (thr <?! (b -! a)) :: diff_flags thr r | _ => [] end.
Definition time_gap_flags (dt : T) (ts : list T) : list bool := diff_flags dt ts.
Definition dist_gap_flags (dist : T) (ps : list (V3 T)) : list bool := diff_flags dist (acc_dists ps).
(* calc_speed: TrajectoryException (None) if t2 - t1 <= 0, else |p2 - p1| / (t2 - t1) *)
Fixpoint speeds (ps : list (V3 T)) (ts : list T) : option (list T) :=
  match ps, ts with
  | p1 :: ((p2 :: _) as pr), t1 :: ((t2 :: _) as tr) =>
      if (t2 -! t1) <=?! n0 then None
      else match speeds pr tr with
           | None => None
           | Some r => Some ((norm (vsub p2 p1) /! (t2 -! t1)) :: r)
           end
  | _, _ => Some []
  end.
Definition speed_flags (vmax : T) (ps : list (V3 T)) (ts : list T) : option (list bool) :=
  match speeds ps ts with None => None | Some sp => Some (map (fun v => vmax <?! v) sp) end.
(* split_speed_outliers returns before computing any speed when there are fewer than two poses *)
Definition split_speed {A : Type} (vmax : T) (ps : list (V3 T)) (ts : list T) (l : list A) : option (list (list A)) :=
  if Nat.ltb (length l) 2 then Some [l]
  else match speed_flags vmax ps ts with None => None | Some f => Some (split_slices f l) end.

(* smallest relative margin of the speed tests (np.linalg.norm of one vector goes through BLAS) *)
Definition speed_margin (vmax : T) (ps : list (V3 T)) (ts : list T) : T :=
  match speeds ps ts with None => n1 | Some sp => fold_right (fun v m => nmin (relm v vmax) m) n1 sp end.

(* ---------------- trajectory.merge ---------------- *)
(* every array is indexed with the same argsort result *)
Definition merge3 {A B : Type} (dt : T) (da : A) (db : B) (order : list nat)
           (stamps : list T) (xyz : list A) (quat : list B) : list T * list A * list B :=
  (select_ids dt stamps order, select_ids da xyz order, select_ids db quat order).
(* an argsort (stable insertion sort on the keys), showing that the oracle's specification is satisfiable *)
Fixpoint ins_idx (keys : list T) (i : nat) (l : list nat) : list nat :=
  match l with
  | [] => [i]
  | j :: r => if nth i keys n0 <?! nth j keys n0 then i :: j :: r else j :: ins_idx keys i r
  end.
Definition argsort_model (keys : list T) : list nat :=
  fold_left (fun acc i => ins_idx keys i acc) (seq 0 (length keys)) [].
(* checker for an argsort oracle answer: a permutation of 0..n-1 that puts the keys in non-decreasing order *)
Fixpoint sorted_b (l : list T) : bool :=
  match l with a :: ((b :: _) as r) => (a <=?! b) && sorted_b r | _ => true end.
(* inv is a certificate (the inverse permutation): order[inv[k]] = k for every k < n *)
Definition is_argsort_b (keys : list T) (order inv : list nat) : bool :=
  Nat.eqb (length order) (length keys) &&
  forallb (fun k => Nat.eqb (nth (nth k inv 0) order (length keys)) k) (seq 0 (length keys)) &&
  sorted_b (select_ids n0 keys order).
End Model.

(* the finite statement about numpy's binary64 linspace, evaluated by vm_compute in SubsampleProofs.v *)
Definition linspace_zf (n N : Z) : list Z := @linspace_z PrimFloat.float F_ops n N.
Definition linspace_row_ok (n : Z) : bool :=
  forallb (fun N => evenly_spaced_zb n N (linspace_zf n N)) (ziota (Z.to_nat n - 1) 1%Z).
Definition linspace_even_upto (B : nat) : bool := forallb linspace_row_ok (ziota (S B) 0%Z).
