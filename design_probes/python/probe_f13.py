import os, builtins, numpy as np, pathlib, itertools
os.chdir("/tmp/scratch/work")
import matplotlib; matplotlib.use("Agg")
from evo.core import result, lie_algebra as lie
from evo.core.trajectory import PoseTrajectory3D
from evo.tools import file_interface as fi, pandas_bridge as pb, plot
import matplotlib.pyplot as plt, pandas as pd
t=PoseTrajectory3D(poses_se3=[lie.random_se3() for _ in range(5)],timestamps=np.arange(5.))
r=result.Result(); r.add_info({"title":"t"}); r.add_stats({"rmse":1.0}); r.add_np_array("error_array",np.arange(3.))
pc=plot.PlotCollection("x"); fig=plt.figure(); fig.gca().plot([1,2]); pc.add_figure("a",fig)
writers={
 "tum":(lambda p,c: fi.write_tum_trajectory_file(p,t,confirm_overwrite=c), lambda p:[p]),
 "kitti":(lambda p,c: fi.write_kitti_poses_file(p,t,confirm_overwrite=c), lambda p:[p]),
 "res":(lambda p,c: fi.save_res_file(p,r,confirm_overwrite=c), lambda p:[p]),
 "table":(lambda p,c: pb.save_df_as_table(pd.DataFrame({"a":[1]}),str(p),confirm_overwrite=c), lambda p:[p]),
 "serialize":(lambda p,c: pc.serialize(str(p),confirm_overwrite=c), lambda p:[p]),
 "export_png":(lambda p,c: pc.export(str(p)+".png",confirm_overwrite=c), lambda p:[str(p)+"_a.png"]),
 "export_pdf":(lambda p,c: pc.export(str(p)+".pdf",confirm_overwrite=c), lambda p:[str(p)+".pdf"]),
}
bad=0
for name,(w,targets) in writers.items():
  for exists,ans,conf,aspath in itertools.product([0,1],["y","n","","Y","yes"],[0,1],[0,1]):
    base="out_"+name
    p=pathlib.Path(base) if aspath else base
    for f in targets(base):
        if os.path.exists(f): os.remove(f)
        if exists: open(f,"wb").write(b"OLD")
    asked=[]
    builtins.input=lambda msg="": (asked.append(msg), ans)[1]
    try: w(p,bool(conf))
    except Exception as e: print("EXC",name,exists,ans,conf,aspath,type(e).__name__,e); continue
    for f in targets(base):
        content=open(f,"rb").read() if os.path.exists(f) else None
        should_write = (not exists) or (not conf) or ans=="y"
        ok = (content is not None and content!=b"OLD") if should_write else content==b"OLD"
        ok_prompt = (len(asked)==1) == bool(exists and conf)
        if not (ok and ok_prompt): bad+=1; print("BAD",name,exists,repr(ans),conf,aspath,content[:10] if content else None,len(asked))
print("bad",bad)
