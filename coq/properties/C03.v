(* C03 - Umeyama alignment: proper rotation, least-squares optimal. Proofs in Evo.UmeyamaProofs.
   The SVD is an oracle: every theorem holds for EVERY function [svd] whose answer on the covariance it is
   asked about meets [svd_at] (orthogonal factors, ordered non-negative singular values, reconstruction). *)
From Coq Require Import Reals List Permutation.
From Evo Require Import Num Linalg LinalgR Umeyama UmeyamaProofs NpDsl UmeyamaTie.
From EvoGen Require Import UmeyamaGen.
Import ListNotations.
Local Open Scope R_scope.

Theorem C03_proper_rotation_positive_scale_optimal :
  forall (svd : M3R -> M3R * V3R * M3R) (eps : R), 0 <= eps ->
  forall (ws : bool) (x y : list V3R) r t c, svd_at svd (cov_xy x y) -> umeyama svd eps ws x y = Some (r, t, c) ->
  length x = length y /\ SO3 r /\ 0 < c /\ (ws = false -> c = 1) /\
  (ws = false -> forall R' t', SO3 R' -> resid c r t x y <= resid 1 R' t' x y) /\
  (ws = true -> forall c' R' t', SO3 R' -> 0 < c' -> resid c r t x y <= resid c' R' t' x y).
Proof. exact umeyama_spec. Qed.
Print Assumptions C03_proper_rotation_positive_scale_optimal.

Theorem C03_unequal_sizes_refused : forall svd eps ws (x y : list V3R),
  length x <> length y -> umeyama svd eps ws x y = None.
Proof. exact umeyama_refuses_unequal. Qed.
Print Assumptions C03_unequal_sizes_refused.

Theorem C03_coincident_points_refused : forall svd eps, 0 <= eps -> forall ws (x y : list V3R) (p : V3R),
  svd_at svd (cov_xy x y) -> length x = length y -> Forall (fun v => v = p) x -> umeyama svd eps ws x y = None.
Proof. exact umeyama_refuses_coincident. Qed.
Print Assumptions C03_coincident_points_refused.

Theorem C03_points_on_a_coordinate_axis_refused : forall svd eps, 0 <= eps -> forall ws (x y : list V3R),
  svd_at svd (cov_xy x y) -> length x = length y -> Forall (fun v => vy v = 0 /\ vz v = 0) x ->
  umeyama svd eps ws x y = None.
Proof. exact umeyama_refuses_axis. Qed.
Print Assumptions C03_points_on_a_coordinate_axis_refused.

(* noise-free data: the computed transformation maps every x_i onto y_i *)
Theorem C03_noise_free_data_reproduced : forall svd eps, 0 <= eps ->
  forall ws c0 (R0 : M3R) t0 (x : list V3R) r t c, SO3 R0 -> 0 < c0 -> (ws = false -> c0 = 1) ->
  svd_at svd (cov_xy x (map (apply_sim c0 R0 t0) x)) ->
  umeyama svd eps ws x (map (apply_sim c0 R0 t0) x) = Some (r, t, c) ->
  map (apply_sim c r t) x = map (apply_sim c0 R0 t0) x.
Proof. exact umeyama_exact_data. Qed.
Print Assumptions C03_noise_free_data_reproduced.

(* permuting the paired points does not change the result *)
Theorem C03_permutation_invariant : forall svd eps ws (l l' : list (V3R * V3R)), Permutation l l' ->
  umeyama svd eps ws (xs l) (ys l) = umeyama svd eps ws (xs l') (ys l').
Proof. exact umeyama_permutation. Qed.
Print Assumptions C03_permutation_invariant.

(* equivariance, PARTIAL: for moved/scaled inputs x' = s1 R1 x + t1, y' = s2 R2 y + t2 the residual of EVERY candidate
   equals s2^2 times the residual of the pulled-back candidate on the original data, so optimal solutions correspond under
   exactly that composition; that the returned triple IS the image needs uniqueness of the optimum (not proved) *)
Theorem C03_equivariant_partial : forall (s1 s2 c : R) (R1 R2 Rm : M3R) (t1 t2 t : V3R) (x y : list V3R),
  Orth R2 -> s2 <> 0 ->
  resid c Rm t (map (apply_sim s1 R1 t1) x) (map (apply_sim s2 R2 t2) y) =
  s2 * s2 * resid (pull_c s1 s2 c) (pull_R R1 R2 Rm) (pull_t s2 R2 Rm t1 t2 t c) x y.
Proof. exact umeyama_equivariant_partial. Qed.
Print Assumptions C03_equivariant_partial.

(* non-vacuity: concrete points and a concrete SVD answer satisfy the hypotheses and give a result *)
Theorem C03_hypotheses_satisfiable :
  svd_at ex_svd (cov_xy ex_pts ex_pts) /\
  exists r t c, umeyama ex_svd (/ 2 ^ 52) false ex_pts ex_pts = Some (r, t, c).
Proof. exact (conj ex_svd_ok ex_result_exists). Qed.
Print Assumptions C03_hypotheses_satisfiable.
(* NOT proved (covered by the correspondence run only): equality of the returned PARAMETERS with the generating ones, and that
   the returned triple of moved inputs IS the image of the original one - both need uniqueness of the optimum (d2 > d3 or det > 0). *)

(* ---- translator tie: umeyama_alignment_gen is re-translated from evo/core/geometry.py on every run ---- *)
(* the translated source IS the model (over R, for every SVD oracle with ordered singular values at the queried matrix) *)
Theorem C03_translated_source_is_the_model : forall (svd : M3R -> M3R * V3R * M3R) (eps : R) ws (x y : list V3R),
  (let '(u, d, v) := svd (cov_xy x y) in vx d >= vy d /\ vy d >= vz d) ->
  umeyama_alignment_gen svd eps x y ws = umeyama svd eps ws x y.
Proof. exact umeyama_gen_is_model. Qed.
Print Assumptions C03_translated_source_is_the_model.
(* hence the main statement holds of the translated source itself *)
Theorem C03_translated_source_proper_rotation_positive_scale_optimal :
  forall (svd : M3R -> M3R * V3R * M3R) (eps : R) (ws : bool) (x y : list V3R) r t c, 0 <= eps ->
  svd_at svd (cov_xy x y) -> umeyama_alignment_gen svd eps x y ws = Some (r, t, c) ->
  length x = length y /\ SO3 r /\ 0 < c /\ (ws = false -> c = 1) /\
  (ws = false -> forall R' t', SO3 R' -> resid c r t x y <= resid 1 R' t' x y) /\
  (ws = true -> forall c' R' t', SO3 R' -> 0 < c' -> resid c r t x y <= resid c' R' t' x y).
Proof. exact umeyama_gen_spec. Qed.
Print Assumptions C03_translated_source_proper_rotation_positive_scale_optimal.

(* ---- centroids (added after every property had a check): the returned similarity maps the centroid of x onto the
   centroid of y, hence the aligned points have the centroid of y ---- *)
Theorem C03_returned_transform_maps_centroid_to_centroid : forall svd eps ws (x y : list V3R) r t c,
  umeyama svd eps ws x y = Some (r, t, c) -> apply_sim c r t (mean x) = mean y.
Proof. exact umeyama_maps_centroid. Qed.
Print Assumptions C03_returned_transform_maps_centroid_to_centroid.
Theorem C03_aligned_points_have_the_centroid_of_y : forall svd eps ws (x y : list V3R) r t c, x <> [] ->
  umeyama svd eps ws x y = Some (r, t, c) -> mean (map (apply_sim c r t) x) = mean y.
Proof. exact umeyama_aligned_mean. Qed.
Print Assumptions C03_aligned_points_have_the_centroid_of_y.
