(* HeapProofs.v - footprint theorems about the heap model Evo.Heap (property C16). *)
From Coq Require Import List Arith Bool Lia.
From Evo Require Import Heap.
Import ListNotations.

#[local] Arguments alloc : simpl never.
#[local] Arguments alloc_list : simpl never.
#[local] Arguments write_seq : simpl never.
#[local] Arguments copy_cells : simpl never.
#[local] Arguments rebuild_poses : simpl never.

Section Proofs.
Context {V : Type}.
Variable mk : nat -> nat -> list V -> V.

Notation heap := (heap V).
Notation state := (state V).

(* ------------------------------------------------------------------ heap extension *)
(* [hext n W h h']: h' extends h; every cell below n outside W kept its contents *)
Definition hext (n : nat) (W : list loc) (h h' : heap) : Prop :=
  hnext h <= hnext h' /\ forall l, l < n -> ~ In l W -> hval h' l = hval h l.

Lemma hext_refl n W h : hext n W h h.
Proof. split; auto. Qed.

Lemma hext_trans n W1 W2 h h1 h2 :
  hext n W1 h h1 -> hext n W2 h1 h2 -> hext n (W1 ++ W2) h h2.
Proof.
  intros [A1 B1] [A2 B2]; split; [lia|].
  intros l Hl Hn. rewrite B2, B1; auto; intro; apply Hn; apply in_or_app; auto.
Qed.

Lemma hext_weaken n W W' h h' : hext n W h h' -> (forall l, In l W -> In l W') -> hext n W' h h'.
Proof. intros [A B] S; split; auto. Qed.

Lemma hext_nil_trans n h h1 h2 : hext n [] h h1 -> hext n [] h1 h2 -> hext n [] h h2.
Proof. intros A B. exact (hext_trans n [] [] h h1 h2 A B). Qed.

Lemma hext_fresh_writes n W h h' :
  hext n W h h' -> (forall l, In l W -> n <= l) -> hext n [] h h'.
Proof.
  intros [A B] F; split; auto. intros l Hl _. apply B; auto. intro HI. apply F in HI. lia.
Qed.

Lemma alloc_spec (h : heap) v h' l :
  alloc h v = (h', l) ->
  l = hnext h /\ hnext h' = S (hnext h) /\ hval h' l = v /\ (forall k, k <> hnext h -> hval h' k = hval h k).
Proof.
  unfold alloc; intros E; inversion E; subst; clear E; cbn. repeat split.
  - unfold upd. now rewrite Nat.eqb_refl.
  - intros k Hk. unfold upd. destruct (Nat.eqb_spec k (hnext h)); congruence.
Qed.

Lemma alloc_hext n (h : heap) v h' l :
  alloc h v = (h', l) -> n <= hnext h -> hext n [] h h'.
Proof.
  intros E Hn. apply alloc_spec in E as (-> & E2 & _ & E4). split; [lia|].
  intros k Hk _. apply E4. lia.
Qed.

Lemma alloc_list_spec vs : forall (h : heap) h' ls,
  alloc_list h vs = (h', ls) ->
  ls = seq (hnext h) (length vs) /\ hnext h' = hnext h + length vs /\
  map (hval h') ls = vs /\ (forall k, k < hnext h -> hval h' k = hval h k).
Proof.
  induction vs as [|v r IH]; intros h h' ls E; unfold alloc_list in E; fold (@alloc_list V) in E.
  - inversion E; subst; cbn. repeat split; auto; lia.
  - destruct (alloc h v) as [h1 l] eqn:E1. destruct (alloc_list h1 r) as [h2 ls2] eqn:E2.
    inversion E; subst; clear E.
    apply alloc_spec in E1 as (-> & N1 & V1 & O1).
    apply IH in E2 as (-> & N2 & M2 & O2).
    cbn [length seq map]. split; [|split; [|split]].
    + rewrite N1. reflexivity.
    + lia.
    + f_equal; [rewrite O2 by lia; exact V1|exact M2].
    + intros k Hk. rewrite O2 by lia. apply O1. lia.
Qed.

Lemma alloc_list_hext n vs (h : heap) h' ls :
  alloc_list h vs = (h', ls) -> n <= hnext h -> hext n [] h h'.
Proof.
  intros E Hn. apply alloc_list_spec in E as (_ & N & _ & O). split; [lia|]. intros; apply O; lia.
Qed.

Lemma write_hext n (h : heap) l v : hext n [l] h (write h l v).
Proof.
  split; cbn; auto. intros k _ Hk. unfold upd. destruct (Nat.eqb_spec k l); auto.
  exfalso; apply Hk; left; auto.
Qed.

Lemma write_seq_next tag idx ls : forall h : heap, hnext (write_seq mk h tag idx ls) = hnext h.
Proof. induction ls; intros; unfold write_seq; fold (@write_seq V); auto. rewrite IHls. reflexivity. Qed.

Lemma write_seq_hext n tag idx ls : forall h : heap, hext n ls h (write_seq mk h tag idx ls).
Proof.
  induction ls as [|l r IH]; intros h; unfold write_seq; fold (@write_seq V).
  - apply hext_refl.
  - eapply hext_weaken.
    + eapply hext_trans; [apply (write_hext n h l)|apply IH].
    + intros x Hx; exact Hx.
Qed.

(* ------------------------------------------------------------------ well-formedness *)
Definition has_src (t : traj) : Prop := t_poses t <> None \/ (t_pos t <> None /\ t_quat t <> None).
Definition wf_traj (n : nat) (t : traj) : Prop := Forall (fun l => l < n) (reach_traj t) /\ has_src t.
Definition wf_obj (n : nat) (o : obj) : Prop :=
  match o with OTraj t => wf_traj n t | OBag c => Forall (fun l => l < n) c end.
Definition wf_state (st : state) : Prop := Forall (wf_obj (hnext (hp st))) (objs st).

Lemma wf_obj_reach n o : wf_obj n o -> Forall (fun l => l < n) (reach o).
Proof. destruct o; cbn; [intros [A _]; exact A|auto]. Qed.

Lemma wf_obj_mono n m o : n <= m -> wf_obj n o -> wf_obj m o.
Proof.
  intros L. destruct o; cbn.
  - intros [A B]; split; auto. eapply Forall_impl; [|exact A]. cbn; intros; lia.
  - intros A. eapply Forall_impl; [|exact A]. cbn; intros; lia.
Qed.

Lemma wf_state_nth st i o : wf_state st -> nth_error (objs st) i = Some o -> wf_obj (hnext (hp st)) o.
Proof. intros W E. eapply Forall_forall in W; eauto. eapply nth_error_In; eauto. Qed.

(* ------------------------------------------------------------------ views depend only on reachable cells *)
Lemma map_ext_in' (f g : loc -> V) ls : (forall l, In l ls -> f l = g l) -> map f ls = map g ls.
Proof. intros; apply map_ext_in; auto. Qed.

Lemma obs_ext (h h' : heap) o :
  (forall l, In l (reach o) -> hval h' l = hval h l) -> obs mk h' o = obs mk h o.
Proof.
  destruct o as [t|c]; cbn; intros E.
  - f_equal. unfold obs_traj, obs_pos, obs_quat, obs_poses, oval, reach_traj, poses_all, poses_cells in *.
    destruct t as [n pos quat poses stamps meta proj]; cbn in *.
    assert (Ep : map (hval h') (oloc pos) = map (hval h) (oloc pos)).
    { apply map_ext_in'. intros; apply E; apply in_or_app; auto. }
    assert (Eq : map (hval h') (oloc quat) = map (hval h) (oloc quat)).
    { apply map_ext_in'. intros; apply E; apply in_or_app; right; apply in_or_app; auto. }
    assert (Es : map (hval h') (oloc stamps) = map (hval h) (oloc stamps)).
    { apply map_ext_in'. intros; apply E. do 3 (apply in_or_app; right). apply in_or_app; auto. }
    assert (Em : hval h' meta = hval h meta).
    { apply E. do 4 (apply in_or_app; right). left; auto. }
    assert (Ec : map (hval h') (match poses with Some (_, ps) => ps | None => [] end) =
                 map (hval h) (match poses with Some (_, ps) => ps | None => [] end)).
    { apply map_ext_in'. intros l Hl; apply E. do 2 (apply in_or_app; right). apply in_or_app; left.
      destruct poses as [[lid ps]|]; cbn in *; auto. }
    rewrite Es, Em.
    destruct pos as [lp|], quat as [lq|], poses as [[lid ps]|]; cbn in *;
      repeat match goal with H : [_] = [_] |- _ => injection H as H end;
      repeat match goal with H : hval h' _ = hval h _ |- _ => rewrite H end;
      try rewrite Ec; reflexivity.
  - f_equal. apply map_ext_in'. auto.
Qed.

(* ------------------------------------------------------------------ list helpers *)
Lemma hext_base_mono n m W (h h' : heap) : n <= m -> hext m W h h' -> hext n W h h'.
Proof. intros L [A B]; split; auto. intros; apply B; auto; lia. Qed.

Lemma Forall_lt_mono n m (ls : list loc) : n <= m -> Forall (fun l => l < n) ls -> Forall (fun l => l < m) ls.
Proof. intros L A. eapply Forall_impl; [|exact A]. cbn; intros; lia. Qed.

Lemma Forall_seq_range a b (P : nat -> Prop) : (forall l, a <= l < a + b -> P l) -> Forall P (seq a b).
Proof. intros H. apply Forall_forall. intros x Hx. apply in_seq in Hx. auto. Qed.

Lemma In_firstn {A} (x : A) : forall n l, In x (firstn n l) -> In x l.
Proof. induction n; intros [|a l] H; cbn in *; try contradiction; auto. destruct H; auto. Qed.
Lemma In_skipn {A} (x : A) : forall n l, In x (skipn n l) -> In x l.
Proof. induction n; intros [|a l] H; cbn in *; try contradiction; auto. Qed.

Lemma select_incl ps ids l : In l (select ps ids) -> In l ps.
Proof.
  unfold select. rewrite in_flat_map. intros (i & _ & Hi).
  destruct (nth_error ps i) eqn:E; cbn in Hi; [|contradiction].
  destruct Hi as [<-|[]]. eapply nth_error_In; eauto.
Qed.

Lemma Forall_select (P : loc -> Prop) ps ids : Forall P ps -> Forall P (select ps ids).
Proof.
  intros H. apply Forall_forall. intros l Hl. apply select_incl in Hl. rewrite Forall_forall in H. auto.
Qed.

Lemma slices_incl ps bounds : forall start g l, In g (slices ps bounds start) -> In l g -> In l ps.
Proof.
  induction bounds as [|b r IH]; intros start g l Hg Hl; cbn in Hg; [contradiction|].
  destruct Hg as [<-|Hg].
  - apply In_firstn in Hl. eapply In_skipn; eauto.
  - eapply IH; eauto.
Qed.

Lemma set_nth_length {A} (x : A) l : forall i, length (set_nth i x l) = length l.
Proof. induction l; intros [|i]; cbn; auto. Qed.

Lemma set_nth_same {A} (x : A) l : forall i, i < length l -> nth_error (set_nth i x l) i = Some x.
Proof. induction l; intros [|i] H; cbn in *; try lia; auto. apply IHl; lia. Qed.

Lemma set_nth_other {A} (x : A) l : forall i j, j <> i -> nth_error (set_nth i x l) j = nth_error l j.
Proof. induction l; intros [|i] [|j] H; cbn in *; auto; try congruence. Qed.

Lemma set_nth_Forall {A} (P : A -> Prop) (x : A) l : forall i, Forall P l -> P x -> Forall P (set_nth i x l).
Proof.
  induction l; intros [|i] H Hx; cbn; auto; inversion H; subst; constructor; auto.
Qed.

(* ------------------------------------------------------------------ tactics for footprints *)
Ltac forall_hyps :=
  repeat match goal with
  | H : Forall _ (_ ++ _) |- _ => apply Forall_app in H; destruct H
  | H : Forall _ (_ :: _) |- _ => apply Forall_cons_iff in H; destruct H
  | H : Forall _ [] |- _ => clear H
  end.

Ltac in_solve := repeat (progress (cbn; rewrite ?in_app_iff)); tauto.

Ltac forall_bound :=
  repeat first
    [ apply Forall_nil
    | apply Forall_cons; [lia|]
    | apply Forall_app; split
    | apply Forall_select
    | (eapply Forall_lt_mono; [|eassumption]; lia)
    | (apply Forall_seq_range; intros; lia)
    | (eapply Forall_impl; [|eassumption]; cbn; intros; lia) ].

Ltac forall_of :=
  repeat first
    [ apply Forall_nil
    | apply Forall_cons; [first [right; lia | left; in_solve]|]
    | apply Forall_app; split
    | apply Forall_select
    | (apply Forall_seq_range; intros; right; lia)
    | (apply Forall_forall; intros; left; in_solve) ].

Definition cache_le (t t' : traj) : Prop :=
  t_n t' = t_n t /\ t_stamps t' = t_stamps t /\ t_meta t' = t_meta t /\ t_proj t' = t_proj t /\
  (forall l, t_pos t = Some l -> t_pos t' = Some l) /\
  (forall l, t_quat t = Some l -> t_quat t' = Some l) /\
  (forall p, t_poses t = Some p -> t_poses t' = Some p).

Lemma cache_le_refl t : cache_le t t.
Proof. unfold cache_le; intuition. Qed.

Lemma wf_traj_lt n t l : wf_traj n t -> In l (reach_traj t) -> l < n.
Proof. intros [A _] H. rewrite Forall_forall in A. auto. Qed.

Lemma obs_traj_ext (h h' : heap) t :
  (forall l, In l (reach_traj t) -> hval h' l = hval h l) -> obs_traj mk h' t = obs_traj mk h t.
Proof. intros E. pose proof (obs_ext h h' (OTraj t) E) as H. cbn in H. congruence. Qed.

(* ------------------------------------------------------------------ lazy properties *)
Lemma fill_spec g (h : heap) t h' t' :
  fill mk g h t = (h', t') -> wf_traj (hnext h) t ->
  hext (hnext h) [] h h' /\ wf_traj (hnext h') t' /\
  Forall (fun l => In l (reach_traj t) \/ hnext h <= l) (reach_traj t') /\
  obs_traj mk h' t' = obs_traj mk h t /\ cache_le t t'.
Proof.
  intros E WF.
  assert (TRIV : (h', t') = (h, t) ->
     hext (hnext h) [] h h' /\ wf_traj (hnext h') t' /\
     Forall (fun l => In l (reach_traj t) \/ hnext h <= l) (reach_traj t') /\
     obs_traj mk h' t' = obs_traj mk h t /\ cache_le t t').
  { intros X; inversion X; subst. split; [apply hext_refl|]. split; [exact WF|]. split.
    - apply Forall_forall; intros; left; auto.
    - split; [reflexivity|apply cache_le_refl]. }
  destruct t as [n pos quat poses stamps meta proj].
  unfold fill in E; cbn in E.
  destruct g.
  - (* positions_xyz *)
    destruct pos as [lp|]; [apply TRIV; congruence|]. clear TRIV.
    destruct (alloc h _) as [h1 l] eqn:E1. inversion E; subst; clear E.
    pose proof (alloc_hext (hnext h) _ _ _ _ E1 (le_n _)) as HX.
    apply alloc_spec in E1 as (-> & N1 & V1 & O1).
    assert (EXT : forall x, In x (reach_traj (mkTraj n None quat poses stamps meta proj)) -> hval h' x = hval h x).
    { intros x Hx. apply O1. pose proof (wf_traj_lt _ _ _ WF Hx). lia. }
    pose proof (obs_traj_ext h h' _ EXT) as OE.
    destruct WF as [WF SRC].
    destruct SRC as [S|[S _]]; [|cbn in S; congruence]. cbn in S.
    destruct poses as [[lid ps]|]; [|congruence].
    split; [exact HX|]. split; [split|].
    + unfold reach_traj in *; cbn in *. rewrite N1. forall_hyps. forall_bound.
    + left; cbn; congruence.
    + split.
      * unfold reach_traj; cbn. forall_of.
      * split; [|unfold cache_le; cbn; intuition congruence].
        assert (Eps : map (hval h') ps = map (hval h) ps).
        { apply map_ext_in'; intros x Hx; apply EXT; unfold reach_traj; in_solve. }
        unfold poses_cells in V1; cbn in V1. rewrite <- Eps in V1.
        rewrite <- OE. unfold obs_traj, obs_pos, obs_quat, obs_poses, poses_cells; cbn.
        rewrite V1. reflexivity.
  - (* orientations_quat_wxyz *)
    destruct quat as [lq|]; [apply TRIV; congruence|]. clear TRIV.
    destruct (alloc h _) as [h1 l] eqn:E1. inversion E; subst; clear E.
    pose proof (alloc_hext (hnext h) _ _ _ _ E1 (le_n _)) as HX.
    apply alloc_spec in E1 as (-> & N1 & V1 & O1).
    assert (EXT : forall x, In x (reach_traj (mkTraj n pos None poses stamps meta proj)) -> hval h' x = hval h x).
    { intros x Hx. apply O1. pose proof (wf_traj_lt _ _ _ WF Hx). lia. }
    pose proof (obs_traj_ext h h' _ EXT) as OE.
    destruct WF as [WF SRC].
    destruct SRC as [S|[_ S]]; [|cbn in S; congruence]. cbn in S.
    destruct poses as [[lid ps]|]; [|congruence].
    split; [exact HX|]. split; [split|].
    + unfold reach_traj in *; cbn in *. rewrite N1. forall_hyps. forall_bound.
    + left; cbn; congruence.
    + split.
      * unfold reach_traj; cbn. forall_of.
      * split; [|unfold cache_le; cbn; intuition congruence].
        assert (Eps : map (hval h') ps = map (hval h) ps).
        { apply map_ext_in'; intros x Hx; apply EXT; unfold reach_traj; in_solve. }
        unfold poses_cells in V1; cbn in V1. rewrite <- Eps in V1.
        rewrite <- OE. unfold obs_traj, obs_pos, obs_quat, obs_poses, poses_cells; cbn.
        rewrite V1. reflexivity.
  - (* poses_se3 *)
    destruct poses as [p|]; [apply TRIV; congruence|]. clear TRIV.
    destruct (alloc h _) as [h1 lid] eqn:E1.
    destruct (alloc_list h1 _) as [h2 ls] eqn:E2. inversion E; subst; clear E.
    pose proof (alloc_hext (hnext h) _ _ _ _ E1 (le_n _)) as HX1.
    apply alloc_spec in E1 as (-> & N1 & V1 & O1).
    assert (L1 : hnext h <= hnext h1) by lia.
    pose proof (alloc_list_hext (hnext h) _ _ _ _ E2 L1) as HX2.
    apply alloc_list_spec in E2 as (-> & N2 & M2 & O2).
    rewrite map_length, seq_length in *.
    assert (EXT : forall x, In x (reach_traj (mkTraj n pos quat None stamps meta proj)) -> hval h' x = hval h x).
    { intros x Hx. pose proof (wf_traj_lt _ _ _ WF Hx). rewrite O2 by lia. apply O1. lia. }
    pose proof (obs_traj_ext h h' _ EXT) as OE.
    destruct WF as [WF SRC].
    destruct SRC as [S|[S1 S2]]; [cbn in S; congruence|]. cbn in S1, S2.
    destruct pos as [lp|]; [|congruence]. destruct quat as [lq|]; [|congruence].
    split; [exact (hext_nil_trans _ _ _ _ HX1 HX2)|]. split; [split|].
    + unfold reach_traj in *; cbn in *. forall_hyps. forall_bound.
    + left; cbn; congruence.
    + split.
      * unfold reach_traj; cbn. forall_of.
      * split; [|unfold cache_le; cbn; intuition congruence].
        assert (Elp : hval h' lp = hval h lp) by (apply EXT; unfold reach_traj; in_solve).
        assert (Elq : hval h' lq = hval h lq) by (apply EXT; unfold reach_traj; in_solve).
        unfold oval in M2; cbn in M2. rewrite <- Elp, <- Elq in M2.
        rewrite <- OE. unfold obs_traj, obs_pos, obs_quat, obs_poses, poses_cells, oval; cbn.
        rewrite M2. reflexivity.
Qed.

(* ------------------------------------------------------------------ in-place methods *)
Definition tstep_ok (c : cfg) (h : heap) (t : traj) (h' : heap) (t' : traj) (W : list loc) : Prop :=
  hext (hnext h) W h h' /\ wf_traj (hnext h') t' /\
  Forall (fun l => In l (reach_traj t) \/ hnext h <= l) (reach_traj t') /\
  Forall (fun l => (c_inplace_project c = true /\ In l (reach_traj t)) \/ hnext h <= l) W.

Lemma tstep_trans c h t h1 t1 W1 h2 t2 W2 :
  tstep_ok c h t h1 t1 W1 -> tstep_ok c h1 t1 h2 t2 W2 -> tstep_ok c h t h2 t2 (W1 ++ W2).
Proof.
  intros (X1 & F1 & R1 & WW1) (X2 & F2 & R2 & WW2).
  assert (L : hnext h <= hnext h1) by (destruct X1; auto).
  split; [|split; [exact F2|split]].
  - eapply hext_trans; [exact X1|]. eapply hext_base_mono; [|exact X2]. exact L.
  - rewrite Forall_forall in *. intros l Hl. destruct (R2 l Hl) as [A|A].
    + destruct (R1 l A); [left; assumption|right; lia].
    + right; lia.
  - rewrite Forall_forall in *. intros l Hl. apply in_app_or in Hl. destruct Hl as [Hl|Hl].
    + apply WW1; exact Hl.
    + destruct (WW2 l Hl) as [[A B]|A].
      * destruct (R1 l B); [left; split; assumption|right; lia].
      * right; lia.
Qed.

Lemma fill_tstep c g h t h' t' :
  fill mk g h t = (h', t') -> wf_traj (hnext h) t -> tstep_ok c h t h' t' [].
Proof.
  intros E WF. destruct (fill_spec _ _ _ _ _ E WF) as (A & B & C & _).
  split; [exact A|split; [exact B|split; [exact C|constructor]]].
Qed.

Lemma fill_poses_some h t h' t' : fill mk GPoses h t = (h', t') -> t_poses t' <> None.
Proof.
  unfold fill. destruct (t_poses t) eqn:E.
  - intros X; inversion X; subst. congruence.
  - destruct (alloc h _). destruct (alloc_list _ _). intros X; inversion X; subst; cbn. congruence.
Qed.

Lemma rebuild_poses_spec tag (h : heap) ps h' lid ls :
  rebuild_poses mk tag h ps = (h', (lid, ls)) ->
  lid = hnext h /\ ls = seq (S (hnext h)) (length ps) /\ hnext h' = S (hnext h + length ps) /\
  (forall k, k < hnext h -> hval h' k = hval h k).
Proof.
  unfold rebuild_poses. destruct (alloc h _) as [h1 l] eqn:E1. destruct (alloc_list h1 _) as [h2 ls2] eqn:E2.
  intros X; inversion X; subst; clear X.
  apply alloc_spec in E1 as (-> & N1 & _ & O1).
  apply alloc_list_spec in E2 as (-> & N2 & _ & O2).
  rewrite map_length in *. rewrite N1 in *. repeat split; auto; try lia.
  intros k Hk. rewrite O2 by lia. apply O1. lia.
Qed.

Ltac destr_allocs :=
  repeat match goal with
  | E : context[alloc ?h ?v] |- _ =>
      let h1 := fresh "hh" in let l := fresh "l" in let E1 := fresh "EA" in
      destruct (alloc h v) as [h1 l] eqn:E1; apply alloc_spec in E1 as (-> & ? & ? & ?); cbn in E
  | E : context[alloc_list ?h ?vs] |- _ =>
      let h1 := fresh "hh" in let l := fresh "ls" in let E1 := fresh "EA" in
      destruct (alloc_list h vs) as [h1 l] eqn:E1; apply alloc_list_spec in E1 as (-> & ? & ? & ?); cbn in E
  | E : context[rebuild_poses ?mk ?tag ?h ?ps] |- _ =>
      let h1 := fresh "hh" in let lid := fresh "lid" in let l := fresh "ls" in let E1 := fresh "EA" in
      destruct (rebuild_poses mk tag h ps) as [h1 [lid l]] eqn:E1;
      apply rebuild_poses_spec in E1 as (-> & -> & ? & ?); cbn in E
  end.

Ltac chain_eq :=
  repeat match goal with
  | O : forall k, k < hnext ?a -> hval ?b k = hval ?a k |- context[hval ?b ?l] => rewrite (O l) by lia
  | O : forall k, k <> hnext ?a -> hval ?b k = hval ?a k |- context[hval ?b ?l] => rewrite (O l) by lia
  end; try reflexivity.

Ltac norm_len := repeat (progress (cbn [length] in *; rewrite ?map_length, ?seq_length, ?app_length in *)).

Ltac solve_hext := split; [norm_len; lia|]; intros ? ? ?; norm_len; chain_eq.
Ltac solve_src := unfold has_src; cbn; first [left; congruence | right; split; congruence].

Lemma write_seq_spec tag idx ls (h : heap) :
  hnext (write_seq mk h tag idx ls) = hnext h /\
  forall k, ~ In k ls -> hval (write_seq mk h tag idx ls) k = hval h k.
Proof.
  split; [apply write_seq_next|].
  intros k Hk. destruct (write_seq_hext (S k) tag idx ls h) as [_ B]. apply B; auto.
Qed.

Lemma transform_core_spec c rm prop sim3 h t h' t' W :
  transform_core mk rm prop sim3 h t = (h', t', W) -> wf_traj (hnext h) t -> tstep_ok c h t h' t' W.
Proof.
  intros E [WF SRC]. destruct t as [n pos quat poses stamps meta proj].
  unfold transform_core, poses_cells in E; cbn in E.
  unfold reach_traj in WF; cbn in WF.
  destruct poses as [[lid ps]|]; cbn in *; forall_hyps;
  destruct rm, prop, sim3; cbn in E; try destruct ps as [|p0 rest]; cbn in E; destr_allocs;
  inversion E; subst; clear E; norm_len;
  (split; [solve_hext|split; [split; [unfold reach_traj; cbn; forall_hyps; norm_len; forall_bound|solve_src]
                            |split; [unfold reach_traj; cbn; norm_len; forall_of|constructor]]]).
Qed.

Lemma project_core_spec c plane h t h' t' W :
  project_core mk c plane h t = (h', t', W) -> wf_traj (hnext h) t -> t_poses t <> None -> tstep_ok c h t h' t' W.
Proof.
  intros E [WF SRC] SOME. destruct t as [n pos quat poses stamps meta proj].
  unfold project_core, poses_cells in E; cbn in E, SOME.
  unfold reach_traj in WF; cbn in WF.
  destruct poses as [[lid ps]|]; [|congruence]. cbn in *. forall_hyps.
  destruct (c_inplace_project c) eqn:CI; cbn in E.
  - (* old: in place on the cells of the list *)
    injection E as <- <- <-.
    destruct (write_seq_spec tg_proj plane ps h) as [N O].
    split; [|split; [split|split]].
    + eapply hext_weaken; [apply write_seq_hext|]. auto.
    + unfold reach_traj; cbn. rewrite N. forall_bound.
    + solve_src.
    + unfold reach_traj; cbn. forall_of.
    + apply Forall_forall. intros l Hl. left. split; [first [assumption|reflexivity]|]. unfold reach_traj; in_solve.
  - (* new: private copies, then in place on the copies *)
    destr_allocs.
    injection E as <- <- <-.
    match goal with |- tstep_ok _ _ _ (write_seq _ ?hh _ _ ?ls) _ _ =>
      destruct (write_seq_spec tg_proj plane ls hh) as [N O] end.
    norm_len.
    split; [|split; [split|split]].
    + split; [rewrite N; lia|]. intros l Hl _. rewrite O.
      * chain_eq.
      * rewrite in_seq. lia.
    + unfold reach_traj; cbn. rewrite N. norm_len. forall_bound.
    + solve_src.
    + unfold reach_traj; cbn. norm_len. forall_of.
    + apply Forall_seq_range. intros; right; lia.
Qed.

Lemma mutate_spec c p h t h' t' W :
  mutate mk c p h t = (h', t', W) -> wf_traj (hnext h) t -> tstep_ok c h t h' t' W.
Proof.
  intros E WF. destruct p as [rm prop sim3| |plane|ids]; unfold mutate in E.
  - (* transform *)
    destruct (fill mk GPoses h t) as [h0 t0] eqn:EF.
    pose proof (fill_tstep c _ _ _ _ _ EF WF) as S1.
    assert (WF0 : wf_traj (hnext h0) t0) by (destruct S1 as (_ & X & _); exact X).
    pose proof (transform_core_spec c _ _ _ _ _ _ _ _ E WF0) as S2.
    exact (tstep_trans _ _ _ _ _ _ _ _ _ S1 S2).
  - (* scale *)
    destruct WF as [WF SRC]. destruct t as [n pos quat poses stamps meta proj].
    unfold reach_traj in WF; cbn in WF. unfold derive_opt in E. cbn in E.
    destruct pos as [lp|], poses as [[lid ps]|]; cbn in *; forall_hyps; destr_allocs;
    inversion E; subst; clear E; norm_len;
    (split; [solve_hext|split; [split; [unfold reach_traj; cbn; forall_hyps; norm_len; forall_bound|
                                          unfold has_src in *; cbn in *; intuition congruence]
                              |split; [unfold reach_traj; cbn; norm_len; forall_of|constructor]]]).
  - (* project *)
    destruct (t_proj t) eqn:PJ.
    + inversion E; subst; clear E. split; [apply hext_refl|split; [exact WF|split; [|constructor]]].
      apply Forall_forall; intros; left; auto.
    + destruct (fill mk GPoses h t) as [h0 t0] eqn:EF.
      pose proof (fill_tstep c _ _ _ _ _ EF WF) as S1.
      assert (WF0 : wf_traj (hnext h0) t0) by (destruct S1 as (_ & X & _); exact X).
      pose proof (project_core_spec c _ _ _ _ _ _ E WF0 (fill_poses_some _ _ _ _ EF)) as S2.
      exact (tstep_trans _ _ _ _ _ _ _ _ _ S1 S2).
  - (* reduce_to_ids *)
    destruct WF as [WF SRC]. destruct t as [n pos quat poses stamps meta proj].
    unfold reach_traj in WF; cbn in WF. unfold derive_opt in E. cbn in E.
    destruct pos as [lp|], quat as [lq|], poses as [[lid ps]|], stamps as [ls|]; cbn in *; forall_hyps; destr_allocs;
    inversion E; subst; clear E; norm_len;
    (split; [solve_hext|split; [split; [unfold reach_traj; cbn; forall_hyps; norm_len; forall_bound|
                                          unfold has_src in *; cbn in *; intuition congruence]
                              |split; [unfold reach_traj; cbn; norm_len; forall_of|constructor]]]).
Qed.

(* ------------------------------------------------------------------ creation of objects *)
Lemma assoc_loc_in l memo l' : assoc_loc l memo = Some l' -> In (l, l') memo.
Proof.
  induction memo as [|[a b] r IH]; cbn; [discriminate|].
  destruct (Nat.eqb_spec a l).
  - intros X; inversion X; subst; auto.
  - auto.
Qed.

Lemma copy_cells_cons (h : heap) memo l r :
  copy_cells mk h memo (l :: r) =
  match assoc_loc l memo with
  | Some l' => let (h2, r') := copy_cells mk h memo r in (h2, l' :: r')
  | None => let (h1, l') := alloc h (mk tg_copy 0 [hval h l]) in
            let (h2, r') := copy_cells mk h1 ((l, l') :: memo) r in (h2, l' :: r')
  end.
Proof. reflexivity. Qed.

Lemma copy_cells_spec n0 ls : forall (h : heap) memo h' ls',
  copy_cells mk h memo ls = (h', ls') -> n0 <= hnext h ->
  Forall (fun ab => n0 <= snd ab < hnext h) memo ->
  hnext h <= hnext h' /\ (forall k, k < hnext h -> hval h' k = hval h k) /\
  Forall (fun l => n0 <= l < hnext h') ls'.
Proof.
  induction ls as [|l r IH]; intros h memo h' ls' E L M.
  - inversion E; subst. repeat split; auto.
  - rewrite copy_cells_cons in E. destruct (assoc_loc l memo) as [l1|] eqn:A.
    + destruct (copy_cells mk h memo r) as [h2 r'] eqn:E2. inversion E; subst; clear E.
      destruct (IH _ _ _ _ E2 L M) as (A1 & A2 & A3). repeat split; auto.
      constructor; auto. apply assoc_loc_in in A. rewrite Forall_forall in M. specialize (M _ A). cbn in M. lia.
    + destruct (alloc h _) as [h1 l1] eqn:E1.
      destruct (copy_cells mk h1 ((l, l1) :: memo) r) as [h2 r'] eqn:E2. inversion E; subst; clear E.
      apply alloc_spec in E1 as (-> & N1 & V1 & O1).
      assert (L1 : n0 <= hnext h1) by lia.
      assert (M1 : Forall (fun ab => n0 <= snd ab < hnext h1) ((l, hnext h) :: memo)).
      { constructor; [cbn; lia|]. eapply Forall_impl; [|exact M]. cbn; intros; lia. }
      destruct (IH _ _ _ _ E2 L1 M1) as (A1 & A2 & A3). repeat split; try lia.
      * intros k Hk. rewrite A2 by lia. apply O1. lia.
      * constructor; auto. lia.
Qed.

Lemma copy_traj_spec (h : heap) t h' t' :
  copy_traj mk h t = (h', t') -> wf_traj (hnext h) t ->
  hext (hnext h) [] h h' /\ wf_traj (hnext h') t' /\ Forall (fun l => hnext h <= l) (reach_traj t').
Proof.
  intros E [WF SRC]. destruct t as [n pos quat poses stamps meta proj].
  unfold copy_traj, copy_opt in E. cbn in E. unfold reach_traj in WF; cbn in WF.
  destruct pos as [lp|], quat as [lq|], poses as [[lid ps]|], stamps as [ls|]; cbn in *; forall_hyps; destr_allocs;
  try match goal with
  | E : context[copy_cells ?mk ?h [] ?ps] |- _ =>
      let h1 := fresh "hc" in let l := fresh "lc" in let E1 := fresh "EC" in
      destruct (copy_cells mk h [] ps) as [h1 l] eqn:E1;
      apply (copy_cells_spec (hnext h)) in E1 as (? & ? & ?); [|lia|constructor]; cbn in E
  end; destr_allocs;
  inversion E; subst; clear E; norm_len;
  (split; [solve_hext|split; [split; [unfold reach_traj; cbn; forall_hyps; norm_len; forall_bound|
                                        unfold has_src in *; cbn in *; intuition congruence]
                            |unfold reach_traj; cbn; norm_len; forall_bound]]).
Qed.

Lemma make_parts_spec groups : forall (h : heap) stamps h' ts,
  make_parts mk h stamps groups = (h', ts) ->
  Forall (fun l => l < hnext h) (oloc stamps) ->
  Forall (fun g => Forall (fun l => l < hnext h) g) groups ->
  hnext h <= hnext h' /\ (forall k, k < hnext h -> hval h' k = hval h k) /\ Forall (wf_obj (hnext h')) ts.
Proof.
  induction groups as [|g r IH]; intros h stamps h' ts E S G; cbn in E.
  - inversion E; subst. repeat split; auto.
  - destruct (make_part mk h stamps g) as [h1 t] eqn:E1.
    destruct (make_parts mk h1 stamps r) as [h2 ts2] eqn:E2. inversion E; subst; clear E.
    inversion G as [|? ? Gg Gr]; subst.
    unfold make_part, copy_opt in E1.
    assert (P1 : hnext h <= hnext h1 /\ (forall k, k < hnext h -> hval h1 k = hval h k) /\ wf_traj (hnext h1) t).
    { destruct stamps as [ls|]; cbn in *; forall_hyps; destr_allocs; inversion E1; subst; clear E1; norm_len;
      (split; [lia|split; [intros; chain_eq|split; [unfold reach_traj; cbn; forall_bound|solve_src]]]). }
    destruct P1 as (L1 & O1 & W1).
    assert (S1 : Forall (fun l => l < hnext h1) (oloc stamps)) by (eapply Forall_lt_mono; [|exact S]; lia).
    assert (G1 : Forall (fun g => Forall (fun l => l < hnext h1) g) r).
    { eapply Forall_impl; [|exact Gr]. cbn; intros; eapply Forall_lt_mono; [|eassumption]; lia. }
    destruct (IH _ _ _ _ E2 S1 G1) as (L2 & O2 & W2).
    split; [lia|split].
    + intros k Hk. rewrite O2 by lia. apply O1; lia.
    + constructor; auto. cbn. destruct W1 as [A B]; split; auto. eapply Forall_lt_mono; [|exact A]. lia.
Qed.

Definition fresh_kind (d : knew) : bool :=
  match d with NInit _ _ _ | NCopy _ | NMerge _ | NCtorPQ _ | NBag _ => true | _ => false end.

Lemma get_traj_wf (st : state) i t : wf_state st -> get_traj st i = Some t -> wf_traj (hnext (hp st)) t.
Proof.
  unfold get_traj. intros W E. destruct (nth_error (objs st) i) as [[t0|c]|] eqn:N; try discriminate.
  inversion E; subst. exact (wf_state_nth _ _ _ W N).
Qed.

Lemma create_spec d (st : state) h' news :
  create mk d st = (h', news) -> wf_state st ->
  hext (hnext (hp st)) [] (hp st) h' /\ Forall (wf_obj (hnext h')) news /\
  (fresh_kind d = true ->
     Forall (fun o => Forall (fun l => hnext (hp st) <= l) (reach o)) news /\ length news <= 1).
Proof.
  intros E WS. destruct st as [h os]. cbn [hp] in *.
  assert (TRIV : (h', news) = (h, []) ->
    hext (hnext h) [] h h' /\ Forall (wf_obj (hnext h')) news /\
    (fresh_kind d = true -> Forall (fun o => Forall (fun l => hnext h <= l) (reach o)) news /\ length news <= 1)).
  { intros X; inversion X; subst. split; [apply hext_refl|split; [constructor|]]. intros _. split; [constructor|cbn; lia]. }
  destruct d as [mode n stamped|src|src cuts|srcs|src sm|src|k|src]; unfold create in E; cbn [hp objs] in E.
  - (* NInit *)
    destruct stamped, mode as [|mode]; cbn in E; destr_allocs; inversion E; subst; clear E; norm_len;
    (split; [solve_hext|split; [constructor; [|constructor]; cbn; split; [unfold reach_traj; cbn; norm_len; forall_bound|solve_src]
                               |intros _; split; [constructor; [|constructor]; cbn; unfold reach_traj; cbn; norm_len; forall_bound|cbn; lia]]]).
  - (* NCopy *)
    destruct (nth_error os src) as [[t|c]|] eqn:N; [| |apply TRIV; congruence].
    + destruct (copy_traj mk h t) as [h1 t1] eqn:EC. inversion E; subst; clear E.
      pose proof (wf_state_nth (mkState h os) _ _ WS N) as WT. cbn in WT.
      destruct (copy_traj_spec _ _ _ _ EC WT) as (A & B & C).
      split; [exact A|split; [constructor; [exact B|constructor]|]]. intros _. split; [constructor; [exact C|constructor]|cbn; lia].
    + destruct (copy_cells mk h [] c) as [h1 c1] eqn:EC. inversion E; subst; clear E.
      apply (copy_cells_spec (hnext h)) in EC as (A & B & C); [|lia|constructor].
      split; [split; [lia|intros; apply B; lia]|split; [constructor; [|constructor]|]].
      * cbn. eapply Forall_impl; [|exact C]. cbn; intros; lia.
      * intros _. split; [constructor; [|constructor]|cbn; lia]. cbn. eapply Forall_impl; [|exact C]. cbn; intros; lia.
  - (* NParts *)
    destruct (get_traj (mkState h os) src) as [t|] eqn:G; [|apply TRIV; congruence].
    destruct (t_poses t) as [[lid ps]|] eqn:P; [|apply TRIV; congruence].
    pose proof (get_traj_wf _ _ _ WS G) as [WT _]. cbn in WT.
    unfold reach_traj, poses_all in WT. rewrite P in WT. forall_hyps.
    apply make_parts_spec in E.
    + destruct E as (A & B & C). split; [split; [exact A|intros; apply B; lia]|split; [exact C|]]. cbn. discriminate.
    + assumption.
    + apply Forall_forall. intros g Hg. apply Forall_forall. intros l Hl.
      pose proof (slices_incl _ _ _ _ _ Hg Hl) as Hin.
      match goal with H : Forall _ ps |- _ => rewrite Forall_forall in H; apply H; exact Hin end.
  - (* NMerge *)
    cbn in E. destr_allocs. inversion E; subst; clear E.
    split; [solve_hext|split; [constructor; [|constructor]; cbn; split; [unfold reach_traj; cbn; forall_bound|solve_src]|]].
    intros _. split; [constructor; [|constructor]; cbn; unfold reach_traj; cbn; forall_bound|cbn; lia].
  - (* NCtorPoses *)
    destruct (get_traj (mkState h os) src) as [t|] eqn:G; [|apply TRIV; congruence].
    destruct (t_poses t) as [[lid ps]|] eqn:P; [|apply TRIV; congruence].
    pose proof (get_traj_wf _ _ _ WS G) as [WT _]. cbn in WT.
    unfold reach_traj, poses_all in WT. rewrite P in WT. unfold copy_opt in E.
    destruct (t_stamps t) as [ls|], sm; cbn in *; forall_hyps; destr_allocs; inversion E; subst; clear E;
    (split; [solve_hext|split; [constructor; [|constructor]; cbn; split; [unfold reach_traj; cbn; forall_bound|solve_src]
                               |cbn; discriminate]]).
  - (* NCtorPQ *)
    destruct (get_traj (mkState h os) src) as [t|] eqn:G; [|apply TRIV; congruence].
    destruct (t_pos t) as [lp|] eqn:P; [|apply TRIV; congruence].
    destruct (t_quat t) as [lq|] eqn:Q; [|apply TRIV; congruence].
    pose proof (get_traj_wf _ _ _ WS G) as [WT _]. cbn in WT.
    unfold reach_traj in WT. rewrite P, Q in WT. unfold copy_opt in E.
    destruct (t_stamps t) as [ls|]; cbn in *; forall_hyps; destr_allocs; inversion E; subst; clear E;
    (split; [solve_hext|split; [constructor; [|constructor]; cbn; split; [unfold reach_traj; cbn; forall_bound|solve_src]
                               |intros _; split; [constructor; [|constructor]; cbn; unfold reach_traj; cbn; forall_bound|cbn; lia]]]).
  - (* NBag *)
    destr_allocs. inversion E; subst; clear E. norm_len.
    split; [solve_hext|split; [constructor; [|constructor]; cbn; norm_len; forall_bound|]].
    intros _. split; [constructor; [|constructor]; cbn; norm_len; forall_bound|cbn; lia].
  - (* NBagShare *)
    destruct (nth_error os src) as [[t|c]|] eqn:N; try (apply TRIV; congruence).
    inversion E; subst; clear E.
    pose proof (wf_state_nth (mkState h' os) _ _ WS N) as WT. cbn in WT.
    split; [apply hext_refl|split; [constructor; [exact WT|constructor]|cbn; discriminate]].
Qed.

(* ------------------------------------------------------------------ micro steps on the state *)
Definition obs_at (st : state) (j : nat) : option (view V) :=
  option_map (obs mk (hp st)) (nth_error (objs st) j).

Definition micro_subject (k : micro) : option nat :=
  match k with KFill i _ | KMut i _ | KRebind i _ => Some i | _ => None end.

Definition cache_le_obj (o o' : obj) : Prop :=
  match o, o' with
  | OTraj t, OTraj t' => cache_le t t'
  | OBag c, OBag c' => c = c'
  | _, _ => False
  end.

Definition micro_post (c : cfg) (k : micro) (st st' : state) (W : list loc) (res : list nat) : Prop :=
  let n := hnext (hp st) in
  hext n W (hp st) (hp st') /\
  wf_state st' /\
  length (objs st) <= length (objs st') /\
  (forall j, j < length (objs st) -> micro_subject k <> Some j -> nth_error (objs st') j = nth_error (objs st) j) /\
  (forall i o, micro_subject k = Some i -> nth_error (objs st) i = Some o ->
      exists o', nth_error (objs st') i = Some o' /\
                 Forall (fun l => In l (reach o) \/ n <= l) (reach o') /\
                 (forall g, k = KFill i g -> obs mk (hp st') o' = obs mk (hp st) o /\ cache_le_obj o o')) /\
  Forall (fun l => n <= l \/ (c_inplace_project c = true /\
                              exists i p o, k = KMut i p /\ nth_error (objs st) i = Some o /\ In l (reach o))) W /\
  (forall j o, length (objs st) <= j -> nth_error (objs st') j = Some o ->
      exists d, k = KNew d /\
                (fresh_kind d = true -> Forall (fun l => n <= l) (reach o) /\ length (objs st') <= S (length (objs st)))) /\
  (forall r, In r res -> (exists i, k = KAlias i) \/ length (objs st) <= r < length (objs st')).

Lemma wf_state_mono (h h' : heap) os : hnext h <= hnext h' -> wf_state (mkState h os) -> Forall (wf_obj (hnext h')) os.
Proof. intros L W. unfold wf_state in W; cbn in W. eapply Forall_impl; [|exact W]. intros; eapply wf_obj_mono; eauto. Qed.

Lemma nth_error_lt {A} (l : list A) i x : nth_error l i = Some x -> i < length l.
Proof. intros E. apply nth_error_Some. congruence. Qed.

Lemma micro_post_id c k (st : state) :
  wf_state st -> (forall d, k <> KNew d) -> micro_post c k st st [] [].
Proof.
  intros W NK. unfold micro_post. split; [apply hext_refl|split; [exact W|split; [lia|split; [auto|split; [|split; [constructor|split]]]]]].
  - intros i o _ E. exists o. split; [exact E|split].
    + apply Forall_forall; intros; left; auto.
    + intros g _. split; [reflexivity|]. destruct o; cbn; [apply cache_le_refl|reflexivity].
  - intros j o L E. apply nth_error_lt in E. lia.
  - intros r [].
Qed.

Lemma micro_ok c k (st st' : state) W res :
  wf_state st -> exec_micro mk c k st = (st', W, res) -> micro_post c k st st' W res.
Proof.
  intros WS E. destruct st as [h os]. unfold exec_micro in E.
  destruct k as [i g|i p|d|i kk|i|i]; cbn [hp objs] in E.
  - (* KFill *)
    destruct (get_traj (mkState h os) i) as [t|] eqn:G;
      [|inversion E; subst; apply micro_post_id; [exact WS|discriminate]].
    destruct (fill mk g h t) as [h1 t1] eqn:EF. inversion E; subst; clear E.
    pose proof (get_traj_wf _ _ _ WS G) as WT. cbn in WT.
    destruct (fill_spec _ _ _ _ _ EF WT) as (A & B & C & D & CL).
    unfold get_traj in G; cbn in G. destruct (nth_error os i) as [[t0|c0]|] eqn:N; try discriminate.
    inversion G; subst t0; clear G. pose proof (nth_error_lt _ _ _ N) as LI.
    unfold micro_post; cbn [hp objs micro_subject].
    split; [exact A|split; [|split; [rewrite set_nth_length; lia|split; [|split; [|split; [constructor|split]]]]]].
    + unfold wf_state; cbn. apply set_nth_Forall; [|exact B]. apply (wf_state_mono h); [destruct A; auto|exact WS].
    + intros j _ NE. apply set_nth_other. congruence.
    + intros i0 o X N0. inversion X; subst i0. rewrite N in N0; inversion N0; subst o.
      exists (OTraj t1). split; [apply set_nth_same; exact LI|split; [exact C|]].
      intros g0 _. split; [cbn; f_equal; exact D|exact CL].
    + intros j o L X. apply nth_error_lt in X. rewrite set_nth_length in X. lia.
    + intros r [].
  - (* KMut *)
    destruct (get_traj (mkState h os) i) as [t|] eqn:G;
      [|inversion E; subst; apply micro_post_id; [exact WS|discriminate]].
    destruct (mutate mk c p h t) as [[h1 t1] W1] eqn:EM. inversion E; subst; clear E.
    pose proof (get_traj_wf _ _ _ WS G) as WT. cbn in WT.
    destruct (mutate_spec _ _ _ _ _ _ _ EM WT) as (A & B & C & D).
    unfold get_traj in G; cbn in G. destruct (nth_error os i) as [[t0|c0]|] eqn:N; try discriminate.
    inversion G; subst t0; clear G. pose proof (nth_error_lt _ _ _ N) as LI.
    unfold micro_post; cbn [hp objs micro_subject].
    split; [exact A|split; [|split; [rewrite set_nth_length; lia|split; [|split; [|split; [|split]]]]]].
    + unfold wf_state; cbn. apply set_nth_Forall; [|exact B]. apply (wf_state_mono h); [destruct A; auto|exact WS].
    + intros j _ NE. apply set_nth_other. congruence.
    + intros i0 o X N0. inversion X; subst i0. rewrite N in N0; inversion N0; subst o.
      exists (OTraj t1). split; [apply set_nth_same; exact LI|split; [exact C|]].
      intros g0 X0. discriminate.
    + eapply Forall_impl; [|exact D]. cbn. intros l [[CI HL]|HL]; [right|left; exact HL].
      split; [exact CI|]. exists i, p, (OTraj t). auto.
    + intros j o L X. apply nth_error_lt in X. rewrite set_nth_length in X. lia.
    + intros r [].
  - (* KNew *)
    destruct (create mk d (mkState h os)) as [h1 news] eqn:EC. inversion E; subst; clear E.
    destruct (create_spec _ _ _ _ EC WS) as (A & B & C). cbn [hp objs] in *.
    unfold micro_post; cbn [hp objs micro_subject].
    split; [exact A|split; [|split; [rewrite app_length; lia|split; [|split; [|split; [constructor|split]]]]]].
    + unfold wf_state; cbn. apply Forall_app; split; [|exact B]. apply (wf_state_mono h); [destruct A; auto|exact WS].
    + intros j L _. apply nth_error_app1. exact L.
    + intros i0 o X. discriminate.
    + intros j o L X. exists d. split; [reflexivity|]. intros FK. destruct (C FK) as [C1 C2].
      rewrite nth_error_app2 in X by exact L. apply nth_error_In in X.
      rewrite Forall_forall in C1. split; [apply C1; exact X|rewrite app_length; lia].
    + intros r Hr. right. apply in_seq in Hr. rewrite app_length. lia.
  - (* KRebind *)
    destruct (nth_error os i) as [[t0|c0]|] eqn:N;
      try (inversion E; subst; apply micro_post_id; [exact WS|discriminate]).
    destr_allocs. inversion E; subst; clear E. norm_len. pose proof (nth_error_lt _ _ _ N) as LI.
    unfold micro_post; cbn [hp objs micro_subject].
    split; [solve_hext|split; [|split; [rewrite set_nth_length; lia|split; [|split; [|split; [constructor|split]]]]]].
    + unfold wf_state; cbn. apply set_nth_Forall; [|cbn; norm_len; forall_bound].
      apply (wf_state_mono h); [lia|exact WS].
    + intros j _ NE. apply set_nth_other. congruence.
    + intros i0 o X N0. inversion X; subst i0. rewrite N in N0; inversion N0; subst o.
      eexists. split; [apply set_nth_same; exact LI|split].
      * cbn. norm_len. apply Forall_seq_range. intros; right; lia.
      * intros g0 X0. discriminate.
    + intros j o L X. apply nth_error_lt in X. rewrite set_nth_length in X. lia.
    + intros r [].
  - (* KScratch *)
    destruct (nth_error os i) as [[t0|[|l0 c0]]|] eqn:N;
      try (inversion E; subst; apply micro_post_id; [exact WS|discriminate]).
    destr_allocs. inversion E; subst; clear E.
    unfold micro_post; cbn [hp objs micro_subject write hval hnext].
    split; [|split; [|split; [lia|split; [auto|split; [|split; [|split]]]]]].
    + split; [cbn; lia|]. intros l Hl Hn. cbn. unfold upd.
      destruct (Nat.eqb_spec l (hnext h)); [lia|]. chain_eq.
    + unfold wf_state; cbn. apply (wf_state_mono h); [lia|exact WS].
    + intros i0 o X. discriminate.
    + constructor; [left; lia|constructor].
    + intros j o L X. apply nth_error_lt in X. lia.
    + intros r [].
  - (* KAlias *)
    inversion E; subst; clear E.
    unfold micro_post; cbn [hp objs micro_subject].
    split; [apply hext_refl|split; [exact WS|split; [lia|split; [auto|split; [|split; [constructor|split]]]]]].
    + intros i0 o X. discriminate.
    + intros j o L X. apply nth_error_lt in X. lia.
    + intros r Hr. left. exists i. reflexivity.
Qed.

(* ------------------------------------------------------------------ sequences of micro steps *)
Lemma run_micro_cons c k ks (st : state) :
  run_micro mk c (k :: ks) st =
  let '(st1, W1, r1) := exec_micro mk c k st in
  let '(st2, W2, r2) := run_micro mk c ks st1 in (st2, W1 ++ W2, r1 ++ r2).
Proof. reflexivity. Qed.

Definition no_alias (k : micro) : Prop := forall i, k <> KAlias i.

Lemma run_micro_frame c ks : forall (st st' : state) W res,
  wf_state st -> run_micro mk c ks st = (st', W, res) ->
  hext (hnext (hp st)) W (hp st) (hp st') /\ wf_state st' /\ length (objs st) <= length (objs st') /\
  Forall (fun l => hnext (hp st) <= l \/ c_inplace_project c = true) W /\
  (Forall no_alias ks -> forall r, In r res -> length (objs st) <= r < length (objs st')).
Proof.
  induction ks as [|k r IH]; intros st st' W res WS E.
  - cbn in E. inversion E; subst. split; [apply hext_refl|split; [exact WS|split; [lia|split; [constructor|]]]].
    intros _ x [].
  - rewrite run_micro_cons in E.
    destruct (exec_micro mk c k st) as [[st1 W1] r1] eqn:E1.
    destruct (run_micro mk c r st1) as [[st2 W2] r2] eqn:E2. inversion E; subst; clear E.
    destruct (micro_ok _ _ _ _ _ _ WS E1) as (A1 & B1 & C1 & _ & _ & F1 & _ & R1).
    destruct (IH _ _ _ _ B1 E2) as (A2 & B2 & C2 & F2 & R2).
    assert (L : hnext (hp st) <= hnext (hp st1)) by (destruct A1; auto).
    split; [|split; [exact B2|split; [lia|split]]].
    + eapply hext_trans; [exact A1|]. eapply hext_base_mono; [exact L|exact A2].
    + apply Forall_app; split.
      * eapply Forall_impl; [|exact F1]. cbn. intros l [X|[X _]]; auto.
      * eapply Forall_impl; [|exact F2]. cbn. intros l [X|X]; [left; lia|auto].
    + intros NA x Hx. inversion NA as [|? ? NK NR]; subst. apply in_app_or in Hx. destruct Hx as [Hx|Hx].
      * destruct (R1 _ Hx) as [[i Hi]|Hr]; [exfalso; exact (NK i Hi)|lia].
      * specialize (R2 NR _ Hx). lia.
Qed.

Lemma run_micro_inv c (Q : micro -> Prop) (P : state -> Prop) :
  (forall k st st' W res, Q k -> P st -> wf_state st -> exec_micro mk c k st = (st', W, res) -> P st') ->
  forall ks st st' W res, Forall Q ks -> P st -> wf_state st -> run_micro mk c ks st = (st', W, res) -> P st'.
Proof.
  intros STEP. induction ks as [|k r IH]; intros st st' W res FQ HP WS E.
  - cbn in E. inversion E; subst. exact HP.
  - rewrite run_micro_cons in E.
    destruct (exec_micro mk c k st) as [[st1 W1] r1] eqn:E1.
    destruct (run_micro mk c r st1) as [[st2 W2] r2] eqn:E2. inversion E; subst; clear E.
    inversion FQ as [|? ? QK QR]; subst.
    destruct (micro_ok _ _ _ _ _ _ WS E1) as (_ & B1 & _).
    apply (IH st1 st' W2 r2 QR); [eapply STEP; eassumption|exact B1|exact E2].
Qed.

Lemma exec_frame c x (st st' : state) W res :
  wf_state st -> exec mk c x st = (st', W, res) ->
  hext (hnext (hp st)) W (hp st) (hp st') /\ wf_state st' /\ length (objs st) <= length (objs st').
Proof.
  intros WS E. unfold exec in E. destruct (run_micro_frame _ _ _ _ _ _ WS E) as (A & B & C & _). auto.
Qed.

Lemma run_cons c x hist (st : state) :
  run mk c (x :: hist) st = let '(st1, _, _) := exec mk c x st in run mk c hist st1.
Proof. reflexivity. Qed.

Lemma run_inv c (Q : cmd -> Prop) (P : state -> Prop) :
  (forall x st st' W res, Q x -> P st -> wf_state st -> exec mk c x st = (st', W, res) -> P st') ->
  forall hist st, Forall Q hist -> P st -> wf_state st -> P (run mk c hist st) /\ wf_state (run mk c hist st).
Proof.
  intros STEP. induction hist as [|x r IH]; intros st FQ HP WS.
  - cbn. auto.
  - rewrite run_cons. destruct (exec mk c x st) as [[st1 W1] r1] eqn:E1. inversion FQ as [|? ? QK QR]; subst.
    destruct (exec_frame _ _ _ _ _ _ WS E1) as (_ & B & _).
    apply (IH st1 QR); [eapply STEP; eassumption|exact B].
Qed.

Lemma empty_wf d : wf_state (empty_state d).
Proof. constructor. Qed.

Lemma run_wf c hist (st : state) : wf_state st -> wf_state (run mk c hist st).
Proof.
  intros WS. apply (run_inv c (fun _ => True) (fun _ => True)); auto.
  apply Forall_forall; auto.
Qed.

(* ------------------------------------------------------------------ the current code: nothing pre-existing is written *)
Lemma exec_new_writes_fresh x (st st' : state) W res :
  wf_state st -> exec mk cfg_new x st = (st', W, res) -> Forall (fun l => hnext (hp st) <= l) W.
Proof.
  intros WS E. unfold exec in E. destruct (run_micro_frame _ _ _ _ _ _ WS E) as (_ & _ & _ & F & _).
  eapply Forall_impl; [|exact F]. cbn. intros l [X|X]; [exact X|discriminate].
Qed.

Lemma exec_new_heap x (st st' : state) W res :
  wf_state st -> exec mk cfg_new x st = (st', W, res) ->
  forall l, l < hnext (hp st) -> hval (hp st') l = hval (hp st) l.
Proof.
  intros WS E l Hl. destruct (exec_frame _ _ _ _ _ _ WS E) as ([_ A] & _).
  apply A; auto. intros HI. pose proof (exec_new_writes_fresh _ _ _ _ _ WS E) as F.
  rewrite Forall_forall in F. specialize (F _ HI). lia.
Qed.

Definition micro_changes (k : micro) : option nat :=
  match k with KMut i _ | KRebind i _ => Some i | _ => None end.

Lemma obs_at_same (st st' : state) j :
  wf_state st -> nth_error (objs st') j = nth_error (objs st) j ->
  (forall o l, nth_error (objs st) j = Some o -> In l (reach o) -> hval (hp st') l = hval (hp st) l) ->
  obs_at st' j = obs_at st j.
Proof.
  intros WS N H. unfold obs_at. rewrite N. destruct (nth_error (objs st) j) as [o|] eqn:E; cbn; [|reflexivity].
  f_equal. apply obs_ext. intros l Hl. eapply H; eauto.
Qed.

Lemma micro_obs_new k (st st' : state) W res j :
  wf_state st -> exec_micro mk cfg_new k st = (st', W, res) -> j < length (objs st) ->
  micro_changes k <> Some j -> obs_at st' j = obs_at st j.
Proof.
  intros WS E LJ NC.
  destruct (micro_ok _ _ _ _ _ _ WS E) as ([_ A] & _ & _ & OTH & SUB & F & _).
  assert (HEAP : forall l, l < hnext (hp st) -> hval (hp st') l = hval (hp st) l).
  { intros l Hl. apply A; auto. intros HI. rewrite Forall_forall in F. destruct (F _ HI) as [X|[X _]]; [lia|discriminate]. }
  destruct (nth_error (objs st) j) as [o|] eqn:NJ; [|apply nth_error_None in NJ; lia].
  assert (CASE : micro_subject k = Some j \/ micro_subject k <> Some j).
  { destruct (micro_subject k) as [i|]; [destruct (Nat.eq_dec i j); [left; congruence|right; congruence]|right; discriminate]. }
  destruct CASE as [SJ|SJ].
  - destruct k as [i g|i p|d|i kk|i|i]; cbn in SJ, NC; try congruence.
    inversion SJ; subst i.
    destruct (SUB j o eq_refl NJ) as (o' & N' & _ & OB). destruct (OB g eq_refl) as [OB1 _].
    unfold obs_at. rewrite N', NJ. cbn. f_equal. exact OB1.
  - apply obs_at_same; [exact WS|apply OTH; auto|].
    intros o0 l N0 Hl. apply HEAP. pose proof (wf_obj_reach _ _ (wf_state_nth _ _ _ WS N0)) as R.
    rewrite Forall_forall in R. auto.
Qed.

(* ------------------------------------------------------------------ compile: which objects a call can change *)
Ltac micro_forall tac :=
  repeat first
    [ apply Forall_nil
    | apply Forall_cons; [tac|]
    | apply Forall_app; split
    | (apply Forall_forall; let k := fresh "k" in let HH := fresh "HH" in
       intros k HH; unfold fills in HH; apply in_map_iff in HH; destruct HH as (? & <- & ?); tac) ].

Lemma compile_changes c (st : state) x j :
  j < length (objs st) -> cmd_subject x <> Some j ->
  Forall (fun k => micro_changes k <> Some j) (compile c st x).
Proof.
  intros LJ NS.
  destruct x as [mode n stamped|k|i g|i rm prop sim3|i|i plane|i ids|i ids|i ref cs only|i ref|src|a b ia ib|srcs
                |k src cuts|src sm|src|r]; cbn in NS |- *;
  try (micro_forall ltac:(cbn; congruence)).
  - destruct only, cs; micro_forall ltac:(cbn; congruence).
  - micro_forall ltac:(cbn; first [congruence | intros X; inversion X; lia]).
  - destruct (c_split_self c), (traj_n st src <=? 1), k, cuts; micro_forall ltac:(cbn; congruence).
  - destruct r as [pb m ref est|pb fr m ref est|m|m|x0 y0|s1 s2|p|rs kk|t|t|r0|t|t|t|r0|ts|t|t|e|t chk];
      cbn in NS |- *;
      try destruct pb; try destruct fr; try destruct chk;
      try (destruct rs as [|r0 [|r1 rs]]);
      micro_forall ltac:(cbn; congruence).
Qed.

(* the view of an object is untouched by any call of the current code that does not operate on it *)
Lemma exec_obs_new x (st st' : state) W res j :
  wf_state st -> exec mk cfg_new x st = (st', W, res) -> j < length (objs st) ->
  cmd_subject x <> Some j -> obs_at st' j = obs_at st j /\ j < length (objs st').
Proof.
  intros WS E LJ NS. unfold exec in E.
  pose proof (compile_changes cfg_new st x j LJ NS) as FQ.
  apply (run_micro_inv cfg_new (fun k => micro_changes k <> Some j)
           (fun s => obs_at s j = obs_at st j /\ j < length (objs s))) with (ks := compile cfg_new st x) (st := st) (W := W) (res := res);
    auto.
  intros k s s' W0 r0 QK [PO PL] WSs Es.
  destruct (micro_ok _ _ _ _ _ _ WSs Es) as (_ & _ & LL & _).
  split; [|lia]. rewrite <- PO. eapply micro_obs_new; eauto.
Qed.

Theorem independent_new : forall hist (st : state) a,
  wf_state st -> a < length (objs st) -> Forall (fun x => cmd_subject x <> Some a) hist ->
  obs_at (run mk cfg_new hist st) a = obs_at st a.
Proof.
  intros hist st a WS LA FQ.
  destruct (run_inv cfg_new (fun x => cmd_subject x <> Some a)
              (fun s => obs_at s a = obs_at st a /\ a < length (objs s))) with (hist := hist) (st := st) as [[R _] _]; auto.
  intros x s s' W res QX [PO PL] WSs Es.
  destruct (exec_obs_new _ _ _ _ _ _ WSs Es PL QX) as [A B]. split; [congruence|exact B].
Qed.

(* ------------------------------------------------------------------ readers and derivations (any configuration) *)
Definition micro_quiet (m : nat) (s : option nat) (k : micro) : Prop :=
  match k with
  | KFill _ _ | KNew _ | KAlias _ | KScratch _ => True
  | KMut i p => m <= i /\ exists ids, p = PReduce ids
  | KRebind i _ => s = Some i
  end.

(* object j of st0 is still there in st: same cached arrays (possibly more caches), same view *)
Definition kept (st0 st : state) (j : nat) : Prop :=
  exists o o', nth_error (objs st0) j = Some o /\ nth_error (objs st) j = Some o' /\
               cache_le_obj o o' /\ obs mk (hp st) o' = obs mk (hp st0) o.

Lemma cache_le_trans t1 t2 t3 : cache_le t1 t2 -> cache_le t2 t3 -> cache_le t1 t3.
Proof.
  unfold cache_le. intros (A1 & A2 & A3 & A4 & A5 & A6 & A7) (B1 & B2 & B3 & B4 & B5 & B6 & B7).
  repeat split; try congruence; auto.
Qed.

Lemma cache_le_obj_refl o : cache_le_obj o o.
Proof. destruct o; cbn; [apply cache_le_refl|reflexivity]. Qed.

Lemma cache_le_obj_trans o1 o2 o3 : cache_le_obj o1 o2 -> cache_le_obj o2 o3 -> cache_le_obj o1 o3.
Proof.
  destruct o1, o2, o3; cbn; try contradiction; try congruence. apply cache_le_trans.
Qed.

Lemma kept_refl (st : state) j : j < length (objs st) -> kept st st j.
Proof.
  intros L. destruct (nth_error (objs st) j) as [o|] eqn:E; [|apply nth_error_None in E; lia].
  exists o, o. repeat split; auto. apply cache_le_obj_refl.
Qed.

Lemma kept_trans (s1 s2 s3 : state) j : kept s1 s2 j -> kept s2 s3 j -> kept s1 s3 j.
Proof.
  intros (o1 & o2 & A1 & A2 & A3 & A4) (o2' & o3 & B1 & B2 & B3 & B4).
  rewrite A2 in B1; inversion B1; subst o2'.
  exists o1, o3. repeat split; auto; [eapply cache_le_obj_trans; eauto|congruence].
Qed.

Lemma kept_obs_at (s1 s2 : state) j : kept s1 s2 j -> obs_at s2 j = obs_at s1 j.
Proof. intros (o & o' & A & B & _ & D). unfold obs_at. rewrite A, B. cbn. congruence. Qed.

Lemma reduce_writes_nothing c ids (h : heap) t h' t' W : mutate mk c (PReduce ids) h t = (h', t', W) -> W = [].
Proof.
  unfold mutate. destruct (derive_opt mk tg_sel h (t_pos t)) as [h1 p1].
  destruct (derive_opt mk tg_sel h1 (t_quat t)) as [h2 q1].
  destruct (t_poses t) as [[lid ps]|].
  - destruct (alloc h2 _) as [h3 l3]. destruct (derive_opt mk tg_sel h3 (t_stamps t)) as [h4 s1].
    intros X; inversion X; reflexivity.
  - destruct (derive_opt mk tg_sel h2 (t_stamps t)) as [h4 s1]. intros X; inversion X; reflexivity.
Qed.

Lemma micro_quiet_step c m s k (st st' : state) W res :
  wf_state st -> micro_quiet m s k -> m <= length (objs st) -> exec_micro mk c k st = (st', W, res) ->
  (forall l, l < hnext (hp st) -> hval (hp st') l = hval (hp st) l) /\
  forall j, j < m -> s <> Some j -> kept st st' j.
Proof.
  intros WS Q LM E.
  destruct (micro_ok _ _ _ _ _ _ WS E) as ([_ A] & _ & _ & OTH & SUB & F & _).
  assert (HEAP : forall l, l < hnext (hp st) -> hval (hp st') l = hval (hp st) l).
  { intros l Hl. apply A; auto. intros HI. rewrite Forall_forall in F. destruct (F _ HI) as [X|[_ (i & p & o & X & _)]]; [lia|].
    subst k. cbn in Q. destruct Q as [_ [ids ->]].
    unfold exec_micro in E. destruct (get_traj st i) as [t|]; [|inversion E; subst; contradiction].
    destruct (mutate mk c (PReduce ids) (hp st) t) as [[h1 t1] W1] eqn:EM. inversion E; subst.
    apply reduce_writes_nothing in EM. subst. contradiction. }
  split; [exact HEAP|]. intros j LJ SJ.
  destruct (nth_error (objs st) j) as [o|] eqn:NJ; [|apply nth_error_None in NJ; lia].
  assert (CASE : micro_subject k = Some j \/ micro_subject k <> Some j).
  { destruct (micro_subject k) as [i|]; [destruct (Nat.eq_dec i j); [left; congruence|right; congruence]|right; discriminate]. }
  destruct CASE as [SUBJ|SUBJ].
  - destruct k as [i g|i p|d|i kk|i|i]; cbn in SUBJ, Q; try congruence.
    + inversion SUBJ; subst i. destruct (SUB j o eq_refl NJ) as (o' & N' & _ & OB). destruct (OB g eq_refl) as [OB1 OB2].
      exists o, o'. auto.
    + inversion SUBJ; subst i. lia.
  - exists o, o. split; [exact NJ|split; [rewrite OTH by (auto; lia); exact NJ|split; [apply cache_le_obj_refl|]]].
    apply obs_ext. intros l Hl. apply HEAP. pose proof (wf_obj_reach _ _ (wf_state_nth _ _ _ WS NJ)) as R.
    rewrite Forall_forall in R. auto.
Qed.

Lemma run_micro_quiet c m s ks : forall (st st' : state) W res,
  wf_state st -> Forall (micro_quiet m s) ks -> m <= length (objs st) -> run_micro mk c ks st = (st', W, res) ->
  (forall l, l < hnext (hp st) -> hval (hp st') l = hval (hp st) l) /\
  forall j, j < m -> s <> Some j -> kept st st' j.
Proof.
  induction ks as [|k r IH]; intros st st' W res WS FQ LM E.
  - cbn in E. inversion E; subst. split; [auto|]. intros j LJ _. apply kept_refl. lia.
  - rewrite run_micro_cons in E.
    destruct (exec_micro mk c k st) as [[st1 W1] r1] eqn:E1.
    destruct (run_micro mk c r st1) as [[st2 W2] r2] eqn:E2. inversion E; subst; clear E.
    inversion FQ as [|? ? QK QR]; subst.
    destruct (micro_ok _ _ _ _ _ _ WS E1) as ([L1 _] & B1 & C1 & _).
    destruct (micro_quiet_step _ _ _ _ _ _ _ _ WS QK LM E1) as [H1 K1].
    assert (LM1 : m <= length (objs st1)) by lia.
    destruct (IH _ _ _ _ B1 QR LM1 E2) as [H2 K2].
    split.
    + intros l Hl. rewrite H2 by lia. apply H1; exact Hl.
    + intros j LJ SJ. eapply kept_trans; [apply K1|apply K2]; auto.
Qed.

Definition is_deriv (x : cmd) : bool :=
  match x with
  | CInit _ _ _ | CInitBag _ | CGet _ _ | CCopy _ | CAssoc _ _ _ _ | CMerge _ | CSplit _ _ _
  | CCtorPoses _ _ | CCtorPQ _ => true
  | _ => false
  end.

Lemma compile_quiet c (st : state) x :
  (is_deriv x = true \/ exists r, x = CRead r) ->
  Forall (micro_quiet (length (objs st)) (cmd_subject x)) (compile c st x).
Proof.
  intros D.
  destruct x as [mode n stamped|k|i g|i rm prop sim3|i|i plane|i ids|i ids|i ref cs only|i ref|src|a b ia ib|srcs
                |k src cuts|src sm|src|r]; cbn in D |- *;
  try (destruct D as [D|[r0 D]]; discriminate);
  try (micro_forall ltac:(cbn; auto)).
  - split; [lia|eexists; reflexivity].
  - split; [lia|eexists; reflexivity].
  - destruct (c_split_self c), (traj_n st src <=? 1), k, cuts; micro_forall ltac:(cbn; auto).
  - destruct r as [pb m ref est|pb fr m ref est|m|m|x0 y0|s1 s2|p|rs kk|t|t|r0|t|t|t|r0|ts|t|t|e|t chk];
      cbn;
      try destruct pb; try destruct fr; try destruct chk;
      try (destruct rs as [|r0 [|r1 rs]]);
      micro_forall ltac:(cbn; auto).
Qed.

(* metrics, statistics, alignment targets, associations, pair selections, merges, DataFrame conversion, plots and
   file writers, and every derivation: no pre-existing cell is written and every existing object other than the
   one explicitly operated on keeps its cached arrays and its view *)
Theorem quiet_calls_pure : forall c x (st st' : state) W res,
  wf_state st -> (is_deriv x = true \/ exists r, x = CRead r) -> exec mk c x st = (st', W, res) ->
  (forall l, l < hnext (hp st) -> hval (hp st') l = hval (hp st) l) /\
  forall j, j < length (objs st) -> cmd_subject x <> Some j -> kept st st' j /\ obs_at st' j = obs_at st j.
Proof.
  intros c x st st' W res WS D E. unfold exec in E.
  destruct (run_micro_quiet c _ _ _ _ _ _ _ WS (compile_quiet c st x D) (le_n _) E) as [A B].
  split; [exact A|]. intros j LJ SJ. split; [auto|apply kept_obs_at; auto].
Qed.

(* ------------------------------------------------------------------ separation: disjoint footprints *)
Definition sep (st : state) (a b : nat) : Prop :=
  forall oa ob l, nth_error (objs st) a = Some oa -> nth_error (objs st) b = Some ob ->
                  In l (reach oa) -> In l (reach ob) -> False.

Lemma sep_sym (st : state) a b : sep st a b -> sep st b a.
Proof. unfold sep. intros H oa ob l A B C D. eapply H; eauto. Qed.

Lemma subject_cases k j : micro_subject k = Some j \/ micro_subject k <> Some j.
Proof.
  destruct (micro_subject k) as [i|]; [destruct (Nat.eq_dec i j); [left; congruence|right; congruence]|right; discriminate].
Qed.

(* every step keeps two separated objects separated: the touched object only gains fresh cells *)
Lemma micro_sep_pres c k (st st' : state) W res a b :
  wf_state st -> a <> b -> a < length (objs st) -> b < length (objs st) -> sep st a b ->
  exec_micro mk c k st = (st', W, res) -> sep st' a b.
Proof.
  intros WS NE LA LB SP E.
  destruct (micro_ok _ _ _ _ _ _ WS E) as (_ & _ & _ & OTH & SUB & _).
  destruct (nth_error (objs st) a) as [oa|] eqn:NA; [|apply nth_error_None in NA; lia].
  destruct (nth_error (objs st) b) as [ob|] eqn:NB; [|apply nth_error_None in NB; lia].
  pose proof (wf_obj_reach _ _ (wf_state_nth _ _ _ WS NA)) as RA. rewrite Forall_forall in RA.
  pose proof (wf_obj_reach _ _ (wf_state_nth _ _ _ WS NB)) as RB. rewrite Forall_forall in RB.
  intros oa' ob' l NA' NB' HA HB.
  destruct (subject_cases k a) as [SA|SA]; destruct (subject_cases k b) as [SB|SB].
  - congruence.
  - rewrite OTH in NB' by auto. rewrite NB in NB'; inversion NB'; subst ob'.
    destruct (SUB a oa SA NA) as (o' & N' & R' & _). rewrite NA' in N'; inversion N'; subst o'.
    rewrite Forall_forall in R'. destruct (R' _ HA) as [X|X].
    + eapply SP; eauto.
    + specialize (RB _ HB). lia.
  - rewrite OTH in NA' by auto. rewrite NA in NA'; inversion NA'; subst oa'.
    destruct (SUB b ob SB NB) as (o' & N' & R' & _). rewrite NB' in N'; inversion N'; subst o'.
    rewrite Forall_forall in R'. destruct (R' _ HB) as [X|X].
    + eapply SP; eauto.
    + specialize (RA _ HA). lia.
  - rewrite OTH in NA' by auto. rewrite OTH in NB' by auto.
    rewrite NA in NA'; inversion NA'; subst. rewrite NB in NB'; inversion NB'; subst. eapply SP; eauto.
Qed.

Definition micro_on (b : nat) (k : micro) : Prop :=
  match k with KFill _ _ => True | KMut i _ => i = b | _ => False end.

(* operating on b - even writing b's cells in place - cannot be seen through a separated object a *)
Lemma micro_on_obs c k (st st' : state) W res a b :
  wf_state st -> a <> b -> a < length (objs st) -> b < length (objs st) -> sep st a b -> micro_on b k ->
  exec_micro mk c k st = (st', W, res) -> obs_at st' a = obs_at st a.
Proof.
  intros WS NE LA LB SP ON E.
  destruct (micro_ok _ _ _ _ _ _ WS E) as ([_ A] & _ & _ & OTH & SUB & F & _).
  destruct (nth_error (objs st) a) as [oa|] eqn:NA; [|apply nth_error_None in NA; lia].
  pose proof (wf_obj_reach _ _ (wf_state_nth _ _ _ WS NA)) as RA. rewrite Forall_forall in RA.
  assert (HEAP : forall l, In l (reach oa) -> hval (hp st') l = hval (hp st) l).
  { intros l Hl. apply A; [auto|]. intros HI. rewrite Forall_forall in F.
    destruct (F _ HI) as [X|[_ (i & p & o & X & NO & HO)]]; [specialize (RA _ Hl); lia|].
    subst k. cbn in ON. subst i. eapply SP; eauto. }
  destruct (subject_cases k a) as [SA|SA].
  - destruct k as [i g|i p|d|i kk|i|i]; cbn in SA, ON; try congruence; try contradiction.
    inversion SA; subst i.
    destruct (SUB a oa eq_refl NA) as (o' & N' & _ & OB). destruct (OB g eq_refl) as [OB1 _].
    unfold obs_at. rewrite N', NA. cbn. f_equal. exact OB1.
  - apply obs_at_same; [exact WS|apply OTH; auto|]. intros o0 l N0 Hl. rewrite NA in N0; inversion N0; subst. auto.
Qed.

Lemma compile_only_on c (st : state) b x : only_on b x = true -> Forall (micro_on b) (compile c st x).
Proof.
  intros O.
  destruct x as [mode n stamped|k|i g|i rm prop sim3|i|i plane|i ids|i ids|i ref cs only|i ref|src|a0 b0 ia ib|srcs
                |k src cuts|src sm|src|r]; cbn in O |- *; try discriminate;
  try (apply Nat.eqb_eq in O; subst i); try destruct only; try destruct cs;
  micro_forall ltac:(cbn; auto).
Qed.

Theorem separated_independent : forall c hist (st : state) a b,
  wf_state st -> a <> b -> a < length (objs st) -> b < length (objs st) -> sep st a b ->
  Forall (fun x => only_on b x = true) hist ->
  obs_at (run mk c hist st) a = obs_at st a.
Proof.
  intros c hist st a b WS NE LA LB SP FQ.
  pose (P := fun s : state => a < length (objs s) /\ b < length (objs s) /\ sep s a b /\ obs_at s a = obs_at st a).
  destruct (run_inv c (fun x => only_on b x = true) P) with (hist := hist) (st := st) as [(_ & _ & _ & R) _]; auto.
  - intros x s s' W res QX PS WSs Es. unfold exec in Es.
    apply (run_micro_inv c (micro_on b) P) with (ks := compile c s x) (st := s) (W := W) (res := res); auto.
    + intros k s0 s1 W0 r0 QK (PA & PB & PS0 & PO) WS0 E0.
      destruct (micro_ok _ _ _ _ _ _ WS0 E0) as (_ & _ & LL & _).
      split; [lia|split; [lia|split]].
      * eapply micro_sep_pres; eauto.
      * rewrite <- PO. eapply micro_on_obs; eauto.
    + apply compile_only_on; exact QX.
  - unfold P; auto.
Qed.

(* objects created from fresh cells only are separated from everything that existed before *)
Definition allsep_from (m : nat) (st : state) : Prop :=
  forall a b, a <> b -> (m <= a \/ m <= b) -> a < length (objs st) -> b < length (objs st) -> sep st a b.

Definition micro_fresh (m : nat) (k : micro) : Prop :=
  match k with KFill _ _ => True | KNew d => fresh_kind d = true | KMut i _ => m <= i | _ => False end.

Lemma micro_fresh_step c m k (st st' : state) W res :
  wf_state st -> m <= length (objs st) -> allsep_from m st -> micro_fresh m k ->
  exec_micro mk c k st = (st', W, res) -> allsep_from m st'.
Proof.
  intros WS LM AS MF E.
  pose proof (micro_ok _ _ _ _ _ _ WS E) as (_ & _ & LL & OTH & _ & _ & NEW & _).
  intros a b NE GE LA LB.
  destruct (Nat.lt_ge_cases a (length (objs st))) as [OA|NA]; destruct (Nat.lt_ge_cases b (length (objs st))) as [OB|NB].
  - eapply micro_sep_pres; eauto.
  - (* b is new, a is old *)
    intros oa ob l HA HB IA IB.
    destruct (NEW b ob NB HB) as (d & -> & FR). cbn in MF. destruct (FR MF) as [FB _].
    rewrite OTH in HA by (auto; cbn; discriminate).
    pose proof (wf_obj_reach _ _ (wf_state_nth _ _ _ WS HA)) as RA. rewrite Forall_forall in RA, FB.
    specialize (RA _ IA). specialize (FB _ IB). lia.
  - intros oa ob l HA HB IA IB.
    destruct (NEW a oa NA HA) as (d & -> & FR). cbn in MF. destruct (FR MF) as [FA _].
    rewrite OTH in HB by (auto; cbn; discriminate).
    pose proof (wf_obj_reach _ _ (wf_state_nth _ _ _ WS HB)) as RB. rewrite Forall_forall in RB, FA.
    specialize (RB _ IB). specialize (FA _ IA). lia.
  - (* both new: a fresh creation adds one object *)
    destruct (nth_error (objs st') a) as [oa|] eqn:HA; [|apply nth_error_None in HA; lia].
    destruct (NEW a oa NA HA) as (d & -> & FR). cbn in MF. destruct (FR MF) as [_ L1]. lia.
Qed.

Lemma run_micro_fresh c m ks : forall (st st' : state) W res,
  wf_state st -> m <= length (objs st) -> allsep_from m st -> Forall (micro_fresh m) ks ->
  run_micro mk c ks st = (st', W, res) -> allsep_from m st'.
Proof.
  intros st st' W res WS LM AS FQ E.
  apply (run_micro_inv c (micro_fresh m) (fun s => m <= length (objs s) /\ allsep_from m s))
    with (ks := ks) (st := st) (W := W) (res := res); auto.
  intros k s s' W0 r0 QK [PL PA] WSs Es.
  destruct (micro_ok _ _ _ _ _ _ WSs Es) as (_ & _ & LL & _).
  split; [lia|eapply micro_fresh_step; eauto].
Qed.

Definition fresh_deriv (x : cmd) : bool :=
  match x with
  | CInit _ _ _ | CInitBag _ | CCopy _ | CAssoc _ _ _ _ | CMerge _ | CCtorPQ _ => true
  | _ => false
  end.

Lemma compile_fresh c (st : state) x :
  fresh_deriv x = true -> Forall (micro_fresh (length (objs st))) (compile c st x) /\ Forall no_alias (compile c st x).
Proof.
  intros D.
  destruct x as [mode n stamped|k|i g|i rm prop sim3|i|i plane|i ids|i ids|i ref cs only|i ref|src|a b ia ib|srcs
                |k src cuts|src sm|src|r]; cbn in D |- *; try discriminate;
  (split; [micro_forall ltac:(cbn; first [exact I|reflexivity|lia])|micro_forall ltac:(intros ?; discriminate)]).
Qed.

(* ------------------------------------------------------------------ derived objects *)
Definition derivation (x : cmd) : bool :=
  match x with
  | CCopy _ | CAssoc _ _ _ _ | CMerge _ | CSplit _ _ _ | CCtorPoses _ _ | CCtorPQ _ => true
  | _ => false
  end.

Lemma compile_new_no_alias (st : state) x : derivation x = true -> Forall no_alias (compile cfg_new st x).
Proof.
  intros D.
  destruct x as [mode n stamped|k|i g|i rm prop sim3|i|i plane|i ids|i ids|i ref cs only|i ref|src|a b ia ib|srcs
                |k src cuts|src sm|src|r]; cbn in D |- *; try discriminate;
  try (micro_forall ltac:(intros ?; discriminate)).
  destruct (traj_n st src <=? 1), k, cuts; micro_forall ltac:(intros ?; discriminate).
Qed.

Lemma derivation_subject x : derivation x = true -> cmd_subject x = None.
Proof. destruct x; cbn; try discriminate; auto. Qed.

Lemma only_on_subject a b y : only_on b y = true -> a <> b -> cmd_subject y <> Some a.
Proof.
  destruct y; cbn; try discriminate; intros O NE; try (apply Nat.eqb_eq in O; subst); congruence.
Qed.

Lemma only_on_subjects a b hist :
  a <> b -> Forall (fun y => only_on b y = true) hist -> Forall (fun y => cmd_subject y <> Some a) hist.
Proof. intros NE F. eapply Forall_impl; [|exact F]. cbn. intros y O. eapply only_on_subject; eauto. Qed.

(* copies, associated trajectories, merged trajectories, split parts (and constructor results) under the current
   code: the derived object b is a different object, deriving it did not change the source a, and no history of
   operations on the one - of any length - changes what is seen through the other *)
Theorem derived_independent_new : forall x (st st1 : state) W res,
  wf_state st -> derivation x = true -> exec mk cfg_new x st = (st1, W, res) ->
  forall a b, a < length (objs st) -> In b res ->
    a <> b /\ b < length (objs st1) /\ obs_at st1 a = obs_at st a /\
    (forall hist, Forall (fun y => only_on b y = true) hist -> obs_at (run mk cfg_new hist st1) a = obs_at st a) /\
    (forall hist, Forall (fun y => only_on a y = true) hist -> obs_at (run mk cfg_new hist st1) b = obs_at st1 b).
Proof.
  intros x st st1 W res WS D E a b LA HB.
  assert (RB : length (objs st) <= b < length (objs st1)).
  { unfold exec in E. destruct (run_micro_frame _ _ _ _ _ _ WS E) as (_ & _ & _ & _ & R).
    apply R; [apply compile_new_no_alias; exact D|exact HB]. }
  destruct (exec_frame _ _ _ _ _ _ WS E) as (_ & WS1 & LL).
  assert (NS : cmd_subject x <> Some a) by (rewrite derivation_subject by exact D; discriminate).
  destruct (exec_obs_new _ _ _ _ _ _ WS E LA NS) as [OA LA1].
  assert (NE : a <> b) by lia.
  split; [exact NE|split; [lia|split; [exact OA|split]]].
  - intros hist F. rewrite <- OA. apply independent_new; [exact WS1|exact LA1|].
    eapply only_on_subjects; eauto.
  - intros hist F. apply independent_new; [exact WS1|lia|]. eapply only_on_subjects; [|exact F]. congruence.
Qed.

(* copies, associated and merged trajectories: built from fresh cells only, hence independent even when an
   operation writes the cells of its object in place (old project()) *)
Theorem fresh_derived_independent : forall c x (st st1 : state) W res,
  wf_state st -> fresh_deriv x = true -> exec mk c x st = (st1, W, res) ->
  forall a b, a < length (objs st) -> In b res ->
    a <> b /\ b < length (objs st1) /\ sep st1 a b /\ obs_at st1 a = obs_at st a /\
    (forall hist, Forall (fun y => only_on b y = true) hist -> obs_at (run mk c hist st1) a = obs_at st a) /\
    (forall hist, Forall (fun y => only_on a y = true) hist -> obs_at (run mk c hist st1) b = obs_at st1 b).
Proof.
  intros c x st st1 W res WS D E a b LA HB.
  destruct (compile_fresh c st x D) as [CF CN].
  assert (RB : length (objs st) <= b < length (objs st1)).
  { unfold exec in E. destruct (run_micro_frame _ _ _ _ _ _ WS E) as (_ & _ & _ & _ & R). apply R; auto. }
  destruct (exec_frame _ _ _ _ _ _ WS E) as (_ & WS1 & LL).
  assert (AS : allsep_from (length (objs st)) st1).
  { unfold exec in E. eapply run_micro_fresh; [exact WS|apply le_n| |exact CF|exact E].
    intros a0 b0 _ GE L1 L2. lia. }
  assert (NE : a <> b) by lia.
  assert (SP : sep st1 a b) by (apply AS; auto; lia).
  assert (ID : is_deriv x = true \/ exists r, x = CRead r) by (left; destruct x; cbn in D |- *; auto; discriminate).
  assert (NS : cmd_subject x <> Some a) by (destruct x; cbn in D |- *; try discriminate).
  destruct (quiet_calls_pure c x _ _ _ _ WS ID E) as [_ K]. destruct (K a LA NS) as [_ OA].
  split; [exact NE|split; [lia|split; [exact SP|split; [exact OA|split]]]].
  - intros hist F. rewrite <- OA. eapply separated_independent; eauto; lia.
  - intros hist F. eapply separated_independent; [exact WS1| | | |apply sep_sym; exact SP|exact F]; auto; lia.
Qed.

Theorem readers_pure : forall c r (st st' : state) W res,
  wf_state st -> exec mk c (CRead r) st = (st', W, res) ->
  (forall l, l < hnext (hp st) -> hval (hp st') l = hval (hp st) l) /\
  forall j, j < length (objs st) -> cmd_subject (CRead r) <> Some j -> kept st st' j /\ obs_at st' j = obs_at st j.
Proof. intros c r st st' W res WS E. eapply quiet_calls_pure; eauto. Qed.

Theorem derivations_pure : forall c x (st st' : state) W res,
  wf_state st -> is_deriv x = true -> exec mk c x st = (st', W, res) ->
  (forall l, l < hnext (hp st) -> hval (hp st') l = hval (hp st) l) /\
  forall j, j < length (objs st) -> kept st st' j /\ obs_at st' j = obs_at st j.
Proof.
  intros c x st st' W res WS D E. destruct (quiet_calls_pure c x _ _ _ _ WS (or_introl D) E) as [A B].
  split; [exact A|]. intros j LJ. apply B; auto. destruct x; cbn in D |- *; discriminate.
Qed.

Theorem new_code_writes_no_preexisting_cell : forall x (st st' : state) W res,
  wf_state st -> exec mk cfg_new x st = (st', W, res) ->
  Forall (fun l => hnext (hp st) <= l) W /\
  forall l, l < hnext (hp st) -> hval (hp st') l = hval (hp st) l.
Proof. intros. split; [eapply exec_new_writes_fresh; eauto|eapply exec_new_heap; eauto]. Qed.

Theorem reachable_wf : forall c hist (d : V), wf_state (run mk c hist (empty_state d)).
Proof. intros. apply run_wf, empty_wf. Qed.

End Proofs.

(* ------------------------------------------------------------------ witnesses: old behaviour, non-vacuity *)
Definition mk1 (tag idx : nat) (args : list nat) : nat := S (tag + idx + list_sum args).

Lemma exec_eta {V : Type} (e : state V * list loc * list nat) : e = (fst (fst e), snd (fst e), snd e).
Proof. destruct e as [[? ?] ?]; reflexivity. Qed.

Definition w_st : state nat := run mk1 cfg_old [CInit 0 3 true; CGet 0 GPos] (empty_state 0).

(* old code: a split part holds the parent's pose matrices and project() wrote them in place *)
Theorem old_split_parts_independent_refuted :
  exists (st : state nat) k src cuts st1 W res b hist,
    wf_state st /\ src < length (objs st) /\ exec mk1 cfg_old (CSplit k src cuts) st = (st1, W, res) /\
    In b res /\ b <> src /\ Forall (fun y => only_on b y = true) hist /\
    obs_at mk1 (run mk1 cfg_old hist st1) src <> obs_at mk1 st1 src.
Proof.
  pose (e := exec mk1 cfg_old (CSplit SplitTime 0 [1]) w_st).
  exists w_st, SplitTime, 0, [1], (fst (fst e)), (snd (fst e)), (snd e), 1, [CProject 1 0].
  split; [apply run_wf, empty_wf|]. split; [vm_compute; lia|]. split; [apply exec_eta|].
  split; [vm_compute; auto|]. split; [discriminate|]. split; [repeat constructor|].
  vm_compute. intros H; discriminate H.
Qed.

(* the same history on the current code leaves the parent alone although the cells are still shared *)
Theorem new_split_part_shares_cells_but_is_independent :
  let st := run mk1 cfg_new [CInit 0 3 true; CGet 0 GPos] (empty_state 0) in
  let st1 := fst (fst (exec mk1 cfg_new (CSplit SplitTime 0 [1]) st)) in
  let st2 := run mk1 cfg_new [CProject 1 0] st1 in
  (exists l oa ob, nth_error (objs st1) 0 = Some oa /\ nth_error (objs st1) 1 = Some ob /\ In l (reach oa) /\ In l (reach ob)) /\
  obs_at mk1 st2 0 = obs_at mk1 st1 0 /\ obs_at mk1 st2 1 <> obs_at mk1 st1 1.
Proof.
  cbv zeta. split; [|split].
  - vm_compute. eexists _, _, _. split; [reflexivity|split; [reflexivity|split; [right; right; left; reflexivity|right; left; reflexivity]]].
  - vm_compute. reflexivity.
  - vm_compute. intros H; discriminate H.
Qed.

(* old code: with nothing to cut the single "part" is the trajectory itself *)
Theorem old_split_without_cut_refuted :
  exists (st : state nat) k src st1 W res b hist,
    wf_state st /\ src < length (objs st) /\ exec mk1 cfg_old (CSplit k src []) st = (st1, W, res) /\
    In b res /\ Forall (fun y => only_on b y = true) hist /\
    obs_at mk1 (run mk1 cfg_old hist st1) src <> obs_at mk1 st1 src.
Proof.
  pose (e := exec mk1 cfg_old (CSplit SplitTime 0 []) w_st).
  exists w_st, SplitTime, 0, (fst (fst e)), (snd (fst e)), (snd e), 0, [CScale 0].
  split; [apply run_wf, empty_wf|]. split; [vm_compute; lia|]. split; [apply exec_eta|].
  split; [vm_compute; auto|]. split; [repeat constructor|].
  vm_compute. intros H; discriminate H.
Qed.

Theorem new_split_without_cut_is_a_copy :
  let st := w_st in
  let e := exec mk1 cfg_new (CSplit SplitTime 0 []) st in
  snd e = [1] /\ obs_at mk1 (run mk1 cfg_new [CScale 1; CProject 1 2] (fst (fst e))) 0 = obs_at mk1 st 0.
Proof. cbv zeta. split; vm_compute; reflexivity. Qed.

(* old code: an object built with PosePath3D(poses_se3=A.poses_se3) and then projected rewrote A's matrices *)
Theorem old_constructor_shared_matrices_refuted :
  exists (st : state nat) src st1 W res b hist,
    wf_state st /\ src < length (objs st) /\ exec mk1 cfg_old (CCtorPoses src false) st = (st1, W, res) /\
    In b res /\ b <> src /\ Forall (fun y => only_on b y = true) hist /\
    obs_at mk1 (run mk1 cfg_old hist st1) src <> obs_at mk1 st1 src.
Proof.
  pose (e := exec mk1 cfg_old (CCtorPoses 0 false) w_st).
  exists w_st, 0, (fst (fst e)), (snd (fst e)), (snd e), 1, [CProject 1 1].
  split; [apply run_wf, empty_wf|]. split; [vm_compute; lia|]. split; [apply exec_eta|].
  split; [vm_compute; auto|]. split; [discriminate|]. split; [repeat constructor|].
  vm_compute. intros H; discriminate H.
Qed.

(* non-vacuity of the operations: a history that changes the derived object and not the source *)
Theorem example_history_changes_only_the_copy :
  let st := run mk1 cfg_new [CInit 1 4 true; CInit 0 4 true; CCopy 0] (empty_state 0) in
  let st' := run mk1 cfg_new [CTransform 2 true true true; CGet 0 GPoses; CProject 2 0; CReduce 2 [0; 2]; CAlign 2 1 true false] st in
  obs_at mk1 st' 0 = obs_at mk1 st 0 /\ obs_at mk1 st' 1 = obs_at mk1 st 1 /\ obs_at mk1 st' 2 <> obs_at mk1 st 2.
Proof. cbv zeta. split; [|split]; vm_compute; [reflexivity|reflexivity|intros H; discriminate H]. Qed.
