(* UnitsTie.v - translator tie of property C12.  The terms of EvoGen.UnitsGen are re-translated from
   the repository under test on every run; the theorems below are re-checked against them:
   the interpreted change_unit (with the re-translated LENGTH_UNITS / ANGLE_UNITS /
   METER_SCALE_FACTORS / Unit members) takes the same decision as the hand model Stats.decide on
   all 2 x 10 x 10 combinations (error array empty or not, old unit, new unit), a refusal leaves
   the object untouched, the enum members and the relation -> unit dispatch of APE/RPE are the ones of
   the model, and ape()/rpe() perform their result-relevant steps in the modelled order. *)
From Coq Require Import List String ZArith QArith Bool.
From Evo Require Import Stats PyAstC12.
From EvoGen Require Import UnitsGen.
Import ListNotations.
Open Scope string_scope.

Definition unit_val (u : Unit) : val := VEnum "Unit" (unit_name u).

Definition genv : option env :=
  match eval [] LENGTH_UNITS, eval [] ANGLE_UNITS, eval [] METER_SCALE_FACTORS with
  | Some a, Some b, Some c => Some [("LENGTH_UNITS", a); ("ANGLE_UNITS", b); ("METER_SCALE_FACTORS", c)]
  | _, _, _ => None
  end.

Definition self0 (n : Z) (u : Unit) : val := VObj [("unit", unit_val u); ("error", VErr n 1 0)].

(* substring test, for the exception messages *)
Fixpoint contains_from (fuel : nat) (pat s : string) : bool :=
  if String.prefix pat s then true
  else match fuel, s with
       | S f, String _ r => contains_from f pat r
       | _, _ => false
       end.
Definition contains (pat s : string) : bool := contains_from (String.length s) pat s.

Definition refusal_of_message (m : string) : option refusal :=
  if contains "does not support conversions" m then Some RefNoConversions
  else if contains "cannot convert" m then Some RefAngleLength
  else if contains "error array is empty" m then Some RefEmpty
  else if contains "unknown unit combination" m then Some RefUnknown
  else None.

(* fractions are compared in lowest terms *)
Definition norm_decision (d : decision) : decision :=
  match d with
  | DScale num den => let q := Qred (num # den) in DScale (Qnum q) (Qden q)
  | _ => d
  end.

Definition state_of (en : env) : option (val * val) :=
  match lookup "self" en with
  | Some (VObj f) => match lookup "unit" f, lookup "error" f with Some u, Some e => Some (u, e) | _, _ => None end
  | _ => None
  end.

(* the decision the SOURCE takes: run the re-translated body on self = {unit: u, error: n values} *)
Definition src_decision (nonempty : bool) (u v : Unit) : option decision :=
  let n := if nonempty then 3%Z else 0%Z in
  match genv with
  | None => None
  | Some g =>
      let en0 := ("self", self0 n u) :: ("new_unit", unit_val v) :: g in
      let finished (en : env) :=
        match state_of en with
        | Some (u', VErr n' f k) =>
            if negb (Z.eqb n' n) then None
            else if val_eqb u' (unit_val u) && Qeq_bool f 1 && Z.eqb k 0 && unit_eqb u v then Some DNoop
            else if negb (val_eqb u' (unit_val v)) then None
            else if Z.eqb k 0 then (let q := Qred f in Some (DScale (Qnum q) (Qden q)))
            else if Qeq_bool f 1 && Z.eqb k 1 then Some DRad2Deg
            else if Qeq_bool f 1 && Z.eqb k (-1) then Some DDeg2Rad
            else None
        | _ => None
        end in
      match run en0 change_unit_body with
      | Normal en => finished en
      | Returned VNone en => finished en
      | Returned _ _ => None
      | Raised (VExc "MetricsException" m) en =>
          (* a refusal must leave values and unit untouched *)
          match state_of en with
          | Some (u', VErr n' f k) =>
              if val_eqb u' (unit_val u) && Z.eqb n' n && Qeq_bool f 1 && Z.eqb k 0
              then option_map DRefuse (refusal_of_message m) else None
          | _ => None
          end
      | Raised _ _ => None
      | Stuck => None
      end
  end.

Definition decision_eqb (a b : decision) : bool :=
  match a, b with
  | DNoop, DNoop | DRad2Deg, DRad2Deg | DDeg2Rad, DDeg2Rad => true
  | DScale n d, DScale n' d' => Z.eqb n n' && Pos.eqb d d'
  | DRefuse r, DRefuse r' =>
      match r, r' with
      | RefNoConversions, RefNoConversions | RefAngleLength, RefAngleLength
      | RefEmpty, RefEmpty | RefUnknown, RefUnknown => true
      | _, _ => false
      end
  | _, _ => false
  end.

Lemma decision_eqb_eq a b : decision_eqb a b = true -> a = b.
Proof.
  destruct a as [| n d | | | r], b as [| n' d' | | | r']; cbn; try discriminate; try reflexivity.
  - intros H. apply andb_prop in H. destruct H as [H1 H2].
    apply Z.eqb_eq in H1. apply Pos.eqb_eq in H2. subst. reflexivity.
  - destruct r, r'; try discriminate; reflexivity.
Qed.

Definition agree_b (ne : bool) (u v : Unit) : bool :=
  match src_decision ne u v with
  | Some d => decision_eqb d (norm_decision (decide ne u v))
  | None => false
  end.

Lemma in_all_units u : In u all_units.
Proof. destruct u; cbn; tauto. Qed.

Lemma source_agrees_b :
  forallb (fun ne => forallb (fun u => forallb (fun v => agree_b ne u v) all_units) all_units) [true; false] = true.
Proof. vm_compute. reflexivity. Qed.

(* all 200 combinations: the source decides exactly as the hand model *)
Theorem source_change_unit_agrees : forall (ne : bool) (u v : Unit),
  src_decision ne u v = Some (norm_decision (decide ne u v)).
Proof.
  intros ne u v. pose proof source_agrees_b as H.
  rewrite forallb_forall in H. specialize (H ne (ltac:(destruct ne; cbn; tauto))).
  rewrite forallb_forall in H. specialize (H u (in_all_units u)).
  rewrite forallb_forall in H. specialize (H v (in_all_units v)).
  unfold agree_b in H. destruct (src_decision ne u v) as [d|]; [|discriminate].
  apply decision_eqb_eq in H. rewrite H. reflexivity.
Qed.

(* the enum members (names and values) are the ones of the model *)
Definition relation_name (r : Relation) : string :=
  match r with
  | R_full_transformation => "full_transformation"
  | R_translation_part => "translation_part"
  | R_rotation_part => "rotation_part"
  | R_rotation_angle_rad => "rotation_angle_rad"
  | R_rotation_angle_deg => "rotation_angle_deg"
  | R_point_distance => "point_distance"
  | R_point_distance_error_ratio => "point_distance_error_ratio"
  end.
Definition all_relations : list Relation :=
  [R_full_transformation; R_translation_part; R_rotation_part; R_rotation_angle_rad;
   R_rotation_angle_deg; R_point_distance; R_point_distance_error_ratio].

Theorem source_unit_members :
  Unit_members = map (fun u => (unit_name u, EStr (unit_value u))) all_units.
Proof. vm_compute. reflexivity. Qed.

Theorem source_relation_members :
  PoseRelation_members = map (fun r => (relation_name r, EStr (relation_value r))) all_relations.
Proof. vm_compute. reflexivity. Qed.

(* APE.__init__ / RPE.__init__: relation -> unit *)
Definition unit_field (en : env) : option val :=
  match lookup "self" en with
  | Some (VObj f) => lookup "unit" f
  | _ => None
  end.
Definition dispatch_unit (body : list stmt) (r : Relation) : option val :=
  match run [("self", VObj [("unit", VNone)]); ("pose_relation", VEnum "PoseRelation" (relation_name r))] body with
  | Normal en => unit_field en
  | _ => None
  end.

Lemma in_all_relations r : In r all_relations.
Proof. destruct r; cbn; tauto. Qed.

Theorem source_metric_units : forall r : Relation,
  dispatch_unit ape_unit_dispatch r = Some (unit_val (ape_unit r)) /\
  dispatch_unit rpe_unit_dispatch r = Some (unit_val (rpe_unit r)).
Proof. intros r; destruct r; vm_compute; split; reflexivity. Qed.

(* ape(): the title is taken from str(metric) after change_unit; arrays are stored whole *)
Theorem source_ape_steps :
  ape_steps =
  ["process_data"; "change_unit"; "title=str(metric)"; "get_result";
   "add_trajectory traj_ref"; "add_trajectory traj_est";
   "seconds_from_start=np.array([t - traj_est.timestamps[0] for t in traj_est.timestamps])";
   "add_np_array seconds_from_start whole seconds_from_start";
   "add_np_array timestamps whole traj_est.timestamps";
   "add_np_array distances_from_start whole traj_ref.distances";
   "add_np_array distances whole traj_est.distances";
   "add_np_array alignment_transformation_sim3 whole alignment_transformation"].
Proof. vm_compute. reflexivity. Qed.

(* rpe(): both trajectories are reduced to [0] + delta_ids BEFORE they are stored and before the
   arrays are taken, and each of the four arrays is sliced with [1:] exactly once *)
Theorem source_rpe_steps :
  rpe_steps =
  ["process_data"; "change_unit"; "title=str(metric)"; "get_result";
   "ids=[0]+delta_ids"; "reduce_to_ids traj_ref ids"; "reduce_to_ids traj_est ids";
   "add_trajectory traj_ref"; "add_trajectory traj_est";
   "seconds_from_start=np.array([t - traj_est.timestamps[0] for t in traj_est.timestamps])";
   "add_np_array seconds_from_start sliced seconds_from_start";
   "add_np_array timestamps sliced traj_est.timestamps";
   "add_np_array distances_from_start sliced traj_ref.distances";
   "add_np_array distances sliced traj_est.distances";
   "add_np_array alignment_transformation_sim3 whole alignment_transformation"].
Proof. vm_compute. reflexivity. Qed.
