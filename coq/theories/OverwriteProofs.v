(* OverwriteProofs.v - soundness of the static checker [guarded_b] of Overwrite.v (C17). *)
From Coq Require Import List Arith Bool String Lia.
From Evo Require Import Overwrite.
Import ListNotations.
Open Scope string_scope.

(* ------------------------------------------------------------------------------------------ *)
(* meaning of the abstract facts                                                                *)
(* ------------------------------------------------------------------------------------------ *)
Section Sound.
Variable o : oracle.
Variable fs0 : fsys.          (* the file system when the writer is entered *)

Definition justified (st : state) (p : path) : Prop :=
  fs0 p = None \/ o_flag o = false \/ In (p, "y") (s_prompts st).

Definition val_ok (st : state) (x : value) : Prop :=
  match x with VHandle => True | VPath p _ => fs0 p = None \/ In (p, "y") (s_prompts st) end.

Definition R (a : astate) (st : state) : Prop :=
  (a_noflag a = true -> o_flag o = false) /\
  forall v, In v (a_clr a) -> o_flag o = false \/ val_ok st (s_rho st v).

(* files only ever come into existence; every write so far is justified; files never written are untouched;
   every prompt is about a file that exists *)
Definition Inv (st : state) : Prop :=
  (forall p, fs0 p <> None -> s_fs st p <> None) /\
  (forall p, In p (s_writes st) -> justified st p) /\
  (forall p, ~ In p (s_writes st) -> s_fs st p = fs0 p).

Lemma mem_In v l : mem v l = true <-> In v l.
Proof.
  unfold mem. rewrite existsb_exists. split.
  - intros (x & H & E). apply Nat.eqb_eq in E. subst. exact H.
  - intros H. exists v. split; [exact H|apply Nat.eqb_refl].
Qed.

Lemma val_ok_mono st st' x : incl (s_prompts st) (s_prompts st') -> val_ok st x -> val_ok st' x.
Proof. intros I. destruct x; simpl; auto. intros [H|H]; auto. Qed.

Lemma R_weaken a b st : ale a b = true -> R b st -> R a st.
Proof.
  unfold ale. intros H (Rf & Rc). apply andb_true_iff in H as [H1 H2]. split.
  - intros X. rewrite X in H1. simpl in H1. auto.
  - intros v Hv. rewrite forallb_forall in H2. specialize (H2 _ Hv). unfold allowed in H2.
    apply orb_true_iff in H2 as [N|M]; [left; auto|]. apply Rc. apply mem_In. exact M.
Qed.

Lemma R_join_l a y j st : R a st -> ajoin (Some a) y = Some j -> R j st.
Proof.
  intros (Rf & Rc) J. destruct y as [b|]; simpl in J; inversion J; subst; clear J.
  - split; simpl.
    + intros X. apply andb_true_iff in X as [X _]. auto.
    + intros v Hv. apply in_app_or in Hv as [Hv|Hv]; [|apply in_app_or in Hv as [Hv|Hv]].
      * destruct (a_noflag a) eqn:N; [left; auto|contradiction].
      * destruct (a_noflag b); [auto|contradiction].
      * unfold inter in Hv. apply filter_In in Hv as [Hv _]. auto.
  - split; auto.
Qed.
Lemma R_join_r b x j st : R b st -> ajoin x (Some b) = Some j -> R j st.
Proof.
  intros (Rf & Rc) J. destruct x as [a|]; simpl in J; inversion J; subst; clear J.
  - split; simpl.
    + intros X. apply andb_true_iff in X as [_ X]. auto.
    + intros v Hv. apply in_app_or in Hv as [Hv|Hv]; [|apply in_app_or in Hv as [Hv|Hv]].
      * destruct (a_noflag a); [auto|contradiction].
      * destruct (a_noflag b) eqn:N; [left; auto|contradiction].
      * unfold inter in Hv. apply filter_In in Hv as [_ Hv]. apply mem_In in Hv. auto.
  - split; auto.
Qed.
Lemma ajoin_some_l a y : exists j, ajoin (Some a) y = Some j.
Proof. destruct y; simpl; eauto. Qed.
Lemma ajoin_some_r x b : exists j, ajoin x (Some b) = Some j.
Proof. destruct x; simpl; eauto. Qed.

(* what evaluating a condition can change *)
Definition cond_frame (st st' : state) : Prop :=
  s_fs st' = s_fs st /\ s_rho st' = s_rho st /\ s_writes st' = s_writes st /\
  incl (s_prompts st) (s_prompts st').

Lemma cond_frame_refl st : cond_frame st st.
Proof. repeat split; auto. apply incl_refl. Qed.
Lemma cond_frame_trans a b c : cond_frame a b -> cond_frame b c -> cond_frame a c.
Proof.
  intros (A1 & A2 & A3 & A4) (B1 & B2 & B3 & B4). repeat split; try congruence. eapply incl_tran; eauto.
Qed.

Lemma R_frame a st st' : cond_frame st st' -> R a st -> R a st'.
Proof.
  intros (F1 & F2 & F3 & F4) (Rf & Rc). split; auto.
  intros v Hv. rewrite F2. destruct (Rc v Hv) as [H|H]; [left; exact H|right; eapply val_ok_mono; eauto].
Qed.
Lemma Inv_frame st st' : cond_frame st st' -> Inv st -> Inv st'.
Proof.
  intros (F1 & F2 & F3 & F4) (I1 & I2 & I3). unfold Inv. rewrite F1, F3. repeat split; auto.
  intros p Hp. destruct (I2 p Hp) as [H|[H|H]]; unfold justified; auto.
Qed.

Lemma eval_cond_sound : forall c st b st' a,
  eval_cond o st c = (b, st') -> R a st -> Inv st ->
  cond_frame st st' /\ exists a', assume c b a = Some a' /\ R a' st'.
Proof.
  induction c as [|v|v s p|k|c IH|x IHx y IHy|x IHx y IHy]; intros st b st' a E HR HI; cbn [eval_cond] in E.
  - (* flag *) inversion E; subst. split; [apply cond_frame_refl|]. cbn [assume].
    destruct HR as (Rf & Rc). destruct (o_flag o) eqn:F.
    + destruct (a_noflag a) eqn:N; [specialize (Rf eq_refl); congruence|]. exists a. split; auto.
      split; [congruence|]. intros w Hw. destruct (Rc w Hw); [congruence|right; assumption].
    + eexists. split; [reflexivity|]. split; simpl; [auto|]. intros w Hw. left. exact F.
  - (* check *)
    cbn [assume]. destruct (s_rho st v) as [p k|] eqn:RV.
    + destruct (is_some (s_fs st p)) eqn:EX.
      * inversion E; subst; clear E. split.
        { repeat split; simpl; auto. intros x Hx. right. exact Hx. }
        destruct (String.eqb (o_answer o (s_ca st)) "y") eqn:Y.
        -- apply String.eqb_eq in Y. eexists. split; [reflexivity|].
           destruct HR as (Rf & Rc). split; [exact Rf|]. simpl. intros w [<-|Hw].
           ++ rewrite RV. simpl. right. right. left. rewrite Y. reflexivity.
           ++ destruct (Rc _ Hw) as [H|H]; [left; exact H|right].
              eapply val_ok_mono; [|exact H]. simpl. intros x Hx. right. exact Hx.
        -- eexists. split; [reflexivity|]. eapply R_frame; [|exact HR].
           repeat split; simpl; auto. intros x Hx. right. exact Hx.
      * inversion E; subst; clear E. split; [apply cond_frame_refl|].
        eexists. split; [reflexivity|]. destruct HR as (Rf & Rc). split; [exact Rf|]. simpl. intros w [<-|Hw]; auto.
        rewrite RV. simpl. right. left. destruct HI as (I1 & _).
        destruct (fs0 p) eqn:F0; auto. exfalso. apply (I1 p); [congruence|].
        destruct (s_fs st' p); [discriminate|reflexivity].
    + inversion E; subst; clear E. split; [apply cond_frame_refl|].
      eexists. split; [reflexivity|]. destruct HR as (Rf & Rc). split; [exact Rf|]. simpl. intros w [<-|Hw]; auto.
      rewrite RV. right. exact I.
  - (* isinstance *)
    inversion E; subst; clear E. split; [apply cond_frame_refl|]. cbn [assume].
    destruct (s_rho st' v) as [q k|] eqn:RV.
    + destruct k.
      * destruct s; [exists a; auto|]. simpl. exists a; auto.
      * destruct p; [exists a; split; auto; destruct s; auto|]. destruct s; simpl; exists a; auto.
    + destruct (s && p); eexists; (split; [reflexivity|]); auto.
      destruct HR as (Rf & Rc). split; [exact Rf|]. simpl. intros w [<-|Hw]; auto. rewrite RV. right. exact I.
  - (* opaque *)
    inversion E; subst; clear E. split; [repeat split; simpl; auto; apply incl_refl|].
    exists a. split; [reflexivity|]. eapply R_frame; [|exact HR]. repeat split; simpl; auto. apply incl_refl.
  - (* not *)
    destruct (eval_cond o st c) as [b0 st0] eqn:E0. inversion E; subst; clear E.
    destruct (IH _ _ _ _ E0 HR HI) as (F & a' & A & RA). split; [exact F|].
    exists a'. cbn [assume]. rewrite negb_involutive. auto.
  - (* and *)
    destruct (eval_cond o st x) as [bx st1] eqn:Ex.
    destruct (IHx _ _ _ _ Ex HR HI) as (F1 & a1 & A1 & R1).
    destruct bx.
    + destruct (IHy _ _ _ _ E R1 (Inv_frame _ _ F1 HI)) as (F2 & a2 & A2 & R2).
      split; [eapply cond_frame_trans; eauto|]. cbn [assume]. destruct b.
      * rewrite A1. simpl. eauto.
      * rewrite A1. simpl. rewrite A2. destruct (ajoin_some_r (assume x false a) a2) as (j & J).
        exists j. split; [exact J|]. eapply R_join_r; eauto.
    + inversion E; subst; clear E. split; [exact F1|]. cbn [assume]. rewrite A1.
      destruct (ajoin_some_l a1 (obind (assume x true a) (assume y false))) as (j & J).
      exists j. split; [exact J|]. eapply R_join_l; eauto.
  - (* or *)
    destruct (eval_cond o st x) as [bx st1] eqn:Ex.
    destruct (IHx _ _ _ _ Ex HR HI) as (F1 & a1 & A1 & R1).
    destruct bx.
    + inversion E; subst; clear E. split; [exact F1|]. cbn [assume]. rewrite A1.
      destruct (ajoin_some_l a1 (obind (assume x false a) (assume y true))) as (j & J).
      exists j. split; [exact J|]. eapply R_join_l; eauto.
    + destruct (IHy _ _ _ _ E R1 (Inv_frame _ _ F1 HI)) as (F2 & a2 & A2 & R2).
      split; [eapply cond_frame_trans; eauto|]. cbn [assume]. destruct b.
      * rewrite A1. simpl. rewrite A2. destruct (ajoin_some_r (assume x true a) a2) as (j & J).
        exists j. split; [exact J|]. eapply R_join_r; eauto.
      * rewrite A1. simpl. eauto.
Qed.

(* ------------------------------------------------------------------------------------------ *)
(* statements                                                                                   *)
(* ------------------------------------------------------------------------------------------ *)
Definition post (r : option astate) (res : result) : Prop :=
  match res with
  | Normal st' => (exists a', r = Some a' /\ R a' st') /\ Inv st'
  | Stopped _ st' => Inv st'
  end.

Lemma aloop_spec f : forall k a res, aloop f k a = Some res ->
  exists s, res = Some s /\ ale s a = true /\
            (f s = Some None \/ exists a', f s = Some (Some a') /\ ale s a' = true).
Proof.
  assert (ale_refl : forall a, ale a a = true).
  { intros a. unfold ale. apply andb_true_iff. split; [destruct (a_noflag a); reflexivity|].
    rewrite forallb_forall. intros v Hv. unfold allowed. apply orb_true_iff. right. apply mem_In. exact Hv. }
  assert (ale_trans : forall a b c, ale a b = true -> ale b c = true -> ale a c = true).
  { intros a b c H1 H2. unfold ale in *. apply andb_true_iff in H1 as [A1 A2]. apply andb_true_iff in H2 as [B1 B2].
    apply andb_true_iff. split.
    - destruct (a_noflag a), (a_noflag b), (a_noflag c); simpl in *; auto.
    - rewrite forallb_forall in *. intros v Hv. specialize (A2 _ Hv). unfold allowed in *.
      apply orb_true_iff in A2 as [N|M].
      + rewrite N in B1. simpl in B1. rewrite B1. reflexivity.
      + apply mem_In in M. apply B2. exact M. }
  assert (ale_join : forall a b j, ajoin (Some a) (Some b) = Some j -> ale j a = true).
  { intros a b j J. simpl in J. inversion J; subst; clear J. unfold ale. simpl. apply andb_true_iff. split.
    - destruct (a_noflag a), (a_noflag b); reflexivity.
    - rewrite forallb_forall. intros v Hv. unfold allowed.
      apply in_app_or in Hv as [Hv|Hv]; [|apply in_app_or in Hv as [Hv|Hv]].
      + destruct (a_noflag a); [reflexivity|contradiction].
      + destruct (a_noflag b); [|contradiction]. apply orb_true_iff. right. apply mem_In. exact Hv.
      + unfold inter in Hv. apply filter_In in Hv as [Hv _]. apply orb_true_iff. right. apply mem_In. exact Hv. }
  induction k as [|k IH]; intros a res H; cbn [aloop] in H.
  - destruct (f a) as [[a'|]|] eqn:F; try discriminate.
    + destruct (ale a a') eqn:L; [|discriminate]. inversion H; subst. exists a. repeat split; auto. right. eauto.
    + inversion H; subst. exists a. repeat split; auto.
  - destruct (f a) as [[a'|]|] eqn:F; try discriminate.
    + destruct (ale a a') eqn:L.
      * inversion H; subst. exists a. repeat split; auto. right. eauto.
      * destruct (ajoin (Some a) (Some a')) as [j|] eqn:J; [|discriminate].
        destruct (IH _ _ H) as (s & -> & L1 & P). exists s. repeat split; auto.
        eapply ale_trans; [exact L1|eapply ale_join; exact J].
    + inversion H; subst. exists a. repeat split; auto.
Qed.

Lemma aexec_sound : forall s fuel a r st,
  aexec fuel s a = Some r -> R a st -> Inv st -> post r (exec o s st).
Proof.
  induction s as [|v| | |v|x IHx y IHy|c t IHt e IHe|body IH]; intros fuel a r st A HR HI; cbn [aexec] in A; cbn [exec].
  - inversion A; subst. simpl. split; eauto.
  - (* write *)
    destruct (allowed a v) eqn:AL; [|discriminate]. inversion A; subst; clear A.
    destruct (s_rho st v) as [p k|] eqn:RV; simpl.
    + split.
      * exists a. split; [reflexivity|]. destruct HR as (Rf & Rc). split; auto.
      * destruct HI as (I1 & I2 & I3). unfold Inv; simpl. repeat split.
        -- intros q Hq. unfold fs_set. destruct (Nat.eqb q p); [discriminate|auto].
        -- intros q [<-|Hq].
           ++ unfold allowed in AL. apply orb_true_iff in AL as [N|M].
              ** destruct HR as (Rf & _). right. left. auto.
              ** destruct HR as (_ & Rc). apply mem_In in M. specialize (Rc _ M). rewrite RV in Rc. simpl in Rc.
                 destruct Rc as [H|[H|H]]; [right; left|left|right; right]; auto.
           ++ destruct (I2 q Hq) as [H|[H|H]]; unfold justified; auto.
        -- intros q Hq. unfold fs_set. destruct (Nat.eqb q p) eqn:E.
           ++ apply Nat.eqb_eq in E. subst. exfalso. apply Hq. left. reflexivity.
           ++ apply I3. intros X. apply Hq. right. exact X.
    + split; eauto.
  - inversion A; subst. simpl. exact HI.
  - inversion A; subst. simpl. exact HI.
  - (* assign *)
    inversion A; subst; clear A. simpl. split.
    + eexists. split; [reflexivity|]. destruct HR as (Rf & Rc). split; [exact Rf|]. simpl.
      intros w Hw. apply filter_In in Hw as [Hw NE]. unfold rho_set.
      destruct (Nat.eqb w v); [discriminate|]. apply Rc in Hw. exact Hw.
    + exact HI.
  - (* seq *)
    destruct (aexec fuel x a) as [[a1|]|] eqn:AX; try discriminate.
    + pose proof (IHx _ _ _ _ AX HR HI) as P. destruct (exec o x st) as [st1|rz st1]; simpl in P.
      * destruct P as ((a' & E & R1) & I1). inversion E; subst. eapply IHy; eauto.
      * simpl. inversion A; subst. destruct r; exact P.
    + inversion A; subst; clear A.
      pose proof (IHx _ _ _ _ AX HR HI) as P. destruct (exec o x st) as [st1|rz st1]; simpl in P.
      * destruct P as ((a' & E & _) & _). discriminate.
      * simpl. exact P.
  - (* if *)
    destruct (eval_cond o st c) as [b st1] eqn:EC.
    destruct (eval_cond_sound _ _ _ _ _ EC HR HI) as (F & a1 & AS & R1).
    pose proof (Inv_frame _ _ F HI) as I1.
    destruct (match assume c true a with None => Some None | Some at_ => aexec fuel t at_ end) as [rt|] eqn:RT; [|discriminate].
    destruct (match assume c false a with None => Some None | Some ae => aexec fuel e ae end) as [re|] eqn:RE; [|discriminate].
    inversion A; subst; clear A.
    destruct b.
    + rewrite AS in RT. pose proof (IHt _ _ _ _ RT R1 I1) as P.
      destruct (exec o t st1) as [st2|rz st2]; simpl in *; auto.
      destruct P as ((a' & E & R2) & I2). subst rt. split; auto.
      destruct (ajoin_some_l a' re) as (j & J). exists j. split; [exact J|]. eapply R_join_l; eauto.
    + rewrite AS in RE. pose proof (IHe _ _ _ _ RE R1 I1) as P.
      destruct (exec o e st1) as [st2|rz st2]; simpl in *; auto.
      destruct P as ((a' & E & R2) & I2). subst re. split; auto.
      destruct (ajoin_some_r rt a') as (j & J). exists j. split; [exact J|]. eapply R_join_r; eauto.
  - (* for *)
    destruct (aloop_spec _ _ _ _ A) as (s & -> & LE & BODY).
    set (st0 := {| s_fs := s_fs st; s_rho := s_rho st; s_prompts := s_prompts st; s_writes := s_writes st;
                   s_cb := s_cb st; s_ca := s_ca st; s_cv := s_cv st; s_ci := S (s_ci st); s_cw := s_cw st |}).
    assert (R0 : R s st0) by (eapply R_weaken; [exact LE|]; destruct HR as (Rf & Rc); split; auto).
    assert (I0 : Inv st0) by exact HI.
    clearbody st0. clear HR HI A LE.
    generalize (o_iters o (s_ci st)). intros n. revert st0 R0 I0.
    induction n as [|n IHn]; intros st0 R0 I0; cbn [iterate].
    + simpl. split; eauto.
    + destruct BODY as [B|(a' & B & LE')].
      * pose proof (IH _ _ _ _ B R0 I0) as P. destruct (exec o body st0) as [st1|rz st1]; simpl in P.
        -- destruct P as ((a'' & E & _) & _). discriminate.
        -- simpl. exact P.
      * pose proof (IH _ _ _ _ B R0 I0) as P. destruct (exec o body st0) as [st1|rz st1]; simpl in P.
        -- destruct P as ((a'' & E & R1) & I1). inversion E; subst. apply IHn; auto. eapply R_weaken; eauto.
        -- simpl. exact P.
Qed.

End Sound.

(* ------------------------------------------------------------------------------------------ *)
(* headline                                                                                     *)
(* ------------------------------------------------------------------------------------------ *)
Lemma R_a0 o fs0 st : R o fs0 a0 st.
Proof. split; simpl; [discriminate|contradiction]. Qed.

Lemma Inv_init o fs0 rho : Inv o fs0 (init_state fs0 rho).
Proof. unfold Inv; simpl. repeat split; auto. contradiction. Qed.

(* for every environment (oracle: flag, answers, opaque conditions, rebinding of path variables, loop
   counts, contents written; initial file system; initial binding of the variables): a file that existed
   before the call differs afterwards only if confirm_overwrite was false or a prompt about exactly this
   file was answered exactly "y"; nothing else is written in its place (it is not even opened for
   writing: it does not occur in the write log) *)
Theorem guarded_sound :
  forall (s : stmt), guarded_b s = true ->
  forall (o : oracle) (fs0 : fsys) (rho : nat -> value) (p : path) (b : bytes),
    let st' := final (exec o s (init_state fs0 rho)) in
    fs0 p = Some b ->
    o_flag o = true -> ~ In (p, "y") (s_prompts st') ->
    s_fs st' p = Some b /\ ~ In p (s_writes st').
Proof.
  intros s G o fs0 rho p b st' E F NP. unfold guarded_b in G.
  destruct (aexec 8 s a0) as [r|] eqn:A; [|discriminate].
  pose proof (aexec_sound o fs0 s 8 a0 r (init_state fs0 rho) A (R_a0 _ _ _) (Inv_init _ _ _)) as P.
  fold st'. assert (I : Inv o fs0 st').
  { unfold st'. destruct (exec o s (init_state fs0 rho)); simpl in *; tauto. }
  destruct I as (I1 & I2 & I3).
  assert (NW : ~ In p (s_writes st')).
  { intros W. destruct (I2 p W) as [H|[H|H]]; congruence. }
  split; [|exact NW]. rewrite I3 by exact NW. exact E.
Qed.

(* contrapositive reading *)
Corollary changed_only_if_confirmed :
  forall (s : stmt), guarded_b s = true ->
  forall o fs0 rho p b, fs0 p = Some b ->
    s_fs (final (exec o s (init_state fs0 rho))) p <> Some b ->
    o_flag o = false \/ In (p, "y") (s_prompts (final (exec o s (init_state fs0 rho)))).
Proof.
  intros s G o fs0 rho p b E C.
  destruct (o_flag o) eqn:F; [|left; reflexivity]. right.
  assert (D : forall x y : path * string, {x = y} + {x <> y}) by (decide equality; [apply string_dec | apply Nat.eq_dec]).
  destruct (in_dec D (p, "y") (s_prompts (final (exec o s (init_state fs0 rho))))) as [H|H]; [exact H|].
  exfalso. apply C. apply (guarded_sound s G o fs0 rho p b E F H).
Qed.

(* prompts are only ever about files that exist, and each answer is the environment's *)
(* a prompt answered "y" is the only way: the string comparison is exact *)
Lemma check_spec_exact isfile ans : fst (check_spec isfile ans) = true <-> isfile = false \/ ans = "y".
Proof.
  unfold check_spec; simpl. rewrite orb_true_iff, negb_true_iff, String.eqb_eq. tauto.
Qed.

(* an unguarded writer is rejected, and really does overwrite (non-vacuity of the checker and of the
   semantics) *)
Example unguarded_rejected : guarded_b (SWrite 0) = false.
Proof. reflexivity. Qed.
Example unguarded_overwrites :
  let o := mk_oracle true [] [] [] [] in
  s_fs (final (exec o (SWrite 0) (init_state (fs_of [5]) (fun _ => VPath 5 KStr)))) 5 = Some 1.
Proof. reflexivity. Qed.
(* a writer that only guards str arguments is rejected (a pathlib.Path would slip through) *)
Example str_only_guard_rejected :
  guarded_b (SSeq (SIf (CAnd CFlag (CIsInst 0 true false)) (SIf (CNot (CCheck 0)) SReturn SSkip) SSkip) (SWrite 0)) = false.
Proof. reflexivity. Qed.
Example str_and_path_guard_accepted :
  guarded_b (SSeq (SIf (CAnd CFlag (CIsInst 0 true true)) (SIf (CNot (CCheck 0)) SReturn SSkip) SSkip) (SWrite 0)) = true.
Proof. reflexivity. Qed.

(* lifting the generated obligations *)
Theorem all_guarded_sound :
  forall (ws : list (string * stmt)), forallb (fun w => guarded_b (snd w)) ws = true ->
  forall name s, In (name, s) ws ->
  forall (o : oracle) (fs0 : fsys) (rho : nat -> value) (p : path) (b : bytes),
    fs0 p = Some b -> o_flag o = true ->
    ~ In (p, "y") (s_prompts (final (exec o s (init_state fs0 rho)))) ->
    s_fs (final (exec o s (init_state fs0 rho))) p = Some b /\
    ~ In p (s_writes (final (exec o s (init_state fs0 rho)))).
Proof.
  intros ws H name s I. rewrite forallb_forall in H. specialize (H _ I). simpl in H.
  intros o fs0 rho p b. apply (guarded_sound s H o fs0 rho p b).
Qed.

Theorem all_sites_pass_flag :
  forall (cs : list call_site), forallb site_ok cs = true ->
  forall c, In c cs -> forall no_warnings, cli_flag c no_warnings = Some (negb no_warnings).
Proof.
  intros cs H c I nw. rewrite forallb_forall in H. specialize (H _ I). unfold site_ok, cli_flag in *.
  destruct (cs_arg c); try discriminate. reflexivity.
Qed.
