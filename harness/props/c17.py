"""C17 - existing output files are never overwritten without confirmation.

Theorems: coq/properties/C17.v (soundness of the static checker `guarded_b` for every environment; obligations
re-proved against coq/generated/OverwriteGen.v, which `regenerate` re-translates from the Python AST of the
repository under test on every run).  Dynamic side: the configuration space of the property's quantifier is
finite and is enumerated exhaustively on the real code (every writer x str / Path / handle x exists / not x
7 answers x confirm on / off, existing targets with content or zero-byte, builtins.input scripted), each run judged (a) directly against the property
text and (b) against the prediction of the re-translated abstract program evaluated in Coq (prompts, files
written, files changed); plus end-to-end runs of every output option of evo_ape / evo_rpe / evo_traj / evo_res
/ evo_config generate, and of all output options of a command at once next to its other switches (--ignore_title,
--use_filenames, --merge, --align_origin, --all_pairs, --ref, --silent ...), and of evo_traj exports in which two
trajectories of one run map to the same destination (inputs sharing a file stem): the second export finds the file the
first one created and has to ask.
"""
import builtins
import io
import itertools
import json
import logging
import os
import pathlib
import shutil
import subprocess
import sys
import tempfile

import numpy as np

from harness import common, pyast_fx
from harness.common import cbool, cnat, cstr

ID = "C17"
IMPORTS = "From Evo Require Import Overwrite.\nFrom EvoGen Require Import OverwriteGen.\n"
COQ_TARGETS = ["theories/OverwriteProofs.vo", "generated/OverwriteGen.vo"]
TRUSTED = ["translator harness/pyast_fx.py (Python AST -> effect language of Evo.Overwrite): classification of "
           "conditions (flag / check / isinstance / opaque) and of write primitives (np.savetxt, zipfile.ZipFile(.., 'w'), "
           "open(.., 'w'), pd.ExcelWriter, getattr(df, 'to_'+fmt), PdfPages, fig.savefig); fail-closed on unknown calls "
           "receiving a path; validated on every run by the exhaustive differential run below",
           "library write primitives create/truncate exactly the file they are given (numpy, zipfile, pandas, pickle, "
           "matplotlib); os.path.isfile and input() behave as documented",
           "ROS bag export (timestamped file names, rosbags refuses existing paths) is outside every property"]
ASSUMPTIONS = ["files are not created, deleted or modified by other processes during a call",
               "valid inputs (a writer that raises on an invalid trajectory type writes nothing)"]

GEN = os.path.join(common.COQ, "generated", "OverwriteGen.v")
STUB = ("(* stub: translation failed *)\nFrom Coq Require Import List String.\nFrom Evo Require Import Overwrite.\n"
        "Import ListNotations.\nOpen Scope string_scope.\n"
        "Definition user_confirm : ufun := {| u_default_key := \"\"; u_body := [] |}.\n"
        "Definition user_check_and_confirm_overwrite : ufun := {| u_default_key := \"\"; u_body := [] |}.\n"
        "Definition writers : list (string * stmt) := [].\nDefinition call_sites : list call_site := [].\n"
        "Definition direct_writes : list (string * nat * string) := [].\n")
META = {}
ANSWERS = ["y", "n", "", "Y", "yes", " y", "y "]
THOROUGH_ANSWERS = ["yy", "N", "\ty", "\uff59", "y.", "1", "true", "ok"]
SENTINEL = b"PRE-EXISTING USER DATA \x00\x01\n"


_GEN_FAILURES = []


def regenerate(ctx):
    """Fail-closed translation errors are kept in _GEN_FAILURES and reported by run() *after* the differential run (the
    driver lists regenerate()'s own return value first): when the same edit also has a concrete failing input, that
    input heads the report and the broken tie follows it."""
    failures = []
    del _GEN_FAILURES[:]
    try:
        src, meta = pyast_fx.generate(common.REPO)
        META.clear()
        META.update(meta)
    except (pyast_fx.Unsupported, SyntaxError, OSError, IndexError, KeyError) as e:
        failures.append({"kind": "obligation", "failing_input": False, "theorem": "translation of the writers (fail-closed)",
                         "correspondence": "harness/pyast_fx.py", "case": {"kind": "translation"},
                         "detail": "cannot translate the current source: %s: %s" % (type(e).__name__, e),
                         "model_output": None, "impl_output": None})
        src = None if os.path.exists(GEN) else STUB
        if os.path.exists(GEN) and not META:
            try:      # metadata of the last good translation is not available: fall back to /repo-independent defaults
                META.update({"_stale": True})
            except Exception:
                pass
    if src is not None:
        old = open(GEN).read() if os.path.exists(GEN) else None
        if old != src:
            os.makedirs(os.path.dirname(GEN), exist_ok=True)
            with open(GEN, "w") as f:
                f.write(src)
    _GEN_FAILURES.extend(failures)
    return []


# ------------------------------------------------------------------ implementation side (API level)
class Script:
    """scripted builtins.input + capture of the 'exists, overwrite?' warnings (which name the file)"""

    def __init__(self, answers):
        self.answers = list(answers)
        self.prompts = []
        self.files = []
        self.exhausted = False

    def __enter__(self):
        self._input = builtins.input
        builtins.input = self.input
        self._disabled = logging.root.manager.disable
        logging.disable(logging.NOTSET)
        self.logger = logging.getLogger("evo.tools.user")
        self.handler = logging.Handler()
        self.handler.emit = self.emit
        self._prop, self._level = self.logger.propagate, self.logger.level
        self.logger.addHandler(self.handler)
        self.logger.propagate = False
        self.logger.setLevel(logging.DEBUG)
        return self

    def __exit__(self, *a):
        builtins.input = self._input
        self.logger.removeHandler(self.handler)
        self.logger.propagate, self.logger.level = self._prop, self._level
        logging.disable(self._disabled)
        return False

    def emit(self, record):
        if record.args:
            self.files.append(str(record.args[0]))

    def input(self, msg=""):
        if not self.answers:
            self.exhausted = True
            raise EOFError("no scripted answer left")
        a = self.answers.pop(0)
        self.prompts.append(a)
        return a


def small_traj(n=6):
    from evo.core.trajectory import PoseTrajectory3D
    t = np.arange(n, dtype=float)
    xyz = np.stack([t, 0.5 * t, 0.1 * t], axis=1)
    quat = np.tile([1.0, 0, 0, 0], (n, 1))
    return PoseTrajectory3D(positions_xyz=xyz, orientations_quat_wxyz=quat, timestamps=t)


def small_result():
    from evo.core.result import Result
    r = Result()
    r.add_info({"title": "t", "label": "APE"})
    r.add_stats({"rmse": 1.0, "mean": 0.5})
    r.add_np_array("error_array", np.arange(6.0))
    r.add_trajectory("est", small_traj())
    return r


_FIGS = {}


def figures(n):
    """a PlotCollection with n small figures (built once per n, reused: the writers do not modify it)"""
    if n in _FIGS:
        return _FIGS[n]
    import matplotlib
    matplotlib.use("Agg")
    import matplotlib.pyplot as plt
    from evo.tools import plot
    pc = _FIGS[n] = plot.PlotCollection("c17")
    for k in range(n):
        fig = plt.figure(figsize=(2, 2))
        fig.gca().plot([0, 1], [k, 1])
        pc.add_figure("f%d" % k, fig)
    return pc


def api_targets(case, d):
    """file names (relative ids 0..) an API case may touch: id 0 = the path argument, then per-figure files"""
    w = case["writer"]
    ext = case.get("ext", "")
    main = os.path.join(d, "out" + ext)
    if w == "PlotCollection.export" and case["variant"] != "pdf":
        base, e = os.path.splitext(main)
        return [main] + [base + "_f%d" % k + e for k in range(case["nfig"])]
    return [main]


def run_api(case):
    from evo.tools import file_interface, pandas_bridge
    from evo.tools.settings import SETTINGS
    d = tempfile.mkdtemp(prefix="evo_c17_")
    handle = None
    pc = None
    old_split = SETTINGS.plot_split
    try:
        targets = api_targets(case, d)
        if case.get("second_save"):
            # the target does not exist yet and is first created by an earlier guarded save IN THIS PROCESS (no prompt is
            # due for it); the file is then given the sentinel content and the scripted save below has to ask
            import contextlib
            first = targets[0] if case["pk"] == "str" else pathlib.Path(targets[0])
            with Script([]) as sc0, contextlib.redirect_stdout(io.StringIO()):
                if case["writer"] == "write_tum_trajectory_file":
                    file_interface.write_tum_trajectory_file(first, small_traj(), confirm_overwrite=True)
                elif case["writer"] == "write_kitti_poses_file":
                    file_interface.write_kitti_poses_file(first, small_traj(), confirm_overwrite=True)
                elif case["writer"] == "save_res_file":
                    file_interface.save_res_file(first, small_result(), confirm_overwrite=True)
                else:
                    raise common.HarnessError("second_save is not defined for " + case["writer"])
            if sc0.prompts:
                return {"prompts": [], "n_prompts": 0, "n_warned": 0, "changed": [], "fresh": [], "extra_files": [], "handle_len": None,
                        "error": "a prompt appeared when saving to a path that did not exist"}
        for k, ex in enumerate(case["exists"]):
            if ex:
                with open(targets[k], "wb") as f:
                    f.write(b"" if case.get("empty") else SENTINEL)   # "empty": an existing zero-byte file
        before = {p: (open(p, "rb").read() if os.path.isfile(p) else None) for p in targets}
        decoys = [targets[0] + sfx for sfx in case.get("decoys", [])]   # pre-existing neighbours: must never be touched
        for p in decoys:
            with open(p, "wb") as f:
                f.write(SENTINEL)
        pk = case["pk"]
        if pk == "str":
            arg = targets[0]
        elif pk == "path":
            arg = pathlib.Path(targets[0])
        else:
            handle = io.BytesIO() if case["writer"] == "save_res_file" else io.StringIO()
            arg = handle
        w, conf = case["writer"], case["confirm"]
        err = None
        import contextlib
        with Script(case["answers"]) as sc, contextlib.redirect_stdout(io.StringIO()):
            try:
                if w == "write_tum_trajectory_file":
                    file_interface.write_tum_trajectory_file(arg, small_traj(), confirm_overwrite=conf)
                elif w == "write_kitti_poses_file":
                    file_interface.write_kitti_poses_file(arg, small_traj(), confirm_overwrite=conf)
                elif w == "save_res_file":
                    file_interface.save_res_file(arg, small_result(), confirm_overwrite=conf)
                elif w == "save_df_as_table":
                    import pandas as pd
                    df = pd.DataFrame({"a": [1.0, 2.0], "b": [3.0, 4.0]})
                    pandas_bridge.save_df_as_table(df, arg, format_str=case["variant"], transpose=case.get("transpose", False),
                                                   confirm_overwrite=conf)
                elif w == "PlotCollection.serialize":
                    pc = figures(1)
                    pc.serialize(arg, confirm_overwrite=conf)
                elif w == "PlotCollection.export":
                    pc = figures(case["nfig"])
                    SETTINGS.plot_split = case["variant"] == "pdf_split"
                    pc.export(arg, confirm_overwrite=conf)
                elif w == "main_config.generate":
                    from evo import main_config
                    argv = sys.argv
                    sys.argv = ["evo_config", "generate", "--align", "--plot_mode", "xz", "-o", str(arg)]
                    try:
                        main_config.main()
                    finally:
                        sys.argv = argv
                else:
                    raise common.HarnessError("unknown writer " + w)
            except EOFError:
                err = "EOFError"
            except SystemExit as e:
                err = "SystemExit(%r)" % (e.code,)
            except Exception as e:  # noqa
                err = "%s: %s" % (type(e).__name__, str(e)[:200])
        after = {p: (open(p, "rb").read() if os.path.isfile(p) else None) for p in targets}
        changed = [k for k, p in enumerate(targets) if after[p] != before[p]]
        fresh = [k for k, p in enumerate(targets) if after[p] is not None and after[p] != SENTINEL and len(after[p]) > 0]
        prompt_ids = []
        for fpath in sc.files:
            fpath = os.path.abspath(fpath)
            prompt_ids.append(targets.index(fpath) if fpath in targets else -1)
        extra = sorted(set(os.listdir(d)) - {os.path.basename(p) for p in targets} - {os.path.basename(p) for p in decoys})
        extra += ["(pre-existing neighbour overwritten) " + os.path.basename(p) for p in decoys
                  if not os.path.isfile(p) or open(p, "rb").read() != SENTINEL]
        return {"prompts": [[i, a] for i, a in zip(prompt_ids, sc.prompts)], "n_prompts": len(sc.prompts),
                "n_warned": len(sc.files), "changed": changed, "fresh": fresh, "error": err, "extra_files": extra,
                "handle_len": (len(handle.getvalue()) if handle is not None and not handle.closed else None)}
    finally:
        SETTINGS.plot_split = old_split
        shutil.rmtree(d, ignore_errors=True)


# ------------------------------------------------------------------ implementation side (CLI, end to end)
CLI_RUNNER = r'''
import sys, os
app = sys.argv[1]
sys.argv = ["evo_" + app] + sys.argv[2:]
if app == "config":
    from evo import main_config
    main_config.main()
else:
    from evo import entry_points
    getattr(entry_points, app)()
'''


def write_inputs(d):
    from evo.tools import file_interface
    t = small_traj(12)
    file_interface.write_tum_trajectory_file(os.path.join(d, "ref.txt"), t)
    t2 = small_traj(12)
    t2.scale(1.01)
    file_interface.write_tum_trajectory_file(os.path.join(d, "est.txt"), t2)
    # two different trajectory files with the same file stem in different directories (run1/traj.txt, run2/traj.txt)
    for k, n in ((1, 12), (2, 9)):
        os.makedirs(os.path.join(d, "run%d" % k), exist_ok=True)
        t3 = small_traj(n)
        t3.scale(1.0 + 0.02 * k)
        file_interface.write_tum_trajectory_file(os.path.join(d, "run%d" % k, "traj.txt"), t3)
    if not _RES_ZIPS:
        from evo import main_ape
        from evo.core.metrics import PoseRelation
        for k in (1, 2):
            est = small_traj(12)
            est.scale(1.0 + 0.01 * k)
            r = main_ape.ape(small_traj(12), est, pose_relation=PoseRelation.translation_part, est_name="est%d" % k)
            buf = io.BytesIO()
            file_interface.save_res_file(buf, r)
            _RES_ZIPS.append(buf.getvalue())
    for k, blob in enumerate(_RES_ZIPS, 1):
        with open(os.path.join(d, "res%d.zip" % k), "wb") as f:
            f.write(blob)


CLI_OPTIONS = [
    # (name, app, fixed args, output option(s))
    ("traj_save_as_tum", "traj", ["tum", "est.txt"], ["--save_as_tum"]),
    ("traj_save_as_kitti", "traj", ["tum", "est.txt"], ["--save_as_kitti"]),
    ("traj_save_as_tum_ref", "traj", ["tum", "est.txt", "--ref", "ref.txt"], ["--save_as_tum"]),
    ("traj_save_table", "traj", ["tum", "est.txt"], ["--save_table", "table.csv"]),
    ("traj_save_plot_pdf", "traj", ["tum", "est.txt"], ["--save_plot", "plot.pdf"]),
    ("traj_save_plot_png", "traj", ["tum", "est.txt"], ["--save_plot", "plot.png"]),
    ("traj_serialize_plot", "traj", ["tum", "est.txt"], ["--serialize_plot", "plot.evo"]),
    ("ape_save_results", "ape", ["tum", "ref.txt", "est.txt"], ["--save_results", "res.zip"]),
    ("ape_save_plot", "ape", ["tum", "ref.txt", "est.txt"], ["--save_plot", "plot.pdf"]),
    ("ape_serialize_plot", "ape", ["tum", "ref.txt", "est.txt"], ["--serialize_plot", "plot.evo"]),
    ("rpe_save_results", "rpe", ["tum", "ref.txt", "est.txt"], ["--save_results", "res.zip"]),
    ("rpe_save_plot", "rpe", ["tum", "ref.txt", "est.txt"], ["--save_plot", "plot.png"]),
    ("rpe_serialize_plot", "rpe", ["tum", "ref.txt", "est.txt"], ["--serialize_plot", "plot.evo"]),
    ("res_save_table", "res", ["res1.zip", "res2.zip"], ["--save_table", "table.csv"]),
    ("res_save_plot", "res", ["res1.zip", "res2.zip"], ["--save_plot", "plot.pdf"]),
    ("res_serialize_plot", "res", ["res1.zip", "res2.zip"], ["--serialize_plot", "plot.evo"]),
    ("config_generate", "config", ["generate", "--align", "--plot_mode", "xz"], ["-o", "cfg.json"]),
]
# the same output options next to every other (non-output) switch of the command: the property speaks of *whenever* a
# command is asked to save to an existing path with warnings not disabled. One run asks for all outputs of the command.
_APE_OUT = ["--save_results", "res.zip", "--save_plot", "plot.pdf", "--serialize_plot", "plot.evo"]
_RES_OUT = ["--save_table", "table.csv", "--save_plot", "plot.pdf", "--serialize_plot", "plot.evo"]
_TRAJ_OUT = ["--save_as_tum", "--save_table", "table.csv", "--save_plot", "plot.pdf", "--serialize_plot", "plot.evo"]
CLI_FLAG_VARIANTS = [
    # (name, app, fixed args incl. the extra switches, output options, in the quick tier)
    ("res_all_ignore_title", "res", ["res1.zip", "res2.zip", "--ignore_title"], _RES_OUT, True),
    ("res_all_use_filenames", "res", ["res1.zip", "res2.zip", "--use_filenames"], _RES_OUT, True),
    ("res_all_use_rel_time", "res", ["res1.zip", "res2.zip", "--use_rel_time"], _RES_OUT, True),
    ("res_all_merge", "res", ["res1.zip", "res2.zip", "--merge"], _RES_OUT, True),
    ("res_all_verbose_silent", "res", ["res1.zip", "res2.zip", "--ignore_title", "--use_filenames", "--silent"], _RES_OUT, False),
    ("ape_all_origin_full", "ape", ["tum", "ref.txt", "est.txt", "--align_origin", "-r", "full"], _APE_OUT, True),
    ("ape_all_verbose_angle", "ape", ["tum", "ref.txt", "est.txt", "--verbose", "-r", "angle_deg", "--plot_mode", "xz"], _APE_OUT, False),
    ("rpe_all_pairs", "rpe", ["tum", "ref.txt", "est.txt", "--all_pairs", "--delta", "2", "-r", "angle_deg"], _APE_OUT, True),
    ("rpe_all_silent", "rpe", ["tum", "ref.txt", "est.txt", "--silent", "--delta_unit", "m"], _APE_OUT, False),
    ("traj_all_ref_origin", "traj", ["tum", "est.txt", "--ref", "ref.txt", "--align_origin", "--full_check"], _TRAJ_OUT, True),
    ("traj_all_silent", "traj", ["tum", "est.txt", "ref.txt", "--silent"], _TRAJ_OUT, False),
]
# two trajectories exported by ONE run map to the same destination (same file stem in different directories / an estimate
# and --ref with the same stem): the first export creates ./traj.tum, the second is then "asked to save to a path that
# already exists". (name, app, fixed args, output options, the inputs exported one at a time, in the quick tier)
CLI_COLLIDE = [
    ("traj_collide_tum", "traj", ["tum", "run1/traj.txt", "run2/traj.txt"], ["--save_as_tum"],
     [["tum", "run1/traj.txt"], ["tum", "run2/traj.txt"]], ["n", "y", ""]),
    ("traj_collide_kitti", "traj", ["tum", "run1/traj.txt", "run2/traj.txt"], ["--save_as_kitti"],
     [["tum", "run1/traj.txt"], ["tum", "run2/traj.txt"]], ["n"]),
    ("traj_collide_ref", "traj", ["tum", "run1/traj.txt", "--ref", "run2/traj.txt"], ["--save_as_tum"],
     [["tum", "run1/traj.txt"], ["tum", "run2/traj.txt"]], ["n", "y"]),
    ("traj_collide_both", "traj", ["tum", "run2/traj.txt", "--ref", "run1/traj.txt"], ["--save_as_kitti", "--save_as_tum"],
     [["tum", "run2/traj.txt"], ["tum", "run1/traj.txt"]], []),
]
CLI_ALL = CLI_OPTIONS + [v[:4] for v in CLI_FLAG_VARIANTS] + [v[:4] for v in CLI_COLLIDE]
_CLI_OUTPUTS = {}
_RES_ZIPS = []


def cli_run(d, app, args, stdin_text):
    env = dict(os.environ)
    env.update({"PYTHONPATH": common.REPO, "MPLBACKEND": "Agg", "PYTHONDONTWRITEBYTECODE": "1"})
    p = subprocess.run([sys.executable, "-W", "ignore", "-c", CLI_RUNNER, app] + args, cwd=d, env=env,
                       input=stdin_text.encode(), stdout=subprocess.PIPE, stderr=subprocess.PIPE, timeout=300)
    return p.returncode, p.stdout.decode("utf-8", "replace"), p.stderr.decode("utf-8", "replace")


def cli_outputs(name):
    """which files an option creates (learned from one run in an empty directory)"""
    if name not in _CLI_OUTPUTS:
        _, app, fixed, opt = next(o for o in CLI_ALL if o[0] == name)
        d = tempfile.mkdtemp(prefix="evo_c17c_")
        try:
            write_inputs(d)
            before = set(os.listdir(d))
            rc, out, err = cli_run(d, app, fixed + opt + ([] if app == "config" else ["--no_warnings"]), "")
            created = sorted(set(os.listdir(d)) - before)
            info = {"files": created, "rc": rc, "err": err[-300:]}
            coll = next((v for v in CLI_COLLIDE if v[0] == name), None)
            if coll is not None:
                # what each of the colliding exports writes on its own (to name the survivor in a report)
                info["single"] = []
                for single in coll[4]:
                    for f in created:
                        os.remove(os.path.join(d, f))
                    cli_run(d, app, single + opt + ["--no_warnings"], "")
                    info["single"].append({f: (open(os.path.join(d, f), "rb").read() if os.path.isfile(os.path.join(d, f))
                                               else None) for f in created})
            _CLI_OUTPUTS[name] = info
        finally:
            shutil.rmtree(d, ignore_errors=True)
    return _CLI_OUTPUTS[name]


def run_cli(case):
    name = case["option"]
    _, app, fixed, opt = next(o for o in CLI_ALL if o[0] == name)
    outs = cli_outputs(name)
    original = b"" if case.get("empty") else SENTINEL      # "empty": the existing targets are zero-byte files
    if not outs["files"]:
        return {"error": "the option created no file in the reference run (rc %s): %s" % (outs["rc"], outs["err"])}
    d = tempfile.mkdtemp(prefix="evo_c17c_")
    try:
        write_inputs(d)
        if case["exists"]:
            for f in outs["files"]:
                with open(os.path.join(d, f), "wb") as fh:
                    fh.write(original)
        args = fixed + opt + (["--no_warnings"] if case["no_warnings"] else [])
        rc, out, err = cli_run(d, app, args, (case["answer"] + "\n") * 12)
        state = {}
        for f in outs["files"]:
            p = os.path.join(d, f)
            b = open(p, "rb").read() if os.path.isfile(p) else None
            state[f] = "absent" if b is None else ("old" if (case["exists"] and b == original) or b == SENTINEL else
                                                   ("new" if len(b) > 0 else "empty"))
        n_prompts = out.count("enter 'y' to overwrite")
        res = {"rc": rc, "state": state, "n_prompts": n_prompts, "stderr": err[-300:] if rc != 0 else ""}
        if outs.get("single"):
            res["content_of"] = {}
            for f in outs["files"]:
                p = os.path.join(d, f)
                b = open(p, "rb").read() if os.path.isfile(p) else None
                who = [k for k, sg in enumerate(outs["single"]) if b is not None and sg.get(f) == b]
                res["content_of"][f] = ("export %d of the run" % (who[0] + 1)) if who else state[f]
        return res
    finally:
        shutil.rmtree(d, ignore_errors=True)


def impl(case):
    if case["kind"] == "api":
        return run_api(case)
    return run_cli(case)


# ------------------------------------------------------------------ model side
OPAQUE_VALUES = {
    "isinstance(traj, PoseTrajectory3D)": lambda c: True,
    "isinstance(traj, PosePath3D)": lambda c: True,
    "transpose": lambda c: bool(c.get("transpose", False)),
    "format_str == 'excel'": lambda c: c.get("variant") == "excel",
    "ext == '.pdf'": lambda c: c.get("ext") == ".pdf",
    "SETTINGS.plot_split": lambda c: c.get("variant") == "pdf_split",
    "other_args": lambda c: True,
    "args.out": lambda c: True,
}


def writer_index(name):
    names = [n for n, *_ in pyast_fx.WRITERS] + ["main_config.generate"]
    return names.index(name)


def tapes_for(case):
    """the outcomes of the opaque conditions (by number) in this configuration: exact when the harness knows every
    condition text of the re-translated writer, else all possibilities"""
    meta = META.get(case["writer"], {})
    texts = meta.get("opaque")
    if texts is None:
        return [[]], False
    if all(t in OPAQUE_VALUES for t in texts):
        return [[OPAQUE_VALUES[t](case) for t in texts]], True
    return [list(t) for t in itertools.product([True, False], repeat=min(len(texts), 4))], False


def coq_value(pid, pk):
    if pk == "handle":
        return "VHandle"
    return "(VPath %s %s)" % (cnat(pid), "KStr" if pk == "str" else "KPathObj")


def expr(case, out):
    if case["kind"] != "api":
        return "true"
    k = writer_index(case["writer"])
    n_targets = len(case["exists"])
    existing = "[" + "; ".join(cnat(i) for i, e in enumerate(case["exists"]) if e) + "]"
    universe = "[" + "; ".join(cnat(i) for i in range(n_targets)) + "]"
    answers = "[" + "; ".join(cstr(a) for a in case["answers"]) + "]"
    values = "[" + "; ".join(coq_value(i, "str") for i in range(1, n_targets)) + "]"
    iters = "[%s; %s]" % (cnat(case.get("nfig", 1)), cnat(1))
    tapes, _ = tapes_for(case)
    preds = []
    for t in tapes:
        preds.append("predict w%d %s [%s] %s %s %s %s %s %s" % (
            k, cbool(case["confirm"]), "; ".join(cbool(b) for b in t), answers, coq_value(0, case["pk"]), values, iters,
            existing, universe))
    return "[" + "; ".join(preds) + "]"


def judge(case, val, out):
    if case["kind"] == "cli":
        return judge_cli(case, out)
    if out.get("extra_files"):
        return {"kind": "spec-violation", "failing_input": True,
                "detail": "files other than the requested output were written: %r" % (out["extra_files"],)}
    # ---- (a) the property text, directly
    conf = case["confirm"] or case["writer"] == "main_config.generate"
    if case["pk"] == "handle":
        if out["changed"] or out["n_prompts"]:
            return {"kind": "spec-violation", "failing_input": True, "detail": "writing to a handle touched a named file or prompted"}
    else:
        answers_by_file = {}
        for i, a in out["prompts"]:
            answers_by_file.setdefault(i, []).append(a)
        for i, ex in enumerate(case["exists"]):
            if not ex:
                if i in answers_by_file:
                    return {"kind": "spec-violation", "failing_input": True,
                            "detail": "prompted about file %d which did not exist" % i}
                continue
            ans = answers_by_file.get(i, [])
            confirmed = (not conf) or ("y" in ans)
            if i in out["changed"] and not confirmed:
                return {"kind": "spec-violation", "failing_input": True,
                        "detail": "existing file %d was overwritten although warnings were enabled and the answers "
                                  "about it were %r (not exactly 'y')" % (i, ans)}
            if not conf and ans:
                return {"kind": "spec-violation", "failing_input": True,
                        "detail": "asked for confirmation although confirm_overwrite was false"}
        # with 'y' / disabled / not existing the output must be there (single-file writers, first file)
        single = case["writer"] != "PlotCollection.export" or case["variant"] == "pdf"
        if single and out["error"] is None:
            want_new = (not case["exists"][0]) or (not conf) or (case["answers"][:1] == ["y"])
            if want_new and 0 not in out["fresh"]:
                return {"kind": "spec-violation", "failing_input": True,
                        "detail": "the output was not written although overwriting was allowed (answer %r, confirm %r, "
                                  "exists %r)" % (case["answers"][:1], conf, case["exists"][0])}
            if want_new is False and 0 in out["changed"]:
                return {"kind": "spec-violation", "failing_input": True, "detail": "declined overwrite changed the file"}
            if case["exists"][0] and conf and out["n_prompts"] != 1:
                return {"kind": "spec-violation", "failing_input": True,
                        "detail": "expected exactly one confirmation prompt, saw %d" % out["n_prompts"]}
    str_only = case["writer"] in ("PlotCollection.serialize", "PlotCollection.export", "save_df_as_table")
    if out["error"] and out["error"].startswith("TypeError") and case["pk"] == "path" and str_only:
        return None     # annotated `str`: a pathlib.Path is refused (TypeError in a string concatenation); safety was judged above
    if out["error"] not in (None,) and not (out["error"] == "EOFError"):
        return {"kind": "model-vs-impl", "failing_input": False, "correspondence": "harness call of the writer",
                "detail": "the writer raised: %s" % out["error"]}
    # ---- (b) the re-translated abstract program's prediction
    got = ([[int(i), a] for i, a in out["prompts"]], sorted(out["changed"]))
    preds = []
    for p in val:
        prompts, writes, changed = p
        preds.append(([[int(i), a] for i, a in prompts], sorted(int(x) for x in changed)))
    if got not in preds:
        return {"kind": "model-vs-impl", "failing_input": False, "correspondence": "OverwriteGen.w%d (pyast_fx translation)"
                % writer_index(case["writer"]),
                "detail": "prompts / changed files %r differ from every prediction of the abstract program %r" % (got, preds[:4])}
    return None


def judge_cli(case, out):
    if "error" in out:
        return {"kind": "model-vs-impl", "failing_input": False, "correspondence": "end-to-end run", "detail": out["error"]}
    generate = case["option"] == "config_generate"
    warn = generate or not case["no_warnings"]
    coll = next((v for v in CLI_COLLIDE if v[0] == case["option"]), None)
    if coll is not None and not case["exists"]:
        # nothing exists beforehand; two exports of this one run go to each output path: the first creates the file, the
        # second is asked to save to a path that exists by then -> with warnings enabled exactly one confirmation per path
        # (none for the first export: nothing existed), with warnings disabled none; the file is written in any case
        _, app, fixed, opt = coll[:4]
        cmd = "evo_%s %s%s (inputs with the same file stem; answer %r to every prompt)" % (
            app, " ".join(fixed + opt), " --no_warnings" if case["no_warnings"] else "", case["answer"])
        if any(st != "new" for st in out["state"].values()):
            return {"kind": "spec-violation", "failing_input": True,
                    "detail": "%s: output not written although nothing existed: %r (rc %s %s)" % (cmd, out["state"], out["rc"], out["stderr"])}
        want = len(out["state"]) if warn else 0
        if warn and out["n_prompts"] == 0:
            return {"kind": "spec-violation", "failing_input": True,
                    "detail": "%s: two trajectories are exported to each of %r; the second export finds the file the first one "
                              "just created, yet no confirmation was asked with warnings enabled (0 prompts); afterwards the "
                              "files hold %r" % (cmd, sorted(out["state"]), out.get("content_of"))}
        if out["n_prompts"] != want:
            return {"kind": "spec-violation", "failing_input": True,
                    "detail": "%s: %d confirmations asked, %d are due (one per output path that exists at the time of its second "
                              "export%s)" % (cmd, out["n_prompts"], want, "" if warn else "; warnings are disabled")}
        return None
    for f, st in out["state"].items():
        if st == "empty":
            return {"kind": "spec-violation", "failing_input": True, "detail": "%s was truncated" % f}
        if case["exists"] and warn and case["answer"] != "y" and st != "old":
            return {"kind": "spec-violation", "failing_input": True,
                    "detail": "existing %s is %s after answering %r with warnings enabled" % (f, st, case["answer"])}
    if case["exists"] and warn and out["n_prompts"] == 0:
        return {"kind": "spec-violation", "failing_input": True, "detail": "no confirmation was asked for existing output files"}
    if (not warn or not case["exists"]) and out["n_prompts"] != 0:
        return {"kind": "spec-violation", "failing_input": True,
                "detail": "a confirmation was asked although %s" % ("warnings are disabled" if not warn else "nothing existed")}
    allowed = (not case["exists"]) or (not warn) or case["answer"] == "y"
    if allowed and any(st != "new" for st in out["state"].values()):
        return {"kind": "spec-violation", "failing_input": True,
                "detail": "output not (completely) written although allowed: %r (rc %s %s)" % (out["state"], out["rc"], out["stderr"])}
    return None


# ------------------------------------------------------------------ case generation
def api_cases(ctx):
    cases = []

    def add(writer, pk, exists, answers, confirm, **kw):
        c = {"kind": "api", "writer": writer, "pk": pk, "exists": exists, "answers": answers, "confirm": confirm}
        c.update(kw)
        cases.append(c)
    singles = [("write_tum_trajectory_file", {"ext": ".tum"}, True), ("write_kitti_poses_file", {"ext": ".kitti"}, True),
               ("save_res_file", {"ext": ".zip"}, True),
               ("save_df_as_table", {"ext": ".csv", "variant": "csv"}, False),
               ("save_df_as_table", {"ext": ".json", "variant": "json", "transpose": True}, False),
               ("PlotCollection.serialize", {"ext": ".evo"}, False),
               ("PlotCollection.export", {"ext": ".pdf", "variant": "pdf", "nfig": 2}, False),
               ("main_config.generate", {"ext": ".json"}, False)]
    for w, kw, handles in singles:
        kinds = ["str", "path"] + (["handle"] if handles else [])
        if w == "main_config.generate":
            kinds = ["str"]
        for pk in kinds:
            for ex in (True, False):
                for conf in (True, False):
                    if w == "main_config.generate" and not conf:
                        continue
                    for a in (ANSWERS if ctx.quick else ANSWERS + THOROUGH_ANSWERS):
                        if pk == "handle" and (a != "n" or not ex):
                            continue
                        add(w, pk, [ex], [a], conf, **kw)
    # the existing target is a zero-byte file (placeholder from touch / mkstemp, truncated earlier output): it exists, so
    # the same confirmation is due and a declined overwrite leaves it (empty) as it was
    for w, kw, handles in singles:
        for pk in (["str"] if w == "main_config.generate" else ["str", "path"]):
            for conf in (True, False):
                if w == "main_config.generate" and not conf:
                    continue
                for a in (["n", "", "y"] if ctx.quick else ANSWERS):
                    add(w, pk, [True], [a], conf, empty=True, **kw)
    for variant, ext in (("png", ".png"), ("pdf_split", ".pdf")):
        for ex in ((True, True), (True, False), (False, True)):
            for ans in [("n", "n"), ("y", "n"), ("", "y")]:
                add("PlotCollection.export", "str", [False] + list(ex), list(ans), True, ext=ext, variant=variant, nfig=2,
                    empty=True)
    # a second guarded save to a path that an earlier save of the same process created: it exists now, the prompt is due
    for w, kw in (("write_tum_trajectory_file", {"ext": ".tum"}), ("write_kitti_poses_file", {"ext": ".kitti"}), ("save_res_file", {"ext": ".zip"})):
        for pk in ("str", "path"):
            for a in ("n", "", "y"):
                add(w, pk, [True], [a], True, second_save=True, **kw)
    # output names without an extension, next to pre-existing files that differ only by an extension
    for w, kw in (("main_config.generate", {"ext": ""}), ("write_tum_trajectory_file", {"ext": ""}), ("save_res_file", {"ext": ""})):
        for ex in (True, False):
            for a in ("n", "", "y"):
                add(w, "str", [ex], [a], True, decoys=[".json", ".tum", ".zip"], **kw)
    # per-figure export: two files, each with its own prompt
    for variant, ext in (("png", ".png"), ("pdf_split", ".pdf")):
        for pk in ("str", "path"):
            for ex in itertools.product([True, False], repeat=2):
                for conf in (True, False):
                    for ans in [("y", "y"), ("y", "n"), ("n", "y"), ("n", "n"), ("", "y"), ("Y", "yes")]:
                        add("PlotCollection.export", pk, [False] + list(ex), list(ans), conf, ext=ext, variant=variant, nfig=2)
    if not ctx.quick:
        for variant, ext in (("png", ".png"), ("pdf_split", ".pdf")):
            for ex in itertools.product([True, False], repeat=3):
                for ans in itertools.product(["y", "n", ""], repeat=3):
                    add("PlotCollection.export", "str", [False] + list(ex), list(ans), True, ext=ext, variant=variant, nfig=3)
    return cases


def cli_cases(ctx):
    cases = []
    opts = CLI_OPTIONS
    for name, app, fixed, opt in opts:
        for ex in (True, False):
            for nw in (False, True):
                if app == "config" and nw:
                    continue
                answers = ["y", "n", ""] if (ex and not nw) else ["n"]
                if not ctx.quick and ex and not nw:
                    answers = ["y", "n", "", "Y", "yes"]
                if ctx.quick and name in ("traj_save_plot_png", "rpe_serialize_plot", "res_serialize_plot",
                                          "traj_save_as_tum_ref", "ape_serialize_plot") and not (ex and not nw):
                    continue
                for a in answers:
                    cases.append({"kind": "cli", "option": name, "exists": ex, "answer": a, "no_warnings": nw})
    # every other switch of the commands next to all output options at once: existing targets, warnings enabled
    for name, app, fixed, opt, in_quick in CLI_FLAG_VARIANTS:
        if ctx.quick and not in_quick:
            continue
        for a in (["n", "y"] if ctx.quick else ["n", "y", "", "yes"]):
            cases.append({"kind": "cli", "option": name, "exists": True, "answer": a, "no_warnings": False})
        if not ctx.quick:
            cases.append({"kind": "cli", "option": name, "exists": True, "answer": "n", "no_warnings": True})
            cases.append({"kind": "cli", "option": name, "exists": False, "answer": "n", "no_warnings": False})
    # two exports of one run to the same destination (inputs sharing a file stem)
    for name, app, fixed, opt, singles, quick_answers in CLI_COLLIDE:
        for a in (quick_answers if ctx.quick else ["n", "y", "", "Y", "yes"]):
            cases.append({"kind": "cli", "option": name, "exists": False, "answer": a, "no_warnings": False})
        if not ctx.quick or name == "traj_collide_tum":
            cases.append({"kind": "cli", "option": name, "exists": False, "answer": "n", "no_warnings": True})
            cases.append({"kind": "cli", "option": name, "exists": True, "answer": "n", "no_warnings": False})
        if not ctx.quick:
            cases.append({"kind": "cli", "option": name, "exists": True, "answer": "y", "no_warnings": False})
    # existing zero-byte targets
    quick_empty = ("traj_save_as_tum", "ape_save_results", "res_save_table", "rpe_save_plot", "config_generate")
    for name, app, fixed, opt in CLI_OPTIONS:
        if ctx.quick and name not in quick_empty:
            continue
        for a in (["n"] if ctx.quick else ["n", "", "y"]):
            cases.append({"kind": "cli", "option": name, "exists": True, "answer": a, "no_warnings": False, "empty": True})
    return cases


_CACHE = {}


def key(c):
    return json.dumps(c, sort_keys=True)


def impl_cached(case):
    k = key(case)
    if k not in _CACHE:
        _CACHE[k] = impl(case)
    return _CACHE[k]


def run(ctx, replay=None, proofs_ok=True):
    if not META:
        regenerate(ctx)
    if replay is not None and replay.get("case", {}).get("kind") in ("api", "cli"):
        cases = [replay["case"]]
    elif replay is not None:
        cases = []
    else:
        cases = api_cases(ctx) + cli_cases(ctx)
    cli = [c for c in cases if c["kind"] == "cli"]
    api = [c for c in cases if c["kind"] == "api"]
    if cli:
        import concurrent.futures
        warm = tempfile.mkdtemp(prefix="evo_c17c_")
        try:
            write_inputs(warm)          # builds the cached result archives before the threads start
        finally:
            shutil.rmtree(warm, ignore_errors=True)
        with concurrent.futures.ThreadPoolExecutor(max_workers=common.NPROC) as ex:
            refs = [ex.submit(cli_outputs, n) for n in sorted({c["option"] for c in cli})]
            for c in api[: len(api) // 3]:          # the in-process runs overlap with the subprocesses
                impl_cached(c)
            for r in refs:
                r.result()
            futs = [(c, ex.submit(run_cli, c)) for c in cli]
            for c in api:
                impl_cached(c)
            for c, f in futs:
                _CACHE[key(c)] = f.result()
    failures, stats = common.differential(ctx, cases, imports=IMPORTS, impl=impl_cached, expr=expr, judge=judge,
                                          scope=None, per_file=200,
                                          nontrivial=lambda c, v, o: bool(c.get("exists") and any(c["exists"])
                                                                          if c["kind"] == "api" else c["exists"]))
    hist = {}
    for c in cases:
        k = c["writer"] if c["kind"] == "api" else "cli:" + c["option"]
        hist[k] = hist.get(k, 0) + 1
    ambiguous = sum(1 for c in cases if c["kind"] == "api" and not tapes_for(c)[1])
    cov = {"evaluations": stats["evaluations"], "distinct_nontrivial": stats["distinct_nontrivial"],
           "rule": "distinct configurations in which at least one target file exists before the call",
           "exhaustive": True,
           "samples": cases[:2] + cases[-2:], "input_distribution": hist,
           "api_configurations": sum(1 for c in cases if c["kind"] == "api"),
           "cli_runs": len(cli), "answers": ANSWERS,
           "cli_runs_two_exports_to_one_path": sum(1 for c in cli if c["option"].startswith("traj_collide")),
           "opaque_conditions_unknown_to_harness": ambiguous,
           "call_sites": META.get("_sites"), "direct_writes_in_cli_modules": META.get("_direct"),
           "disagreements": stats["disagreements"]}
    return {"failures": failures + list(_GEN_FAILURES), "coverage": cov}


LEVEL_TEXT = ("Machine-checked theorem (Coq): a static checker `guarded_b` over an effect abstraction of a writer "
              "(conditions on confirm_overwrite / user.check_and_confirm_overwrite(path) / isinstance(path, ...) / opaque; "
              "writes through known primitives; return/raise; rebinding; if/for) is sound for every environment - any "
              "file system, any answers, any opaque outcomes, str / pathlib.Path / handle arguments, any loop counts: "
              "a pre-existing file is byte-identical afterwards and never opened for writing unless confirm_overwrite is "
              "false or a prompt about exactly that file was answered exactly 'y'. Generated obligations, re-proved on "
              "every run against the Python AST of the current source: the checker accepts all seven writers; "
              "user.confirm accepts exactly 'y' and check_and_confirm_overwrite prompts iff the file exists (for all "
              "strings); every call site in the five CLI modules passes confirm_overwrite = not args.no_warnings and these "
              "modules write through the writers only; single-file writers write iff allowed (bounded enumeration). "
              "The finite configuration space is enumerated exhaustively on the real code and compared with the "
              "abstract programs' predictions; all output options of the CLIs are run end to end.")
LEVEL_NOTE = ("Trusted: Coq kernel/VM; the AST translator's classification of conditions and write primitives (validated by "
              "the exhaustive differential run); library write primitives. The theorem is about the abstraction, tied to "
              "the source by re-translation and by the differential run.")
TECHNIQUE = ("Coq proof (abstract interpretation with a soundness theorem by induction over statements and loop "
             "iterations) + translator tie (Python AST -> Coq term, fail-closed, obligations by vm_compute) + exhaustive "
             "finite differential run")
