"""Design-phase reproducer for findings F1..F9 of DESIGN.md section 5 on /repo's current tree.
Not part of the verification machinery.  Run:
  cd /repo && HOME=$(mktemp -d) PYTHONPATH=/repo /venv/bin/python -W ignore /verif/design_probes/python/repro_findings.py
Prints one line per finding: REPRODUCED / not reproduced."""
import copy, json, os, subprocess, sys, tempfile
import numpy as np
from evo import main_ape, main_config
from evo.core import lie_algebra as lie, metrics, result, sync, trajectory
from evo.core.trajectory import PosePath3D, PoseTrajectory3D, Plane
import evo.core.transformations as tr

def report(fid, ok, what):
    print(f"{fid}: {'REPRODUCED' if ok else 'not reproduced'} - {what}")

rng = np.random.default_rng(0)

# F1 (C04): recorded alignment matrix in scale-only mode
n = 20
P = rng.normal(size=(n, 3)) * 5
R = tr.random_rotation_matrix()[:3, :3]
Q = (2.5 * (R @ P.T)).T + np.array([1, 2, 3.])
quat = np.tile([1., 0, 0, 0], (n, 1))
ref = PoseTrajectory3D(Q, quat, np.arange(n, dtype=float))
est = PoseTrajectory3D(P, quat, np.arange(n, dtype=float))
est0 = copy.deepcopy(est)
res = main_ape.ape(ref, est, metrics.PoseRelation.translation_part, align=False, correct_scale=True)
T = res.np_arrays["alignment_transformation_sim3"]
pred = (T[:3, :3] @ est0.positions_xyz.T).T + T[:3, 3]
dev = np.abs(pred - res.trajectories["estimate"].positions_xyz).max()
report("F1", dev > 1e-6, f"scale-only: recorded sim3 maps unaligned estimate {dev:.3g} m away from stored estimate")

# F2 (C05): a pose of the longer trajectory used twice
i1, i2 = sync.matching_time_indices(np.array([0.0, 0.001]), np.array([0.0, 1.0, 2.0]), 0.01)
report("F2", len(set(i2)) != len(i2), f"matching_time_indices -> {i1}, {i2}")

# F3 (C14): XZ projection not identity on planar poses beyond +-90 deg
bad = 0
for deg in range(-179, 181):
    Rm = lie.so3_exp(np.array([0, 1.0, 0]) * np.deg2rad(deg))
    p = PosePath3D(poses_se3=[lie.se3(Rm, np.zeros(3))])
    p.project(Plane.XZ)
    bad += not np.allclose(p.poses_se3[0][:3, :3], Rm, atol=1e-9)
report("F3", bad > 0, f"XZ projection changes {bad} of 360 planar headings")

# F4 (C15): se3_inverse applied to Sim(3) (as main_traj --invert_transform does)
S = lie.sim3(tr.random_rotation_matrix()[:3, :3], np.array([1, 2, 3.]), 2.0)
src = open(os.path.join(os.path.dirname(main_ape.__file__), "main_traj.py")).read()
uses_se3_inverse = "transform = lie.se3_inverse(transform)" in src
prod = lie.se3_inverse(S) @ S
report("F4", uses_se3_inverse and not np.allclose(prod, np.eye(4)), f"se3_inverse(S) @ S diag = {np.diag(prod)}")

# F5 (C16): split parts share pose matrices with parent; project() writes in place; no-cut split returns self
poses = [lie.se3(tr.random_rotation_matrix()[:3, :3], np.array([i * 1.0 if i < 3 else i + 100.0, 0.3 * i, 0.7])) for i in range(6)]
par = PoseTrajectory3D(poses_se3=[p.copy() for p in poses], timestamps=np.arange(6.))
_ = par.positions_xyz
parts = par.split_distance_gaps(10.0)
before = [p.copy() for p in par.poses_se3]
parts[0].project(Plane.XY)
changed = not all(np.array_equal(a, b) for a, b in zip(before, par.poses_se3))
same_obj = par.split_time_gaps(1e9)[0] is par
report("F5", changed and same_obj, f"parent matrices changed by projecting a part: {changed}; no-cut split returns self: {same_obj}")

# F6 (C18): generate
g = main_config.generate(["--downsample", "500", "--t_offset", "-0.5"])
report("F6", g != {"downsample": 500, "t_offset": -0.5} or not isinstance(g.get("downsample"), int), f"generate -> {g}")

# F7 (C19): empty settings.json kills a fresh start
home = tempfile.mkdtemp()
os.makedirs(os.path.join(home, ".evo"))
open(os.path.join(home, ".evo", "settings.json"), "w").close()
open(os.path.join(home, ".evo", "assets_version"), "w").write(__import__("evo").__version__)
pr = subprocess.run([sys.executable, "-W", "ignore", "-c", "import evo.tools.settings"], env=dict(os.environ, HOME=home), capture_output=True)
report("F7", pr.returncode != 0, "import evo with a truncated settings.json: " + (pr.stderr.decode().strip().splitlines() or ["ok"])[-1][:80])

# F8 (C13): merge_results compares sizes by dict order
r1 = result.Result(); r1.add_stats({"rmse": 1.0}); r1.add_np_array("a", np.array([1., 2, 3])); r1.add_np_array("b", np.array([1.]))
r2 = result.Result(); r2.add_stats({"rmse": 3.0}); r2.add_np_array("b", np.array([1., 2, 3])); r2.add_np_array("a", np.array([5.]))
m = result.merge_results([r1, r2])
report("F8", m.np_arrays["a"].size != 4, f"merged a = {m.np_arrays['a']} (expected concatenation of 3+1 values)")

# F9 (C08, C15): Sim(3) transform leaves non-rigid pose matrices
p = PosePath3D(poses_se3=[lie.random_se3() for _ in range(4)])
p.transform(S)
report("F9", not p.check()[0], f"check() after transform(Sim3, s=2): {p.check()[1]['SE(3) conform']}")
