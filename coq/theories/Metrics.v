(* Metrics.v - executable model of APE.process_data / RPE.process_data (evo/core/metrics.py).
   Definitions only. The rotation-angle extraction (scipy, so3_log_angle) is a parameter
   [angle_of : M3 T -> T]; theorems instantiate it with acos((tr-1)/2), the correspondence run
   instantiates it with the cosine (tr-1)/2 itself and compares with cos of the implementation's angle. *)
From Coq Require Import List Arith Bool ZArith.
From Evo Require Import Num Linalg Lie.
Import ListNotations.
Local Open Scope num_scope.

Inductive PoseRelation := full_transformation | translation_part | rotation_part
  | rotation_angle_rad | rotation_angle_deg | point_distance | point_distance_error_ratio.

Section Model.
Context {T : Type} {ops : NumOps T}.
Variable angle_of : M3 T -> T.      (* so3_log_angle, radians *)
Variable rad2deg : T -> T.          (* np.rad2deg *)

(* reduction of an error pose E (3 top rows of the 4x4 matrix) to a scalar *)
Definition reduce_pose (rel : PoseRelation) (E : Pose T) : option T :=
  match rel with
  | translation_part => Some (norm (ptr E))
  | rotation_part => Some (nsqrt (fnorm2 (msub (prot E) I3)))
  | full_transformation => Some (nsqrt (fnorm2 (msub (prot E) I3) +! nrm2 (ptr E)))
  | rotation_angle_rad => Some (nabs (angle_of (prot E)))
  | rotation_angle_deg => Some (nabs (rad2deg (angle_of (prot E))))
  | _ => None
  end.

(* APE: E_i = relative_se3(est_i, ref_i); translation_part / point_distance use the position difference *)
Definition ape_pair (rel : PoseRelation) (ref est : Pose T) : option T :=
  match rel with
  | translation_part | point_distance => Some (norm (vsub (ptr est) (ptr ref)))
  | point_distance_error_ratio => None
  | _ => reduce_pose rel (relative_se3 est ref)
  end.

Fixpoint sequence {A} (l : list (option A)) : option (list A) :=
  match l with
  | [] => Some []
  | None :: _ => None
  | Some x :: r => match sequence r with Some xs => Some (x :: xs) | None => None end
  end.

Definition ape (rel : PoseRelation) (ref est : list (Pose T)) : option (list T) :=
  if Nat.eqb (length ref) (length est)
  then sequence (map (fun p => ape_pair rel (fst p) (snd p)) (combine ref est))
  else None.

(* RPE *)
Definition nthp (l : list (Pose T)) (i : nat) : Pose T := nth i l pI.
Definition rpe_base (Qi Qj Pi Pj : Pose T) : Pose T :=
  relative_se3 (relative_se3 Qi Qj) (relative_se3 Pi Pj).
Definition step_dist (l : list (Pose T)) (p : nat * nat) : T :=
  norm (vsub (ptr (nthp l (fst p))) (ptr (nthp l (snd p)))).

Definition rpe_pair (rel : PoseRelation) (ref est : list (Pose T)) (p : nat * nat) : option T :=
  match rel with
  | point_distance | point_distance_error_ratio =>
      Some (nabs (step_dist ref p -! step_dist est p))
  | _ => reduce_pose rel (rpe_base (nthp ref (fst p)) (nthp ref (snd p)) (nthp est (fst p)) (nthp est (snd p)))
  end.

(* ratio: pairs with a zero reference distance are dropped TOGETHER with their delta_ids *)
Definition nonzero_b (x : T) : bool := negb (neqb x n0).
Definition rpe (rel : PoseRelation) (pairs : list (nat * nat)) (ref est : list (Pose T))
  : option (list T * list nat) :=
  if negb (Nat.eqb (length ref) (length est)) then None else
  match rel with
  | point_distance_error_ratio =>
      let kept := filter (fun p => nonzero_b (step_dist ref p)) pairs in
      Some (map (fun p => (nabs (step_dist ref p -! step_dist est p) /! step_dist ref p) *! nofZ 100%Z) kept,
            map snd kept)
  | _ => match sequence (map (rpe_pair rel ref est) pairs) with
         | Some errs => Some (errs, map snd pairs)
         | None => None
         end
  end.
End Model.
