"""MANIFEST.setup_cmd: full .vo build of the hand-written Coq theories (offline, from files on disk)."""
import sys

from harness import common


def main():
    bad = common.audit_sources()
    if bad:
        print("forbidden construct:\n" + "\n".join(bad))
        sys.exit(2)
    rc, log = common.build_theories()
    print(log[-3000:])
    sys.exit(0 if rc == 0 else 2)


if __name__ == "__main__":
    main()
