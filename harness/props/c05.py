"""C05 - time association (evo/core/sync.py) against the Coq model Evo.Sync (bit-exact, F_ops)."""
import copy
import itertools

import numpy as np

import os

from harness import common, pyast_np, pyast_sync
from harness.common import (cf, cflist, cnat, cpairs_nat, differential, hexf, unhex)

ID = "C05"
IMPORTS = "From Evo Require Import Num Sync NpDsl.\nFrom EvoGen Require Import SyncGen.\n"
COQ_TARGETS = ["theories/SyncProofs.vo", "theories/SyncTie.vo", "generated/SyncGen.vo"]
GEN_PATH = os.path.join(common.COQ, "generated", "SyncGen.v")
GEN_STATE = {"translated": True}
TRUSTED = ["model Evo.Sync written by hand from evo/core/sync.py; ties: (T) harness/pyast_sync.py re-translates matching_time_indices "
           "from the current source into EvoGen.SyncGen on every run (arrays as lists, the best_matches dict as an insertion-ordered "
           "association list, sorted() on int pairs as a lexicographic sort; typed, fail-closed) and Evo.SyncTie proves the translated "
           "function equal to the model (the loop for every number system, the final sort over R using the loop invariant); "
           "(H) differential run (bit-exact) of the model AND of the translated function",
           "numpy elementwise +,-,abs,argmin assumed IEEE-754 binary64 / first-minimum (measured on every case)",
           "PoseTrajectory3D.reduce_to_ids is exercised, not modelled beyond 'select by index'"]
ASSUMPTIONS = ["timestamps finite (no NaN/inf); strictly increasing where the statement asks for time order"]


def regenerate(ctx):
    """translator tie: coq/generated/SyncGen.v from the repository under test (fail-closed)"""
    try:
        text = pyast_sync.translate_sync(common.REPO)
        GEN_STATE["translated"] = True
        if pyast_np.write_if_changed(GEN_PATH, text):
            ctx.notes.append("coq/generated/SyncGen.v regenerated from %s (content changed)" % common.REPO)
        return []
    except Exception as e:  # noqa: fail-closed whatever goes wrong
        GEN_STATE["translated"] = False
        pyast_np.write_if_changed(GEN_PATH, pyast_sync.stub())
        return [{"kind": "obligation", "failing_input": False, "theorem": "Evo.SyncTie.matching_time_indices_gen_is_model (translator tie)",
                 "correspondence": "pyast_sync: evo/core/sync.py matching_time_indices",
                 "detail": "translation of the repository under test failed (fail-closed): %s: %s" % (type(e).__name__, e),
                 "case": None, "model_output": None, "impl_output": None}]


# ------------------------------------------------------------------ implementation side
def _traj(stamps, tags):
    from evo.core.trajectory import PoseTrajectory3D
    tags = np.asarray(tags, dtype=float)
    xyz = np.stack([tags, 2.0 * tags + 1.0, -tags], axis=1)
    half = 0.001 * (tags + 1.0)
    quat = np.stack([np.cos(half), np.zeros_like(half), np.zeros_like(half), np.sin(half)], axis=1)
    return PoseTrajectory3D(positions_xyz=xyz, orientations_quat_wxyz=quat, timestamps=np.array(stamps, dtype=float))


def _snapshot(t):
    return (t.timestamps.tobytes(), t.positions_xyz.tobytes(), t.orientations_quat_wxyz.tobytes())


def impl(case):
    from evo.core import sync
    s1 = [unhex(x) for x in case["s1"]]
    s2 = [unhex(x) for x in case["s2"]]
    maxd, off = unhex(case["maxd"]), unhex(case["off"])
    if case["kind"] == "match":
        a1, a2 = np.array(s1, dtype=float), np.array(s2, dtype=float)
        b1, b2 = a1.tobytes(), a2.tobytes()
        try:
            i1, i2 = sync.matching_time_indices(a1, a2, maxd, off)
        except Exception as e:  # noqa
            return {"error": type(e).__name__}
        return {"pairs": [[int(a), int(b)] for a, b in zip(i1, i2)], "len_equal": len(i1) == len(i2),
                "inputs_unchanged": a1.tobytes() == b1 and a2.tobytes() == b2}
    # associate: poses carry a tag (index within their own trajectory) in position and orientation
    t1, t2 = _traj(s1, range(len(s1))), _traj(s2, range(len(s2)))
    if case.get("same_object"):   # one trajectory object handed over in both roles (s1 == s2 in such cases)
        t2 = t1
    if (len(s1) + len(s2)) % 2:   # the 4x4 matrices were already looked at (transform(), check(), a plot ...) before the association
        t1.poses_se3, t2.poses_se3
    snap1, snap2 = _snapshot(t1), _snapshot(t2)
    ref1, ref2 = copy.deepcopy(t1), copy.deepcopy(t2)
    try:
        r1, r2 = sync.associate_trajectories(t1, t2, maxd, off)
    except sync.SyncException:
        return {"error": "SyncException", "inputs_unchanged": _snapshot(t1) == snap1 and _snapshot(t2) == snap2}
    except Exception as e:  # noqa
        return {"error": type(e).__name__}

    def side(r, ref):
        out, intact = [], True
        if not (r.num_poses == len(r.timestamps) == len(r.positions_xyz) == len(r.orientations_quat_wxyz) == len(r.poses_se3)):
            return [[hexf(x), -1] for x in r.timestamps], False    # the views of a result disagree about its length
        for k in range(r.num_poses):
            tag = int(round(r.positions_xyz[k][0]))
            ok = (0 <= tag < ref.num_poses
                  and r.positions_xyz[k].tobytes() == ref.positions_xyz[tag].tobytes()
                  and r.orientations_quat_wxyz[k].tobytes() == ref.orientations_quat_wxyz[tag].tobytes()
                  and r.poses_se3[k].tobytes() == ref.poses_se3[tag].tobytes())
            intact = intact and ok
            out.append([hexf(r.timestamps[k]), tag])
        return out, intact
    o1, k1 = side(r1, ref1)
    o2, k2 = side(r2, ref2)
    return {"r1": o1, "r2": o2, "poses_intact": k1 and k2,
            "inputs_unchanged": _snapshot(t1) == snap1 and _snapshot(t2) == snap2,
            "independent": r1 is not t1 and r2 is not t2 and not np.shares_memory(r1.timestamps, t1.timestamps)
            and not np.shares_memory(r2.timestamps, t2.timestamps)}


# ------------------------------------------------------------------ model side
def _tagged(stamps):
    # tags 0..n-1 are produced inside Coq (unary nat LITERALS of size n cost O(n^2) to type-check)
    lst = cflist(unhex(s) for s in stamps)
    return "(let l := %s in combine l (List.seq 0 (List.length l)))" % lst


def expr(case, out):
    s1 = cflist(unhex(x) for x in case["s1"])
    s2 = cflist(unhex(x) for x in case["s2"])
    maxd, off = cf(unhex(case["maxd"])), cf(unhex(case["off"]))
    small = len(case["s1"]) * len(case["s2"]) <= 4000
    if case["kind"] == "match":
        spec = "true"
        if small and "pairs" in out:
            spec = "match_spec_b %s %s %s %s %s" % (s1, s2, maxd, off, cpairs_nat(out["pairs"]))
        gen = "tt"
        if small and GEN_STATE["translated"]:
            gen = "matching_time_indices_gen %s %s %s %s" % (s1, s2, maxd, off)
        return "(matching %s %s %s %s, %s, %s)" % (s1, s2, maxd, off, spec, gen)
    spec = "true"
    if small and "r1" in out and out.get("poses_intact"):
        snd_longer = len(case["s2"]) > len(case["s1"])
        p1 = [t for _, t in out["r1"]]
        p2 = [t for _, t in out["r2"]]
        if snd_longer:
            spec = "match_spec_b %s %s %s %s %s" % (s1, s2, maxd, off, cpairs_nat(zip(p1, p2)))
        else:
            spec = "match_spec_b %s %s %s (nopp %s) %s" % (s2, s1, maxd, off, cpairs_nat(zip(p2, p1)))
    return "(associate %s %s %s %s, %s)" % (_tagged(case["s1"]), _tagged(case["s2"]), maxd, off, spec)


def judge(case, val, out):
    gen = None
    if len(val) == 3:
        model, spec_ok, gen = val
    else:
        model, spec_ok = val
    f = judge_main(case, (model, spec_ok), out)
    if f is None and gen is not None and not isinstance(gen, str) and gen != () and "pairs" in out:
        g1, g2 = gen
        if [tuple(p) for p in out["pairs"]] != list(zip([int(a) for a in g1], [int(b) for b in g2])):
            return {"kind": "model-vs-impl", "failing_input": False,
                    "correspondence": "EvoGen.SyncGen.matching_time_indices_gen (translated source) vs implementation",
                    "detail": "index lists differ from the translated source run in binary64"}
    return f


def judge_main(case, val, out):
    model, spec_ok = val
    if out.get("error") not in (None, "SyncException"):
        return {"kind": "spec-violation", "failing_input": True, "detail": "unexpected exception " + out["error"]}
    if out.get("inputs_unchanged") is False:
        return {"kind": "spec-violation", "failing_input": True, "detail": "an input object was modified"}
    if case["kind"] == "match":
        if not out.get("len_equal", True):
            return {"kind": "spec-violation", "failing_input": True, "detail": "index lists of unequal length"}
        got = [tuple(p) for p in out.get("pairs", [])]
        want = [tuple(p) for p in model]
        if spec_ok is not True:
            return {"kind": "spec-violation", "failing_input": True,
                    "detail": "implementation output rejected by the proven checker match_spec_b (C05_checker_sound)"}
        if got != want:
            return {"kind": "model-vs-impl", "failing_input": False, "correspondence": "Sync.matching",
                    "detail": "index pairs differ from the model (accepted by match_spec_b)"}
        return None
    # associate
    if model is None:
        if out.get("error") == "SyncException":
            return None
        return {"kind": "spec-violation", "failing_input": True,
                "detail": "nothing matches (model) but no SyncException was raised"}
    if out.get("error") == "SyncException":
        return {"kind": "spec-violation", "failing_input": True, "detail": "SyncException although pairs exist"}
    if not out.get("poses_intact") or not out.get("independent"):
        return {"kind": "spec-violation", "failing_input": True,
                "detail": "result poses are not unmodified independent copies of input poses"}
    if spec_ok is not True:
        return {"kind": "spec-violation", "failing_input": True,
                "detail": "associated pairs rejected by the proven checker match_spec_b"}
    m = model[1] if isinstance(model, tuple) and model[0] == "Some" else model
    m1, m2 = m
    w1 = [[hexf(s), int(t)] for s, t in m1]
    w2 = [[hexf(s), int(t)] for s, t in m2]
    if w1 != out["r1"] or w2 != out["r2"]:
        return {"kind": "model-vs-impl", "failing_input": False, "correspondence": "Sync.associate",
                "detail": "associated trajectories differ from the model (accepted by match_spec_b)"}
    return None


def nontrivial(case, val, out):
    n = len(out.get("pairs", out.get("r1", [])))
    return 0 < n < max(len(case["s1"]), len(case["s2"])) or n >= 2


def shrink(case):
    for key in ("s1", "s2"):
        xs = case[key]
        if len(xs) > 1:
            for cut in (len(xs) // 2, 1):
                for start in range(0, len(xs), max(cut, 1)):
                    ys = xs[:start] + xs[start + cut:]
                    if ys and len(ys) < len(xs):
                        c = dict(case)
                        c[key] = ys
                        yield c
    if unhex(case["off"]) != 0.0:
        c = dict(case)
        c["off"] = hexf(0.0)
        yield c


# ------------------------------------------------------------------ generators
def mk(kind, s1, s2, maxd, off):
    return {"kind": kind, "s1": [hexf(x) for x in s1], "s2": [hexf(x) for x in s2],
            "maxd": hexf(maxd), "off": hexf(off)}


CORPUS = [
    mk("match", [0, 2 ** -10], [0, 1, 2], 2 ** -6, 0),           # finding F2 (fixed)
    mk("assoc", [0, 2 ** -10], [0, 1, 2], 2 ** -6, 0),
    mk("assoc", [0, 1, 2], [0, 2 ** -10], 2 ** -6, 0),
    mk("match", [0, 0.125], [0, 0.125], 0.125, 0.125),          # contended, tie on distance
    mk("match", [0.0], [5.0], 1.0, 0.0),                        # nothing matches
    mk("assoc", [0.0], [5.0], 1.0, 0.0),
    mk("match", [1.0, 2.0, 3.0], [1.5, 2.5], 0.5, 0.0),         # differences exactly max_diff, ties in argmin
    mk("assoc", [1.0, 2.0, 3.0], [1.5, 2.5], 0.5, 0.0),
    mk("assoc", [1.0, 2.0], [1.25, 2.25], 0.25, -0.25),
    mk("assoc", [1.25, 2.25, 3.25], [1.0, 2.0], 0.0, 0.25),
]
# one trajectory OBJECT in both roles, with and without an offset (equal lengths: the first argument is the long one)
for _off, _maxd in ((0.0, 0.25), (-2.0, 0.25), (2.0, 0.25), (1.0, 0.0), (-0.5, 1.0)):
    _c = mk("assoc", [0.0, 1.0, 2.0, 3.0, 4.0, 5.0], [0.0, 1.0, 2.0, 3.0, 4.0, 5.0], _maxd, _off)
    _c["same_object"] = True
    CORPUS.append(_c)


def grid_cases(ctx):
    pts = [0.0, 0.25, 0.5, 0.75, 1.0, 1.5]
    maxds = [0.0, 0.25, 0.5]
    offs = [0.0, 0.25, -0.25]
    maxlen = ctx.n(3, 4)
    vecs = [list(c) for n in range(1, maxlen + 1) for c in itertools.combinations(pts, n)]
    out = []
    for a in vecs:
        for b in vecs:
            if ctx.quick and (len(a) + len(b)) > 5:
                continue
            for md in maxds:
                for off in offs:
                    out.append((a, b, md, off))
    ctx.rng.shuffle(out)
    out = out[:ctx.n(2500, 25000)]
    return [mk("assoc" if k % 3 == 0 else "match", a, b, md, off) for k, (a, b, md, off) in enumerate(out)]


def random_cases(ctx):
    rng = ctx.np_rng(1)
    out = []
    n_cases = ctx.n(260, 1500)
    for k in range(n_cases):
        # long vectors (thorough): the model indexes with unary nat, so cost grows faster than n1*n2;
        # 5000 x 50, 50 x 5000 and a few ~1500 x 1500 pairs keep the tier inside its budget
        big = (not ctx.quick) and k % 100 == 0
        n1 = int(rng.integers(1, ctx.n(120, 300)))
        n2 = int(rng.integers(1, ctx.n(120, 300)))
        if big:
            n1, n2 = [(5000, 50), (50, 5000), (1500, 1400), (1200, 1600), (3000, 200)][(k // 100) % 5]
        mode = k % 6
        base = 1.5e9 if k % 4 == 0 else 0.0
        rate1 = float(rng.choice([0.01, 0.05, 0.1, 1.0]))
        rate2 = rate1 if mode in (0, 1) else float(rng.choice([0.01, 0.033, 0.1, 0.5]))
        t1 = base + np.cumsum(rng.uniform(0.5, 1.5, n1)) * rate1
        t2 = base + np.cumsum(rng.uniform(0.5, 1.5, n2)) * rate2
        if mode == 1:   # jitter around the same clock
            m = min(n1, n2)
            t2 = np.concatenate([t1[:m] + rng.normal(0, rate1 * 0.2, m), t2[m:] + t1[m - 1]])
            t2 = np.unique(t2)
        if mode == 2:   # gaps
            t2 = t2 + (np.arange(len(t2)) // 7) * 3 * rate2
        if mode == 3:   # disjoint ranges
            t2 = t2 + (t1[-1] - t2[0]) + float(rng.choice([0.001, 10.0]))
        off = float(rng.choice([0.0, 0.0, 0.013, -0.07, 1.0, -2.5]))
        if mode == 3:
            off = float(rng.choice([off, -(t2[0] - t1[0])]))
        maxd = float(rng.choice([0.0, 0.005, 0.01, 0.05, 0.3, 10.0]))
        if mode == 4 and len(t1) > 2 and len(t2) > 2:
            # a difference exactly equal to max_diff: dyadic stamps
            t1 = np.round(t1 * 64) / 64
            t2 = np.round(t2 * 64) / 64
            t1, t2 = np.unique(t1), np.unique(t2)
            off = float(rng.choice([0.0, 0.25, -0.5]))
            d = np.abs(t2[:, None] + off - t1[None, :]).min(axis=0)
            maxd = float(rng.choice(d))
        if mode == 5:   # equal lengths
            n = min(len(t1), len(t2))
            t1, t2 = t1[:n], t2[:n]
        kind = "match" if k % 2 else "assoc"
        out.append(mk(kind, t1.tolist(), t2.tolist(), maxd, off))
    return out


def run(ctx, replay=None, proofs_ok=True):
    if not proofs_ok:   # the case files only need the executable model and the translated function
        common.build_theories(targets=["theories/Sync.vo", "theories/NpDsl.vo", "generated/SyncGen.vo"])
    if replay is not None and not replay.get("case"):
        return {"failures": [], "coverage": {"evaluations": 0, "distinct_nontrivial": 0, "rule": "replay of an obligation "
                "(no input case): the theorems were re-checked by the driver", "samples": []}}
    if replay is not None:
        cases = [replay["case"]]
    else:
        cases = CORPUS + grid_cases(ctx) + random_cases(ctx)
    failures, stats = differential(ctx, cases, imports=IMPORTS, impl=impl, expr=expr, judge=judge,
                                   shrink=shrink, nontrivial=nontrivial, per_file=400)
    hist = {}
    for c in cases:
        b = "%s:n1<=%d,n2<=%d" % (c["kind"], 10 ** len(str(len(c["s1"]))), 10 ** len(str(len(c["s2"]))))
        hist[b] = hist.get(b, 0) + 1
    cov = {"evaluations": stats["evaluations"], "distinct_nontrivial": stats["distinct_nontrivial"],
           "rule": "corpus + all pairs of strictly increasing stamp vectors on a 6-point dyadic grid "
                   "(3 max_diff x 3 offsets, exact hits) + random vectors (equal/different rates, jitter, gaps, "
                   "disjoint ranges, epoch offsets, exact max_diff hits, equal lengths); distinct by input; "
                   "non-trivial = at least two pairs, or some but not all poses paired",
           "samples": cases[:3] + cases[-2:], "input_distribution": hist,
           "regimes": {"exact": stats["evaluations"], "rounded": 0, "fragile": 0},
           "disagreements": stats["disagreements"]}
    return {"failures": failures, "coverage": cov}

LEVEL_TEXT = ("Machine-checked theorems (Coq) over an executable model of matching_time_indices / associate_trajectories: "
              "pairs within max_diff, nearest counterpart, strictly increasing on both sides, no pose used twice, "
              "completeness, copies by index, offset sign, empty => error - for all stamp lists of any length. "
              "The model is tied to the code by a bit-exact differential run (same float operations) on an exhaustive "
              "small grid plus random vectors; a proven boolean checker classifies any disagreement.")
LEVEL_NOTE = ("Trusted: Coq kernel/VM, Reals axioms + classic (stdlib), the hand-written model's correspondence (tested, not "
              "proved), numpy's IEEE semantics. Theorems are over R; the float run is bit-exact with numpy.")
TECHNIQUE = "Coq proof (list induction, loop invariant) + Python-AST translator of matching_time_indices with translated = model proved + bit-exact model/implementation correspondence by vm_compute"
