"""Refresh the numeric columns (theorem count, cases per quick run) of the per-property table in DESIGN.md section 9.1b from
coq/properties/*.v and evidence/*.json (python -m harness.design_table)."""
import json
import os
import re

VERIF = os.path.dirname(os.path.dirname(os.path.abspath(__file__)))


def main():
    p = os.path.join(VERIF, "DESIGN.md")
    s = open(p).read()
    out = []
    for line in s.split("\n"):
        m = re.match(r"^\| (C\d\d) \| (\d+) \| (.*) \| (\d+) \|$", line)
        if m:
            pid = m.group(1)
            n = len(re.findall(r"(?m)^Theorem ", open(os.path.join(VERIF, "coq", "properties", pid + ".v")).read()))
            ev = json.load(open(os.path.join(VERIF, "evidence", pid + ".json")))
            cases = ev["coverage"].get("evaluations", int(m.group(4))) if ev.get("tier") == "quick" else int(m.group(4))
            line = "| %s | %d | %s | %d |" % (pid, n, m.group(3), cases)
        out.append(line)
    open(p, "w").write("\n".join(out))


if __name__ == "__main__":
    main()
