(* ConfigProofs.v - invariants of the configuration-editing model of Config.v, lifted to all histories,
   and the generate / -c equivalence. *)
From Coq Require Import Ascii String.
From Coq Require Import List Arith Bool ZArith Lia.
From Evo Require Import Config.
Import ListNotations.
Local Open Scope string_scope.

Lemma NoDup_snoc' {A} (l : list A) x : NoDup l -> ~ In x l -> NoDup (l ++ [x]).
Proof.
  induction l as [|a r IH]; cbn; intros ND Hn; [constructor; [tauto|constructor]|].
  inversion ND as [|? ? Ha ND']; subst. constructor.
  - intros I. apply in_app_or in I. destruct I as [I|[E|[]]]; [tauto|subst; tauto].
  - apply IH; tauto.
Qed.

Section Proofs.
Context {F : Type}.
Notation json := (json F).
Notation dict := (dict F).
Notation token := (token F).

(* ---------- dictionaries ---------- *)
Lemma has_get k (d : dict) : has k d = true <-> exists v, get k d = Some v.
Proof. unfold has. destruct (get k d); split; intros H; eauto; try discriminate. destruct H; discriminate. Qed.
Lemma has_false k (d : dict) : has k d = false <-> get k d = None.
Proof. unfold has. destruct (get k d); split; intros H; auto; discriminate. Qed.
Lemma has_In k (d : dict) : has k d = true <-> In k (keys d).
Proof.
  unfold has, keys. induction d as [|[k' v] r IH]; cbn; [split; [discriminate|tauto]|].
  destruct (String.eqb_spec k' k) as [->|Ne]; [split; auto|].
  rewrite IH. split; [tauto|intros [E|H]; [congruence|exact H]].
Qed.

Lemma get_set_same k v (d : dict) : get k (set k v d) = Some v.
Proof.
  induction d as [|[k' w] r IH]; cbn; [now rewrite String.eqb_refl|].
  destruct (String.eqb_spec k' k) as [->|Ne]; cbn; [now rewrite String.eqb_refl|].
  destruct (String.eqb_spec k' k); [congruence|exact IH].
Qed.
Lemma get_set_other k k' v (d : dict) : k' <> k -> get k' (set k v d) = get k' d.
Proof.
  intros Ne. induction d as [|[k0 w] r IH]; cbn.
  - destruct (String.eqb_spec k k'); [congruence|reflexivity].
  - destruct (String.eqb_spec k0 k) as [->|N0]; cbn.
    + destruct (String.eqb_spec k k'); [congruence|reflexivity].
    + destruct (String.eqb_spec k0 k'); [reflexivity|exact IH].
Qed.
Lemma get_set k k' v (d : dict) : get k' (set k v d) = if String.eqb k k' then Some v else get k' d.
Proof. destruct (String.eqb_spec k k') as [->|Ne]; [apply get_set_same|apply get_set_other; congruence]. Qed.

Lemma keys_set_in k v (d : dict) : has k d = true -> keys (set k v d) = keys d.
Proof.
  unfold has, keys. induction d as [|[k' w] r IH]; cbn; [discriminate|].
  destruct (String.eqb_spec k' k) as [->|Ne]; cbn; [reflexivity|]. intros H. now rewrite IH.
Qed.
Lemma keys_set_new k v (d : dict) : has k d = false -> keys (set k v d) = (keys d ++ [k])%list.
Proof.
  unfold has, keys. induction d as [|[k' w] r IH]; cbn; [reflexivity|].
  destruct (String.eqb_spec k' k) as [->|Ne]; cbn; [discriminate|]. intros H. now rewrite IH.
Qed.
Lemma has_set k k' v (d : dict) : has k' (set k v d) = String.eqb k k' || has k' d.
Proof. unfold has. rewrite get_set. destruct (String.eqb k k'); reflexivity. Qed.

Lemma NoDup_keys_set k v (d : dict) : NoDup (keys d) -> NoDup (keys (set k v d)).
Proof.
  intros H. destruct (has k d) eqn:E.
  - now rewrite keys_set_in.
  - rewrite keys_set_new by exact E. apply NoDup_snoc'; [exact H|].
    intros I. apply has_In in I. congruence.
Qed.

(* dict.update: the other dict's value wins, all other keys keep theirs *)
Lemma get_update (d other : dict) k : NoDup (keys other) ->
  get k (update d other) = match get k other with Some v => Some v | None => get k d end.
Proof.
  unfold update. revert d. induction other as [|[k0 v0] r IH]; intros d ND; cbn; [reflexivity|].
  inversion ND as [|? ? Hn ND']; subst. rewrite IH by exact ND'.
  destruct (String.eqb_spec k0 k) as [->|Ne].
  - assert (G : get k r = None).
    { apply has_false. destruct (has k r) eqn:E; [|reflexivity]. apply has_In in E. contradiction. }
    rewrite G. apply get_set_same.
  - destruct (get k r); [reflexivity|]. apply get_set_other. congruence.
Qed.
Lemma has_update (d other : dict) k : has k (update d other) = has k d || has k other.
Proof.
  unfold update. revert d. induction other as [|[k0 v0] r IH]; intros d; cbn; [now rewrite orb_false_r|].
  rewrite IH, has_set. unfold has at 4. cbn. destruct (String.eqb k0 k); cbn.
  - now rewrite orb_true_r.
  - destruct (has k d); reflexivity.
Qed.
Lemma keys_update_within (d other : dict) : (forall k, has k other = true -> has k d = true) -> keys (update d other) = keys d.
Proof.
  unfold update. revert d. induction other as [|[k0 v0] r IH]; intros d H; cbn [fold_left fst snd]; [reflexivity|].
  assert (H0 : has k0 d = true) by (apply H; unfold has; cbn; now rewrite String.eqb_refl).
  rewrite IH.
  - now apply keys_set_in.
  - intros k Hk. rewrite has_set. apply orb_true_iff. right. apply H. unfold has in *. cbn.
    destruct (String.eqb k0 k); [reflexivity|exact Hk].
Qed.
Lemma NoDup_keys_update (d other : dict) : NoDup (keys d) -> NoDup (keys (update d other)).
Proof.
  unfold update. revert d. induction other as [|[k0 v0] r IH]; intros d H; cbn [fold_left fst snd]; [exact H|].
  apply IH. now apply NoDup_keys_set.
Qed.

Lemma get_filter_has (p : string -> bool) (d : dict) k : NoDup (keys d) ->
  get k (filter (fun kv => p (fst kv)) d) = if p k then get k d else None.
Proof.
  induction d as [|[k0 v0] r IH]; intros ND; cbn; [now destruct (p k)|].
  inversion ND as [|? ? Hn ND']; subst. specialize (IH ND').
  destruct (p k0) eqn:P0; cbn.
  - destruct (String.eqb_spec k0 k) as [->|Ne]; [now rewrite P0|exact IH].
  - destruct (String.eqb_spec k0 k) as [->|Ne]; [now rewrite IH, P0|exact IH].
Qed.
Lemma NoDup_keys_filter (p : string * json -> bool) (d : dict) : NoDup (keys d) -> NoDup (keys (filter p d)).
Proof.
  unfold keys. induction d as [|kv r IH]; intros ND; cbn; [constructor|].
  inversion ND as [|? ? Hn ND']; subst. destruct (p kv); cbn; [|now apply IH].
  constructor; [|now apply IH]. intros I. apply Hn. apply in_map_iff in I. destruct I as [x [E I]].
  apply filter_In in I. apply in_map_iff. exists x. tauto.
Qed.

(* ================= set_config ================= *)
Variable palette_ok : string -> bool.
Notation finalize := (finalize_values palette_ok).
Notation setloop := (set_loop palette_ok).
Notation setcfg := (set_config palette_ok).

Lemma toggle_keys (cfg : dict) k : keys (toggle cfg k) = keys cfg.
Proof.
  unfold toggle. destruct (get k cfg) as [[| b | | | |]|] eqn:G; try reflexivity.
  apply keys_set_in. apply has_get. eauto.
Qed.
Lemma toggle_get_other (cfg : dict) k k' : k' <> k -> get k' (toggle cfg k) = get k' cfg.
Proof.
  intros Ne. unfold toggle. destruct (get k cfg) as [[| b | | | |]|]; try reflexivity. now apply get_set_other.
Qed.
Lemma has_keys_eq (a b : dict) : keys a = keys b -> forall k, has k a = has k b.
Proof.
  intros E k. destruct (has k a) eqn:A; symmetry.
  - apply has_In. rewrite <- E. now apply has_In.
  - destruct (has k b) eqn:B; [|reflexivity]. apply has_In in B. rewrite <- E in B. apply has_In in B. congruence.
Qed.

(* no key is added or removed, whatever the argument list *)
Lemma set_loop_keys args : forall (cfg c : dict), setloop cfg args = Some c -> keys c = keys cfg.
Proof.
  induction args as [|a rest IH]; intros cfg c H; cbn in H; [now injection H as <-|].
  destruct (has (txt a) cfg) eqn:Ha; [|now apply IH].
  destruct rest as [|b rest'].
  - apply IH in H. now rewrite H, toggle_keys.
  - destruct (has (txt b) cfg).
    + apply IH in H. now rewrite H, toggle_keys.
    + destruct (all_some _) as [values|]; [|discriminate].
      destruct (finalize cfg (txt a) values) as [v|]; [|discriminate].
      apply IH in H. rewrite H. now apply keys_set_in.
Qed.
Theorem set_keys_invariant (cfg : dict) args : keys (setcfg cfg args) = keys cfg.
Proof. unfold set_config. destruct (setloop cfg args) eqn:E; [eapply set_loop_keys; eauto|reflexivity]. Qed.

(* only keys named in the argument list can change *)
Lemma set_loop_only_named args : forall (cfg c : dict) k, setloop cfg args = Some c ->
  (forall a, In a args -> txt a <> k) -> get k c = get k cfg.
Proof.
  induction args as [|a rest IH]; intros cfg c k H Hn; cbn in H; [now injection H as <-|].
  assert (Hr : forall a0, In a0 rest -> txt a0 <> k) by (intros a0 I; apply Hn; now right).
  assert (Ha : k <> txt a) by (intros E; apply (Hn a); [now left|congruence]).
  destruct (has (txt a) cfg); [|now apply IH].
  destruct rest as [|b rest'].
  - rewrite (IH _ _ _ H Hr). now apply toggle_get_other.
  - destruct (has (txt b) cfg).
    + rewrite (IH _ _ _ H Hr). now apply toggle_get_other.
    + destruct (all_some _) as [values|]; [|discriminate].
      destruct (finalize cfg (txt a) values) as [v|]; [|discriminate].
      rewrite (IH _ _ _ H Hr). now apply get_set_other.
Qed.
Theorem set_changes_only_named (cfg : dict) args k :
  (forall a, In a args -> txt a <> k) -> get k (setcfg cfg args) = get k cfg.
Proof. intros H. unfold set_config. destruct (setloop cfg args) eqn:E; [eapply set_loop_only_named; eauto|reflexivity]. Qed.

(* a refusal (nan / inf token, palette given as a number) leaves the document as it was *)
Theorem set_refusal_changes_nothing (cfg : dict) args : setloop cfg args = None -> setcfg cfg args = cfg.
Proof. intros H. unfold set_config. now rewrite H. Qed.

Definition PALETTE : string := "plot_seaborn_palette".

Lemma finalize_bool (cfg : dict) k b values v : k <> PALETTE -> get k cfg = Some (JBool b) ->
  finalize cfg k values = Some v -> values <> [] -> exists b', v = JBool b'.
Proof.
  intros Np G H Hne. unfold finalize_values in H. destruct values as [|v0 rest]; [congruence|].
  destruct (String.eqb_spec k "plot_seaborn_palette"); [contradiction|].
  rewrite G in H. cbn [is_bool] in H.
  destruct (last (v0 :: rest) JNull) as [| | | |s|]; try (injection H as <-; eauto).
  destruct (String.eqb (lower s) "false"); [injection H as <-; eauto|].
  destruct (String.eqb (lower s) "true"); injection H as <-; eauto.
Qed.
Lemma finalize_list (cfg : dict) k l values v : k <> PALETTE -> get k cfg = Some (JList l) ->
  finalize cfg k values = Some v -> values <> [] -> exists l', v = JList l'.
Proof.
  intros Np G H Hne. unfold finalize_values in H. destruct values as [|v0 rest]; [congruence|].
  destruct (String.eqb_spec k "plot_seaborn_palette"); [contradiction|].
  rewrite G in H. cbn [is_bool is_list negb] in H.
  destruct v0 as [| | | |s|]; try (injection H as <-; eauto).
  destruct (_ || _); injection H as <-; eauto.
Qed.

Lemma take_values_nonempty (iskey : string -> bool) (b : token) rest :
  iskey (txt b) = false -> take_values iskey (b :: rest) <> [].
Proof. intros H. cbn. rewrite H. discriminate. Qed.
Lemma all_some_map_nonempty {A B} (f : A -> option B) l l' : all_some (map f l) = Some l' -> l <> [] -> l' <> [].
Proof.
  destruct l as [|a r]; [congruence|]. cbn. destruct (f a); [|discriminate].
  destruct (all_some (map f r)); [|discriminate]. intros H _. injection H as <-. discriminate.
Qed.

(* a predicate on the value stored under k that every step preserves *)
Definition shape_preserved (P : json -> Prop) (k : string) : Prop :=
  forall (cfg : dict) args c v, get k cfg = Some v -> P v -> setloop cfg args = Some c -> exists v', get k c = Some v' /\ P v'.

Lemma shape_from_finalize (P : json -> Prop) k :
  (forall b, P (JBool b) -> P (JBool (negb b))) ->
  (forall (cfg : dict) values v v', get k cfg = Some v -> P v -> values <> [] -> finalize cfg k values = Some v' -> P v') ->
  shape_preserved P k.
Proof.
  intros Ptog Pfin cfg args. revert cfg. induction args as [|a rest IH]; intros cfg c v G Pv H; cbn in H.
  - injection H as <-. eauto.
  - assert (Tog : exists v', get k (toggle cfg (txt a)) = Some v' /\ P v').
    { unfold toggle. destruct (get (txt a) cfg) as [[| b | | | |]|] eqn:Ga; eauto.
      rewrite get_set. destruct (String.eqb_spec (txt a) k) as [E|Ne]; eauto.
      subst k. rewrite Ga in G. injection G as <-. eauto. }
    destruct (has (txt a) cfg) eqn:Ha; [|eapply IH; eauto].
    destruct rest as [|b rest'].
    + destruct Tog as [v' [G' P']]. eapply IH; eauto.
    + destruct (has (txt b) cfg) eqn:Hb.
      * destruct Tog as [v' [G' P']]. eapply IH; eauto.
      * destruct (all_some _) as [values|] eqn:AS; [|discriminate].
        destruct (finalize cfg (txt a) values) as [w|] eqn:Fi; [|discriminate].
        assert (Hne : values <> []).
        { eapply all_some_map_nonempty; [exact AS|]. apply take_values_nonempty. exact Hb. }
        destruct (String.eqb_spec (txt a) k) as [E|Ne].
        -- subst k. eapply (IH (set (txt a) w cfg)); [apply get_set_same| |exact H]. eapply Pfin; eauto.
        -- eapply (IH (set (txt a) w cfg)); [rewrite get_set_other by congruence; exact G|exact Pv|exact H].
Qed.

(* boolean parameters stay boolean, list parameters stay lists *)
Theorem bool_stays_bool (cfg : dict) args k b : k <> PALETTE -> get k cfg = Some (JBool b) ->
  exists b', get k (setcfg cfg args) = Some (JBool b').
Proof.
  intros Np G. unfold set_config. destruct (setloop cfg args) as [c|] eqn:E; [|eauto].
  assert (S : shape_preserved (fun v => exists b, v = JBool b) k).
  { apply shape_from_finalize.
    - intros; eauto.
    - intros cfg0 values v v' G0 [b0 ->] Hne Fi. eapply finalize_bool; eauto. }
  destruct (S cfg args c (JBool b) G (ex_intro _ b eq_refl) E) as [v' [G' [b' ->]]]. eauto.
Qed.
Theorem list_stays_list (cfg : dict) args k l : k <> PALETTE -> get k cfg = Some (JList l) ->
  exists l', get k (setcfg cfg args) = Some (JList l').
Proof.
  intros Np G. unfold set_config. destruct (setloop cfg args) as [c|] eqn:E; [|eauto].
  assert (S : shape_preserved (fun v => exists l, v = JList l) k).
  { apply shape_from_finalize.
    - intros b [l0 E0]; discriminate.
    - intros cfg0 values v v' G0 [l0 ->] Hne Fi. eapply finalize_list; eauto. }
  destruct (S cfg args c (JList l) G (ex_intro _ l eq_refl) E) as [v' [G' [l' ->]]]. eauto.
Qed.

(* what one "key value" / "key" pair does *)
Theorem set_bool_explicit (cfg : dict) k b (v : token) : k <> PALETTE -> get k cfg = Some (JBool b) ->
  has (txt v) cfg = false -> num v = NotNum ->
  get k (setcfg cfg [mkTok k NotNum; v]) =
  Some (JBool (if String.eqb (lower (txt v)) "false" then false else if String.eqb (lower (txt v)) "true" then true else negb b)).
Proof.
  intros Np G Hv Nv. destruct v as [tv nv]. cbn [txt num] in *. subst nv.
  assert (Hk : has k cfg = true) by (apply has_get; eauto).
  unfold set_config. cbn [set_loop txt]. rewrite Hk, Hv.
  cbn [take_values txt map value_of_token num all_some]. rewrite Hv. cbn [map all_some value_of_token num txt].
  unfold finalize_values.
  destruct (String.eqb_spec k "plot_seaborn_palette"); [contradiction|]. rewrite G. cbn [is_bool last].
  destruct (String.eqb (lower tv) "false"); [cbn [set_loop txt]; rewrite has_set, Hv, orb_false_r; 
     destruct (String.eqb k tv) eqn:E; [apply String.eqb_eq in E; subst; congruence|]; apply get_set_same|].
  destruct (String.eqb (lower tv) "true"); (cbn [set_loop txt]; rewrite has_set, Hv, orb_false_r;
     destruct (String.eqb k tv) eqn:E; [apply String.eqb_eq in E; subst; congruence|]; apply get_set_same).
Qed.
Theorem set_bool_toggle (cfg : dict) k b : get k cfg = Some (JBool b) ->
  get k (setcfg cfg [mkTok k NotNum]) = Some (JBool (negb b)).
Proof.
  intros G. unfold set_config. cbn. assert (Hk : has k cfg = true) by (apply has_get; eauto). rewrite Hk.
  unfold toggle. rewrite G. apply get_set_same.
Qed.
(* numeric tokens become numbers (int when integral), other tokens stay strings *)
Theorem set_scalar_value (cfg : dict) k (v : token) old : k <> PALETTE -> get k cfg = Some old ->
  (forall b, old <> JBool b) -> (forall l, old <> JList l) -> has (txt v) cfg = false -> num v <> NumBad ->
  get k (setcfg cfg [mkTok k NotNum; v]) =
  Some (match num v with NumInt z => JInt z | NumFlt f => JFloat f | _ => JStr (txt v) end).
Proof.
  intros Np G Nb Nl Hv Nv. destruct v as [tv nv]. cbn [txt num] in *.
  assert (Hk : has k cfg = true) by (apply has_get; eauto).
  assert (Fin : forall w, finalize cfg k [w] = Some w).
  { intros w. unfold finalize_values. destruct (String.eqb_spec k "plot_seaborn_palette"); [contradiction|]. rewrite G.
    destruct old; try reflexivity; [exfalso; eapply Nb; reflexivity|exfalso; eapply Nl; reflexivity]. }
  assert (Ek : String.eqb k tv = false) by (destruct (String.eqb_spec k tv); [subst; congruence|reflexivity]).
  unfold set_config. cbn [set_loop txt]. rewrite Hk, Hv.
  cbn [take_values txt]. rewrite Hv. cbn [map].
  destruct nv; try congruence; cbn [value_of_token num txt all_some]; rewrite Fin; cbn [set_loop txt];
    rewrite has_set, Ek, Hv; cbn [orb]; apply get_set_same.
Qed.

(* ================= reset / merge / upgrade ================= *)
Variable defaults : dict.
Hypothesis defaults_nodup : NoDup (keys defaults).
Notation resetm := (reset defaults).
Notation upgradem := (upgrade defaults).

Lemma reset_fold ps : forall (cfg : dict) k,
  get k (fold_left (fun acc p => match get p defaults with Some v => set p v acc | None => acc end) ps cfg) =
  if existsb (String.eqb k) ps && has k defaults then get k defaults else get k cfg.
Proof.
  induction ps as [|p ps IH]; intros cfg k; cbn; [reflexivity|]. rewrite IH.
  destruct (String.eqb_spec k p) as [->|Ne]; cbn.
  - destruct (get p defaults) as [v|] eqn:G.
    + assert (H : has p defaults = true) by (apply has_get; eauto). rewrite H, andb_true_r.
      destruct (existsb (String.eqb p) ps); [reflexivity|]. now rewrite get_set_same.
    + assert (H : has p defaults = false) by (now apply has_false). rewrite H, !andb_false_r. reflexivity.
  - destruct (existsb (String.eqb k) ps && has k defaults); [reflexivity|].
    destruct (get p defaults); [apply get_set_other; congruence|reflexivity].
Qed.

(* resetting a subset restores exactly those keys to their defaults *)
Theorem reset_subset (cfg : dict) ps k :
  get k (resetm cfg (Some ps)) = if existsb (String.eqb k) ps && has k defaults then get k defaults else get k cfg.
Proof. apply reset_fold. Qed.
Theorem reset_all (cfg : dict) : resetm cfg None = defaults.
Proof. reflexivity. Qed.

Theorem merge_dicts_hard (a b : dict) k : NoDup (keys b) ->
  get k (merge_dicts false a b) = match get k b with Some v => Some v | None => get k a end.
Proof. intros H. unfold merge_dicts. now apply get_update. Qed.
Theorem merge_dicts_soft (a b : dict) k : NoDup (keys b) ->
  get k (merge_dicts true a b) = match get k a with Some v => Some v | None => get k b end.
Proof.
  intros H. unfold merge_dicts. rewrite get_update by (now apply NoDup_keys_filter).
  rewrite (get_filter_has (fun k0 => negb (has k0 a)) b k H).
  destruct (get k a) as [v|] eqn:G.
  - assert (Hk : has k a = true) by (apply has_get; eauto). now rewrite Hk.
  - assert (Hk : has k a = false) by (now apply has_false). rewrite Hk. cbn. destruct (get k b); reflexivity.
Qed.

(* a version upgrade adds missing default keys and changes no value the user has *)
Theorem upgrade_adds_missing_keeps_user (cfg : dict) k :
  get k (upgradem cfg) = match get k cfg with Some v => Some v | None => get k defaults end.
Proof. unfold upgrade. now apply merge_dicts_soft. Qed.

(* ================= histories of set / reset / merge / upgrade ================= *)
Notation op := (@op F).
Notation apply_op := (apply_op palette_ok defaults).
Notation run := (run palette_ok defaults).

(* merged files are dictionaries over the settings keys *)
Definition op_ok (o : op) : Prop :=
  match o with
  | OMerge _ other => NoDup (keys other) /\ forall k, has k other = true -> has k defaults = true
  | _ => True
  end.

Definition known_only (cfg : dict) : Prop := forall k, has k cfg = true -> has k defaults = true.
Definition complete (cfg : dict) : Prop := forall k, has k defaults = true -> has k cfg = true.

Lemma has_reset (cfg : dict) ps k : has k (resetm cfg (Some ps)) = has k cfg || (existsb (String.eqb k) ps && has k defaults).
Proof.
  unfold has at 1. rewrite reset_subset.
  destruct (existsb (String.eqb k) ps && has k defaults) eqn:E.
  - apply andb_true_iff in E. destruct E as [_ E]. unfold has in E. destruct (get k defaults); [|discriminate].
    now rewrite orb_true_r.
  - now rewrite orb_false_r.
Qed.
Lemma has_merge soft (a b : dict) k : NoDup (keys b) -> has k (merge_dicts soft a b) = has k a || has k b.
Proof.
  intros H. unfold has at 1. destruct soft.
  - rewrite merge_dicts_soft by exact H. unfold has. destruct (get k a), (get k b); reflexivity.
  - rewrite merge_dicts_hard by exact H. unfold has. destruct (get k a), (get k b); reflexivity.
Qed.

Lemma apply_op_known (cfg : dict) o : op_ok o -> known_only cfg -> known_only (apply_op cfg o).
Proof.
  intros Ok K k Hk. destruct o as [args|[ps|]|soft other|]; cbn [apply_op op_ok] in *.
  - apply K. erewrite has_keys_eq; [exact Hk|]. symmetry. apply set_keys_invariant.
  - rewrite has_reset in Hk. apply orb_true_iff in Hk. destruct Hk as [Hk|Hk]; [now apply K|].
    apply andb_true_iff in Hk. tauto.
  - exact Hk.
  - destruct Ok as [ND Sub]. rewrite has_merge in Hk by exact ND. apply orb_true_iff in Hk. destruct Hk; [now apply K|now apply Sub].
  - unfold upgrade in Hk. rewrite has_merge in Hk by exact defaults_nodup. apply orb_true_iff in Hk. destruct Hk; [now apply K|assumption].
Qed.
Lemma apply_op_complete (cfg : dict) o : op_ok o -> complete cfg -> complete (apply_op cfg o).
Proof.
  intros Ok C k Hk. destruct o as [args|[ps|]|soft other|]; cbn [apply_op op_ok] in *.
  - erewrite has_keys_eq; [apply C, Hk|]. apply set_keys_invariant.
  - rewrite has_reset. now rewrite (C k Hk).
  - exact Hk.
  - destruct Ok as [ND _]. rewrite has_merge by exact ND. now rewrite (C k Hk).
  - unfold upgrade. rewrite has_merge by exact defaults_nodup. now rewrite Hk, orb_true_r.
Qed.

(* over every history: no unknown key ever appears, no default key ever disappears *)
Theorem history_keys ops : forall cfg, Forall op_ok ops -> known_only cfg -> complete cfg ->
  known_only (run ops cfg) /\ complete (run ops cfg).
Proof.
  induction ops as [|o ops IH]; intros cfg Hok K C; [tauto|].
  inversion Hok; subst. cbn. apply IH; [assumption|now apply apply_op_known|now apply apply_op_complete].
Qed.
(* an upgrade at any point makes the document complete again, whatever it was *)
Theorem upgrade_completes (cfg : dict) : complete (upgradem cfg).
Proof. intros k Hk. unfold upgrade. rewrite has_merge by exact defaults_nodup. now rewrite Hk, orb_true_r. Qed.

(* kinds: every default boolean (list) parameter present in the document holds a boolean (list) *)
Definition kinds_ok (cfg : dict) : Prop :=
  forall k, k <> PALETTE ->
    (forall b v, get k defaults = Some (JBool b) -> get k cfg = Some v -> exists b', v = JBool b') /\
    (forall l v, get k defaults = Some (JList l) -> get k cfg = Some v -> exists l', v = JList l').
Definition op_kinds_ok (o : op) : Prop :=
  match o with
  | OMerge _ other => NoDup (keys other) /\ kinds_ok other
  | _ => True
  end.

Lemma apply_op_kinds (cfg : dict) o : op_kinds_ok o -> kinds_ok cfg -> kinds_ok (apply_op cfg o).
Proof.
  intros Ok K k Np. destruct (K k Np) as [KB KL].
  destruct o as [args|[ps|]|soft other|]; cbn [apply_op op_kinds_ok] in *.
  - split.
    + intros b v D G. destruct (get k cfg) as [v0|] eqn:G0.
      * destruct (KB b v0 D eq_refl) as [b0 ->]. destruct (bool_stays_bool cfg args k b0 Np G0) as [b' E]. rewrite E in G. injection G as <-. eauto.
      * exfalso. assert (H : has k (setcfg cfg args) = true) by (apply has_get; eauto).
        erewrite has_keys_eq in H by apply set_keys_invariant. apply has_get in H. destruct H; congruence.
    + intros l v D G. destruct (get k cfg) as [v0|] eqn:G0.
      * destruct (KL l v0 D eq_refl) as [l0 ->]. destruct (list_stays_list cfg args k l0 Np G0) as [l' E]. rewrite E in G. injection G as <-. eauto.
      * exfalso. assert (H : has k (setcfg cfg args) = true) by (apply has_get; eauto).
        erewrite has_keys_eq in H by apply set_keys_invariant. apply has_get in H. destruct H; congruence.
  - split; intros x v D G; rewrite reset_subset in G;
      (destruct (existsb (String.eqb k) ps && has k defaults); [rewrite D in G; injection G as <-; eauto|]); eauto.
  - split; intros x v D G; rewrite reset_all in G; rewrite D in G; injection G as <-; eauto.
  - destruct Ok as [ND KO]. destruct (KO k Np) as [OB OL].
    split; intros x v D G; (destruct soft; [rewrite merge_dicts_soft in G by exact ND|rewrite merge_dicts_hard in G by exact ND]);
      (destruct (get k cfg) as [v0|] eqn:G0; destruct (get k other) as [v1|] eqn:G1; try discriminate; injection G as <-; eauto).
  - split; intros x v D G; rewrite upgrade_adds_missing_keeps_user in G;
      (destruct (get k cfg) as [v0|] eqn:G0; [injection G as <-; eauto|rewrite D in G; injection G as <-; eauto]).
Qed.
Theorem history_kinds ops : forall cfg, Forall op_kinds_ok ops -> kinds_ok cfg -> kinds_ok (run ops cfg).
Proof.
  induction ops as [|o ops IH]; intros cfg Hok K; [exact K|].
  inversion Hok; subst. cbn. apply IH; [assumption|now apply apply_op_kinds].
Qed.
Theorem defaults_kinds_ok : kinds_ok defaults.
Proof. intros k _. split; intros x v D G; rewrite D in G; injection G as <-; eauto. Qed.

(* ================= SettingsContainer ================= *)
Variable f_is_zero : F -> bool.
Notation lockedb := (locked f_is_zero).
Notation setattrm := (setattr f_is_zero).

Theorem locked_no_new_keys (c : dict) k v : lockedb c = true -> has k c = false -> setattrm c k v = None.
Proof. intros L H. unfold setattr. now rewrite L, H. Qed.
Theorem setattr_existing (c : dict) k v : has k c = true -> setattrm c k v = Some (set k v c) /\ keys (set k v c) = keys c.
Proof. intros H. unfold setattr. rewrite H, andb_false_r. split; [reflexivity|now apply keys_set_in]. Qed.
Theorem update_existing_keys_no_new (c other : dict) : keys (update_existing_keys c other) = keys c.
Proof.
  unfold update_existing_keys. apply keys_update_within. intros k Hk. apply has_get in Hk. destruct Hk as [v G].
  assert (NoDupless : In (k, v) (filter (fun kv => has (fst kv) c) other) \/ True) by tauto.
  clear NoDupless. induction other as [|[k0 v0] r IH]; cbn in G; [discriminate|].
  destruct (has k0 c) eqn:H0; cbn in G.
  - destruct (String.eqb_spec k0 k) as [->|Ne]; [exact H0|now apply IH].
  - now apply IH.
Qed.

Notation cop := (@cop F).
Notation apply_cop := (apply_cop f_is_zero).
Definition cop_spares_lock (o : cop) : Prop :=
  match o with CSet k _ => k <> LOCK | CUpd other => has LOCK other = false end.

Lemma get_update_existing_other (c other : dict) k : has k other = false -> get k (update_existing_keys c other) = get k c.
Proof.
  intros H. unfold update_existing_keys, update.
  assert (G : forall l (d : dict), (forall kv, In kv l -> fst kv <> k) ->
              get k (fold_left (fun acc kv => set (fst kv) (snd kv) acc) l d) = get k d).
  { induction l as [|kv l IH]; intros d Hl; cbn; [reflexivity|].
    rewrite IH by (intros kv' I; apply Hl; now right). apply get_set_other. intros E. apply (Hl kv); [now left|congruence]. }
  apply G. intros kv I. apply filter_In in I. destruct I as [I _]. intros E.
  assert (Hk : has k other = true).
  { apply has_In. unfold keys. apply in_map_iff. exists kv. tauto. }
  congruence.
Qed.

Lemma apply_cop_inv (c : dict) o : cop_spares_lock o -> lockedb c = true ->
  keys (apply_cop c o) = keys c /\ lockedb (apply_cop c o) = true.
Proof.
  intros Sp L. destruct o as [k v|other]; cbn in *.
  - unfold setattr. rewrite L. cbn. destruct (has k c) eqn:H; cbn; [|tauto].
    split; [now apply keys_set_in|]. unfold locked in *. rewrite get_set_other by congruence. exact L.
  - split; [apply update_existing_keys_no_new|]. unfold locked in *. now rewrite get_update_existing_other.
Qed.
(* unknown parameters cannot be added to the loaded settings, over every sequence of assignments and
   session updates that do not themselves rewrite the lock entry *)
Theorem container_history ops : forall c, Forall cop_spares_lock ops -> lockedb c = true ->
  keys (fold_left apply_cop ops c) = keys c /\ lockedb (fold_left apply_cop ops c) = true.
Proof.
  induction ops as [|o ops IH]; intros c Hs L; [tauto|].
  inversion Hs; subst. cbn [fold_left]. destruct (apply_cop_inv c o) as [K L']; try assumption.
  destruct (IH (apply_cop c o)) as [K2 L2]; try assumption. split; [now rewrite K2, K|exact L2].
Qed.

(* ================= merge_config ================= *)
Theorem config_overrides_args (args cfgfile settings : dict) k : NoDup (keys cfgfile) ->
  get k (fst (merge_config args cfgfile settings)) = match get k cfgfile with Some v => Some v | None => get k args end.
Proof. intros H. cbn. now apply get_update. Qed.
Theorem config_updates_matching_settings (args cfgfile settings : dict) k : NoDup (keys cfgfile) ->
  keys (snd (merge_config args cfgfile settings)) = keys settings /\
  get k (snd (merge_config args cfgfile settings)) =
    match get k settings with
    | Some old => match get k cfgfile with Some v => Some v | None => Some old end
    | None => None
    end.
Proof.
  intros H. cbn. split; [apply update_existing_keys_no_new|].
  unfold update_existing_keys. rewrite get_update by (now apply NoDup_keys_filter).
  rewrite (get_filter_has (fun k0 => has k0 settings) cfgfile k H).
  destruct (get k settings) as [old|] eqn:G.
  - assert (Hk : has k settings = true) by (apply has_get; eauto). rewrite Hk. destruct (get k cfgfile); reflexivity.
  - assert (Hk : has k settings = false) by (now apply has_false). now rewrite Hk.
Qed.

End Proofs.

(* ================= evo_config generate vs. passing the arguments directly ================= *)
Section Generate.
Context {F : Type}.
Variable F_of_Z : Z -> F.
Variable bad_float : string -> json F.
Notation json := (json F).
Notation dict := (dict F).
Notation token := (token F).
Notation genloop := (gen_loop bad_float).
Notation arg := (@arg F).

Definition num_json (v : @numv F) : json := match v with VInt z => JInt z | VFlt f => JFloat f end.
(* what generate stores for one occurrence *)
Definition gen_arg_value (a : arg) : json :=
  match a with
  | AFlag _ => JBool true
  | AStr _ s => JStr s
  | AInt _ z _ => JInt z
  | AFloat _ v _ => num_json v
  | AFloats _ vs => JList (map (fun p => num_json (fst p)) vs)
  end.

Definition more_ok (more : list token) : Prop := match more with [] => True | t :: _ => is_flag t = true end.

Lemma flag_token_is_flag n : is_flag (mkTok ("--" ++ n) NotNum : token) = true.
Proof. reflexivity. Qed.
Lemma strip_flag_token n : strip_dashes ("--" ++ n) = n.
Proof. reflexivity. Qed.
Lemma num_token_not_flag (v : @numv F) sp : is_flag (num_token v sp) = false.
Proof. unfold is_flag, num_token, is_number. destruct v; cbn; now rewrite andb_false_r. Qed.
Lemma gen_value_num_token (v : @numv F) sp : gen_value bad_float (num_token v sp) = num_json v.
Proof. destruct v; reflexivity. Qed.

Lemma take_nonflags_app (vals more : list token) : Forall (fun t => is_flag t = false) vals -> more_ok more ->
  take_nonflags (vals ++ more)%list = vals.
Proof.
  induction vals as [|t vals IH]; intros Hv Hm; cbn.
  - destruct more as [|m more']; [reflexivity|]. cbn in Hm. cbn. now rewrite Hm.
  - inversion Hv; subst. rewrite H1. f_equal. now apply IH.
Qed.
Lemma gen_loop_skip (vals more : list token) data : Forall (fun t => is_flag t = false) vals ->
  genloop data (vals ++ more)%list = genloop data more.
Proof.
  induction vals as [|t vals IH]; intros Hv; [reflexivity|]. inversion Hv; subst. cbn [app gen_loop]. rewrite H1. now apply IH.
Qed.

Definition value_tokens (a : arg) : list token := tl (arg_tokens a).
Lemma arg_tokens_split a : arg_tokens a = mkTok ("--" ++ arg_name a) NotNum :: value_tokens a.
Proof. destruct a; reflexivity. Qed.
Lemma value_tokens_nonflags a : arg_ok a -> Forall (fun t => is_flag t = false) (value_tokens a).
Proof.
  intros [_ Ok]. destruct a as [n|n s|n z sp|n v sp|n vs]; cbn.
  - constructor.
  - constructor; [|constructor]. unfold is_flag. cbn. unfold plain in Ok. now rewrite Ok.
  - constructor; [|constructor]. unfold is_flag, is_number. cbn. now rewrite andb_false_r.
  - constructor; [|constructor]. apply num_token_not_flag.
  - apply Forall_forall. intros t Ht. apply in_map_iff in Ht. destruct Ht as [p [<- _]]. apply num_token_not_flag.
Qed.

Lemma gen_one (a : arg) (more : list token) data : arg_ok a -> more_ok more ->
  genloop data (arg_tokens a ++ more)%list = genloop (set (arg_name a) (gen_arg_value a) data) more.
Proof.
  intros Ok Hm. pose proof (value_tokens_nonflags a Ok) as NF.
  rewrite arg_tokens_split. cbn [app gen_loop]. rewrite flag_token_is_flag. cbn [txt]. rewrite strip_flag_token.
  destruct (value_tokens a) as [|b vals] eqn:V.
  - assert (E : gen_arg_value a = JBool true).
    { destruct a as [n|n s|n z sp|n v sp|n vs]; try discriminate; [reflexivity|].
      destruct Ok as [_ L]. destruct vs; [cbn in L; lia|discriminate]. }
    rewrite E. cbn [app]. destruct more as [|m more']; [reflexivity|]. cbn in Hm. now rewrite Hm.
  - cbn [app]. inversion NF as [|? ? Hb Hvals]; subst. rewrite Hb.
    change (b :: (vals ++ more)%list) with ((b :: vals) ++ more)%list.
    rewrite take_nonflags_app by (try assumption; now constructor).
    rewrite gen_loop_skip by now constructor.
    f_equal. f_equal.
    destruct a as [n|n s|n z sp|n v sp|n vs]; cbn in V; try discriminate.
    + injection V as <- <-. reflexivity.
    + injection V as <- <-. reflexivity.
    + injection V as <- <-. cbn. now rewrite gen_value_num_token.
    + destruct Ok as [_ L]. destruct vs as [|p1 [|p2 vs']]; cbn in L; try lia.
      cbn in V. injection V as <- <-. cbn [map gen_arg_value fst].
      rewrite !gen_value_num_token. f_equal. f_equal. f_equal.
      rewrite map_map. apply map_ext. intros p. apply gen_value_num_token.
Qed.

Lemma flatten_more_ok (args : list arg) : more_ok (flatten args).
Proof. destruct args as [|a r]; [exact I|]. unfold flatten. cbn [flat_map]. rewrite arg_tokens_split. reflexivity. Qed.

Lemma gen_loop_flatten (args : list arg) : forall data, Forall arg_ok args ->
  genloop data (flatten args) = fold_left (fun acc a => set (arg_name a) (gen_arg_value a) acc) args data.
Proof.
  induction args as [|a r IH]; intros data Ok; [reflexivity|]. inversion Ok; subst.
  unfold flatten. cbn [flat_map fold_left]. fold (flatten r).
  rewrite gen_one by (try assumption; apply flatten_more_ok). now apply IH.
Qed.

(* value stored by the last occurrence of an option *)
Fixpoint lastv (val : arg -> json) (k : string) (args : list arg) : option json :=
  match args with
  | [] => None
  | a :: r => match lastv val k r with
              | Some v => Some v
              | None => if String.eqb (arg_name a) k then Some (val a) else None
              end
  end.
Lemma get_fold_set (val : arg -> json) (args : list arg) k : forall d : dict,
  get k (fold_left (fun acc a => set (arg_name a) (val a) acc) args d) =
  match lastv val k args with Some v => Some v | None => get k d end.
Proof.
  induction args as [|a r IH]; intros d; cbn [fold_left lastv]; [reflexivity|].
  rewrite IH. destruct (lastv val k r); [reflexivity|]. rewrite get_set. destruct (String.eqb (arg_name a) k); reflexivity.
Qed.
Lemma NoDup_fold_set (val : arg -> json) (args : list arg) : forall d : dict, NoDup (keys d) ->
  NoDup (keys (fold_left (fun acc a => set (arg_name a) (val a) acc) args d)).
Proof. induction args as [|a r IH]; intros d H; cbn; [exact H|]. apply IH. now apply NoDup_keys_set. Qed.

Definition osim (a b : option json) : Prop :=
  match a, b with Some x, Some y => jsim F_of_Z x y | None, None => True | _, _ => False end.
Lemma jsim1_refl (v : json) : jsim1 F_of_Z v v. Proof. destruct v; reflexivity. Qed.
Lemma jsim_refl (v : json) : jsim F_of_Z v v.
Proof. destruct v; try reflexivity. cbn. induction l; constructor; [apply jsim1_refl|assumption]. Qed.
Lemma gen_vs_direct (a : arg) : jsim F_of_Z (gen_arg_value a) (arg_value F_of_Z a).
Proof.
  destruct a as [n|n s|n z sp|n v sp|n vs]; cbn; try reflexivity.
  - destruct v; reflexivity.
  - induction vs as [|[v sp] vs IH]; cbn; constructor; [destruct v; reflexivity|exact IH].
Qed.
Lemma lastv_sim k (args : list arg) : osim (lastv gen_arg_value k args) (lastv (arg_value F_of_Z) k args) /\
  (lastv gen_arg_value k args = None <-> lastv (arg_value F_of_Z) k args = None).
Proof.
  induction args as [|a r [IH1 IH2]]; cbn [lastv]; [split; [exact I|tauto]|].
  destruct (lastv gen_arg_value k r) as [x|] eqn:E1; destruct (lastv (arg_value F_of_Z) k r) as [y|] eqn:E2; cbn [osim] in IH1.
  - split; [exact IH1|split; discriminate].
  - destruct IH1.
  - destruct IH1.
  - destruct (String.eqb (arg_name a) k).
    + split; [apply gen_vs_direct|split; discriminate].
    + split; [exact I|tauto].
Qed.

(* a config generated from an argument list, merged over the defaults (-c), agrees with parsing the
   arguments directly: same keys, values equal up to 1 == 1.0 *)
Theorem generate_equiv (dflt : dict) (args : list arg) k : Forall arg_ok args ->
  osim (get k (update dflt (generate bad_float (flatten args)))) (get k (parse_direct F_of_Z dflt args)).
Proof.
  intros Ok. unfold generate, parse_direct. rewrite gen_loop_flatten by exact Ok.
  rewrite get_update by (apply NoDup_fold_set; constructor).
  rewrite !get_fold_set. cbn [get].
  destruct (lastv_sim k args) as [S N].
  destruct (lastv gen_arg_value k args) as [x|], (lastv (arg_value F_of_Z) k args) as [y|]; cbn in S; try tauto.
  destruct (get k dflt) as [v|]; cbn; [apply jsim_refl|exact I].
Qed.

(* ... and an option that argparse parses with type=int gets an int from the generated config too *)
Lemma lastv_int k (args : list arg) z : lastv (arg_value F_of_Z) k args = Some (JInt z) -> lastv gen_arg_value k args = Some (JInt z).
Proof.
  induction args as [|a r IH]; cbn [lastv]; [discriminate|].
  destruct (lastv_sim k r) as [_ N].
  destruct (lastv (arg_value F_of_Z) k r) as [y|] eqn:E2.
  - intros H. injection H as ->. now rewrite IH.
  - destruct N as [_ N]. rewrite (N eq_refl). destruct (String.eqb (arg_name a) k); [|discriminate].
    destruct a as [n|n s|n z' sp|n v sp|n vs]; cbn; try discriminate. intros H. exact H.
Qed.
Theorem generate_keeps_int_options_integral (dflt : dict) (args : list arg) k z : Forall arg_ok args ->
  lastv (arg_value F_of_Z) k args = Some (JInt z) ->
  get k (update dflt (generate bad_float (flatten args))) = Some (JInt z) /\
  get k (parse_direct F_of_Z dflt args) = Some (JInt z).
Proof.
  intros Ok L. unfold generate, parse_direct. rewrite gen_loop_flatten by exact Ok.
  rewrite get_update by (apply NoDup_fold_set; constructor).
  rewrite !get_fold_set. rewrite L, (lastv_int _ _ _ L). tauto.
Qed.

(* the pre-repair generate (finding F6): every number became a float and a negative number a flag;
   witness kept as an executable regression example in the correspondence corpus *)
End Generate.

Lemma nodup_strings_sound l : nodup_strings l = true -> NoDup l.
Proof.
  induction l as [|a r IH]; cbn; [constructor|]. rewrite andb_true_iff, negb_true_iff. intros [H1 H2].
  constructor; [|now apply IH]. intros I.
  assert (E : existsb (String.eqb a) r = true) by (apply existsb_exists; exists a; split; [exact I|apply String.eqb_refl]).
  congruence.
Qed.

(* finding F6 on the old generate: '--downsample 500' gave a float, '--t_offset -0.5' two flags.
   (carrier Z stands in for the floats: -5 plays the role of -0.5) *)
Lemma old_generate_refuted :
  get "downsample" (generate_old (F := Z) (fun z => z) (flatten [AInt "downsample" 500 "500"])) = Some (JFloat 500%Z) /\
  generate_old (F := Z) (fun z => z) (flatten [AFloat "t_offset" (VFlt (-5)%Z) "-0.5"]) = [("t_offset", JBool true); ("0.5", JBool true)] /\
  get "downsample" (generate (F := Z) (fun _ => JNull) (flatten [AInt "downsample" 500 "500"])) = Some (JInt 500) /\
  generate (F := Z) (fun _ => JNull) (flatten [AFloat "t_offset" (VFlt (-5)%Z) "-0.5"]) = [("t_offset", JFloat (-5)%Z)].
Proof. repeat split; reflexivity. Qed.
