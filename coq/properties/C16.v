(* C16 - computations do not modify their inputs or other trajectory objects.
   Property theorems only; model in Evo.Heap, proofs in Evo.HeapProofs.
   V is the (abstract) type of array contents, mk the content oracle: every theorem holds whatever numbers the
   operations compute.  cfg_new = the current code, cfg_old = before the fix commits 6234e49 / ce2eb42. *)
From Coq Require Import List Arith.
From Evo Require Import Heap HeapProofs.
Import ListNotations.

(* every state reached by a history of API calls from the empty program state is well-formed *)
Theorem C16_reachable_states_are_wellformed :
  forall (V : Type) (mk : nat -> nat -> list V -> V) (c : cfg) (hist : list cmd) (d : V),
    wf_state (run mk c hist (empty_state d)).
Proof. exact @reachable_wf. Qed.
Print Assumptions C16_reachable_states_are_wellformed.

(* frame: a call leaves every cell outside its write footprint W unchanged (either configuration, every call) *)
Theorem C16_frame :
  forall (V : Type) (mk : nat -> nat -> list V -> V) (c : cfg) (x : cmd) (st st' : state V) (W : list loc) (res : list nat),
    wf_state st -> exec mk c x st = (st', W, res) ->
    (hnext (hp st) <= hnext (hp st') /\
     forall l, l < hnext (hp st) -> ~ In l W -> hval (hp st') l = hval (hp st) l) /\
    wf_state st' /\ length (objs st) <= length (objs st').
Proof. exact @exec_frame. Qed.
Print Assumptions C16_frame.

(* the current code writes in place only cells that the same call allocated: no pre-existing array is ever written *)
Theorem C16_current_code_writes_no_preexisting_cell :
  forall (V : Type) (mk : nat -> nat -> list V -> V) (x : cmd) (st st' : state V) (W : list loc) (res : list nat),
    wf_state st -> exec mk cfg_new x st = (st', W, res) ->
    Forall (fun l => hnext (hp st) <= l) W /\
    forall l, l < hnext (hp st) -> hval (hp st') l = hval (hp st) l.
Proof. exact @new_code_writes_no_preexisting_cell. Qed.
Print Assumptions C16_current_code_writes_no_preexisting_cell.

(* readers_pure: APE/RPE process_data, get_statistic / get_all_statistics / get_result, umeyama_alignment,
   matching_time_indices, id_pairs_from_delta / filter_pairs_* / filter_by_motion, merge_results, DataFrame
   conversion, file writers, plot functions (type [reader]) - in either configuration no pre-existing cell is
   written, and every object other than the metric being processed keeps its cached arrays (same locations,
   possibly more caches) and its view *)
Theorem C16_readers_pure :
  forall (V : Type) (mk : nat -> nat -> list V -> V) (c : cfg) (r : reader) (st st' : state V) (W : list loc) (res : list nat),
    wf_state st -> exec mk c (CRead r) st = (st', W, res) ->
    (forall l, l < hnext (hp st) -> hval (hp st') l = hval (hp st) l) /\
    forall j, j < length (objs st) -> cmd_subject (CRead r) <> Some j ->
      kept mk st st' j /\ obs_at mk st' j = obs_at mk st j.
Proof. exact @readers_pure. Qed.
Print Assumptions C16_readers_pure.

(* deepcopy, associate_trajectories, trajectory.merge, split_*, constructors, lazy property reads: the arguments
   keep their cached arrays and their views (either configuration) *)
Theorem C16_derivations_leave_their_arguments_unchanged :
  forall (V : Type) (mk : nat -> nat -> list V -> V) (c : cfg) (x : cmd) (st st' : state V) (W : list loc) (res : list nat),
    wf_state st -> is_deriv x = true -> exec mk c x st = (st', W, res) ->
    (forall l, l < hnext (hp st) -> hval (hp st') l = hval (hp st) l) /\
    forall j, j < length (objs st) -> kept mk st st' j /\ obs_at mk st' j = obs_at mk st j.
Proof. exact @derivations_pure. Qed.
Print Assumptions C16_derivations_leave_their_arguments_unchanged.

(* current code: the view of object a is unchanged by EVERY history (any length, any calls: derivations, readers,
   in-place methods incl. project) in which no call operates on a itself *)
Theorem C16_view_unchanged_by_any_history_on_other_objects :
  forall (V : Type) (mk : nat -> nat -> list V -> V) (hist : list cmd) (st : state V) (a : nat),
    wf_state st -> a < length (objs st) -> Forall (fun x => cmd_subject x <> Some a) hist ->
    obs_at mk (run mk cfg_new hist st) a = obs_at mk st a.
Proof. exact @independent_new. Qed.
Print Assumptions C16_view_unchanged_by_any_history_on_other_objects.

(* derived_independent, current code: for a copy, associated trajectories, a merged trajectory, split parts (with
   or without an actual cut) and constructor results b derived from a: b is another object, a is unchanged by the
   derivation, and any later history of operations on the one never changes what is seen through the other *)
Theorem C16_derived_independent :
  forall (V : Type) (mk : nat -> nat -> list V -> V) (x : cmd) (st st1 : state V) (W : list loc) (res : list nat),
    wf_state st -> derivation x = true -> exec mk cfg_new x st = (st1, W, res) ->
    forall a b, a < length (objs st) -> In b res ->
      a <> b /\ b < length (objs st1) /\ obs_at mk st1 a = obs_at mk st a /\
      (forall hist, Forall (fun y => only_on b y = true) hist ->
         obs_at mk (run mk cfg_new hist st1) a = obs_at mk st a) /\
      (forall hist, Forall (fun y => only_on a y = true) hist ->
         obs_at mk (run mk cfg_new hist st1) b = obs_at mk st1 b).
Proof. exact @derived_independent_new. Qed.
Print Assumptions C16_derived_independent.

(* objects with disjoint footprints stay independent under in-place writers (either configuration) *)
Theorem C16_separated_objects_independent :
  forall (V : Type) (mk : nat -> nat -> list V -> V) (c : cfg) (hist : list cmd) (st : state V) (a b : nat),
    wf_state st -> a <> b -> a < length (objs st) -> b < length (objs st) -> sep st a b ->
    Forall (fun x => only_on b x = true) hist ->
    obs_at mk (run mk c hist st) a = obs_at mk st a.
Proof. exact @separated_independent. Qed.
Print Assumptions C16_separated_objects_independent.

(* copies, associated and merged trajectories (and positions+quaternions constructor results) consist of fresh cells
   only: footprints disjoint, independent in both directions even with the old in-place project() *)
Theorem C16_copy_association_merge_independent_in_either_configuration :
  forall (V : Type) (mk : nat -> nat -> list V -> V) (c : cfg) (x : cmd) (st st1 : state V) (W : list loc) (res : list nat),
    wf_state st -> fresh_deriv x = true -> exec mk c x st = (st1, W, res) ->
    forall a b, a < length (objs st) -> In b res ->
      a <> b /\ b < length (objs st1) /\ sep st1 a b /\ obs_at mk st1 a = obs_at mk st a /\
      (forall hist, Forall (fun y => only_on b y = true) hist ->
         obs_at mk (run mk c hist st1) a = obs_at mk st a) /\
      (forall hist, Forall (fun y => only_on a y = true) hist ->
         obs_at mk (run mk c hist st1) b = obs_at mk st1 b).
Proof. exact @fresh_derived_independent. Qed.
Print Assumptions C16_copy_association_merge_independent_in_either_configuration.

(* regression witnesses against the OLD model (finding F5a/F5b, fixed in /repo by 6234e49 and ce2eb42) *)
Theorem C16_old_split_parts_independent_refuted :
  exists (st : state nat) k src cuts st1 W res b hist,
    wf_state st /\ src < length (objs st) /\ exec mk1 cfg_old (CSplit k src cuts) st = (st1, W, res) /\
    In b res /\ b <> src /\ Forall (fun y => only_on b y = true) hist /\
    obs_at mk1 (run mk1 cfg_old hist st1) src <> obs_at mk1 st1 src.
Proof. exact old_split_parts_independent_refuted. Qed.
Print Assumptions C16_old_split_parts_independent_refuted.

Theorem C16_old_split_without_cut_refuted :
  exists (st : state nat) k src st1 W res b hist,
    wf_state st /\ src < length (objs st) /\ exec mk1 cfg_old (CSplit k src []) st = (st1, W, res) /\
    In b res /\ Forall (fun y => only_on b y = true) hist /\
    obs_at mk1 (run mk1 cfg_old hist st1) src <> obs_at mk1 st1 src.
Proof. exact old_split_without_cut_refuted. Qed.
Print Assumptions C16_old_split_without_cut_refuted.

Theorem C16_old_constructor_shared_matrices_refuted :
  exists (st : state nat) src st1 W res b hist,
    wf_state st /\ src < length (objs st) /\ exec mk1 cfg_old (CCtorPoses src false) st = (st1, W, res) /\
    In b res /\ b <> src /\ Forall (fun y => only_on b y = true) hist /\
    obs_at mk1 (run mk1 cfg_old hist st1) src <> obs_at mk1 st1 src.
Proof. exact old_constructor_shared_matrices_refuted. Qed.
Print Assumptions C16_old_constructor_shared_matrices_refuted.

(* non-vacuity: on the current model the split part still shares pose cells with its parent, projecting the part
   changes the part and not the parent; a no-cut split is a new object; a long history changes only the copy *)
Theorem C16_new_split_part_shares_cells_but_is_independent :
  let st := run mk1 cfg_new [CInit 0 3 true; CGet 0 GPos] (empty_state 0) in
  let st1 := fst (fst (exec mk1 cfg_new (CSplit SplitTime 0 [1]) st)) in
  let st2 := run mk1 cfg_new [CProject 1 0] st1 in
  (exists l oa ob, nth_error (objs st1) 0 = Some oa /\ nth_error (objs st1) 1 = Some ob /\
                   In l (reach oa) /\ In l (reach ob)) /\
  obs_at mk1 st2 0 = obs_at mk1 st1 0 /\ obs_at mk1 st2 1 <> obs_at mk1 st1 1.
Proof. exact new_split_part_shares_cells_but_is_independent. Qed.
Print Assumptions C16_new_split_part_shares_cells_but_is_independent.

Theorem C16_new_split_without_cut_is_a_copy :
  let st := w_st in
  let e := exec mk1 cfg_new (CSplit SplitTime 0 []) st in
  snd e = [1] /\ obs_at mk1 (run mk1 cfg_new [CScale 1; CProject 1 2] (fst (fst e))) 0 = obs_at mk1 st 0.
Proof. exact new_split_without_cut_is_a_copy. Qed.
Print Assumptions C16_new_split_without_cut_is_a_copy.

Theorem C16_example_history_changes_only_the_copy :
  let st := run mk1 cfg_new [CInit 1 4 true; CInit 0 4 true; CCopy 0] (empty_state 0) in
  let st' := run mk1 cfg_new [CTransform 2 true true true; CGet 0 GPoses; CProject 2 0; CReduce 2 [0; 2];
                              CAlign 2 1 true false] st in
  obs_at mk1 st' 0 = obs_at mk1 st 0 /\ obs_at mk1 st' 1 = obs_at mk1 st 1 /\ obs_at mk1 st' 2 <> obs_at mk1 st 2.
Proof. exact example_history_changes_only_the_copy. Qed.
Print Assumptions C16_example_history_changes_only_the_copy.
