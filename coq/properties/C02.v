(* C02 - RPE values over exactly the selected pairs. Proofs in Evo.MetricsProofs. *)
From Coq Require Import Reals List.
From Evo Require Import Num Linalg LinalgR Lie LieProofs Metrics MetricsProofs Filters RpeSelect NpDsl MetricsTieRpe.
From EvoGen Require StepsC02.
From EvoGen Require Import LieGen MetricsGen.
Import ListNotations.
Local Open Scope R_scope.

Theorem C02_unequal_lengths_refused : forall rel pairs (ref est : list PoseR),
  length ref <> length est -> rpeR rel pairs ref est = None.
Proof. exact rpe_refuses_unequal. Qed.
Print Assumptions C02_unequal_lengths_refused.

Theorem C02_error_pose_definition : forall Qi Qj Pi Pj : PoseR,
  rpe_base Qi Qj Pi Pj = pmul (pinv (pmul (pinv Qi) Qj)) (pmul (pinv Pi) Pj).
Proof. exact rpe_E_def. Qed.
Print Assumptions C02_error_pose_definition.

Theorem C02_one_value_per_pair_ids_are_pair_ends : forall rel pairs (ref est : list PoseR) errs ids,
  rpeR rel pairs ref est = Some (errs, ids) ->
  length ref = length est /\ length errs = length ids /\
  (rel <> point_distance_error_ratio ->
     ids = map snd pairs /\ forall k, (k < length pairs)%nat ->
       rpe_pairR rel ref est (nth k pairs (0, 0)%nat) = Some (nth k errs 0)) /\
  (rel = point_distance_error_ratio ->
     let kept := filter (fun p => nonzero_b (step_dist ref p)) pairs in
     ids = map snd kept /\
     errs = map (fun p => Rabs (step_dist ref p - step_dist est p) / step_dist ref p * 100) kept).
Proof. exact rpe_one_value_per_pair. Qed.
Print Assumptions C02_one_value_per_pair_ids_are_pair_ends.

Theorem C02_drift_invariant : forall rel pairs (A B : PoseR) (ref est : list PoseR),
  Orth (prot A) -> Orth (prot B) -> pairs_in_range (length ref) pairs ->
  rpeR rel pairs (map (pmul A) ref) (map (pmul B) est) = rpeR rel pairs ref est.
Proof. exact rpe_drift_invariant. Qed.
Print Assumptions C02_drift_invariant.

(* drift invariance of the WHOLE computation, pair selection included: the selector (frames / path length /
   accumulated or direct rotation angle; consecutive or all pairs; on the estimate or on the reference) only looks at
   distances and relative rotations, which a left rigid motion leaves unchanged *)
Theorem C02_drift_invariant_including_pair_selection :
  forall rel delta dframes u rel_tol all from_ref (A B : PoseR) (ref est : list PoseR),
  Orth (prot A) -> Orth (prot B) -> ref <> [] -> (u = DFrames -> (1 <= dframes)%nat) ->
  rpe_full angleR rad2degR PI rel delta dframes u rel_tol all from_ref (map (pmul A) ref) (map (pmul B) est) =
  rpe_full angleR rad2degR PI rel delta dframes u rel_tol all from_ref ref est.
Proof. exact rpe_full_drift_invariant. Qed.
Print Assumptions C02_drift_invariant_including_pair_selection.

Theorem C02_zero_for_same_relative_motion : forall rel (ref est : list PoseR) p,
  Orth (prot (nthp ref (fst p))) -> Orth (prot (nthp est (fst p))) -> Orth (prot (nthp ref (snd p))) ->
  prel (nthp ref (fst p)) (nthp ref (snd p)) = prel (nthp est (fst p)) (nthp est (snd p)) ->
  rel <> point_distance_error_ratio -> rpe_pairR rel ref est p = Some 0.
Proof. exact rpe_pair_zero_same_motion. Qed.
Print Assumptions C02_zero_for_same_relative_motion.

(* CLI clause, translator tie: ordered guarded processing calls of main_rpe.rpe / main_rpe.run re-extracted from
   the CURRENT source: same preprocessing order as evo_ape, RPE on (ref, est), unit change, then both trajectories
   restricted to [0] + delta_ids and the companion arrays sliced [1:]. *)
(* ---- translator tie: EvoGen.MetricsGen is re-translated from evo/core/metrics.py on every run ---- *)
(* for the SE(3)-based relations the error pose RPE.rpe_base builds for a pair and its reduction in RPE.process_data,
   as translated from the source, give the model's rpe_pair - for every number system and every angle oracle *)
Theorem C02_translated_source_is_the_model : forall (T : Type) (ops : NumOps T) (angle_of : M3 T -> T) (rad2deg : T -> T)
  (rel : PoseRelation) (ref est : list (Pose T)) (p : nat * nat),
  rel <> point_distance -> rel <> point_distance_error_ratio ->
  rpe_reduce_gen angle_of rad2deg rel
    (rpe_base_gen (nthp ref (fst p)) (nthp ref (snd p)) (nthp est (fst p)) (nthp est (snd p)))
  = rpe_pair angle_of rad2deg rel ref est p.
Proof. exact (@rpe_pair_from_translated_pieces). Qed.
Print Assumptions C02_translated_source_is_the_model.

From Coq Require Import String.
Local Open Scope string_scope.
Theorem C02_step_order_main_rpe_rpe : StepsC02.main_rpe_rpe =
  ["if[align or correct_scale] traj_est.align(traj_ref, correct_scale, only_scale, n=n_to_align)";
   "if[align or correct_scale] lie_algebra.sim3(r_a, t_a, s)";
   "if[align_origin] traj_est.align_origin(traj_ref)";
   "if[align_origin] to_ref_origin.dot(alignment_transformation)";
   "if[project_to_plane] traj_ref.project(project_to_plane)";
   "if[project_to_plane] traj_est.project(project_to_plane)";
   "metrics.RPE(pose_relation, delta, delta_unit, rel_delta_tol, all_pairs, pairs_from_reference)";
   "rpe_metric.process_data(data)";
   "if[change_unit] rpe_metric.change_unit(change_unit)";
   "rpe_metric.get_result(ref_name, est_name)";
   "traj_ref.reduce_to_ids(delta_ids_with_first_pose)";
   "traj_est.reduce_to_ids(delta_ids_with_first_pose)";
   "rpe_result.add_trajectory(ref_name, traj_ref)";
   "rpe_result.add_trajectory(est_name, traj_est)";
   "if[isinstance(traj_est, PoseTrajectory3D)] rpe_result.add_np_array('seconds_from_start', seconds_from_start[1:])";
   "if[isinstance(traj_est, PoseTrajectory3D)] rpe_result.add_np_array('timestamps', traj_est.timestamps[1:])";
   "if[isinstance(traj_est, PoseTrajectory3D)] rpe_result.add_np_array('distances_from_start', traj_ref.distances[1:])";
   "if[isinstance(traj_est, PoseTrajectory3D)] rpe_result.add_np_array('distances', traj_est.distances[1:])";
   "if[alignment_transformation is not None] rpe_result.add_np_array('alignment_transformation_sim3', alignment_transformation)"].
Proof. reflexivity. Qed.
Print Assumptions C02_step_order_main_rpe_rpe.

Theorem C02_step_order_main_rpe_run : StepsC02.main_rpe_run =
  ["common.load_trajectories(args)";
   "common.get_pose_relation(args)";
   "common.get_delta_unit(args)";
   "if[args.plot_full_ref] copy.deepcopy(traj_ref)";
   "common.downsample_or_filter(args, traj_ref, traj_est)";
   "if[isinstance(traj_ref, PoseTrajectory3D) and isinstance(traj_est, PoseTrajectory3D)] if[args.t_start or args.t_end] traj_ref.reduce_to_time_range(args.t_start, args.t_end)";
   "if[isinstance(traj_ref, PoseTrajectory3D) and isinstance(traj_est, PoseTrajectory3D)] sync.associate_trajectories(traj_ref, traj_est, args.t_max_diff, args.t_offset, first_name=ref_name, snd_name=est_name)";
   "rpe(traj_ref=traj_ref, traj_est=traj_est, pose_relation=pose_relation, delta=args.delta, delta_unit=delta_unit, rel_delta_tol=args.delta_tol, all_pairs=args.all_pairs, pairs_from_reference=args.pairs_from_reference, align=args.align, correct_scale=args.correct_scale, n_to_align=args.n_to_align, align_origin=args.align_origin, ref_name=ref_name, est_name=est_name, change_unit=change_unit, project_to_plane=plane)";
   "if[args.save_results] file_interface.save_res_file(args.save_results, result, confirm_overwrite=not args.no_warnings)"].
Proof. reflexivity. Qed.
Print Assumptions C02_step_order_main_rpe_run.

(* ---- symmetry (added after every property had a check): every RPE relation except the ratio gives the same values
   when the two trajectories exchange roles; the ratio does not, because it divides by the step length of the trajectory
   in the reference role ---- *)
Theorem C02_symmetric_in_the_two_trajectories : forall rel pairs (ref est : list PoseR),
  rel <> point_distance_error_ratio ->
  Forall (fun p => Orth (prot p)) ref -> Forall (fun p => Orth (prot p)) est ->
  rpeR rel pairs est ref = rpeR rel pairs ref est.
Proof. exact rpe_swap. Qed.
Print Assumptions C02_symmetric_in_the_two_trajectories.
Theorem C02_ratio_depends_on_which_trajectory_is_the_reference : exists (ref est : list PoseR) pairs,
  Forall (fun p => Orth (prot p)) ref /\ Forall (fun p => Orth (prot p)) est /\
  rpeR point_distance_error_ratio pairs est ref <> rpeR point_distance_error_ratio pairs ref est.
Proof. exact rpe_ratio_not_symmetric. Qed.
Print Assumptions C02_ratio_depends_on_which_trajectory_is_the_reference.

(* ---- body frame (added after every property had a check): right-multiplying every pose of both trajectories by one rigid
   T conjugates the error pose, so the rotation-angle values do not depend on the body-frame convention ---- *)
Theorem C02_error_pose_conjugated_by_common_body_frame_change : forall Qi Qj Pi Pj t : PoseR,
  Orth (prot Qi) -> Orth (prot Qj) -> Orth (prot Pi) -> Orth (prot t) ->
  rpe_base (pmul Qi t) (pmul Qj t) (pmul Pi t) (pmul Pj t) = pmul (pinv t) (pmul (rpe_base Qi Qj Pi Pj) t).
Proof. exact rpe_base_right. Qed.
Print Assumptions C02_error_pose_conjugated_by_common_body_frame_change.
Theorem C02_rotation_angle_independent_of_body_frame : forall (Qi Qj Pi Pj t : PoseR) rel,
  Orth (prot Qi) -> Orth (prot Qj) -> Orth (prot Pi) -> Orth (prot t) ->
  rel = rotation_angle_rad \/ rel = rotation_angle_deg ->
  reduceR rel (rpe_base (pmul Qi t) (pmul Qj t) (pmul Pi t) (pmul Pj t)) = reduceR rel (rpe_base Qi Qj Pi Pj).
Proof. exact rpe_rotation_values_body_frame_invariant. Qed.
Print Assumptions C02_rotation_angle_independent_of_body_frame.
