(* LieProofs.v - theorems about the Lie model over R (property C09). *)
From Coq Require Import Reals Lra Psatz Nsatz List Bool.
From Evo Require Import Num Linalg LinalgR Lie.
Import ListNotations.
Local Open Scope R_scope.

Ltac lie_unfold := cbv [rodrigues skew_part cos_angle hat vee relative_so3 se3_inverse relative_se3
  sim3_inverse_with] in *; lin_unfold.

(* ---------- hat / vee ---------- *)
Lemma vee_hat (v : V3R) : vee (hat v) = v.
Proof. destruct v as [x y z]. lie_unfold. f_equal; ring. Qed.
Definition Skew (m : M3R) : Prop := mt m = mscale (-1) m.
Lemma hat_vee (m : M3R) : Skew m -> hat (vee m) = m.
Proof.
  destruct m as [a b c d e f g h i]. unfold Skew. lie_unfold. intros H. injection H; intros.
  apply M3_ext; cbn; lra.
Qed.
Lemma hat_skew (v : V3R) : Skew (hat v).
Proof. destruct v as [x y z]. unfold Skew. lie_unfold. f_equal; ring. Qed.

(* ---------- SE(3) / SO(3) helpers ---------- *)
Lemma se3_inverse_left (p : PoseR) : SE3 p -> pmul (se3_inverse p) p = pI.
Proof. intros [O _]. now apply pinv_left. Qed.
Lemma se3_inverse_right (p : PoseR) : SE3 p -> pmul p (se3_inverse p) = pI.
Proof. intros [O _]. now apply pinv_right. Qed.
Lemma relative_se3_def (a b : PoseR) : relative_se3 a b = pmul (se3_inverse a) b.
Proof. reflexivity. Qed.
Lemma relative_se3_self (a : PoseR) : SE3 a -> relative_se3 a a = pI.
Proof. intros [O _]. now apply prel_self. Qed.
Lemma relative_so3_self (r : M3R) : SO3 r -> relative_so3 r r = I3.
Proof. intros [[H _] _]. exact H. Qed.
Lemma relative_so3_inverse (r q : M3R) : SO3 r -> mm r (relative_so3 r q) = q.
Proof. intros [[_ H] _]. unfold relative_so3. now rewrite <- mm_assoc, H, mm_I_l. Qed.

(* ---------- Sim(3) ---------- *)
Lemma cube_inj (c s : R) : c * c * c = s * s * s -> c = s.
Proof.
  intros H. assert (E : (c - s) * (c * c + c * s + s * s) = 0) by (replace ((c - s) * (c * c + c * s + s * s)) with (c*c*c - s*s*s) by ring; lra).
  destruct (Rmult_integral _ _ E) as [E1|E2]; [lra|].
  assert (P1 : 0 <= (c + s / 2) * (c + s / 2)) by nra. assert (P2 : 0 <= s * s) by nra.
  assert (Z : s * s = 0) by nra. apply Rmult_integral in Z.
  assert (s = 0) by tauto. subst s. assert (Z2 : c * c = 0) by nra. apply Rmult_integral in Z2. tauto.
Qed.
(* sim3_scale recovers the scale: any cube root of det(s R) equals s *)
Lemma sim3_scale_recovered (r : M3R) (t : V3R) (s c : R) : SO3 r ->
  c * c * c = det (prot (sim3 r t s)) -> c = s.
Proof.
  intros [_ D] H. cbn [sim3 prot] in H. rewrite det_mscale, D, Rmult_1_r in H. now apply cube_inj.
Qed.
Lemma mscale_mscale k l (a : M3R) : mscale k (mscale l a) = mscale (k * l) a.
Proof. destruct a; m3eq. Qed.
Lemma mscale_1 (a : M3R) : mscale 1 a = a. Proof. destruct a; m3eq. Qed.
Lemma mm_mscale_l k (a b : M3R) : mm (mscale k a) b = mscale k (mm a b). Proof. destruct a, b; m3eq. Qed.
Lemma mm_mscale_r k (a b : M3R) : mm a (mscale k b) = mscale k (mm a b). Proof. destruct a, b; m3eq. Qed.
Lemma mt_mscale k (a : M3R) : mt (mscale k a) = mscale k (mt a). Proof. destruct a; m3eq. Qed.
Lemma mv_mscale k (a : M3R) v : mv (mscale k a) v = vscale k (mv a v). Proof. destruct a, v; v3eq. Qed.
Lemma vscale_vscale k l (v : V3R) : vscale k (vscale l v) = vscale (k * l) v. Proof. destruct v; v3eq. Qed.
Lemma vscale_1 (v : V3R) : vscale 1 v = v. Proof. destruct v; v3eq. Qed.
Lemma vscale_vopp k (v : V3R) : vscale k (vopp v) = vopp (vscale k v). Proof. destruct v; v3eq. Qed.
Lemma vadd_vopp_r (a : V3R) : vadd a (vopp a) = V0. Proof. destruct a; v3eq. Qed.

Lemma sim3_inverse_with_eq (r : M3R) (t : V3R) (s : R) : s <> 0 ->
  sim3_inverse_with s (sim3 r t s) =
  mkPose (mscale (1 / s) (mt r)) (vopp (mv (mt r) (vscale (1 / s) t))).
Proof.
  intros Hs. unfold sim3_inverse_with, sim3. rnum. cbn [prot ptr].
  rewrite mscale_mscale. replace (1 / s * s) with 1 by (field; exact Hs). now rewrite mscale_1.
Qed.
Lemma sim3_inverse_left (r : M3R) (t : V3R) (s : R) : Orth r -> s <> 0 ->
  pmul (sim3_inverse_with s (sim3 r t s)) (sim3 r t s) = pI.
Proof.
  intros [O _] Hs. rewrite sim3_inverse_with_eq by exact Hs. unfold sim3, pmul, pI. cbn [prot ptr].
  apply Pose_ext; cbn [prot ptr].
  - rewrite mm_mscale_l, mm_mscale_r, mscale_mscale, O.
    replace (1 / s * s) with 1 by (field; exact Hs). apply mscale_1.
  - rewrite mv_mscale, mv_vscale. apply vadd_vopp_r.
Qed.
Lemma sim3_inverse_right (r : M3R) (t : V3R) (s : R) : Orth r -> s <> 0 ->
  pmul (sim3 r t s) (sim3_inverse_with s (sim3 r t s)) = pI.
Proof.
  intros [_ O] Hs. rewrite sim3_inverse_with_eq by exact Hs. unfold sim3, pmul, pI. cbn [prot ptr].
  apply Pose_ext; cbn [prot ptr].
  - rewrite mm_mscale_l, mm_mscale_r, mscale_mscale, O.
    replace (s * (1 / s)) with 1 by (field; exact Hs). apply mscale_1.
  - rewrite mv_vopp, mv_mscale, <- mv_mm, O, mv_I, vscale_vscale.
    replace (s * (1 / s)) with 1 by (field; exact Hs). rewrite vscale_1. rewrite vadd_comm. apply vadd_vopp_r.
Qed.

(* ---------- Rodrigues' formula: exp on so(3) ---------- *)
(* With th^2 = |v|^2, A = sin th / th, B = (1 - cos th)/th^2 one has 2B = A^2 + B^2 th^2. *)
Lemma rodrigues_mtm (v : V3R) (A B : R) :
  mm (mt (rodrigues v A B)) (rodrigues v A B) =
  madd I3 (mscale (2 * B - A * A - B * B * nrm2 v) (mm (hat v) (hat v))).
Proof. destruct v as [x y z]. lie_unfold. f_equal; ring. Qed.
Lemma rodrigues_mmt (v : V3R) (A B : R) :
  mm (rodrigues v A B) (mt (rodrigues v A B)) =
  madd I3 (mscale (2 * B - A * A - B * B * nrm2 v) (mm (hat v) (hat v))).
Proof. destruct v as [x y z]. lie_unfold. f_equal; ring. Qed.
Lemma rodrigues_det_eq (v : V3R) (A B : R) :
  det (rodrigues v A B) = 1 - nrm2 v * (2 * B - A * A - B * B * nrm2 v).
Proof. destruct v as [x y z]. lie_unfold. ring. Qed.
Lemma madd_mscale_0 (a k : M3R) : madd a (mscale 0 k) = a. Proof. destruct a, k; m3eq. Qed.
Lemma rodrigues_orth (v : V3R) (A B : R) : 2 * B = A * A + B * B * nrm2 v -> Orth (rodrigues v A B).
Proof.
  intros H. assert (E : 2 * B - A * A - B * B * nrm2 v = 0) by lra.
  split; [rewrite rodrigues_mtm|rewrite rodrigues_mmt]; rewrite E; apply madd_mscale_0.
Qed.
Lemma rodrigues_det (v : V3R) (A B : R) : 2 * B = A * A + B * B * nrm2 v -> det (rodrigues v A B) = 1.
Proof. intros H. rewrite rodrigues_det_eq. replace (2 * B - A * A - B * B * nrm2 v) with 0 by lra. ring. Qed.
Lemma rodrigues_SO3 (v : V3R) (A B : R) : 2 * B = A * A + B * B * nrm2 v -> SO3 (rodrigues v A B).
Proof. intros H. split; [now apply rodrigues_orth|now apply rodrigues_det]. Qed.
Lemma rodrigues_trace (v : V3R) (A B : R) : tr (rodrigues v A B) = 3 - 2 * B * nrm2 v.
Proof. destruct v as [x y z]. lie_unfold. ring. Qed.
Lemma rodrigues_skew (v : V3R) (A B : R) : skew_part (rodrigues v A B) = vscale A v.
Proof. destruct v as [x y z]. lie_unfold. f_equal; field. Qed.
Lemma rodrigues_inverse (v : V3R) (A B : R) : mt (rodrigues v A B) = rodrigues (vopp v) A B.
Proof. destruct v as [x y z]. lie_unfold. f_equal; ring. Qed.

(* the mathematical exponential and logarithm *)
Definition theta (v : V3R) : R := sqrt (nrm2 v).
Definition sinc (t : R) : R := if Req_EM_T t 0 then 1 else sin t / t.
Definition cosc (t : R) : R := if Req_EM_T t 0 then 1 / 2 else (1 - cos t) / (t * t).
Definition so3_expR (v : V3R) : M3R := rodrigues v (sinc (theta v)) (cosc (theta v)).
Definition angleR (r : M3R) : R := acos (cos_angle r).
Definition so3_logR (r : M3R) : V3R :=
  let t := angleR r in if Req_EM_T t 0 then V0 else vscale (t / sin t) (skew_part r).

Lemma theta_sq (v : V3R) : theta v * theta v = nrm2 v.
Proof. unfold theta. apply sqrt_sqrt. apply nrm2_nonneg. Qed.
Lemma theta_nonneg (v : V3R) : 0 <= theta v. Proof. apply sqrt_pos. Qed.
Lemma sinc_cosc_identity t : 2 * cosc t = sinc t * sinc t + cosc t * cosc t * (t * t).
Proof.
  unfold sinc, cosc. destruct (Req_EM_T t 0) as [->|N]; [lra|].
  pose proof (sin2_cos2 t) as S. unfold Rsqr in S. field_simplify; [|exact N|exact N].
  replace (sin t ^ 2) with (1 - cos t * cos t) by (simpl; lra). field. exact N.
Qed.
Theorem so3_exp_is_rotation (v : V3R) : SO3 (so3_expR v).
Proof. apply rodrigues_SO3. rewrite <- theta_sq. apply sinc_cosc_identity. Qed.
Lemma so3_exp_cos_angle (v : V3R) : cos_angle (so3_expR v) = cos (theta v).
Proof.
  unfold cos_angle, so3_expR. rnum. rewrite rodrigues_trace, <- theta_sq. unfold cosc.
  destruct (Req_EM_T (theta v) 0) as [E|N]; [rewrite E, cos_0; lra|]. field. exact N.
Qed.
Theorem so3_exp_angle (v : V3R) : theta v <= PI -> angleR (so3_expR v) = theta v.
Proof.
  intros H. unfold angleR. rewrite so3_exp_cos_angle. apply acos_cos. split; [apply theta_nonneg|exact H].
Qed.
Lemma vscale_0 (v : V3R) : vscale 0 v = V0. Proof. destruct v; v3eq. Qed.
Lemma theta_zero (v : V3R) : theta v = 0 -> v = V0.
Proof.
  intros E. pose proof (theta_sq v) as S. rewrite E in S. destruct v as [x y z]. lin_unfold.
  assert (forall a, 0 <= a * a) by (intros; nra). apply V3_ext; cbn; nra.
Qed.
(* log o exp = id on the open ball of radius pi *)
Theorem so3_log_exp (v : V3R) : theta v < PI -> so3_logR (so3_expR v) = v.
Proof.
  intros H. unfold so3_logR. rewrite so3_exp_angle by lra.
  destruct (Req_EM_T (theta v) 0) as [E|N]; [symmetry; now apply theta_zero|].
  unfold so3_expR. rewrite rodrigues_skew, vscale_vscale. unfold sinc.
  destruct (Req_EM_T (theta v) 0) as [E|_]; [contradiction|].
  assert (0 < sin (theta v)).
  { apply sin_gt_0; [|exact H]. pose proof (theta_nonneg v). lra. }
  replace (theta v / sin (theta v) * (sin (theta v) / theta v)) with 1 by (field; split; lra).
  apply vscale_1.
Qed.
(* the inverse rotation is the exponential of the negated vector *)
Lemma theta_vopp (v : V3R) : theta (vopp v) = theta v.
Proof. unfold theta. f_equal. destruct v as [x y z]. lin_unfold. ring. Qed.
Theorem so3_exp_neg (v : V3R) : mt (so3_expR v) = so3_expR (vopp v).
Proof. unfold so3_expR. rewrite theta_vopp. apply rodrigues_inverse. Qed.

(* ---------- the rotation angle as a bi-invariant metric ---------- *)
Definition dist_angle (a b : M3R) : R := angleR (relative_so3 a b).

Lemma cos_angle_range (r : M3R) : SO3 r -> -1 <= cos_angle r <= 1.
Proof. intros H. pose proof (SO3_trace_bounds r H). unfold cos_angle. rnum. lra. Qed.
Theorem angle_range (r : M3R) : 0 <= angleR r <= PI.
Proof. apply acos_bound. Qed.
Theorem dist_angle_sym (a b : M3R) : dist_angle a b = dist_angle b a.
Proof.
  unfold dist_angle, angleR, cos_angle, relative_so3. rnum.
  rewrite <- (tr_mt (mm (mt a) b)), mt_mm, mt_mt. reflexivity.
Qed.
Theorem dist_angle_left_invariant (c a b : M3R) : Orth c -> dist_angle (mm c a) (mm c b) = dist_angle a b.
Proof.
  intros [O _]. unfold dist_angle, relative_so3. rewrite mt_mm, mm_assoc, <- (mm_assoc (mt c) c b), O, mm_I_l.
  reflexivity.
Qed.
Theorem dist_angle_right_invariant (c a b : M3R) : Orth c -> dist_angle (mm a c) (mm b c) = dist_angle a b.
Proof.
  intros [_ O]. unfold dist_angle, angleR, cos_angle, relative_so3. rnum.
  rewrite mt_mm, mm_assoc, tr_mm_comm, !mm_assoc, O, mm_I_r. reflexivity.
Qed.
Theorem dist_angle_zero_iff (a b : M3R) : SO3 a -> SO3 b -> (dist_angle a b = 0 <-> a = b).
Proof.
  intros Ha Hb. unfold dist_angle, angleR. split.
  - intros E. assert (R1 : SO3 (relative_so3 a b)) by (apply SO3_mm; [now apply SO3_mt|exact Hb]).
    pose proof (cos_angle_range _ R1) as Rg.
    assert (C : cos_angle (relative_so3 a b) = 1).
    { rewrite <- (cos_acos (cos_angle (relative_so3 a b))) by lra. rewrite E. apply cos_0. }
    unfold cos_angle in C. rnum. assert (T : tr (relative_so3 a b) = 3) by lra.
    destruct R1 as [O1 _]. pose proof (Orth_tr3_is_I _ O1 T) as I.
    rewrite <- (relative_so3_inverse a b Ha), I. now rewrite mm_I_r.
  - intros <-. rewrite relative_so3_self by exact Ha. unfold cos_angle. rnum.
    replace ((tr I3 - 1) / (1 + 1)) with 1 by (lin_unfold; field). apply acos_1.
Qed.

(* ---------- membership decisions (np.allclose tolerances) ---------- *)
Section Membership.
Variables atol rtol : R.
Hypothesis atol_pos : 0 <= atol.
Hypothesis rtol_pos : 0 <= rtol.

Lemma close_tol_refl x : close_tol atol rtol x x = true.
Proof.
  unfold close_tol. rnum. apply Rleb_true. replace (x - x) with 0 by ring. rewrite Rabs_R0.
  pose proof (Rabs_pos x). nra.
Qed.
(* every genuine group element is accepted (when the determinant oracle is exact) *)
Theorem is_so3_accepts (r : M3R) : SO3 r -> is_so3_b atol rtol (det r) r = true.
Proof.
  intros [[O _] D]. unfold is_so3_b. rewrite D, O, close_tol_refl. cbn [andb].
  generalize (mlist (@I3 R _)). intros l. induction l as [|x l IH]; [reflexivity|].
  cbn [combine forallb fst snd]. now rewrite close_tol_refl, IH.
Qed.
Theorem is_se3_accepts (p : PoseR) : SE3 p -> is_se3_b atol rtol (det (prot p)) p (0, 0, 0, 1) = true.
Proof.
  intros H. unfold is_se3_b. rewrite is_so3_accepts by exact H. unfold bottom_ok. rnum.
  unfold Reqb. repeat (destruct (Req_EM_T _ _); [|congruence]). reflexivity.
Qed.
Theorem is_sim3_accepts (r : M3R) (t : V3R) (s : R) : SO3 r -> s <> 0 ->
  is_sim3_b atol rtol s 1 (sim3 r t s) (0, 0, 0, 1) = true.
Proof.
  intros H Hs. unfold is_sim3_b, sim3. rnum. cbn [prot].
  rewrite mscale_mscale. replace (1 / s * s) with 1 by (field; exact Hs). rewrite mscale_1.
  destruct H as [O D]. rewrite <- D at 1. rewrite is_so3_accepts by (split; assumption).
  unfold bottom_ok. rnum. unfold Reqb. repeat (destruct (Req_EM_T _ _); [|congruence]). reflexivity.
Qed.
(* reflections are rejected as soon as atol + rtol < 2 *)
Theorem is_so3_rejects_reflection (r : M3R) : atol + rtol < 2 -> det r = -1 -> is_so3_b atol rtol (det r) r = false.
Proof.
  intros Ht D. unfold is_so3_b. rewrite D. unfold close_tol at 1. rnum.
  replace (Rleb _ _) with false; [reflexivity|]. symmetry. apply Rleb_false.
  rewrite Rabs_R1. assert (E : Rabs (-1 - 1) = 2) by (rewrite Rabs_left by lra; ring). rewrite E. lra.
Qed.
(* a block k*R with |k^3 - 1| beyond the tolerance is rejected (scaled rotation blocks) *)
Theorem is_so3_rejects_scaled (r : M3R) (k : R) : SO3 r -> atol + rtol < Rabs (k * k * k - 1) ->
  is_so3_b atol rtol (det (mscale k r)) (mscale k r) = false.
Proof.
  intros [_ D] Hk. unfold is_so3_b. rewrite det_mscale, D, Rmult_1_r. unfold close_tol at 1. rnum.
  replace (Rleb _ _) with false; [reflexivity|]. symmetry. apply Rleb_false. rewrite Rabs_R1. lra.
Qed.
(* a wrong bottom row is rejected whatever the rotation block *)
Theorem is_se3_rejects_bottom (p : PoseR) d b0 b1 b2 b3 : (b0, b1, b2, b3) <> (0, 0, 0, 1) ->
  is_se3_b atol rtol d p (b0, b1, b2, b3) = false.
Proof.
  intros N. unfold is_se3_b, bottom_ok. rnum. unfold Reqb.
  destruct (Req_EM_T b0 0); [|now rewrite andb_false_r].
  destruct (Req_EM_T b1 0); [|now rewrite andb_false_r].
  destruct (Req_EM_T b2 0); [|now rewrite andb_false_r].
  destruct (Req_EM_T b3 1); [subst; congruence|now rewrite andb_false_r].
Qed.
End Membership.

(* ---------- exp o log = id on SO(3) away from angle pi ---------- *)
(* Rodrigues form of a rotation in terms of its skew part: (tr R + 1)(R + R^T - 2I) = (R - R^T)^2 *)
Lemma rotation_sym_from_skew (r : M3R) : SO3 r ->
  mscale (tr r + 1) (msub (madd r (mt r)) (mscale 2 I3)) = mm (msub r (mt r)) (msub r (mt r)).
Proof.
  intros [O D]. pose proof (Orth_scalars r O) as S.
  destruct r as [a b c d e f g h i]. destruct S as (c1&c2&c3&c12&c13&c23&r1&r2&r3&r12&r13&r23).
  lin_unfold. apply M3_ext; cbn; nsatz.
Qed.

Lemma hat_skew_part (r : M3R) : hat (skew_part r) = mscale (1 / 2) (msub r (mt r)).
Proof. destruct r as [a b c d e f g h i]. lie_unfold. apply M3_ext; cbn; field. Qed.
Lemma nrm2_skew_part (r : M3R) : SO3 r -> nrm2 (skew_part r) = 1 - cos_angle r * cos_angle r.
Proof.
  intros [O D]. pose proof (Orth_scalars r O) as S.
  destruct r as [a b c d e f g h i]. destruct S as (c1&c2&c3&c12&c13&c23&r1&r2&r3&r12&r13&r23).
  pose proof (rot_key a b c d e f g h i c1 c2 c3 c12 c13 c23 r1 r2 r3 r12 r13 r23) as K.
  lie_unfold. specialize (K D). field_simplify. field_simplify in K. nra.
Qed.
Lemma rodrigues_vscale (k : V3R) (l A B : R) :
  rodrigues (vscale l k) A B = madd (madd I3 (mscale (A * l) (hat k))) (mscale (B * l * l) (mm (hat k) (hat k))).
Proof. destruct k as [x y z]. lie_unfold. apply M3_ext; cbn; ring. Qed.

Theorem so3_exp_log (r : M3R) : SO3 r -> cos_angle r <> -1 -> so3_expR (so3_logR r) = r.
Proof.
  intros Hr Hpi. pose proof (cos_angle_range r Hr) as Rg.
  unfold so3_logR. set (th := angleR r).
  assert (Hc : cos th = cos_angle r) by (unfold th, angleR; apply cos_acos; lra).
  assert (Hth : 0 <= th <= PI) by apply angle_range.
  destruct (Req_EM_T th 0) as [Z|NZ].
  - (* angle 0: r = I *)
    assert (C1 : cos_angle r = 1) by (rewrite <- Hc, Z; apply cos_0).
    assert (T3 : tr r = 3) by (unfold cos_angle in C1; rnum; lra).
    destruct Hr as [O _]. rewrite (Orth_tr3_is_I r O T3).
    unfold so3_expR. replace (theta V0) with 0.
    2:{ unfold theta. replace (nrm2 V0) with 0 by (lin_unfold; ring). now rewrite sqrt_0. }
    unfold sinc, cosc. destruct (Req_EM_T 0 0); [|congruence]. lie_unfold. apply M3_ext; cbn; field.
  - assert (Hlt : th < PI).
    { destruct (Req_dec th PI) as [E|N]; [|lra]. exfalso. apply Hpi. rewrite <- Hc, E. apply cos_PI. }
    assert (Hs : 0 < sin th) by (apply sin_gt_0; lra).
    assert (Hsn : sin th <> 0) by (apply Rgt_not_eq; exact Hs).
    assert (Hs2 : sin th * sin th = 1 - cos_angle r * cos_angle r).
    { pose proof (sin2_cos2 th) as S. unfold Rsqr in S. rewrite Hc in S. lra. }
    set (k := skew_part r). set (lam := th / sin th).
    assert (Hk : nrm2 k = sin th * sin th) by (unfold k; rewrite nrm2_skew_part by exact Hr; lra).
    assert (Hw : theta (vscale lam k) = th).
    { unfold theta. replace (nrm2 (vscale lam k)) with (th * th).
      - rewrite sqrt_square; lra.
      - transitivity (lam * lam * nrm2 k); [|destruct k as [x y z]; lin_unfold; ring].
        rewrite Hk. unfold lam. field. exact Hsn. }
    unfold so3_expR. rewrite Hw, rodrigues_vscale. unfold sinc, cosc.
    destruct (Req_EM_T th 0) as [E|_]; [contradiction|].
    replace (sin th / th * lam) with 1 by (unfold lam; field; auto).
    assert (H1c : 1 + cos_angle r <> 0) by lra.
    replace ((1 - cos th) / (th * th) * lam * lam) with (1 / (1 + cos_angle r)).
    2:{ unfold lam. rewrite Hc. set (c0 := cos_angle r) in *. set (sn := sin th) in *.
        field_simplify_eq; [|repeat split; assumption].
        replace (sn ^ 2) with (sn * sn) by ring. rewrite Hs2. ring. }
    unfold k. rewrite hat_skew_part, mm_mscale_l, mm_mscale_r, <- (rotation_sym_from_skew r Hr).
    assert (Ht : tr r + 1 <> 0) by (unfold cos_angle in H1c; rnum; lra).
    unfold cos_angle. rnum. destruct r as [a b c d e f g h i]. lin_unfold. apply M3_ext; cbn; field; cbn in Ht; lra.
Qed.

(* ---------- triangle inequality: full statement kept visible, only the degenerate cases proved ---------- *)
Definition triangle_inequality_statement : Prop :=
  forall a b c : M3R, SO3 a -> SO3 b -> SO3 c -> dist_angle a c <= dist_angle a b + dist_angle b c.
Lemma dist_angle_self (a : M3R) : SO3 a -> dist_angle a a = 0.
Proof. intros H. now apply (dist_angle_zero_iff a a H H). Qed.
Theorem triangle_inequality_partial (a c : M3R) : SO3 a -> SO3 c ->
  dist_angle a c <= dist_angle a a + dist_angle a c /\ dist_angle a c <= dist_angle a c + dist_angle c c.
Proof. intros Ha Hc. rewrite !dist_angle_self by assumption. lra. Qed.


(* ---------- group laws of SE(3) and Sim(3) as the helpers realise them ---------- *)
Lemma se3_product_closed (a b : PoseR) : SE3 a -> SE3 b -> SE3 (pmul a b).
Proof. apply SE3_pmul. Qed.
Lemma se3_inverse_closed (a : PoseR) : SE3 a -> SE3 (se3_inverse a).
Proof. apply SE3_pinv. Qed.
Lemma se3_inverse_involutive (p : PoseR) : SE3 p -> se3_inverse (se3_inverse p) = p.
Proof.
  intros [[_ O] _]. unfold se3_inverse. apply Pose_ext; cbn [pinv prot ptr]; [apply mt_mt|].
  rewrite mt_mt, mv_vopp, <- mv_mm, O, mv_I. destruct (ptr p); v3eq.
Qed.
Lemma se3_inverse_of_product (a b : PoseR) : SE3 a ->
  se3_inverse (pmul a b) = pmul (se3_inverse b) (se3_inverse a).
Proof. intros [O _]. unfold se3_inverse. now apply pinv_pmul. Qed.
Lemma se3_inverse_unique (p q : PoseR) : SE3 p -> pmul q p = pI -> q = se3_inverse p.
Proof.
  intros H E. rewrite <- (pmul_I_r q), <- (se3_inverse_right p H), <- pmul_assoc, E. apply pmul_I_l.
Qed.
Lemma relative_se3_left_invariant (c a b : PoseR) : SE3 c ->
  relative_se3 (pmul c a) (pmul c b) = relative_se3 a b.
Proof. intros [O _]. unfold relative_se3. now apply prel_left_invariant. Qed.
Lemma relative_se3_chain (a b c : PoseR) : SE3 b ->
  pmul (relative_se3 a b) (relative_se3 b c) = relative_se3 a c.
Proof.
  intros H. rewrite !relative_se3_def. rewrite pmul_assoc, <- (pmul_assoc b), (se3_inverse_right b H), pmul_I_l.
  reflexivity.
Qed.
Lemma relative_se3_inverse (a b : PoseR) : SE3 a -> SE3 b ->
  se3_inverse (relative_se3 a b) = relative_se3 b a.
Proof.
  intros Ha Hb. rewrite !relative_se3_def. rewrite se3_inverse_of_product by (now apply se3_inverse_closed).
  now rewrite se3_inverse_involutive.
Qed.
Lemma relative_se3_recovers (a b : PoseR) : SE3 a -> pmul a (relative_se3 a b) = b.
Proof. intros H. rewrite relative_se3_def, <- pmul_assoc, (se3_inverse_right a H). apply pmul_I_l. Qed.
Lemma relative_so3_chain (a b c : M3R) : SO3 b ->
  mm (relative_so3 a b) (relative_so3 b c) = relative_so3 a c.
Proof.
  intros [[_ O] _]. unfold relative_so3. rewrite mm_assoc, <- (mm_assoc b), O, mm_I_l. reflexivity.
Qed.
Lemma relative_so3_closed (a b : M3R) : SO3 a -> SO3 b -> SO3 (relative_so3 a b).
Proof. intros Ha Hb. unfold relative_so3. apply SO3_mm; [now apply SO3_mt|exact Hb]. Qed.

(* Sim(3): products of similarity matrices are similarity matrices with the product scale, the
   rotation product and the composed translation; a similarity acts on a point as s R x + t *)
Lemma sim3_product (r1 r2 : M3R) (t1 t2 : V3R) (s1 s2 : R) :
  pmul (sim3 r1 t1 s1) (sim3 r2 t2 s2) = sim3 (mm r1 r2) (vadd (vscale s1 (mv r1 t2)) t1) (s1 * s2).
Proof.
  unfold sim3, pmul. cbn [prot ptr]. apply Pose_ext; cbn [prot ptr].
  - now rewrite mm_mscale_l, mm_mscale_r, mscale_mscale.
  - now rewrite mv_mscale.
Qed.
Lemma sim3_scale_of_product (r1 r2 : M3R) (t1 t2 : V3R) (s1 s2 c : R) : SO3 r1 -> SO3 r2 ->
  c * c * c = det (prot (pmul (sim3 r1 t1 s1) (sim3 r2 t2 s2))) -> c = s1 * s2.
Proof.
  intros H1 H2 Hc. rewrite sim3_product in Hc. eapply sim3_scale_recovered; [|exact Hc]. now apply SO3_mm.
Qed.
Lemma sim3_inverse_is_sim3 (r : M3R) (t : V3R) (s : R) : s <> 0 ->
  sim3_inverse_with s (sim3 r t s) = sim3 (mt r) (vopp (mv (mt r) (vscale (1 / s) t))) (1 / s).
Proof. intros Hs. now rewrite sim3_inverse_with_eq. Qed.
Lemma sim3_unit_scale_is_se3 (r : M3R) (t : V3R) : SO3 r -> SE3 (sim3 r t 1) /\ sim3 r t 1 = mkPose r t.
Proof. intros H. unfold sim3, SE3. cbn [prot]. rewrite mscale_1. split; [exact H|reflexivity]. Qed.
Lemma sim3_inverse_unit_scale_is_se3_inverse (r : M3R) (t : V3R) :
  sim3_inverse_with 1 (sim3 r t 1) = se3_inverse (mkPose r t).
Proof.
  rewrite sim3_inverse_with_eq by lra. unfold se3_inverse, pinv. cbn [prot ptr].
  replace (1 / 1) with 1 by field. now rewrite mscale_1, vscale_1.
Qed.


(* ---------- the rotation angle is a class function: unchanged by inversion and by conjugation ---------- *)
Lemma cos_angle_inverse (r : M3R) : cos_angle (mt r) = cos_angle r.
Proof. unfold cos_angle. now rewrite tr_mt. Qed.
Theorem angle_of_inverse (r : M3R) : angleR (mt r) = angleR r.
Proof. unfold angleR. now rewrite cos_angle_inverse. Qed.
Theorem angle_conjugation_invariant (c r : M3R) : Orth c -> angleR (mm (mm c r) (mt c)) = angleR r.
Proof.
  intros [O _]. unfold angleR, cos_angle. rewrite tr_mm_comm, <- mm_assoc, O, mm_I_l. reflexivity.
Qed.
(* the angle between a rotation and the identity is the rotation's own angle *)
Theorem dist_angle_identity (r : M3R) : dist_angle I3 r = angleR r /\ dist_angle r I3 = angleR r.
Proof.
  unfold dist_angle, relative_so3. rewrite mt_I, mm_I_l, mm_I_r. split; [reflexivity|apply angle_of_inverse].
Qed.
(* angle of a product with an inverse: d(a, b) is the angle of a^T b and of b a^T alike *)
Theorem dist_angle_as_right_difference (a b : M3R) : dist_angle a b = angleR (mm b (mt a)).
Proof.
  unfold dist_angle, relative_so3, angleR, cos_angle. now rewrite tr_mm_comm.
Qed.
