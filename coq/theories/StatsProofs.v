(* StatsProofs.v - theorems about the Stats model at the real-number instance (property C12). *)
From Coq Require Import String Reals Lra Lia Psatz List Arith Bool ZArith Permutation Sorted.
From Evo Require Import Num Stats.
Import ListNotations.
Local Open Scope R_scope.

(* ========================================================================================== *)
(* 1. numpy's summation orders all compute the sum                                             *)
(* ========================================================================================== *)
Fixpoint sumR (l : list R) : R := match l with [] => 0 | x :: r => x + sumR r end.

Lemma sumR_app a b : sumR (a ++ b) = sumR a + sumR b.
Proof. induction a as [|x r IH]; cbn; [lra|rewrite IH; lra]. Qed.

Lemma fold_left_add (l : list R) a : fold_left Rplus l a = a + sumR l.
Proof. revert a; induction l as [|x r IH]; intros a; cbn; [lra|rewrite IH; lra]. Qed.

Lemma sum_seq_R (l : list R) : sum_seq l = sumR l.
Proof. unfold sum_seq; rnum. rewrite fold_left_add; lra. Qed.

Lemma blk8_R : forall (n : nat) (l : list R) a b c d e f g h, (length l <= n)%nat ->
  blk8 a b c d e f g h l = a + b + c + d + e + f + g + h + sumR l.
Proof.
  induction n as [|n IH]; intros l a b c d e f g h Hn.
  - destruct l; [|cbn in Hn; lia]. cbn. unfold comb8; rnum. lra.
  - destruct l as [|x0 [|x1 [|x2 [|x3 [|x4 [|x5 [|x6 [|x7 rest]]]]]]]];
      try (cbn; unfold comb8; rnum; lra).
    cbn [blk8]. rewrite IH by (cbn in Hn; lia). rnum. cbn [sumR]. lra.
Qed.

Lemma sum_block_R (l : list R) : sum_block l = sumR l.
Proof.
  destruct l as [|x0 [|x1 [|x2 [|x3 [|x4 [|x5 [|x6 [|x7 rest]]]]]]]];
    try (unfold sum_block; rewrite sum_seq_R; reflexivity).
  unfold sum_block. rewrite (blk8_R (length rest)) by lia. cbn [sumR]. lra.
Qed.

Lemma sum_pw_R : forall fuel (l : list R), sum_pw fuel l = sumR l.
Proof.
  induction fuel as [|fuel IH]; intros l; cbn [sum_pw].
  - destruct (Nat.leb (length l) 128); [apply sum_block_R|apply sum_seq_R].
  - destruct (Nat.leb (length l) 128); [apply sum_block_R|].
    rewrite !IH. rnum. rewrite <- sumR_app, firstn_skipn. reflexivity.
Qed.

Lemma np_sum_R (l : list R) : np_sum l = sumR l.
Proof. apply sum_pw_R. Qed.

Lemma cnt_R (l : list R) : cnt l = INR (length l).
Proof. unfold cnt; rnum. symmetry; apply INR_IZR_INZ. Qed.

Lemma cnt_pos (l : list R) : l <> [] -> 0 < INR (length l).
Proof. intros H. destruct l; [congruence|]. apply lt_0_INR. cbn; lia. Qed.

(* ========================================================================================== *)
(* 2. statistics: definitions unfolded at R, identities                                        *)
(* ========================================================================================== *)
Definition sumsq (l : list R) : R := sumR (map (fun x => x * x) l).

Lemma mean_R l : mean l = sumR l / INR (length l).
Proof. unfold mean. rewrite np_sum_R, cnt_R. reflexivity. Qed.
Lemma sse_R l : sse l = sumsq l.
Proof. unfold sse. rewrite np_sum_R. reflexivity. Qed.
Lemma rmse_R l : rmse l = sqrt (sumsq l / INR (length l)).
Proof. unfold rmse. rewrite np_sum_R, cnt_R. reflexivity. Qed.
Lemma variance_R l :
  variance l = sumR (map (fun x => (x - mean l) * (x - mean l)) l) / INR (length l).
Proof. unfold variance, dev2. rewrite np_sum_R, cnt_R. reflexivity. Qed.
Lemma std_R l : std l = sqrt (variance l).
Proof. reflexivity. Qed.

Lemma sumsq_nonneg l : 0 <= sumsq l.
Proof. unfold sumsq. induction l as [|x r IH]; cbn; [lra|]. pose proof (Rle_0_sqr x) as H. unfold Rsqr in H. lra. Qed.

Lemma sum_dev2 (l : list R) (c : R) :
  sumR (map (fun x => (x - c) * (x - c)) l) = sumsq l - 2 * c * sumR l + INR (length l) * c * c.
Proof.
  unfold sumsq. induction l as [|x r IH]; [cbn; lra|].
  cbn [map sumR]. rewrite IH. change (length (x :: r)) with (S (length r)). rewrite S_INR. ring.
Qed.

Lemma sum_dev2_nonneg (l : list R) (c : R) : 0 <= sumR (map (fun x => (x - c) * (x - c)) l).
Proof. induction l as [|x r IH]; cbn; [lra|]. pose proof (Rle_0_sqr (x - c)) as H. unfold Rsqr in H. lra. Qed.

Lemma div_nonneg a b : 0 <= a -> 0 < b -> 0 <= a / b.
Proof. intros Ha Hb. unfold Rdiv. apply Rmult_le_pos; [exact Ha|]. left; apply Rinv_0_lt_compat; exact Hb. Qed.

Lemma variance_nonneg l : l <> [] -> 0 <= variance l.
Proof. intros H. rewrite variance_R. apply div_nonneg; [apply sum_dev2_nonneg|apply cnt_pos; exact H]. Qed.

(* the computational formula: var = E[x^2] - mean^2 *)
Lemma variance_formula l : l <> [] ->
  variance l = sumsq l / INR (length l) - mean l * mean l.
Proof.
  intros H. rewrite variance_R, sum_dev2. rewrite mean_R.
  pose proof (cnt_pos l H). field. lra.
Qed.

Lemma rmse_sq l : l <> [] -> rmse l * rmse l = sumsq l / INR (length l).
Proof.
  intros H. rewrite rmse_R. apply sqrt_sqrt. apply div_nonneg; [apply sumsq_nonneg|apply cnt_pos; exact H].
Qed.
Lemma std_sq l : l <> [] -> std l * std l = variance l.
Proof. intros H. rewrite std_R. apply sqrt_sqrt. apply variance_nonneg; exact H. Qed.

(* rmse^2 = mean^2 + std^2 *)
Theorem rmse_mean_std (l : list R) : l <> [] ->
  rmse l * rmse l = mean l * mean l + std l * std l.
Proof. intros H. rewrite rmse_sq, std_sq, variance_formula by exact H. lra. Qed.

(* sse = n * rmse^2 *)
Theorem sse_n_rmse (l : list R) : l <> [] ->
  sse l = INR (length l) * (rmse l * rmse l).
Proof. intros H. rewrite rmse_sq, sse_R by exact H. pose proof (cnt_pos l H). field. lra. Qed.

Lemma rmse_nonneg l : 0 <= rmse l.
Proof. rewrite rmse_R. apply sqrt_pos. Qed.
Lemma std_nonneg l : 0 <= std l.
Proof. rewrite std_R. apply sqrt_pos. Qed.

(* mean <= rmse (variance >= 0) *)
Theorem mean_le_rmse (l : list R) : l <> [] -> mean l <= rmse l.
Proof.
  intros H. pose proof (rmse_mean_std l H) as E. pose proof (rmse_nonneg l) as Hr.
  pose proof (Rle_0_sqr (std l)) as Hs. unfold Rsqr in Hs.
  destruct (Rle_dec (mean l) 0) as [Hm|Hm]; [lra|]. apply Rnot_le_lt in Hm.
  destruct (Rle_dec (mean l) (rmse l)) as [|Hn]; [assumption|]. apply Rnot_le_lt in Hn.
  exfalso. assert (rmse l * rmse l < mean l * mean l) by nra. lra.
Qed.

(* ---------- minimum and maximum ---------- *)
Lemma fold_min_spec : forall (r : list R) (x : R),
  let m := fold_left (fun m y => if Rltb y m then y else m) r x in
  In m (x :: r) /\ forall y, In y (x :: r) -> m <= y.
Proof.
  induction r as [|z r IH]; intros x; cbn [fold_left].
  - split; [left; reflexivity|]. intros y [<-|[]]; lra.
  - destruct (Rltb z x) eqn:L.
    + apply Rltb_true in L. destruct (IH z) as [I M]. split.
      * destruct I as [I|I]; [right; left; exact I|right; right; exact I].
      * intros y [<-|[<-|Hy]].
        -- specialize (M z (or_introl eq_refl)). lra.
        -- apply M; left; reflexivity.
        -- apply M; right; exact Hy.
    + apply Rltb_false in L. destruct (IH x) as [I M]. split.
      * destruct I as [I|I]; [left; exact I|right; right; exact I].
      * intros y [<-|[<-|Hy]].
        -- apply M; left; reflexivity.
        -- specialize (M x (or_introl eq_refl)). lra.
        -- apply M; right; exact Hy.
Qed.

Lemma fold_max_spec : forall (r : list R) (x : R),
  let m := fold_left (fun m y => if Rltb m y then y else m) r x in
  In m (x :: r) /\ forall y, In y (x :: r) -> y <= m.
Proof.
  induction r as [|z r IH]; intros x; cbn [fold_left].
  - split; [left; reflexivity|]. intros y [<-|[]]; lra.
  - destruct (Rltb x z) eqn:L.
    + apply Rltb_true in L. destruct (IH z) as [I M]. split.
      * destruct I as [I|I]; [right; left; exact I|right; right; exact I].
      * intros y [<-|[<-|Hy]].
        -- specialize (M z (or_introl eq_refl)). lra.
        -- apply M; left; reflexivity.
        -- apply M; right; exact Hy.
    + apply Rltb_false in L. destruct (IH x) as [I M]. split.
      * destruct I as [I|I]; [left; exact I|right; right; exact I].
      * intros y [<-|[<-|Hy]].
        -- apply M; left; reflexivity.
        -- specialize (M x (or_introl eq_refl)). lra.
        -- apply M; right; exact Hy.
Qed.

Theorem minl_spec (l : list R) : l <> [] -> In (minl l) l /\ forall y, In y l -> minl l <= y.
Proof. destruct l as [|x r]; [congruence|intros _]. unfold minl; rnum. apply fold_min_spec. Qed.
Theorem maxl_spec (l : list R) : l <> [] -> In (maxl l) l /\ forall y, In y l -> y <= maxl l.
Proof. destruct l as [|x r]; [congruence|intros _]. unfold maxl; rnum. apply fold_max_spec. Qed.

Lemma sumR_lower (l : list R) a : (forall y, In y l -> a <= y) -> INR (length l) * a <= sumR l.
Proof.
  induction l as [|x r IH]; intros H; [cbn; lra|].
  change (length (x :: r)) with (S (length r)). rewrite S_INR. cbn [sumR].
  pose proof (H x (or_introl eq_refl)). specialize (IH (fun y Hy => H y (or_intror Hy))). lra.
Qed.
Lemma sumR_upper (l : list R) a : (forall y, In y l -> y <= a) -> sumR l <= INR (length l) * a.
Proof.
  induction l as [|x r IH]; intros H; [cbn; lra|].
  change (length (x :: r)) with (S (length r)). rewrite S_INR. cbn [sumR].
  pose proof (H x (or_introl eq_refl)). specialize (IH (fun y Hy => H y (or_intror Hy))). lra.
Qed.

Lemma le_div_of_mul a s n : 0 < n -> n * a <= s -> a <= s / n.
Proof.
  intros Hn H. apply Rmult_le_reg_r with n; [exact Hn|].
  unfold Rdiv. rewrite Rmult_assoc, Rinv_l by lra. lra.
Qed.
Lemma div_le_of_mul a s n : 0 < n -> s <= n * a -> s / n <= a.
Proof.
  intros Hn H. apply Rmult_le_reg_r with n; [exact Hn|].
  unfold Rdiv. rewrite Rmult_assoc, Rinv_l by lra. lra.
Qed.

(* min <= mean <= max *)
Theorem min_le_mean_le_max (l : list R) : l <> [] -> minl l <= mean l <= maxl l.
Proof.
  intros H. rewrite mean_R. pose proof (cnt_pos l H) as Hn. split.
  - apply le_div_of_mul; [exact Hn|]. apply sumR_lower. apply (minl_spec l H).
  - apply div_le_of_mul; [exact Hn|]. apply sumR_upper. apply (maxl_spec l H).
Qed.

(* rmse <= max for non-negative values *)
Theorem rmse_le_max (l : list R) : l <> [] -> (forall y, In y l -> 0 <= y) -> rmse l <= maxl l.
Proof.
  intros H Hpos. destruct (maxl_spec l H) as [Hin Hmax].
  assert (HM : 0 <= maxl l) by (apply Hpos; exact Hin).
  rewrite rmse_R. apply Rle_trans with (sqrt (maxl l * maxl l)); [|rewrite sqrt_square by exact HM; lra].
  apply sqrt_le_1_alt. apply div_le_of_mul; [apply cnt_pos; exact H|].
  unfold sumsq. rewrite <- (map_length (fun x => x * x) l) at 1. apply sumR_upper. intros y Hy. apply in_map_iff in Hy. destruct Hy as [x [<- Hx]].
  specialize (Hpos x Hx). specialize (Hmax x Hx). nra.
Qed.

(* in general: rmse <= the largest absolute value, and |mean| <= rmse *)
Theorem abs_mean_le_rmse (l : list R) : l <> [] -> Rabs (mean l) <= rmse l.
Proof.
  intros H. pose proof (rmse_mean_std l H) as E. pose proof (rmse_nonneg l) as Hr.
  pose proof (Rle_0_sqr (std l)) as Hs. unfold Rsqr in Hs.
  apply Rabs_le. split.
  - destruct (Rle_dec (- rmse l) (mean l)) as [|Hn]; [assumption|]. apply Rnot_le_lt in Hn.
    exfalso. assert (rmse l * rmse l < mean l * mean l) by nra. lra.
  - apply mean_le_rmse; exact H.
Qed.

(* min <= mean <= rmse <= max for non-negative values (norms, absolute angles, ratios) *)
Theorem stat_chain_nonneg (l : list R) : l <> [] -> (forall y, In y l -> 0 <= y) ->
  minl l <= mean l /\ mean l <= rmse l /\ rmse l <= maxl l.
Proof.
  intros H Hpos. split; [apply (min_le_mean_le_max l H)|].
  split; [apply mean_le_rmse; exact H|apply rmse_le_max; assumption].
Qed.

(* ---------- sorting and the median ---------- *)
Lemma insert_perm (x : R) l : Permutation (insert x l) (x :: l).
Proof.
  induction l as [|y r IH]; cbn [insert]; [reflexivity|]. rnum.
  destruct (Rleb x y); [reflexivity|].
  rewrite IH. apply perm_swap.
Qed.
Theorem isort_perm (l : list R) : Permutation (isort l) l.
Proof. induction l as [|x r IH]; cbn [isort]; [reflexivity|]. rewrite insert_perm. constructor; exact IH. Qed.

Lemma insert_sorted (x : R) l : StronglySorted Rle l -> StronglySorted Rle (insert x l).
Proof.
  induction l as [|y r IH]; intros S; cbn [insert]; [repeat constructor|]. rnum.
  inversion S as [|? ? Sr Hall]; subst.
  destruct (Rleb x y) eqn:L.
  - apply Rleb_true in L. constructor; [exact S|]. constructor; [exact L|].
    eapply Forall_impl; [|exact Hall]. intros a Ha. cbn in Ha. lra.
  - apply Rleb_false in L. constructor; [apply IH; exact Sr|].
    rewrite (Forall_forall (Rle y)). intros a Ha.
    apply (Permutation_in a (insert_perm x r)) in Ha. destruct Ha as [<-|Ha]; [lra|].
    rewrite Forall_forall in Hall. apply Hall; exact Ha.
Qed.
Theorem isort_sorted (l : list R) : StronglySorted Rle (isort l).
Proof. induction l as [|x r IH]; cbn [isort]; [constructor|apply insert_sorted; exact IH]. Qed.

Lemma isort_length (l : list R) : length (isort l) = length l.
Proof. apply Permutation_length, isort_perm. Qed.

Lemma half_lt n : (0 < n)%nat -> (Nat.div n 2 < n)%nat.
Proof. intros H. apply Nat.div_lt; lia. Qed.

(* the median is a value of the sorted data (odd count) or the mean of the two middle values of
   the sorted data (even count) *)
Theorem median_middle (l : list R) : l <> [] ->
  let s := isort l in let n := length l in let h := Nat.div n 2 in
  Permutation s l /\ StronglySorted Rle s /\
  (Nat.even n = false -> median l = nth h s 0) /\
  (Nat.even n = true -> median l = (nth (h - 1) s 0 + nth h s 0) / 2 /\ nth (h - 1) s 0 <= nth h s 0).
Proof.
  intros H s n h. split; [apply isort_perm|]. split; [apply isort_sorted|].
  unfold median, median_sorted. rewrite isort_length.
  change (isort l) with s. change (length l) with n. change (Nat.div n 2) with h. split.
  - intros E; rewrite E; reflexivity.
  - intros E; rewrite E. rnum. split; [reflexivity|].
    assert (Hn : (0 < n)%nat) by (destruct l; [congruence|cbn; lia]).
    assert (Hh : (h < n)%nat) by (apply half_lt; exact Hn).
    destruct (Nat.eq_dec h 0) as [Z|NZ].
    + rewrite Z; cbn; lra.
    + pose proof (isort_sorted l) as Srt. change (isort l) with s in Srt.
      apply StronglySorted_Sorted in Srt.
      assert (Hlen : length s = n) by apply isort_length.
      assert (G : forall (t : list R) k, Sorted Rle t -> (S k < length t)%nat -> nth k t 0 <= nth (S k) t 0).
      { clear. induction t as [|a t IH]; intros k St Hk; [cbn in Hk; lia|].
        destruct k as [|k].
        - destruct t as [|b t]; [cbn in Hk; lia|]. cbn. inversion St as [|? ? ? Hd]; subst. inversion Hd; subst. assumption.
        - cbn [nth]. apply IH; [inversion St; assumption|cbn in Hk; lia]. }
      specialize (G s (h - 1)%nat Srt ltac:(lia)).
      replace (S (h - 1)) with h in G by lia. exact G.
Qed.

Lemma nth_in_range (s : list R) k : (k < length s)%nat -> In (nth k s 0) s.
Proof. intros H. apply nth_In; exact H. Qed.

(* min <= median <= max *)
Theorem min_le_median_le_max (l : list R) : l <> [] -> minl l <= median l <= maxl l.
Proof.
  intros H.
  assert (Hn : (0 < length l)%nat) by (destruct l; [congruence|cbn; lia]).
  assert (B : forall k, (k < length l)%nat -> minl l <= nth k (isort l) 0 <= maxl l).
  { intros k Hk. rewrite <- isort_length in Hk. apply nth_in_range in Hk.
    apply (Permutation_in _ (isort_perm l)) in Hk.
    split; [apply (minl_spec l H)|apply (maxl_spec l H)]; exact Hk. }
  unfold median, median_sorted. rewrite isort_length.
  pose proof (half_lt _ Hn) as Hh.
  destruct (Nat.even (length l)).
  - rnum. pose proof (B (Nat.div (length l) 2 - 1)%nat ltac:(lia)) as B1. pose proof (B _ Hh) as B2. lra.
  - apply B; exact Hh.
Qed.

(* everything the property says about the seven numbers, for one non-empty array *)
Theorem statistics_consistent (l : list R) : l <> [] ->
  rmse l = sqrt (sumR (map (fun x => x * x) l) / INR (length l)) /\
  sse l = sumR (map (fun x => x * x) l) /\
  mean l = sumR l / INR (length l) /\
  std l = sqrt (sumR (map (fun x => (x - mean l) * (x - mean l)) l) / INR (length l)) /\
  In (minl l) l /\ In (maxl l) l /\ (forall y, In y l -> minl l <= y <= maxl l) /\
  minl l <= median l <= maxl l /\ minl l <= mean l <= maxl l /\ mean l <= rmse l /\
  rmse l * rmse l = mean l * mean l + std l * std l /\
  sse l = INR (length l) * (rmse l * rmse l).
Proof.
  intros H. destruct (minl_spec l H) as [I1 M1]. destruct (maxl_spec l H) as [I2 M2].
  split; [apply rmse_R|]. split; [apply sse_R|]. split; [apply mean_R|].
  split; [rewrite std_R, variance_R; reflexivity|].
  split; [exact I1|]. split; [exact I2|]. split; [intros y Hy; split; [apply M1|apply M2]; exact Hy|].
  split; [apply min_le_median_le_max; exact H|]. split; [apply min_le_mean_le_max; exact H|].
  split; [apply mean_le_rmse; exact H|]. split; [apply rmse_mean_std; exact H|apply sse_n_rmse; exact H].
Qed.

(* ========================================================================================== *)
(* 3. change_unit: the complete table over the 10 x 10 ordered unit pairs                      *)
(* ========================================================================================== *)
Lemma unit_eqb_spec u v : reflect (u = v) (unit_eqb u v).
Proof. destruct u, v; cbn; constructor; congruence. Qed.

Lemma all_units_complete u : In u all_units.
Proof. destruct u; cbn; tauto. Qed.
Lemma all_units_nodup : NoDup all_units.
Proof. repeat constructor; cbn; intuition discriminate. Qed.

(* METER_SCALE_FACTORS over R *)
Definition metersR (u : Unit) : R :=
  match u with
  | U_millimeters => 1 / 1000
  | U_centimeters => 1 / 100
  | U_meters => 1
  | U_kilometers => 1000
  | _ => 0
  end.

(* the ordered pairs for which a conversion exists *)
Definition convertible (u v : Unit) : bool :=
  unit_eqb u v || (is_length u && is_length v)
  || (unit_eqb u U_radians && unit_eqb v U_degrees)
  || (unit_eqb u U_degrees && unit_eqb v U_radians).

(* the factor a conversion multiplies every value by *)
Definition factorR (u v : Unit) : R :=
  if unit_eqb u v then 1
  else if is_length u && is_length v then metersR u / metersR v
  else if unit_eqb u U_radians && unit_eqb v U_degrees then 180 / PI
  else if unit_eqb u U_degrees && unit_eqb v U_radians then PI / 180
  else 1.

Theorem change_unit_same (p : R) (e : list R) u : change_unit p e u u = (CuOk, (e, u)).
Proof. destruct u; reflexivity. Qed.

Theorem change_unit_length (e : list R) u v : e <> [] -> u <> v ->
  is_length u = true -> is_length v = true ->
  change_unit PI e u v = (CuOk, (map (fun x => x * (metersR u / metersR v)) e, v)).
Proof.
  intros He Hne Hu Hv. destruct e as [|x r]; [congruence|].
  destruct u; try discriminate Hu; destruct v; try discriminate Hv; try congruence; reflexivity.
Qed.

Theorem change_unit_rad2deg (e : list R) : e <> [] ->
  change_unit PI e U_radians U_degrees = (CuOk, (map (fun x => x * (180 / PI)) e, U_degrees)).
Proof. intros He. destruct e as [|x r]; [congruence|]. reflexivity. Qed.

Theorem change_unit_deg2rad (e : list R) : e <> [] ->
  change_unit PI e U_degrees U_radians = (CuOk, (map (fun x => x * (PI / 180)) e, U_radians)).
Proof. intros He. destruct e as [|x r]; [congruence|]. reflexivity. Qed.

(* every other ordered pair is refused; values and unit are untouched *)
Theorem change_unit_refused (e : list R) u v : convertible u v = false ->
  exists r, change_unit PI e u v = (CuRefused r, (e, u)).
Proof.
  intros H. destruct u, v; try discriminate H;
    (destruct e as [|x r]; [eexists; reflexivity|eexists; reflexivity]).
Qed.

(* an empty error array: everything except the same-unit no-op is refused *)
Theorem change_unit_empty (u v : Unit) : u <> v ->
  exists r, change_unit PI (@nil R) u v = (CuRefused r, ([], u)).
Proof. intros H. destruct u, v; try congruence; eexists; reflexivity. Qed.

(* the table in one statement: a conversion happens iff the pair is convertible, it multiplies
   every value by factorR u v and sets the unit; otherwise nothing changes *)
Theorem change_unit_table (e : list R) u v : e <> [] ->
  if convertible u v
  then change_unit PI e u v = (CuOk, (map (fun x => x * factorR u v) e, v))
  else exists r, change_unit PI e u v = (CuRefused r, (e, u)).
Proof.
  intros He. destruct (convertible u v) eqn:C; [|apply change_unit_refused; exact C].
  destruct e as [|x r]; [congruence|].
  assert (Hid : forall l : list R, map (fun x => x * 1) l = l).
  { intros l. rewrite <- (map_id l) at 2. apply map_ext. intros a. ring. }
  destruct u, v; try discriminate C; try reflexivity;
    (unfold factorR; cbn [unit_eqb unit_idx Nat.eqb is_length andb]; rewrite Hid; reflexivity).
Qed.

Theorem convertible_pairs_count :
  length (list_prod all_units all_units) = 100%nat /\
  length (filter (fun p => convertible (fst p) (snd p)) (list_prod all_units all_units)) = 24%nat /\
  length (filter (fun p => negb (convertible (fst p) (snd p))) (list_prod all_units all_units)) = 76%nat.
Proof. repeat split; reflexivity. Qed.

(* a refusal never touches the state, whatever the reason and the number of values *)
Theorem change_unit_refusal_untouched (e : list R) u v r st :
  change_unit PI e u v = (CuRefused r, st) -> st = (e, u).
Proof.
  unfold change_unit.
  repeat match goal with |- context [if ?c then _ else _] => destruct c end;
    intros H; inversion H; reflexivity.
Qed.

(* the unit after a successful call is the requested one *)
Theorem change_unit_ok_unit (e : list R) u v e' u' :
  change_unit PI e u v = (CuOk, (e', u')) -> u' = v /\ length e' = length e.
Proof.
  unfold change_unit. destruct (unit_eqb_spec u v) as [->|Hne].
  - intros H; inversion H; auto.
  - repeat match goal with |- context [if ?c then _ else _] => destruct c end;
      intros H; inversion H; subst; rewrite ?map_length; auto.
Qed.

Lemma PI_neq0' : PI <> 0.
Proof. apply PI_neq0. Qed.

(* round trip: converting u -> v -> u gives the original values back (over R) *)
Theorem change_unit_round_trip (e : list R) u v : e <> [] -> convertible u v = true ->
  change_unit PI (fst (snd (change_unit PI e u v))) (snd (snd (change_unit PI e u v))) u = (CuOk, (e, u)).
Proof.
  intros He C. destruct e as [|x r]; [congruence|].
  pose proof PI_neq0 as Hpi.
  destruct u, v; try discriminate C; try reflexivity;
    (cbn; f_equal; f_equal; f_equal;
     [field; try lra; try exact Hpi
     |rewrite map_map; rewrite <- (map_id r) at 2; apply map_ext; intros a; field; try lra; try exact Hpi]).
Qed.

(* factors compose: u -> v -> w equals u -> w for length units *)
Theorem factor_compose u v w : is_length u = true -> is_length v = true -> is_length w = true ->
  (metersR u / metersR v) * (metersR v / metersR w) = metersR u / metersR w.
Proof. intros Hu Hv Hw. destruct u; try discriminate Hu; destruct v; try discriminate Hv; destruct w; try discriminate Hw; cbn; field. Qed.

(* the number-system independent decision describes change_unit exactly *)
Definition nonemptyb {X} (l : list X) : bool := negb (Nat.eqb (length l) 0).

Theorem change_unit_decide (e : list R) u v :
  change_unit PI e u v = apply_decision PI (decide (nonemptyb e) u v) e u v.
Proof.
  unfold nonemptyb. destruct e as [|x r].
  - destruct u, v; reflexivity.
  - destruct u, v; try reflexivity;
      (cbn; f_equal; f_equal; f_equal; [field|apply map_ext; intros a; field]).
Qed.

(* unit handling of ape()/rpe(): the label and title name the unit the values are in *)
Theorem info_after_names_final_unit is_rpe rel chg (e : list R) u t lb :
  info_after is_rpe rel chg (nonemptyb e) = Some (u, t, lb) ->
  let u0 := if is_rpe then rpe_unit rel else ape_unit rel in
  (match chg with
   | None => u = u0
   | Some v => exists e', change_unit PI e u0 v = (CuOk, (e', u))
   end) /\
  lb = label (if is_rpe then "RPE" else "APE")%string u /\
  t = (if is_rpe then rpe_title_head rel u else ape_title rel u).
Proof.
  intros H. cbv zeta. unfold info_after in H. cbv zeta in H.
  set (u0 := if is_rpe then rpe_unit rel else ape_unit rel) in *.
  destruct chg as [v|].
  - rewrite change_unit_decide.
    destruct (decide (nonemptyb e) u0 v) eqn:D; try discriminate H;
      inversion H; subst; (split; [eexists; reflexivity|split; reflexivity]).
  - inversion H; subst. split; [reflexivity|split; reflexivity].
Qed.

Theorem info_after_refused is_rpe rel v (e : list R) :
  info_after is_rpe rel (Some v) (nonemptyb e) = None <->
  exists r, change_unit PI e (if is_rpe then rpe_unit rel else ape_unit rel) v
            = (CuRefused r, (e, if is_rpe then rpe_unit rel else ape_unit rel)).
Proof.
  unfold info_after. rewrite change_unit_decide.
  destruct (decide (nonemptyb e) _ v) eqn:D; cbn [apply_decision]; split; intros H;
    try discriminate H; try (destruct H as [r0 H]; discriminate H); try reflexivity.
  eexists; reflexivity.
Qed.

(* ========================================================================================== *)
(* 4. companion arrays and stored trajectories                                                 *)
(* ========================================================================================== *)
Section CompanionProofs.
Context {A P : Type}.
Variable stamp : A -> R.
Variable pos : A -> P.
Variable dist : P -> P -> R.

Definition in_range {X} (t : list X) (ids : list nat) : Prop := Forall (fun i => (i < length t)%nat) ids.

Lemma reduce_map_nth {X} (t : list X) (ids : list nat) (d : X) : in_range t ids ->
  reduce_to_ids t ids = map (fun i => nth i t d) ids.
Proof.
  induction ids as [|i r IH]; intros H; [reflexivity|]. inversion H as [|? ? Hi Hr]; subst.
  cbn [reduce_to_ids map]. destruct (nth_error t i) as [x|] eqn:E.
  - rewrite (nth_error_nth _ _ d E). f_equal. apply IH; exact Hr.
  - apply nth_error_None in E. lia.
Qed.

Lemma reduce_length {X} (t : list X) ids : in_range t ids -> length (reduce_to_ids t ids) = length ids.
Proof.
  intros H. destruct t as [|d t'].
  - destruct ids as [|i r]; [reflexivity|]. inversion H; subst. cbn in *; lia.
  - rewrite (reduce_map_nth _ _ d H). apply map_length.
Qed.

(* [1:] after prepending pose 0 removes exactly that pose *)
Theorem tl_map_reduce_first {X Y} (f : X -> Y) (t : list X) ids : t <> [] ->
  tl (map f (reduce_to_ids t (with_first ids))) = map f (reduce_to_ids t ids).
Proof. destruct t as [|x t']; [congruence|intros _]. reflexivity. Qed.

(* so entry k of such an array is f of pose delta_ids[k], the end pose of pair k *)
Theorem tl_map_reduce_nth {X Y} (f : X -> Y) (t : list X) ids (d : X) (dy : Y) k :
  t <> [] -> in_range t ids -> (k < length ids)%nat ->
  nth k (tl (map f (reduce_to_ids t (with_first ids)))) dy = f (nth (nth k ids 0%nat) t d).
Proof.
  intros Ht Hr Hk. rewrite tl_map_reduce_first by exact Ht.
  rewrite (reduce_map_nth t ids d Hr), map_map.
  rewrite (nth_indep _ dy ((fun i => f (nth i t d)) 0%nat)) by (rewrite map_length; exact Hk).
  apply (map_nth (fun i => f (nth i t d))).
Qed.

(* accumulated distances: entry k is the length of the polyline through the first k+1 points *)
Fixpoint path_len (ps : list P) : R :=
  match ps with
  | a :: ((b :: _) as r) => dist a b + path_len r
  | _ => 0
  end.

Lemma acc_dist_aux : forall (ps : list P) acc k, (k < length ps)%nat ->
  nth k (acc :: cumsum_from acc (steps dist ps)) 0 = acc + path_len (firstn (S k) ps).
Proof.
  induction ps as [|a r IH]; intros acc k Hk; [cbn in Hk; lia|].
  destruct k as [|k].
  - cbn. destruct r; cbn; lra.
  - destruct r as [|b r']; [cbn in Hk; lia|].
    change (steps dist (a :: b :: r')) with (dist a b :: steps dist (b :: r')).
    cbn [cumsum_from]. rnum.
    match goal with |- nth _ (_ :: ?l) ?z = ?rhs => change (nth k l z = rhs) end.
    rewrite (IH (acc + dist a b) k) by (cbn in Hk |- *; lia).
    change (firstn (S (S k)) (a :: b :: r')) with (a :: firstn (S k) (b :: r')).
    change (firstn (S k) (b :: r')) with (b :: firstn k r').
    cbn [path_len]. lra.
Qed.

Theorem acc_dist_nth (ps : list P) k : (k < length ps)%nat ->
  nth k (acc_dist dist ps) 0 = path_len (firstn (S k) ps).
Proof. intros Hk. unfold acc_dist; rnum. rewrite acc_dist_aux by exact Hk. lra. Qed.

Lemma cumsum_length : forall (l : list R) acc, length (cumsum_from acc l) = length l.
Proof. induction l as [|x r IH]; intros acc; cbn; [reflexivity|rewrite IH; reflexivity]. Qed.

Theorem acc_dist_length (ps : list P) : ps <> [] -> length (acc_dist dist ps) = length ps.
Proof.
  destruct ps as [|a r]; [congruence|intros _]. unfold acc_dist, steps. cbn [length tl].
  rewrite cumsum_length, map_length, combine_length. cbn [length]. lia.
Qed.

Lemma seconds_length (t : list A) : length (seconds_from_start stamp t) = length t.
Proof. destruct t as [|p r]; [reflexivity|]. unfold seconds_from_start. apply map_length. Qed.

Lemma seconds_nth (t : list A) (d : A) k : (k < length t)%nat ->
  nth k (seconds_from_start stamp t) 0 = stamp (nth k t d) - stamp (nth 0 t d).
Proof.
  intros Hk. destruct t as [|p r]; [cbn in Hk; lia|]. unfold seconds_from_start. rnum.
  rewrite (nth_indep _ 0 ((fun q => stamp q - stamp p) d)) by (rewrite map_length; exact Hk).
  rewrite (map_nth (fun q => stamp q - stamp p)). reflexivity.
Qed.

Lemma stamps_nth (t : list A) (d : A) k : (k < length t)%nat ->
  nth k (map stamp t) 0 = stamp (nth k t d).
Proof.
  intros Hk. rewrite (nth_indep _ 0 (stamp d)) by (rewrite map_length; exact Hk). apply map_nth.
Qed.

(* APE: one entry per error value (= per pose), entry k is about pose k *)
Theorem ape_companions_spec (ref est : list A) (d : A) : est <> [] -> length ref = length est ->
  let '(sec, ts, dfs, ds) := ape_companions stamp pos dist ref est in
  length sec = length est /\ length ts = length est /\
  length dfs = length est /\ length ds = length est /\
  forall k, (k < length est)%nat ->
    nth k ts 0 = stamp (nth k est d) /\
    nth k sec 0 = stamp (nth k est d) - stamp (nth 0 est d) /\
    nth k dfs 0 = path_len (map pos (firstn (S k) ref)) /\
    nth k ds 0 = path_len (map pos (firstn (S k) est)).
Proof.
  intros He Hl. unfold ape_companions.
  assert (Hr : ref <> []) by (destruct ref, est; cbn in Hl; congruence).
  split; [apply seconds_length|]. split; [apply map_length|].
  split; [rewrite acc_dist_length, map_length by (destruct ref; cbn; congruence); exact Hl|].
  split; [rewrite acc_dist_length, map_length by (destruct est; cbn; congruence); reflexivity|].
  intros k Hk. split; [apply stamps_nth; exact Hk|]. split; [apply seconds_nth; exact Hk|].
  rewrite !acc_dist_nth by (rewrite map_length; lia). rewrite !firstn_map. split; reflexivity.
Qed.

(* RPE: arrays and stored trajectories *)
Theorem rpe_companions_spec (ref est : list A) (ids : list nat) (d : A) :
  ref <> [] -> est <> [] -> in_range ref ids -> in_range est ids ->
  let '((sec, ts, dfs, ds), (r, e)) := rpe_companions stamp pos dist ref est ids in
  (* the stored trajectories: pose 0 and the end pose of every pair, in order *)
  r = map (fun i => nth i ref d) (0%nat :: ids) /\ e = map (fun i => nth i est d) (0%nat :: ids) /\
  (* one entry per error value *)
  length sec = length ids /\ length ts = length ids /\ length dfs = length ids /\ length ds = length ids /\
  (* entry k belongs to the end pose of pair k *)
  forall k, (k < length ids)%nat ->
    let j := nth k ids 0%nat in
    nth k ts 0 = stamp (nth j est d) /\
    nth k sec 0 = stamp (nth j est d) - stamp (nth 0 est d) /\
    nth k dfs 0 = path_len (map pos (firstn (S (S k)) r)) /\
    nth k ds 0 = path_len (map pos (firstn (S (S k)) e)) /\
    nth (S k) r d = nth j ref d /\ nth (S k) e d = nth j est d.
Proof.
  intros Hr He Ir Ie. unfold rpe_companions.
  assert (Ir0 : in_range ref (with_first ids)).
  { constructor; [destruct ref; [congruence|cbn; lia]|exact Ir]. }
  assert (Ie0 : in_range est (with_first ids)).
  { constructor; [destruct est; [congruence|cbn; lia]|exact Ie]. }
  set (r := reduce_to_ids ref (with_first ids)). set (e := reduce_to_ids est (with_first ids)).
  assert (Er : r = map (fun i => nth i ref d) (0%nat :: ids)) by (apply reduce_map_nth; exact Ir0).
  assert (Ee : e = map (fun i => nth i est d) (0%nat :: ids)) by (apply reduce_map_nth; exact Ie0).
  assert (Lr : length r = S (length ids)) by (rewrite Er, map_length; reflexivity).
  assert (Le : length e = S (length ids)) by (rewrite Ee, map_length; reflexivity).
  assert (Hrn : r <> []) by (destruct r; cbn in Lr; congruence).
  assert (Hen : e <> []) by (destruct e; cbn in Le; congruence).
  split; [exact Er|]. split; [exact Ee|].
  assert (Ltl : forall (X : Type) (l : list X), length (tl l) = (length l - 1)%nat) by (intros X l; destruct l; cbn; lia).
  split; [rewrite Ltl, seconds_length; lia|]. split; [rewrite Ltl, map_length; lia|].
  split; [rewrite Ltl, acc_dist_length, map_length by (destruct r; cbn; congruence); lia|].
  split; [rewrite Ltl, acc_dist_length, map_length by (destruct e; cbn; congruence); lia|].
  intros k Hk. cbv zeta. set (j := nth k ids 0%nat).
  assert (Ntl : forall (X : Type) (l : list X) (dx : X) q, nth q (tl l) dx = nth (S q) l dx)
    by (intros X l dx q; destruct l; [destruct q; reflexivity|reflexivity]).
  assert (Nr : nth (S k) r d = nth j ref d).
  { rewrite Er. cbn [map nth]. rewrite (nth_indep _ d ((fun i => nth i ref d) 0%nat)) by (rewrite map_length; exact Hk).
    apply (map_nth (fun i => nth i ref d)). }
  assert (Ne : nth (S k) e d = nth j est d).
  { rewrite Ee. cbn [map nth]. rewrite (nth_indep _ d ((fun i => nth i est d) 0%nat)) by (rewrite map_length; exact Hk).
    apply (map_nth (fun i => nth i est d)). }
  assert (N0 : nth 0 e d = nth 0 est d) by (rewrite Ee; reflexivity).
  rewrite !Ntl.
  split; [rewrite (stamps_nth e d) by lia; rewrite Ne; reflexivity|].
  split; [rewrite (seconds_nth e d) by lia; rewrite Ne, N0; reflexivity|].
  rewrite !acc_dist_nth by (rewrite map_length; lia). rewrite !firstn_map.
  repeat split; assumption.
Qed.

(* ---------- zero-distance pairs dropped by the ratio relation ---------- *)
Lemma nonzero_from_spec : forall (dl : list R) s i,
  In i (nonzero_from s dl) <-> (s <= i < s + length dl)%nat /\ nth (i - s) dl 0 <> 0.
Proof.
  induction dl as [|x r IH]; intros s i; cbn [nonzero_from length].
  - split; [intros []|intros [H _]; lia].
  - rnum. unfold Reqb. destruct (Req_EM_T x 0) as [E|E].
    + rewrite IH. split.
      * intros [H1 H2]. split; [lia|]. replace (i - s)%nat with (S (i - S s)) by lia. exact H2.
      * intros [H1 H2]. destruct (Nat.eq_dec i s) as [->|Ne].
        -- rewrite Nat.sub_diag in H2. cbn in H2. contradiction.
        -- split; [lia|]. replace (i - s)%nat with (S (i - S s)) in H2 by lia. exact H2.
    + cbn [In]. rewrite IH. split.
      * intros [<-|[H1 H2]].
        -- split; [lia|]. rewrite Nat.sub_diag. exact E.
        -- split; [lia|]. replace (i - s)%nat with (S (i - S s)) by lia. exact H2.
      * intros [H1 H2]. destruct (Nat.eq_dec i s) as [->|Ne]; [left; reflexivity|right].
        split; [lia|]. replace (i - s)%nat with (S (i - S s)) in H2 by lia. exact H2.
Qed.

Lemma nonzero_from_sorted : forall (dl : list R) s, StronglySorted lt (nonzero_from s dl).
Proof.
  induction dl as [|x r IH]; intros s; cbn [nonzero_from]; [constructor|].
  destruct (neqb x n0); [apply IH|]. constructor; [apply IH|].
  rewrite Forall_forall. intros i Hi. apply nonzero_from_spec in Hi. lia.
Qed.

Lemma nonzero_from_length : forall (dl : list R) s, (length (nonzero_from s dl) <= length dl)%nat.
Proof.
  induction dl as [|x r IH]; intros s; cbn [nonzero_from length]; [lia|].
  destruct (neqb x n0); [specialize (IH (S s)); lia|cbn [length]; specialize (IH (S s)); lia].
Qed.

Lemma nonzero_from_full : forall (dl : list R) s,
  length (nonzero_from s dl) = length dl -> nonzero_from s dl = seq s (length dl).
Proof.
  induction dl as [|x r IH]; intros s H; [reflexivity|]. cbn [nonzero_from length seq] in *.
  destruct (neqb x n0).
  - pose proof (nonzero_from_length r (S s)). lia.
  - cbn [length] in H. f_equal. apply IH. lia.
Qed.

(* the surviving indices: increasing, and exactly those with a non-zero reference distance *)
Theorem nonzero_spec (dl : list R) :
  StronglySorted lt (nonzero dl) /\
  forall i, In i (nonzero dl) <-> (i < length dl)%nat /\ nth i dl 0 <> 0.
Proof.
  split; [apply nonzero_from_sorted|]. intros i. unfold nonzero. rewrite nonzero_from_spec.
  rewrite Nat.sub_0_r. split; intros [H1 H2]; (split; [lia|exact H2]).
Qed.

Definition pairs_in_range (t : list A) (pairs : list (nat * nat)) : Prop :=
  Forall (fun ij => (fst ij < length t)%nat /\ (snd ij < length t)%nat) pairs.

Lemma pair_dists_map (t : list A) pairs (d : A) : pairs_in_range t pairs ->
  pair_dists pos dist t pairs = map (fun ij => dist (pos (nth (fst ij) t d)) (pos (nth (snd ij) t d))) pairs.
Proof.
  induction pairs as [|[i j] r IH]; intros H; [reflexivity|]. inversion H as [|? ? [Hi Hj] Hr]; subst.
  unfold pair_dists in *. cbn [flat_map map fst snd] in *.
  destruct (nth_error t i) as [a|] eqn:Ea; [|apply nth_error_None in Ea; lia].
  destruct (nth_error t j) as [b|] eqn:Eb; [|apply nth_error_None in Eb; lia].
  rewrite (nth_error_nth _ _ d Ea), (nth_error_nth _ _ d Eb). cbn [app]. f_equal. apply IH; exact Hr.
Qed.

Lemma combine_map_same {X Y Z} (f : X -> Y) (g : X -> Z) (l : list X) :
  combine (map f l) (map g l) = map (fun x => (f x, g x)) l.
Proof. induction l as [|x r IH]; cbn; [reflexivity|rewrite IH; reflexivity]. Qed.

Lemma nth_map_in {X Y} (f : X -> Y) (l : list X) (dx : X) (dy : Y) k : (k < length l)%nat ->
  nth k (map f l) dy = f (nth k l dx).
Proof. intros H. rewrite (nth_indep _ dy (f dx)) by (rewrite map_length; exact H). apply map_nth. Qed.

(* point_distance: one error value per pair, in pair order *)
Theorem point_distance_values (ref est : list A) (pairs : list (nat * nat)) (d : A) :
  pairs_in_range ref pairs -> pairs_in_range est pairs ->
  let '(err, ids) := point_distance_errors pos dist false ref est pairs in
  ids = map snd pairs /\ length err = length pairs /\
  forall k, (k < length pairs)%nat ->
    let ij := nth k pairs (0, 0)%nat in
    nth k err 0 = Rabs (dist (pos (nth (fst ij) ref d)) (pos (nth (snd ij) ref d))
                        - dist (pos (nth (fst ij) est d)) (pos (nth (snd ij) est d))).
Proof.
  intros Hr He. unfold point_distance_errors.
  rewrite (pair_dists_map ref pairs d Hr), (pair_dists_map est pairs d He).
  rewrite combine_map_same, map_map. cbn [fst snd]. rnum.
  split; [reflexivity|]. split; [apply map_length|].
  intros k Hk. cbv zeta. rewrite (nth_map_in _ pairs (0, 0)%nat 0 k Hk). reflexivity.
Qed.

(* point_distance_error_ratio: pairs with a zero reference distance are dropped from the values
   AND from delta_ids by the same index list, so value k and id k still belong together *)
Theorem ratio_filter_aligned (ref est : list A) (pairs : list (nat * nat)) (d : A) :
  pairs_in_range ref pairs -> pairs_in_range est pairs ->
  let rd := map (fun ij => dist (pos (nth (fst ij) ref d)) (pos (nth (snd ij) ref d))) pairs in
  let ed := map (fun ij => dist (pos (nth (fst ij) est d)) (pos (nth (snd ij) est d))) pairs in
  let nz := nonzero rd in
  let '(err, ids) := point_distance_errors pos dist true ref est pairs in
  length err = length nz /\ length ids = length nz /\
  (forall q, In q nz <-> (q < length pairs)%nat /\ nth q rd 0 <> 0) /\ StronglySorted lt nz /\
  forall k, (k < length nz)%nat ->
    let q := nth k nz 0%nat in
    (q < length pairs)%nat /\
    nth k ids 0%nat = snd (nth q pairs (0, 0)%nat) /\
    nth k err 0 = Rabs (nth q rd 0 - nth q ed 0) / nth q rd 0 * 100.
Proof.
  intros Hr He rd ed nz. unfold point_distance_errors.
  rewrite (pair_dists_map ref pairs d Hr), (pair_dists_map est pairs d He).
  change (map (fun ij => dist (pos (nth (fst ij) ref d)) (pos (nth (snd ij) ref d))) pairs) with rd.
  change (map (fun ij => dist (pos (nth (fst ij) est d)) (pos (nth (snd ij) est d))) pairs) with ed.
  fold nz.
  destruct (nonzero_spec rd) as [Sn In_nz]. fold nz in Sn, In_nz.
  assert (Lrd : length rd = length pairs) by apply map_length.
  assert (Led : length ed = length pairs) by apply map_length.
  set (err0 := map (fun ab => nabs (fst ab -! snd ab)%num) (combine rd ed)).
  assert (Lerr0 : length err0 = length pairs).
  { unfold err0. rewrite map_length, combine_length. lia. }
  assert (Rnz : forall X (l : list X), length l = length pairs -> in_range l nz).
  { intros X l Hl. unfold in_range. rewrite Forall_forall. intros q Hq. apply In_nz in Hq. lia. }
  rewrite (reduce_map_nth err0 nz 0 (Rnz _ err0 Lerr0)).
  rewrite (reduce_map_nth rd nz 0 (Rnz _ rd Lrd)).
  rewrite combine_map_same, map_map. cbn [fst snd].
  split; [apply map_length|].
  assert (Lids : length (if Nat.eqb (length nz) (length rd) then map snd pairs
                         else reduce_to_ids (map snd pairs) nz) = length nz).
  { destruct (Nat.eqb_spec (length nz) (length rd)) as [E|E].
    - rewrite map_length. lia.
    - apply reduce_length. apply Rnz. apply map_length. }
  split; [exact Lids|].
  split; [intros q; rewrite In_nz, Lrd; reflexivity|]. split; [exact Sn|].
  intros k Hk. cbv zeta. set (q := nth k nz 0%nat).
  assert (Hq : In q nz) by (apply nth_In; exact Hk).
  apply In_nz in Hq. destruct Hq as [Hq1 Hq2]. rewrite Lrd in Hq1.
  split; [exact Hq1|]. split.
  - destruct (Nat.eqb_spec (length nz) (length rd)) as [E|E].
    + (* nothing was dropped: nz = 0, 1, ..., n-1 *)
      assert (Hseq : nz = seq 0 (length rd)) by (apply nonzero_from_full; exact E).
      assert (Hqk : q = k). { unfold q. rewrite Hseq, seq_nth by lia. reflexivity. }
      rewrite Hqk. apply (nth_map_in snd pairs (0, 0)%nat 0%nat). lia.
    + rewrite (reduce_map_nth (map snd pairs) nz 0%nat) by (apply Rnz; apply map_length).
      rewrite (nth_map_in _ nz 0%nat 0%nat k Hk). fold q.
      apply (nth_map_in snd pairs (0, 0)%nat 0%nat). exact Hq1.
  - rewrite (nth_map_in _ nz 0%nat 0 k Hk). fold q. rnum.
    unfold err0. rewrite (nth_map_in _ (combine rd ed) (0, 0) 0 q) by (rewrite combine_length; lia).
    rewrite combine_nth by lia. cbn [fst snd]. rnum. reflexivity.
Qed.

End CompanionProofs.

(* ========================================================================================== *)
(* 5. non-vacuity: concrete data                                                               *)
(* ========================================================================================== *)
Example stats_example_R :
  let l := [3; 4; 0; 5] in
  mean l = 3 /\ sse l = 50 /\ rmse l * rmse l = 25 / 2 /\ std l * std l = 7 / 2 /\
  minl l = 0 /\ maxl l = 5 /\ median l = 7 / 2 /\ isort l = [0; 3; 4; 5].
Proof.
  cbv zeta.
  assert (Hs : isort [3; 4; 0; 5] = [0; 3; 4; 5]).
  { cbn [isort insert]. rnum.
    repeat match goal with
    | |- context [Rleb ?a ?b] =>
        first [ replace (Rleb a b) with true by (symmetry; apply Rleb_true; lra)
              | replace (Rleb a b) with false by (symmetry; apply Rleb_false; lra) ]; cbn [insert]; rnum
    end. reflexivity. }
  assert (Hm : mean [3; 4; 0; 5] = 3) by (rewrite mean_R; cbn; lra).
  split; [exact Hm|]. split; [rewrite sse_R; unfold sumsq; cbn; lra|].
  split; [rewrite rmse_sq by discriminate; unfold sumsq; cbn; lra|].
  split; [rewrite std_sq, variance_R, Hm by discriminate; cbn; lra|].
  split.
  { unfold minl; rnum; cbn [fold_left].
    repeat match goal with
    | |- context [Rltb ?a ?b] =>
        first [ replace (Rltb a b) with true by (symmetry; apply Rltb_true; lra)
              | replace (Rltb a b) with false by (symmetry; apply Rltb_false; lra) ]
    end. reflexivity. }
  split.
  { unfold maxl; rnum; cbn [fold_left].
    repeat match goal with
    | |- context [Rltb ?a ?b] =>
        first [ replace (Rltb a b) with true by (symmetry; apply Rltb_true; lra)
              | replace (Rltb a b) with false by (symmetry; apply Rltb_false; lra) ]
    end. reflexivity. }
  split; [|exact Hs].
  unfold median. rewrite Hs. unfold median_sorted. cbn. lra.
Qed.

Example change_unit_example_R :
  change_unit PI [2; 5] U_meters U_centimeters = (CuOk, ([2 * (1 / (1 / 100)); 5 * (1 / (1 / 100))], U_centimeters)) /\
  2 * (1 / (1 / 100)) = 200 /\
  change_unit PI [2; 5] U_meters U_radians = (CuRefused RefAngleLength, ([2; 5], U_meters)) /\
  change_unit PI [2; 5] U_none U_meters = (CuRefused RefNoConversions, ([2; 5], U_none)) /\
  change_unit PI [2; 5] U_meters U_seconds = (CuRefused RefUnknown, ([2; 5], U_meters)) /\
  change_unit PI [] U_meters U_centimeters = (CuRefused RefEmpty, (@nil R, U_meters)) /\
  change_unit PI [2; 5] U_none U_none = (CuOk, ([2; 5], U_none)).
Proof. repeat split; try reflexivity. lra. Qed.

(* RPE companion arrays on 5 tagged poses, pairs (0,2) (2,3) (3,4): stored poses 0,2,3,4 *)
Example rpe_companions_example :
  let t := [(10, 0%nat); (11, 1%nat); (12, 2%nat); (13, 3%nat); (14, 4%nat)] in
  rpe_companions (T := R) (fun p : R * nat => fst p) (fun p => INR (snd p)) (fun a b => Rabs (a - b)) t t [2; 3; 4]%nat
  = (([12 - 10; 13 - 10; 14 - 10], [12; 13; 14],
      [0 + Rabs (INR 0 - INR 2); 0 + Rabs (INR 0 - INR 2) + Rabs (INR 2 - INR 3);
       0 + Rabs (INR 0 - INR 2) + Rabs (INR 2 - INR 3) + Rabs (INR 3 - INR 4)],
      [0 + Rabs (INR 0 - INR 2); 0 + Rabs (INR 0 - INR 2) + Rabs (INR 2 - INR 3);
       0 + Rabs (INR 0 - INR 2) + Rabs (INR 2 - INR 3) + Rabs (INR 3 - INR 4)]),
     ([(10, 0%nat); (12, 2%nat); (13, 3%nat); (14, 4%nat)], [(10, 0%nat); (12, 2%nat); (13, 3%nat); (14, 4%nat)])).
Proof. reflexivity. Qed.

(* binary64 run of the same model (what the correspondence runs evaluate) *)
Module FloatExamples.
Import PrimFloat.
Local Open Scope float_scope.
Definition ex_values : list float := [3; 4; 0; 5].
Definition ex_statistics : float * float * float * float * float * float * float :=
  (0x1.c48c6001f0ac0p+1, 3, 3.5, 0x1.deeea11683f49p+0, 0, 5, 50).
Example stats_example_F : all_statistics ex_values = ex_statistics.
Proof. vm_compute. reflexivity. Qed.
Example change_unit_example_F :
  change_unit_F [2; 5] U_meters U_centimeters = (CuOk, ([200; 500], U_centimeters)) /\
  change_unit_F [180] U_degrees U_radians = (CuOk, ([0x1.921fb54442d18p+1], U_radians)) /\
  change_unit_F [2] U_degrees U_meters = (CuRefused RefAngleLength, ([2], U_degrees)).
Proof. vm_compute. repeat split; reflexivity. Qed.
(* ratio relation with a zero reference distance (poses 1 and 2 of the reference coincide):
   pair (1,2) is dropped from the values and from delta_ids, the arrays follow *)
Definition ex_ref : list (@TPose float) :=
  [(0, (0, 0, 0), 0%nat); (1, (1, 0, 0), 1%nat); (2, (1, 0, 0), 2%nat); (3, (3, 0, 0), 3%nat)].
Definition ex_est : list (@TPose float) :=
  [(0, (0, 0, 0), 0%nat); (1, (2, 0, 0), 1%nat); (2, (2, 0, 0), 2%nat); (3, (3, 0, 0), 3%nat)].
Definition ex_ratio_result :=
  ([100; 50], [1; 3]%nat, ([1; 3], [1; 3], [1; 3], [2; 3]), ([0; 1; 3]%nat, [0; 1; 3]%nat)).
Example rpe_ratio_example_F :
  rpe_pd true ex_ref ex_est [(0, 1); (1, 2); (2, 3)]%nat = ex_ratio_result.
Proof. vm_compute. reflexivity. Qed.
End FloatExamples.

(* ========================================================================================== *)
(* 6. a Result handed out before change_unit is not touched by it (heap model, any number system) *)
(* ========================================================================================== *)
Section HeapProofs.
Context {T : Type} {ops : NumOps T}.

Lemma hread_alloc_old (h : @heap T) x a : (a < length h)%nat -> hread (fst (halloc h x)) a = hread h a.
Proof. intros H. unfold hread, halloc. cbn [fst]. apply app_nth1. exact H. Qed.
Lemma hread_alloc_new (h : @heap T) x : hread (fst (halloc h x)) (snd (halloc h x)) = x.
Proof. unfold hread, halloc. cbn [fst snd]. rewrite app_nth2 by lia. rewrite Nat.sub_diag. reflexivity. Qed.

(* the current code (rebinding): whatever Results exist, they keep their values and stay consistent;
   the metric afterwards holds exactly the values the functional model computes *)
Theorem change_unit_keeps_earlier_results (p : T) (h : @heap T) (m : hmetric) (v : Unit) (r : hresult) :
  (fst m < length h)%nat -> (res_addr r < length h)%nat -> result_consistent h r ->
  let '(st, (h', m')) := change_unit_h false p h m v in
  hread h' (res_addr r) = hread h (res_addr r) /\ result_consistent h' r /\
  st = fst (change_unit p (hread h (fst m)) (snd m) v) /\
  hread h' (fst m') = fst (snd (change_unit p (hread h (fst m)) (snd m) v)) /\
  snd m' = snd (snd (change_unit p (hread h (fst m)) (snd m) v)) /\
  result_consistent h' (get_result_h h' m').
Proof.
  intros Hm Hr Hc. unfold change_unit_h. cbn [andb].
  destruct (change_unit p (hread h (fst m)) (snd m) v) as [st [e' u']] eqn:E.
  destruct st as [|rf].
  - destruct (unit_eqb_spec (snd m) v) as [Euv|Ne].
    + (* same unit: nothing happens *)
      assert (E2 : (e', u') = (hread h (fst m), snd m)).
      { unfold change_unit in E. rewrite <- Euv in E.
        replace (unit_eqb (snd m) (snd m)) with true in E by (destruct (snd m); reflexivity).
        inversion E; reflexivity. }
      inversion E2; subst e' u'. cbn [fst snd]. repeat split; try assumption; reflexivity.
    + cbn [halloc]. cbn [fst snd].
      assert (R1 : forall a, (a < length h)%nat -> hread (h ++ [e']) a = hread h a)
        by (intros a Ha; apply (hread_alloc_old h e' a Ha)).
      assert (R2 : hread (h ++ [e']) (length h) = e') by apply (hread_alloc_new h e').
      split; [apply R1; exact Hr|]. split; [unfold result_consistent in *; rewrite R1 by exact Hr; exact Hc|].
      split; [reflexivity|]. split; [exact R2|]. split; [reflexivity|]. reflexivity.
  - (* refused: neither heap nor metric change *)
    assert (E2 : (e', u') = (hread h (fst m), snd m)).
    { clear - E. unfold change_unit in E.
      repeat match type of E with context [if ?c then _ else _] => destruct c end; inversion E; reflexivity. }
    inversion E2; subst e' u'. cbn [fst snd]. repeat split; try assumption; reflexivity.
Qed.

(* the scenario r1 = get_result(); change_unit(v); r2 = get_result() on a fresh metric *)
Theorem alias_scenario_spec (p : T) (e : list T) (u v : Unit) :
  let '(st, s1, e1, u1, e2, u2, s2) := alias_scenario false p e u v in
  s1 = all_statistics e /\ e1 = e /\ u1 = u /\
  (st, (e2, u2)) = change_unit p e u v /\ s2 = all_statistics e2.
Proof.
  unfold alias_scenario.
  pose proof (change_unit_keeps_earlier_results p [e] (0%nat, u) v (get_result_h [e] (0%nat, u))) as H.
  cbn [fst snd length res_addr get_result_h] in H.
  specialize (H ltac:(lia) ltac:(lia) eq_refl).
  destruct (change_unit_h false p [e] (0%nat, u) v) as [st [h1 m1]].
  destruct H as [H1 [H2 [H3 [H4 [H5 H6]]]]].
  cbn [res_stats res_addr res_unit get_result_h fst snd] in *.
  change (hread [e] 0) with e in *.
  split; [reflexivity|]. split; [exact H1|]. split; [reflexivity|]. split.
  - destruct (change_unit p e u v) as [st' [e' u']]. cbn [fst snd] in *. subst. reflexivity.
  - reflexivity.
Qed.
End HeapProofs.

(* regression witness (binary64): with the earlier in-place scaling the Result taken before
   m -> mm is rescaled behind its back (its stored sse is 5, its array now has sse 5000000);
   with the current code it keeps sse 5 *)
Module AliasWitness.
Import PrimFloat.
Local Open Scope float_scope.
Definition w_vals : list float := [1; 2].
Definition sse_of_stats (s : float * float * float * float * float * float * float) : float := snd s.
Definition stored_and_actual_sse (inplace : bool) : float * float :=
  let '(_, s1, e1, _, _, _, _) := alias_scenario inplace pi_float w_vals U_meters U_millimeters in
  (sse_of_stats s1, sse e1).
Definition five : float := 5.
Definition five_million : float := 5000000.
Example old_code_rescaled_earlier_result : stored_and_actual_sse true = (five, five_million).
Proof. vm_compute. reflexivity. Qed.
Example new_code_keeps_earlier_result : stored_and_actual_sse false = (five, five).
Proof. vm_compute. reflexivity. Qed.
End AliasWitness.

(* ---------- summaries used by the property file ---------- *)
Theorem change_unit_factors :
  (forall u, factorR u u = 1) /\
  (forall u v, u <> v -> is_length u = true -> is_length v = true -> factorR u v = metersR u / metersR v) /\
  metersR U_millimeters = 1 / 1000 /\ metersR U_centimeters = 1 / 100 /\
  metersR U_meters = 1 /\ metersR U_kilometers = 1000 /\
  factorR U_radians U_degrees = 180 / PI /\ factorR U_degrees U_radians = PI / 180 /\
  length (list_prod all_units all_units) = 100%nat /\
  length (filter (fun p => convertible (fst p) (snd p)) (list_prod all_units all_units)) = 24%nat /\
  (forall u v, convertible u v = true <->
     u = v \/ (is_length u = true /\ is_length v = true) \/
     (u = U_radians /\ v = U_degrees) \/ (u = U_degrees /\ v = U_radians)).
Proof.
  split; [intros u; destruct u; reflexivity|].
  split; [intros u v Hne Hu Hv; destruct u; try discriminate Hu; destruct v; try discriminate Hv; try congruence; reflexivity|].
  repeat (split; [reflexivity|]).
  intros u v. split.
  - intros H. destruct u, v; try discriminate H; auto.
  - intros [->|[[Hu Hv]|[[-> ->]|[-> ->]]]]; [destruct v; reflexivity| |reflexivity|reflexivity].
    destruct u; try discriminate Hu; destruct v; try discriminate Hv; reflexivity.
Qed.

Theorem slice_after_first :
  forall (X Y : Type) (f : X -> Y) (t : list X) (ids : list nat) (d : X) (dy : Y),
  t <> [] ->
  tl (map f (reduce_to_ids t (0%nat :: ids))) = map f (reduce_to_ids t ids) /\
  (in_range t ids -> length (reduce_to_ids t ids) = length ids /\
   forall k, (k < length ids)%nat ->
     nth k (tl (map f (reduce_to_ids t (0%nat :: ids)))) dy = f (nth (nth k ids 0%nat) t d)).
Proof.
  intros X Y f t ids d dy Ht. split; [apply (tl_map_reduce_first f t ids Ht)|].
  intros Hr. split; [apply reduce_length; exact Hr|].
  intros k Hk. apply (tl_map_reduce_nth f t ids d dy k Ht Hr Hk).
Qed.
