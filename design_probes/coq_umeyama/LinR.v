From Coq Require Import Reals Lra Psatz Nsatz List.
Import ListNotations.
Local Open Scope R_scope.

Record V3 := mkV3 { vx : R; vy : R; vz : R }.
Record M3 := mkM3 { m00:R; m01:R; m02:R; m10:R; m11:R; m12:R; m20:R; m21:R; m22:R }.

Definition vadd a b := mkV3 (vx a + vx b) (vy a + vy b) (vz a + vz b).
Definition vsub a b := mkV3 (vx a - vx b) (vy a - vy b) (vz a - vz b).
Definition vscale k a := mkV3 (k * vx a) (k * vy a) (k * vz a).
Definition dot a b := vx a * vx b + vy a * vy b + vz a * vz b.
Definition nrm2 a := dot a a.
Definition mv (m:M3) (v:V3) := mkV3
  (m00 m * vx v + m01 m * vy v + m02 m * vz v)
  (m10 m * vx v + m11 m * vy v + m12 m * vz v)
  (m20 m * vx v + m21 m * vy v + m22 m * vz v).
Definition mm (a b : M3) := mkM3
  (m00 a*m00 b + m01 a*m10 b + m02 a*m20 b) (m00 a*m01 b + m01 a*m11 b + m02 a*m21 b) (m00 a*m02 b + m01 a*m12 b + m02 a*m22 b)
  (m10 a*m00 b + m11 a*m10 b + m12 a*m20 b) (m10 a*m01 b + m11 a*m11 b + m12 a*m21 b) (m10 a*m02 b + m11 a*m12 b + m12 a*m22 b)
  (m20 a*m00 b + m21 a*m10 b + m22 a*m20 b) (m20 a*m01 b + m21 a*m11 b + m22 a*m21 b) (m20 a*m02 b + m21 a*m12 b + m22 a*m22 b).
Definition mt (m:M3) := mkM3 (m00 m) (m10 m) (m20 m) (m01 m) (m11 m) (m21 m) (m02 m) (m12 m) (m22 m).
Definition I3 := mkM3 1 0 0 0 1 0 0 0 1.
Definition diag (a b c : R) := mkM3 a 0 0 0 b 0 0 0 c.
Definition det (m:M3) := m00 m*(m11 m*m22 m - m12 m*m21 m) - m01 m*(m10 m*m22 m - m12 m*m20 m) + m02 m*(m10 m*m21 m - m11 m*m20 m).
Definition tr (m:M3) := m00 m + m11 m + m22 m.
Definition frob (a b : M3) := m00 a*m00 b + m01 a*m01 b + m02 a*m02 b + m10 a*m10 b + m11 a*m11 b + m12 a*m12 b + m20 a*m20 b + m21 a*m21 b + m22 a*m22 b.
Definition outer (y x : V3) := mkM3 (vx y*vx x) (vx y*vy x) (vx y*vz x) (vy y*vx x) (vy y*vy x) (vy y*vz x) (vz y*vx x) (vz y*vy x) (vz y*vz x).
Definition madd (a b : M3) := mkM3 (m00 a+m00 b) (m01 a+m01 b) (m02 a+m02 b) (m10 a+m10 b) (m11 a+m11 b) (m12 a+m12 b) (m20 a+m20 b) (m21 a+m21 b) (m22 a+m22 b).
Definition mscale k (a : M3) := mkM3 (k*m00 a) (k*m01 a) (k*m02 a) (k*m10 a) (k*m11 a) (k*m12 a) (k*m20 a) (k*m21 a) (k*m22 a).
Definition M0 := mkM3 0 0 0 0 0 0 0 0 0.
Definition V0 := mkV3 0 0 0.

Definition Orth (m : M3) : Prop := mm (mt m) m = I3 /\ mm m (mt m) = I3.

Ltac m3eq := unfold mm, mt, I3, diag, madd, mscale, outer, M0; cbn; f_equal; ring.
Ltac unpackM H := injection H; clear H; intros.

Lemma mm_assoc a b c : mm (mm a b) c = mm a (mm b c). Proof. destruct a,b,c; m3eq. Qed.
Lemma mt_mm a b : mt (mm a b) = mm (mt b) (mt a). Proof. destruct a,b; m3eq. Qed.
Lemma mt_mt a : mt (mt a) = a. Proof. destruct a; reflexivity. Qed.
Lemma mm_I_l a : mm I3 a = a. Proof. destruct a; m3eq. Qed.
Lemma mm_I_r a : mm a I3 = a. Proof. destruct a; m3eq. Qed.
Lemma det_mm a b : det (mm a b) = det a * det b. Proof. destruct a,b; unfold det, mm; cbn; ring. Qed.
Lemma det_mt a : det (mt a) = det a. Proof. destruct a; unfold det, mt; cbn; ring. Qed.
Lemma det_I : det I3 = 1. Proof. unfold det, I3; cbn; ring. Qed.
Lemma tr_mm_comm a b : tr (mm a b) = tr (mm b a). Proof. destruct a,b; unfold tr, mm; cbn; ring. Qed.
Lemma frob_tr a b : frob a b = tr (mm (mt a) b). Proof. destruct a,b; unfold frob, tr, mm, mt; cbn; ring. Qed.
Lemma tr_mm_diag w d1 d2 d3 : tr (mm w (diag d1 d2 d3)) = m00 w * d1 + m11 w * d2 + m22 w * d3.
Proof. destruct w; unfold tr, mm, diag; cbn; ring. Qed.

Lemma Orth_mt m : Orth m -> Orth (mt m).
Proof. intros [H1 H2]; split; rewrite ?mt_mt; assumption. Qed.
Lemma Orth_mm a b : Orth a -> Orth b -> Orth (mm a b).
Proof.
  intros [A1 A2] [B1 B2]; split; rewrite mt_mm.
  - rewrite mm_assoc, <- (mm_assoc (mt a) a b), A1, mm_I_l. exact B1.
  - rewrite mm_assoc, <- (mm_assoc b (mt b) (mt a)), B2, mm_I_l. exact A2.
Qed.
Lemma Orth_det_sq m : Orth m -> det m * det m = 1.
Proof. intros [H _]. rewrite <- (det_mt m) at 1. rewrite <- det_mm, H. apply det_I. Qed.
Lemma Orth_det m : Orth m -> det m = 1 \/ det m = -1.
Proof. intros H. pose proof (Orth_det_sq m H). assert ((det m - 1)*(det m + 1) = 0) by lra.
  destruct (Rmult_integral _ _ H1); [left|right]; lra. Qed.
Lemma Orth_diag_sign s : s = 1 \/ s = -1 -> Orth (diag 1 1 s).
Proof. intros [->| ->]; split; m3eq. Qed.
Lemma dot_mv_orth m v : Orth m -> nrm2 (mv m v) = nrm2 v.
Proof. intros [H _]. destruct m, v. unfold mm, mt, I3 in H; cbn in H. unpackM H.
  unfold nrm2, dot, mv; cbn. nsatz. Qed.
