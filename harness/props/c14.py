"""C14 - plane projection (PosePath3D.project) vs the algebraic Coq model Evo.Traj.proj_pose."""
import copy
import math

import numpy as np

from harness.common import cf, close, differential, hexf, unhex
from harness.props.c09 import H, U, cm3, cv3, rand_rot

ID = "C14"
IMPORTS = "From Evo Require Import Num Linalg Lie Traj.\n"
COQ_TARGETS = ["theories/TrajProofs.vo"]
TRUSTED = ["model Evo.Traj.proj_pose written by hand from PosePath3D.project + euler_from_matrix('sxyz'): the angle "
           "exp(axis * euler[k]) is represented by its cosine/sine (b/h, a/h of atan2(a, b)), no transcendental function",
           "oracles: math.atan2 / scipy from_rotvec().as_matrix() (measured against the planar rotation on every case)",
           "real-vs-binary64 gap measured, not proved"]
ASSUMPTIONS = ["poses are SE(3)"]
EPS4 = 4.0 * float(np.finfo(float).eps)
PL = {"xy": ("XY", 2), "xz": ("XZ", 1), "yz": ("YZ", 0)}


def planar_pose(plane, heading, pos):
    c, s = math.cos(heading), math.sin(heading)
    p = np.eye(4)
    if plane == "xy":
        p[:3, :3] = [[c, -s, 0], [s, c, 0], [0, 0, 1]]
        pos = [pos[0], pos[1], 0.0]
    elif plane == "xz":
        p[:3, :3] = [[c, 0, s], [0, 1, 0], [-s, 0, c]]
        pos = [pos[0], 0.0, pos[2]]
    else:
        p[:3, :3] = [[1, 0, 0], [0, c, -s], [0, s, c]]
        pos = [0.0, pos[1], pos[2]]
    p[:3, 3] = pos
    return p


def impl(case):
    from evo.core.trajectory import Plane, PosePath3D, PoseTrajectory3D, TrajectoryException
    poses = [U(p, (4, 4)) for p in case["poses"]]
    stamps = [unhex(x) for x in case["stamps"]] if case.get("stamps") else None
    try:
        if case.get("from_quat"):
            from evo.core import transformations as tfm
            xs = np.array([p[:3, 3] for p in poses])
            qs = np.array([tfm.quaternion_from_matrix(p) for p in poses])
            t = PoseTrajectory3D(xs, qs, np.array(stamps)) if stamps else PosePath3D(xs, qs)
        else:
            t = PoseTrajectory3D(poses_se3=[p.copy() for p in poses], timestamps=np.array(stamps)) if stamps \
                else PosePath3D(poses_se3=[p.copy() for p in poses])
        before = [p.copy() for p in t.poses_se3]
        pre = case.get("pre_read")      # which views were read (and cached) before the projection
        if pre in ("quat", "both"):
            t.orientations_quat_wxyz
        if pre in ("pos", "both"):
            t.positions_xyz
        t.project(Plane(case["plane"]))
        out = {"poses": [H(p) for p in t.poses_se3], "pos": [H(v) for v in t.positions_xyz],
               "quat": [H(q) for q in t.orientations_quat_wxyz], "n": int(t.num_poses),
               "check": bool(t.check()[0]), "before": [H(p) for p in before]}
        if stamps:
            out["stamps"] = H(t.timestamps)
        try:
            t.project(Plane(case["plane2"] if case.get("plane2") else case["plane"]))
            out["second"] = "accepted"
        except TrajectoryException:
            out["second"] = "refused"
        return out
    except Exception as e:  # noqa
        return {"exception": type(e).__name__ + ": " + str(e)[:120]}


def expr(case, out):
    poses = [U(p, (4, 4)) for p in (out["before"] if "before" in out else case["poses"])]
    pl = PL[case["plane"]][0]
    items = "; ".join("plist (proj_pose %s %s (mkPose %s %s))" % (cf(EPS4), pl, cm3(p[:3, :3]), cv3(p[:3, 3])) for p in poses)
    cys = "; ".join("nsqrt (nadd (nmul %s %s) (nmul %s %s))" % (cf(p[0, 0]), cf(p[0, 0]), cf(p[1, 0]), cf(p[1, 0])) for p in poses)
    return "([%s], [%s])" % (items, cys)


def _sv(d, **kw):
    r = {"kind": "spec-violation", "failing_input": True, "detail": d}
    r.update(kw)
    return r


def _mv(d):
    return {"kind": "model-vs-impl", "failing_input": False, "correspondence": "Traj.proj_pose", "detail": d}


def judge(case, val, out, f3=None):
    if "exception" in out:
        return _sv("unexpected exception: " + out["exception"])
    mposes, cys = val
    plane = case["plane"]
    nd = PL[plane][1]
    before = [U(p, (4, 4)) for p in out["before"]]
    after = [U(p, (4, 4)) for p in out["poses"]]
    if out["n"] != len(before) or len(after) != len(before):
        return _sv("number of poses changed")
    if "stamps" in out and [unhex(x) for x in out["stamps"]] != [unhex(x) for x in case["stamps"]]:
        return _sv("timestamps changed")
    if out["second"] != "refused":
        return _sv("a second projection of the same object was not refused")
    if not out["check"]:
        return _sv("projected trajectory fails evo's validity check")
    inpl = [k for k in range(3) if k != nd]
    for k, (b, a) in enumerate(zip(before, after)):
        if a[nd, 3] != 0.0:
            return _sv("out-of-plane coordinate of pose %d is not zero" % k)
        if any(a[i, 3] != b[i, 3] for i in inpl):
            return _sv("in-plane coordinate of pose %d changed" % k)
        R = a[:3, :3]
        # pure rotation about the normal: row/column nd is the unit vector
        e = np.zeros(3)
        e[nd] = 1.0
        if not np.allclose(R[nd, :], e, rtol=0, atol=1e-12) or not np.allclose(R[:, nd], e, rtol=0, atol=1e-12):
            return _sv("orientation of pose %d is not a pure rotation about the plane normal" % k)
        if not np.allclose(R.T @ R, np.eye(3), rtol=0, atol=1e-9) or abs(np.linalg.det(R) - 1) > 1e-9:
            return _sv("pose %d is not a valid rigid-body pose" % k)
        if not np.array_equal(U(out["pos"][k], 3), a[:3, 3]):
            return _sv("positions view of pose %d differs from its matrix after projection" % k)
        from harness.props.c08 import qmat_py
        if not np.allclose(qmat_py(U(out["quat"][k], 4)), R, rtol=0, atol=1e-9):
            return _sv("quaternion view of pose %d does not describe the projected orientation" % k)
    if case.get("planar"):
        for k, (b, a) in enumerate(zip(before, after)):
            if not np.allclose(a[:3, :3], b[:3, :3], rtol=0, atol=1e-9) or not np.array_equal(a[:, 3], b[:, 3]):
                if plane == "xz" and b[0, 0] < -1e-9:
                    if f3 is not None:
                        f3.append(k)   # finding F3 (known): XZ projection reflects headings beyond +-90 degrees
                    continue
                return _sv("pose %d already lies in the %s plane but was changed by the projection" % (k, plane), planar=True)
    for k, (a, m) in enumerate(zip(after, mposes)):
        cy = float(cys[k])
        if abs(cy - EPS4) < 1e-18:
            continue   # fragile gimbal-lock decision
        flat = list(a[:3, :3].reshape(9)) + list(a[:3, 3])
        if not all(close(x, float(y), rtol=1e-9, atol=1e-9) for x, y in zip(flat[:9], m[:9])) or \
                any(x != float(y) for x, y in zip(flat[9:], m[9:])):
            return _mv("projected pose %d differs from the model" % k)
    return None


def gen(ctx):
    rng = ctx.np_rng(14)
    cases = []
    step = ctx.n(3, 1)
    for plane in ("xy", "xz", "yz"):
        heads = [math.radians(d) for d in range(-179, 181, step)]
        for i in range(0, len(heads), 30):
            chunk = heads[i:i + 30]
            poses = [planar_pose(plane, h, rng.normal(size=3) * 10) for h in chunk]
            cases.append({"kind": "planar", "planar": True, "plane": plane, "poses": [H(p) for p in poses],
                          "from_quat": bool((i // 30) % 2)})
        # random headings incl. exactly +-90, 180 degrees
        hs = list(rng.uniform(-math.pi, math.pi, 40)) + [math.pi / 2, -math.pi / 2, math.pi, 0.0]
        cases.append({"kind": "planar", "planar": True, "plane": plane,
                      "poses": [H(planar_pose(plane, h, rng.normal(size=3) * 100)) for h in hs]})
    for plane in ("xy", "xz", "yz"):
        # densely sampled, slowly turning planar motion (a few micro-radians per pose, heading away from multiples of 90 deg)
        for h0, dh in ((0.6, 2e-6), (-1.1, 5e-7)):
            poses = [planar_pose(plane, h0 + dh * k, [0.01 * k, 0.02 * k, -0.01 * k]) for k in range(60)]
            cases.append({"kind": "planar", "planar": True, "plane": plane, "poses": [H(p) for p in poses], "from_quat": dh < 1e-6})
        # planar poses whose in-plane coordinates are tiny but not zero (nanometres down to subnormal numbers)
        poses = [planar_pose(plane, 0.3 * k - 1.0, np.array([1.0, -2.0, 3.0]) * m)
                 for k, m in enumerate([1e-7, 1e-9, 1e-12, 1e-30, 1e-200, 5e-324, 1e-310])]
        cases.append({"kind": "planar", "planar": True, "plane": plane, "poses": [H(p) for p in poses]})
    for i in range(ctx.n(90, 500)):
        n = int(rng.integers(1, 30))
        poses = []
        for k in range(n):
            p = np.eye(4)
            p[:3, :3] = rand_rot(rng)
            if k % 5 == 0:   # gimbal-lock attitudes: pitch = +-90 degrees (cy = 0 up to rounding)
                s = float(rng.choice([-1.0, 1.0]))
                a = float(rng.uniform(-math.pi, math.pi))
                ry = np.array([[0, 0, s], [0, 1, 0], [-s, 0, 0]])
                rx = np.array([[1, 0, 0], [0, math.cos(a), -math.sin(a)], [0, math.sin(a), math.cos(a)]])
                p[:3, :3] = ry @ rx
            if k % 5 == 1:   # nearly planar: rotation about the normal of the target plane with a small tilt
                nd = PL[["xy", "xz", "yz"][i % 3]][1]
                h = float(rng.uniform(-math.pi, math.pi))
                base = planar_pose(["xy", "xz", "yz"][i % 3], h if abs(math.cos(h)) > 0 else 0.1, [0, 0, 0])[:3, :3]
                tilt_axis = np.zeros(3)
                tilt_axis[(nd + 1) % 3] = 1.0
                from harness.props.c09 import rodrigues_py
                p[:3, :3] = rodrigues_py(tilt_axis * float(10.0 ** rng.uniform(-6, -2))) @ base
            p[:3, 3] = rng.normal(size=3) * 10.0 ** rng.integers(-2, 6)
            poses.append(p)
        c = {"kind": "general", "plane": ["xy", "xz", "yz"][i % 3], "poses": [H(p) for p in poses],
             "from_quat": bool(i % 2), "plane2": ["xy", "xz", "yz"][(i // 3) % 3], "pre_read": [None, "quat", "pos", "both"][(i // 2) % 4]}
        if i % 2:
            c["stamps"] = [hexf(x) for x in 1.5e9 + np.cumsum(rng.uniform(0.1, 1.0, n))]
        cases.append(c)
    return cases


def matches_known(known, failure):
    return known.get("id") == "F3" and failure.get("known_class") == "F3"


def run(ctx, replay=None, proofs_ok=True):
    cases = [replay["case"]] if replay is not None else gen(ctx)
    f3_hits = []

    def j(case, val, out):
        hits = []
        r = judge(case, val, out, hits)
        if hits:
            f3_hits.append((case, hits))
        return r
    failures, stats = differential(ctx, cases, imports=IMPORTS, impl=impl, expr=expr, judge=j,
                                   nontrivial=lambda c, v, o: "poses" in o, per_file=20)
    if f3_hits:
        case, hits = f3_hits[0]
        failures.append({"kind": "spec-violation", "failing_input": True, "known_class": "F3",
                         "detail": "XZ projection changes planar poses with heading beyond +-90 degrees "
                                   "(%d poses in %d cases of this run)" % (sum(len(h) for _, h in f3_hits), len(f3_hits)),
                         "case": case, "pose_indices": hits[:5]})
    hist = {}
    for c in cases:
        key = c["kind"] + ":" + c["plane"]
        hist[key] = hist.get(key, 0) + len(c["poses"])
    cov = {"evaluations": stats["evaluations"], "distinct_nontrivial": stats["distinct_nontrivial"],
           "poses_projected": sum(len(c["poses"]) for c in cases),
           "rule": "3 planes x planar poses on a heading grid of %d degree(s) over (-180, 180] plus random headings and exact "
                   "+-90/180 degrees, built from matrices and from quaternions; general 3-D poses incl. exact gimbal-lock attitudes, "
                   "positions 1e-2..1e6, with/without timestamps; second projection (same or other plane) must be refused; "
                   "non-trivial = projection performed" % ctx.n(3, 1),
           "samples": [{k: (v if k != "poses" else v[:2]) for k, v in cases[0].items()}],
           "input_distribution": hist, "disagreements": stats["disagreements"],
           "refuted": ["C14_xz_leaves_planar_poses_unchanged_refuted (finding F3, known finding): %d cases of this run"
                       % len(f3_hits)]}
    return {"failures": failures, "coverage": cov}


LEVEL_TEXT = ("Coq theorems over R for the projection model: out-of-plane coordinate zero, in-plane coordinates unchanged, orientation "
              "a rotation about the plane normal and a valid rotation for EVERY input matrix, XY and YZ projections fix every planar "
              "pose with any heading; for XZ the statement is REFUTED in Coq (witness cos = -3/5) and proved under cos(heading) >= 0 "
              "(known finding F3, pinned by evo's own test_projection). Tie: differential run incl. a 1..3 degree heading grid.")
LEVEL_NOTE = ("Trusted: Coq kernel/VM, Reals axioms + classic, hand model (tested), atan2/scipy exp as oracles measured per case; "
              "rounding measured. Known finding F3 is listed in known_findings.json and printed as KNOWN-FINDING.")
TECHNIQUE = "Coq proof (planar rotation algebra, sqrt lemmas; refutation by witness) + correspondence by vm_compute"
