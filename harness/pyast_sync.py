"""Translator tie (T) for evo/core/sync.py matching_time_indices (C05): re-translate the function from the CURRENT source,
statement by statement, into coq/generated/SyncGen.v over the list / dict / sorted vocabulary of Evo.NpDsl.  Typed and
FAIL-CLOSED (Unsupported on anything outside the table).  Evo.SyncTie proves the regenerated function equal to the hand
model Evo.Sync.matching.
types: LS = 1-D float array, S = float, N = nat, B = bool, D = dict int -> (float, int), PAIRS = list of (int, int),
LN = list of int."""
import ast
import os

from harness.pyast_np import Unsupported, Val


class SyncTranslator:
    def expr(self, e, env):
        m = getattr(self, "e_" + type(e).__name__, None)
        if m is None:
            raise Unsupported("expression %s (%s)" % (type(e).__name__, ast.unparse(e)))
        return m(e, env)

    def e_Name(self, e, env):
        if e.id not in env:
            raise Unsupported("unknown name %s" % e.id)
        return env[e.id]

    def e_BinOp(self, e, env):
        a, b = self.expr(e.left, env), self.expr(e.right, env)
        if isinstance(e.op, ast.Sub) and a.ty == "LS" and b.ty == "S":
            return Val("(np_sub_scalar %s %s)" % (a.coq, b.coq), "LS")
        if isinstance(e.op, ast.Add) and a.ty == "LS" and b.ty == "S":
            return Val("(np_add_scalar %s %s)" % (a.coq, b.coq), "LS")
        raise Unsupported("operator %s on %s, %s" % (type(e.op).__name__, a.ty, b.ty))

    def e_Call(self, e, env):
        fn = ast.unparse(e.func)
        if e.keywords:
            raise Unsupported("keyword arguments in %s" % ast.unparse(e))
        args = [self.expr(a, env) for a in e.args]
        tys = [a.ty for a in args]
        if fn == "np.abs" and tys == ["LS"]:
            return Val("(np_abs_list %s)" % args[0].coq, "LS")
        if fn == "np.argmin" and tys == ["LS"]:
            return Val("(np_argmin %s)" % args[0].coq, "N")
        if fn == "int" and tys == ["N"]:
            return args[0]
        if fn == "copy.deepcopy" and len(args) == 1:
            return args[0]      # values are immutable here: a deep copy is the value itself
        raise Unsupported("call %s on %s" % (fn, tys))

    def e_Subscript(self, e, env):
        v = self.expr(e.value, env)
        if isinstance(e.slice, (ast.Tuple, ast.Slice)):
            raise Unsupported("subscript %s" % ast.unparse(e))
        if v.ty == "LS":
            i = self.expr(e.slice, env)
            if i.ty == "N":
                return Val("(np_item %s %s)" % (v.coq, i.coq), "S")
        if v.ty == "D":
            k = self.expr(e.slice, env)
            if k.ty == "N":
                return Val("(py_dict_get (n0, 0) %s %s)" % (k.coq, v.coq), "DV")
        if v.ty == "DV" and isinstance(e.slice, ast.Constant) and e.slice.value in (0, 1):
            return Val("(%s %s)" % (("fst", "snd")[e.slice.value], v.coq), ("S", "N")[e.slice.value])
        raise Unsupported("subscript %s" % ast.unparse(e))

    def e_Compare(self, e, env):
        if len(e.ops) != 1:
            raise Unsupported("chained comparison")
        op = e.ops[0]
        a, b = self.expr(e.left, env), self.expr(e.comparators[0], env)
        if a.ty == "S" and b.ty == "S":
            if isinstance(op, ast.LtE):
                return Val("(%s <=?! %s)" % (a.coq, b.coq), "B")
            if isinstance(op, ast.Lt):
                return Val("(%s <?! %s)" % (a.coq, b.coq), "B")
        if a.ty == "N" and b.ty == "D":
            if isinstance(op, ast.NotIn):
                return Val("(negb (py_dict_mem %s %s))" % (a.coq, b.coq), "B")
            if isinstance(op, ast.In):
                return Val("(py_dict_mem %s %s)" % (a.coq, b.coq), "B")
        raise Unsupported("comparison %s" % ast.unparse(e))

    def e_BoolOp(self, e, env):
        vs = [self.expr(x, env) for x in e.values]
        if any(v.ty != "B" for v in vs):
            raise Unsupported("boolean operator on %s" % [v.ty for v in vs])
        op = "&&" if isinstance(e.op, ast.And) else "||"
        out = vs[-1].coq
        for v in reversed(vs[:-1]):
            out = "(%s %s %s)" % (v.coq, op, out)
        return Val(out, "B")

    def e_Tuple(self, e, env):
        vs = [self.expr(x, env) for x in e.elts]
        if [v.ty for v in vs] == ["S", "N"]:
            return Val("(%s, %s)" % (vs[0].coq, vs[1].coq), "DV")
        if [v.ty for v in vs] == ["N", "N"]:
            return Val("(%s, %s)" % (vs[0].coq, vs[1].coq), "PAIR")
        raise Unsupported("tuple of %s" % [v.ty for v in vs])

    # ------------------------------------------------------------ statements
    def block(self, stmts, env, tail):
        if not stmts:
            return tail(env)
        s, rest = stmts[0], stmts[1:]
        cont = lambda env2: self.block(rest, env2, tail)
        m = getattr(self, "s_" + type(s).__name__, None)
        if m is None:
            raise Unsupported("statement %s (line %d)" % (type(s).__name__, s.lineno))
        return m(s, env, cont, rest)

    def s_Pass(self, s, env, cont, rest):
        return cont(env)

    def s_Expr(self, s, env, cont, rest):
        if isinstance(s.value, ast.Constant) and isinstance(s.value.value, str):
            return cont(env)
        # logging has no effect on the result: logger.debug(...) / logger.info(...) / logger.warning(...) statements are skipped
        if isinstance(s.value, ast.Call) and isinstance(s.value.func, ast.Attribute) and isinstance(s.value.func.value, ast.Name) \
                and s.value.func.value.id in ("logger", "logging") and s.value.func.attr in ("debug", "info", "warning"):
            return cont(env)
        raise Unsupported("expression statement %s" % ast.unparse(s))

    def _bind(self, name, v, env, cont):
        env = dict(env)
        env[name] = Val(name, v.ty)
        return "let %s := %s in\n  %s" % (name, v.coq, cont(env))

    def s_Assign(self, s, env, cont, rest):
        if len(s.targets) != 1:
            raise Unsupported("multiple assignment")
        t = s.targets[0]
        if isinstance(t, ast.Subscript) and isinstance(t.value, ast.Name) and t.value.id in env and env[t.value.id].ty == "D":
            k, v = self.expr(t.slice, env), self.expr(s.value, env)
            if k.ty != "N" or v.ty != "DV":
                raise Unsupported("dict assignment %s" % ast.unparse(s))
            name = t.value.id
            return self._bind(name, Val("(py_dict_set %s %s %s)" % (k.coq, v.coq, env[name].coq), "D"), env, cont)
        if not isinstance(t, ast.Name):
            raise Unsupported("assignment target %s" % ast.unparse(t))
        v = self._rhs(s.value, env)
        return self._bind(t.id, v, env, cont)

    def _rhs(self, value, env):
        # sorted(<pair> for <k>, (<_>, <i>) in <dict>.items())
        if isinstance(value, ast.Call) and ast.unparse(value.func) == "sorted" and len(value.args) == 1 and not value.keywords \
                and isinstance(value.args[0], ast.GeneratorExp) and len(value.args[0].generators) == 1:
            g = value.args[0].generators[0]
            it = g.iter
            if not g.ifs and isinstance(it, ast.Call) and isinstance(it.func, ast.Attribute) and it.func.attr == "items" and not it.args:
                d = self.expr(it.func.value, env)
                tg = g.target
                if d.ty == "D" and isinstance(tg, ast.Tuple) and len(tg.elts) == 2 and isinstance(tg.elts[0], ast.Name) \
                        and isinstance(tg.elts[1], ast.Tuple) and len(tg.elts[1].elts) == 2 \
                        and all(isinstance(x, ast.Name) for x in tg.elts[1].elts):
                    inner = {tg.elts[0].id: Val("(fst e)", "N"), tg.elts[1].elts[0].id: Val("(fst (snd e))", "S"),
                             tg.elts[1].elts[1].id: Val("(snd (snd e))", "N")}
                    elt = self.expr(value.args[0].elt, inner)
                    if elt.ty == "PAIR":
                        return Val("(py_sorted_pairs (map (fun e => %s) (py_dict_items %s)))" % (elt.coq, d.coq), "PAIRS")
            raise Unsupported("sorted expression %s" % ast.unparse(value))
        # [<name> for <a>, <b> in <pairs>]
        if isinstance(value, ast.ListComp) and len(value.generators) == 1:
            g = value.generators[0]
            src = self.expr(g.iter, env)
            tg = g.target
            if not g.ifs and src.ty == "PAIRS" and isinstance(tg, ast.Tuple) and len(tg.elts) == 2 \
                    and all(isinstance(x, ast.Name) for x in tg.elts) and isinstance(value.elt, ast.Name):
                names = [x.id for x in tg.elts]
                if value.elt.id in names and names[0] != names[1]:
                    return Val("(map %s %s)" % (("fst", "snd")[names.index(value.elt.id)], src.coq), "LN")
            raise Unsupported("list comprehension %s" % ast.unparse(value))
        return self.expr(value, env)

    def s_AnnAssign(self, s, env, cont, rest):
        if isinstance(s.target, ast.Name) and isinstance(s.value, ast.Dict) and not s.value.keys:
            return self._bind(s.target.id, Val("py_dict_empty", "D"), env, cont)
        raise Unsupported("annotated assignment %s" % ast.unparse(s))

    def s_AugAssign(self, s, env, cont, rest):
        if isinstance(s.target, ast.Name) and s.target.id in env and isinstance(s.op, ast.Add):
            a, b = env[s.target.id], self.expr(s.value, env)
            if a.ty == "LS" and b.ty == "S":
                return self._bind(s.target.id, Val("(np_add_scalar %s %s)" % (a.coq, b.coq), "LS"), env, cont)
        raise Unsupported("augmented assignment %s" % ast.unparse(s))

    def s_If(self, s, env, cont, rest):
        c = self.expr(s.test, env)
        if c.ty != "B" or s.orelse:
            raise Unsupported("if statement form")
        names = set()
        for b in s.body:
            if isinstance(b, ast.Assign) and len(b.targets) == 1 and isinstance(b.targets[0], ast.Subscript) \
                    and isinstance(b.targets[0].value, ast.Name):
                names.add(b.targets[0].value.id)
            else:
                raise Unsupported("statement %s inside a conditional update" % type(b).__name__)
        if len(names) != 1 or list(names)[0] not in env:
            raise Unsupported("conditional update of %r" % names)
        name = list(names)[0]
        inner = self.block(s.body, dict(env), lambda e2: e2[name].coq)
        return self._bind(name, Val("(if %s then (%s) else %s)" % (c.coq, inner, env[name].coq), env[name].ty), env, cont)

    def s_For(self, s, env, cont, rest):
        it = s.iter
        if s.orelse or not (isinstance(it, ast.Call) and ast.unparse(it.func) == "enumerate" and len(it.args) == 1 and not it.keywords):
            raise Unsupported("loop over %s" % ast.unparse(it))
        src = self.expr(it.args[0], env)
        tg = s.target
        if src.ty != "LS" or not (isinstance(tg, ast.Tuple) and len(tg.elts) == 2 and all(isinstance(x, ast.Name) for x in tg.elts)):
            raise Unsupported("enumerate target %s over %s" % (ast.unparse(tg), src.ty))
        i, x = tg.elts[0].id, tg.elts[1].id
        # the accumulator: the one name bound outside that the body re-binds
        outer = set()
        for b in ast.walk(ast.Module(body=s.body, type_ignores=[])):
            if isinstance(b, ast.Assign):
                for t in b.targets:
                    if isinstance(t, ast.Subscript) and isinstance(t.value, ast.Name) and t.value.id in env:
                        outer.add(t.value.id)
                    elif isinstance(t, ast.Name) and t.id in env:
                        outer.add(t.id)
            elif isinstance(b, ast.AugAssign) and isinstance(b.target, ast.Name) and b.target.id in env:
                outer.add(b.target.id)
        if len(outer) != 1:
            raise Unsupported("loop must update exactly one outer name, found %r" % sorted(outer))
        acc = list(outer)[0]
        inner = dict(env)
        inner[i], inner[x] = Val(i, "N"), Val(x, "S")
        body = self.block(s.body, inner, lambda e2: e2[acc].coq)
        new = "(py_for_enumerate %s (fun %s %s %s =>\n    %s) %s)" % (src.coq, acc, i, x, body.replace("\n", "\n  "), env[acc].coq)
        return self._bind(acc, Val(new, env[acc].ty), env, cont)

    def s_Return(self, s, env, cont, rest):
        if rest or not isinstance(s.value, ast.Tuple) or len(s.value.elts) != 2:
            raise Unsupported("return form")
        a, b = self.expr(s.value.elts[0], env), self.expr(s.value.elts[1], env)
        if a.ty != "LN" or b.ty != "LN":
            raise Unsupported("return types %s, %s" % (a.ty, b.ty))
        return "(%s, %s)" % (a.coq, b.coq)


HEADER = """(* GENERATED by harness/pyast_sync.py from evo/core/sync.py (function matching_time_indices) - regenerated on every run, do not edit. *)
From Coq Require Import List Arith Bool ZArith.
From Evo Require Import Num NpDsl.
Import ListNotations.
Local Open Scope num_scope.
Local Open Scope bool_scope.

Section Gen.
Context {T : Type} {ops : NumOps T}.

"""
SIG = "Definition matching_time_indices_gen (stamps_1 stamps_2 : list T) (max_diff offset_2 : T) : list nat * list nat :="


def translate_sync(repo):
    rel = "evo/core/sync.py"
    tree = ast.parse(open(os.path.join(repo, rel)).read())
    fdefs = [n for n in tree.body if isinstance(n, ast.FunctionDef) and n.name == "matching_time_indices"]
    if len(fdefs) != 1:
        raise Unsupported("function matching_time_indices not found exactly once in %s" % rel)
    f = fdefs[0]
    names = [a.arg for a in f.args.args]
    if names != ["stamps_1", "stamps_2", "max_diff", "offset_2"] or f.args.vararg or f.args.kwarg or f.args.kwonlyargs:
        raise Unsupported("parameter list %r" % names)
    env = {"stamps_1": Val("stamps_1", "LS"), "stamps_2": Val("stamps_2", "LS"), "max_diff": Val("max_diff", "S"),
           "offset_2": Val("offset_2", "S")}

    def no_return(_env):
        raise Unsupported("function body does not end in a return")
    body = SyncTranslator().block(f.body, env, no_return)
    return HEADER + SIG + "\n  " + body + ".\nEnd Gen.\n"


def stub():
    return HEADER + SIG + " ([], []).  (* translation failed *)\nEnd Gen.\n"


if __name__ == "__main__":
    import sys
    print(translate_sync(sys.argv[1] if len(sys.argv) > 1 else "/repo"))
