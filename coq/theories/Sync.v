(* Sync.v - executable model of evo/core/sync.py (matching_time_indices, associate_trajectories).
   Generic over NumOps: run at F_ops (bit-exact against numpy: only +, -, abs, <=, <, argmin)
   and reasoned about at R_ops (SyncProofs.v). No proofs in this file. *)
From Coq Require Import List Arith Bool.
From Evo Require Import Num.
Import ListNotations.
Local Open Scope num_scope.

Section Model.
Context {T : Type} {ops : NumOps T}.

(* numpy.argmin: index of the first minimal element *)
Fixpoint argmin_aux (best : nat) (bv : T) (i : nat) (l : list T) : nat :=
  match l with
  | [] => best
  | x :: r => if x <?! bv then argmin_aux i x (S i) r else argmin_aux best bv (S i) r
  end.
Definition argmin (l : list T) : nat :=
  match l with [] => 0 | x :: r => argmin_aux 0 x 1 r end.

(* stamps_2 += offset_2 ; diffs = abs(stamps_2 - stamp_1) *)
Definition diffs (s2 : list T) (off s1 : T) : list T :=
  map (fun s => nabs ((s +! off) -! s1)) s2.

Definition cand (s2 : list T) (off maxd s1 : T) : option (nat * T) :=
  let d := diffs s2 off s1 in
  let j := argmin d in
  let dj := nth j d n0 in
  if dj <=?! maxd then Some (j, dj) else None.

(* best_matches : dict index_2 -> (diff, index_1) *)
Definition table := list (nat * (T * nat)).
Fixpoint lookup (j : nat) (b : table) : option (T * nat) :=
  match b with
  | [] => None
  | (k, v) :: r => if Nat.eqb k j then Some v else lookup j r
  end.
Fixpoint replace (j : nat) (v : T * nat) (b : table) : table :=
  match b with
  | [] => []
  | (k, w) :: r => if Nat.eqb k j then (k, v) :: r else (k, w) :: replace j v r
  end.
Definition upd (b : table) (i1 : nat) (c : option (nat * T)) : table :=
  match c with
  | None => b
  | Some (j, dj) =>
      match lookup j b with
      | None => b ++ [(j, (dj, i1))]
      | Some (d0, _) => if dj <?! d0 then replace j (dj, i1) b else b
      end
  end.
Fixpoint run (s2 : list T) (off maxd : T) (s1 : list T) (i1 : nat) (b : table) : table :=
  match s1 with
  | [] => b
  | x :: r => run s2 off maxd r (S i1) (upd b i1 (cand s2 off maxd x))
  end.

(* sorted((index_1, index_2) ...) - insertion sort on the first component *)
Fixpoint insert_pair (p : nat * nat) (l : list (nat * nat)) : list (nat * nat) :=
  match l with
  | [] => [p]
  | q :: r => if Nat.leb (fst p) (fst q) then p :: q :: r else q :: insert_pair p r
  end.
Fixpoint isort (l : list (nat * nat)) : list (nat * nat) :=
  match l with [] => [] | p :: r => insert_pair p (isort r) end.

Definition matching (s1 s2 : list T) (maxd off : T) : list (nat * nat) :=
  isort (map (fun e => (snd (snd e), fst e)) (run s2 off maxd s1 0 [])).

(* associate_trajectories on lists of (stamp, pose); A is any pose payload *)
Context {A : Type}.
Definition stamps (t : list (T * A)) : list T := map fst t.
Fixpoint reduce_to_ids (t : list (T * A)) (ids : list nat) : list (T * A) :=
  match ids with
  | [] => []
  | i :: r => match nth_error t i with
              | Some x => x :: reduce_to_ids t r
              | None => reduce_to_ids t r
              end
  end.

Definition associate (t1 t2 : list (T * A)) (maxd off : T)
  : option (list (T * A) * list (T * A)) :=
  let snd_longer := Nat.ltb (length t1) (length t2) in
  let tlong := if snd_longer then t2 else t1 in
  let tshort := if snd_longer then t1 else t2 in
  let m := matching (stamps tshort) (stamps tlong) maxd (if snd_longer then off else nopp off) in
  let rs := reduce_to_ids tshort (map fst m) in
  let rl := reduce_to_ids tlong (map snd m) in
  match m with
  | [] => None
  | _ => Some (if snd_longer then (rs, rl) else (rl, rs))
  end.

End Model.

(* Executable statement of the property (used to classify an implementation output that
   differs from the model): soundness w.r.t. the declarative statement is match_spec_b_sound. *)
Section Checker.
Context {T : Type} {ops : NumOps T}.
Definition dist (s1 s2 : list T) (off : T) (i j : nat) : T :=
  nabs ((nth j s2 n0 +! off) -! nth i s1 n0).
Definition pair_ok_b (s1 s2 : list T) (maxd off : T) (p : nat * nat) : bool :=
  Nat.ltb (fst p) (length s1) && Nat.ltb (snd p) (length s2) &&
  (dist s1 s2 off (fst p) (snd p) <=?! maxd) &&
  forallb (fun k => dist s1 s2 off (fst p) (snd p) <=?! dist s1 s2 off (fst p) k) (seq 0 (length s2)).
Fixpoint incr_b (l : list nat) : bool :=
  match l with
  | a :: ((b :: _) as r) => Nat.ltb a b && incr_b r
  | _ => true
  end.
Definition complete_b (s1 s2 : list T) (maxd off : T) (m : list (nat * nat)) : bool :=
  forallb (fun i => match cand s2 off maxd (nth i s1 n0) with
                    | None => true
                    | Some (j, _) => existsb (fun p => Nat.eqb (snd p) j) m
                    end) (seq 0 (length s1)).
Definition match_spec_b (s1 s2 : list T) (maxd off : T) (m : list (nat * nat)) : bool :=
  forallb (pair_ok_b s1 s2 maxd off) m && incr_b (map fst m) && incr_b (map snd m) &&
  complete_b s1 s2 maxd off m.
End Checker.

(* The pre-repair behaviour (finding F2), kept as a regression witness. *)
Section OldModel.
Context {T : Type} {ops : NumOps T}.
Fixpoint matching_old_aux (s2 : list T) (off maxd : T) (s1 : list T) (i1 : nat) : list (nat * nat) :=
  match s1 with
  | [] => []
  | x :: r => match cand s2 off maxd x with
              | Some (j, _) => (i1, j) :: matching_old_aux s2 off maxd r (S i1)
              | None => matching_old_aux s2 off maxd r (S i1)
              end
  end.
Definition matching_old (s1 s2 : list T) (maxd off : T) := matching_old_aux s2 off maxd s1 0.
End OldModel.
