(* Overwrite.v - executable model for C17 (no overwrite without confirmation).

   A writer function of evo (write_tum_trajectory_file, write_kitti_poses_file, save_res_file,
   save_df_as_table, PlotCollection.serialize / export, the generate branch of main_config.main) is
   abstracted - by harness/pyast_fx.py from the Python AST of the current source, fail-closed - to a
   statement of the small effect language below: conditions over the confirm_overwrite flag, calls of
   user.check_and_confirm_overwrite on a path variable, isinstance tests on it and opaque conditions;
   writes to a path variable through a known write primitive; return / raise; rebinding of a path
   variable; if / for.  This file gives the language a concrete semantics over a file system
   `path -> option bytes` with every unknown supplied by an oracle (the "for every environment" of the
   theorems) and defines the static checker [guarded_b].  Proofs are in OverwriteProofs.v. *)
From Coq Require Import List Arith Bool String.
Import ListNotations.
Open Scope string_scope.

(* ------------------------------------------------------------------------------------------ *)
(* user.confirm / user.check_and_confirm_overwrite as re-translated from evo/tools/user.py       *)
(* ------------------------------------------------------------------------------------------ *)
Inductive kexp := KParam | KLit (s : string).          (* the `key` parameter, or a literal *)
Inductive bexp :=
| BConst (b : bool)
| BInputCmp (ne : bool) (k : kexp)       (* input(msg) != k   (ne = true)   /   input(msg) == k *)
| BIsFile                                (* os.path.isfile(file_path) *)
| BConfirm (key : option string)         (* confirm(msg) / confirm(msg, key=...) *)
| BNot (b : bexp) | BAnd (a b : bexp) | BOr (a b : bexp).
Inductive ustmt :=
| UReturn (b : bexp)
| UIf (c : bexp) (t e : list ustmt).
Record ufun := { u_default_key : string; u_body : list ustmt }.

(* confirm's own body: (value, input() was called) *)
Fixpoint beval (isfile : bool) (key : string) (ans : string) (e : bexp) (asked : bool) : bool * bool :=
  match e with
  | BConst b => (b, asked)
  | BInputCmp ne k =>
      let kv := match k with KParam => key | KLit s => s end in
      (if ne then negb (String.eqb ans kv) else String.eqb ans kv, true)
  | BIsFile => (isfile, asked)
  | BConfirm _ => (false, asked)     (* confirm does not call itself *)
  | BNot b => let '(v, a) := beval isfile key ans b asked in (negb v, a)
  | BAnd x y => let '(v, a) := beval isfile key ans x asked in
                if v then beval isfile key ans y a else (false, a)
  | BOr x y => let '(v, a) := beval isfile key ans x asked in
               if v then (true, a) else beval isfile key ans y a
  end.

(* statements: first return wins; falling off the end returns None (= falsy) *)
Fixpoint urun (ev : bexp -> bool -> bool * bool) (l : list ustmt) (asked : bool) {struct l} : bool * bool :=
  match l with
  | [] => (false, asked)
  | UReturn b :: _ => ev b asked
  | UIf c t e :: r =>
      let '(v, a) := ev c asked in
      let branch := if v then t else e in
      (* a branch that does not return falls through to the rest *)
      (fix go (b : list ustmt) (asked : bool) : bool * bool :=
         match b with
         | [] => urun ev r asked
         | UReturn x :: _ => ev x asked
         | UIf _ _ _ :: _ => (false, asked)     (* nested if inside a branch: not needed, fail closed *)
         end) branch a
  end.

(* confirm(msg, key) with the answer ans: (result, input() was called) *)
Definition confirm_run (cf : ufun) (key : option string) (ans : string) : bool * bool :=
  let k := match key with Some s => s | None => u_default_key cf end in
  urun (fun e asked => beval false k ans e asked) (u_body cf) false.

(* check_and_confirm_overwrite(path) where BConfirm calls the translated confirm *)
Fixpoint beval_check (cf : ufun) (isfile : bool) (ans : string) (e : bexp) (asked : bool) : bool * bool :=
  match e with
  | BConst b => (b, asked)
  | BInputCmp _ _ => (false, true)
  | BIsFile => (isfile, asked)
  | BConfirm key => let '(v, a) := confirm_run cf key ans in (v, asked || a)
  | BNot b => let '(v, a) := beval_check cf isfile ans b asked in (negb v, a)
  | BAnd x y => let '(v, a) := beval_check cf isfile ans x asked in
                if v then beval_check cf isfile ans y a else (false, a)
  | BOr x y => let '(v, a) := beval_check cf isfile ans x asked in
               if v then (true, a) else beval_check cf isfile ans y a
  end.
Definition check_run (cf ck : ufun) (isfile : bool) (ans : string) : bool * bool :=
  urun (fun e asked => beval_check cf isfile ans e asked) (u_body ck) false.

(* what the writers' model assumes of user.check_and_confirm_overwrite: true iff the file does not exist
   or the answer is exactly "y"; prompts iff the file exists *)
Definition check_spec (isfile : bool) (ans : string) : bool * bool :=
  (negb isfile || String.eqb ans "y", isfile).

(* ------------------------------------------------------------------------------------------ *)
(* the effect language of writers                                                               *)
(* ------------------------------------------------------------------------------------------ *)
Definition path := nat.
Definition bytes := nat.
Definition fsys := path -> option bytes.

Inductive vkind := KStr | KPathObj.                     (* str or pathlib.Path *)
Inductive value := VPath (p : path) (k : vkind) | VHandle.

Inductive cond :=
| CFlag                                   (* the confirm_overwrite parameter *)
| CCheck (v : nat)                        (* user.check_and_confirm_overwrite(v) *)
| CIsInst (v : nat) (str pathobj : bool)  (* isinstance(v, ...): which of str / Path are listed *)
| COpaque (k : nat)                       (* anything else (no effect on files) *)
| CNot (c : cond) | CAnd (a b : cond) | COr (a b : cond).

Inductive stmt :=
| SSkip
| SWrite (v : nat)                         (* a known write primitive creates/truncates the file named by v *)
| SReturn | SRaise
| SAssign (v : nat)                        (* v is bound to a new value *)
| SSeq (a b : stmt)
| SIf (c : cond) (t e : stmt)
| SFor (body : stmt).

(* every unknown of an execution: the environment *)
Record oracle := { o_flag : bool;
                   o_bool : nat -> nat -> bool; (* opaque condition number i, at its k-th evaluation overall *)
                   o_answer : nat -> string;    (* answer to the k-th prompt *)
                   o_value : nat -> value;      (* value bound by the k-th assignment *)
                   o_iters : nat -> nat;        (* number of iterations of the k-th loop execution *)
                   o_bytes : nat -> bytes }.    (* content produced by the k-th write *)

Record state := { s_fs : fsys; s_rho : nat -> value;
                  s_prompts : list (path * string);     (* prompts issued: (file, answer), latest first *)
                  s_writes : list path;                 (* files written, latest first *)
                  s_cb : nat; s_ca : nat; s_cv : nat; s_ci : nat; s_cw : nat }.

Definition fs_set (f : fsys) (p : path) (b : bytes) : fsys := fun q => if Nat.eqb q p then Some b else f q.
Definition rho_set (r : nat -> value) (v : nat) (x : value) : nat -> value := fun w => if Nat.eqb w v then x else r w.

Definition is_some {A} (o : option A) : bool := match o with Some _ => true | None => false end.

Fixpoint eval_cond (o : oracle) (st : state) (c : cond) : bool * state :=
  match c with
  | CFlag => (o_flag o, st)
  | CCheck v =>
      match s_rho st v with
      | VHandle => (true, st)
      | VPath p _ =>
          if is_some (s_fs st p) then
            let ans := o_answer o (s_ca st) in
            (String.eqb ans "y",
             {| s_fs := s_fs st; s_rho := s_rho st; s_prompts := (p, ans) :: s_prompts st; s_writes := s_writes st;
                s_cb := s_cb st; s_ca := S (s_ca st); s_cv := s_cv st; s_ci := s_ci st; s_cw := s_cw st |})
          else (true, st)
      end
  | CIsInst v s p =>
      (match s_rho st v with VPath _ KStr => s | VPath _ KPathObj => p | VHandle => false end, st)
  | COpaque i =>
      (o_bool o i (s_cb st),
       {| s_fs := s_fs st; s_rho := s_rho st; s_prompts := s_prompts st; s_writes := s_writes st;
          s_cb := S (s_cb st); s_ca := s_ca st; s_cv := s_cv st; s_ci := s_ci st; s_cw := s_cw st |})
  | CNot a => let '(b, st') := eval_cond o st a in (negb b, st')
  | CAnd a b => let '(x, st') := eval_cond o st a in if x then eval_cond o st' b else (false, st')
  | COr a b => let '(x, st') := eval_cond o st a in if x then (true, st') else eval_cond o st' b
  end.

Inductive result := Normal (st : state) | Stopped (raised : bool) (st : state).
Definition final (r : result) : state := match r with Normal s | Stopped _ s => s end.

Fixpoint iterate (f : state -> result) (k : nat) (st : state) : result :=
  match k with
  | 0 => Normal st
  | S k' => match f st with Normal st' => iterate f k' st' | r => r end
  end.

Fixpoint exec (o : oracle) (s : stmt) (st : state) {struct s} : result :=
  match s with
  | SSkip => Normal st
  | SWrite v =>
      match s_rho st v with
      | VHandle => Normal st
      | VPath p _ =>
          Normal {| s_fs := fs_set (s_fs st) p (o_bytes o (s_cw st)); s_rho := s_rho st; s_prompts := s_prompts st;
                    s_writes := p :: s_writes st;
                    s_cb := s_cb st; s_ca := s_ca st; s_cv := s_cv st; s_ci := s_ci st; s_cw := S (s_cw st) |}
      end
  | SReturn => Stopped false st
  | SRaise => Stopped true st
  | SAssign v =>
      Normal {| s_fs := s_fs st; s_rho := rho_set (s_rho st) v (o_value o (s_cv st)); s_prompts := s_prompts st;
                s_writes := s_writes st;
                s_cb := s_cb st; s_ca := s_ca st; s_cv := S (s_cv st); s_ci := s_ci st; s_cw := s_cw st |}
  | SSeq a b => match exec o a st with Normal st' => exec o b st' | r => r end
  | SIf c t e => let '(b, st') := eval_cond o st c in if b then exec o t st' else exec o e st'
  | SFor body =>
      let n := o_iters o (s_ci st) in
      let st0 := {| s_fs := s_fs st; s_rho := s_rho st; s_prompts := s_prompts st; s_writes := s_writes st;
                    s_cb := s_cb st; s_ca := s_ca st; s_cv := s_cv st; s_ci := S (s_ci st); s_cw := s_cw st |} in
      iterate (exec o body) n st0
  end.

Definition init_state (f : fsys) (r : nat -> value) : state :=
  {| s_fs := f; s_rho := r; s_prompts := []; s_writes := []; s_cb := 0; s_ca := 0; s_cv := 0; s_ci := 0; s_cw := 0 |}.

(* ------------------------------------------------------------------------------------------ *)
(* the static checker                                                                           *)
(* ------------------------------------------------------------------------------------------ *)
(* facts that hold on the current control path: the flag is known false; the variables in a_clr are
   "cleared" (bound to a handle, or to a file that did not exist before the call or for which a prompt
   was answered "y") *)
Record astate := { a_noflag : bool; a_clr : list nat }.

Definition mem (v : nat) (l : list nat) : bool := existsb (Nat.eqb v) l.
Definition inter (a b : list nat) : list nat := filter (fun v => mem v b) a.
Definition subset (a b : list nat) : bool := forallb (fun v => mem v b) a.

(* a variable is allowed to be written when the flag is known false or the variable is cleared; a fact
   "v is cleared" is read as "the flag is false or v is cleared" so that joins keep it *)
Definition allowed (a : astate) (v : nat) : bool := a_noflag a || mem v (a_clr a).
Definition ajoin (x y : option astate) : option astate :=
  match x, y with
  | None, r | r, None => r
  | Some a, Some b =>
      Some {| a_noflag := a_noflag a && a_noflag b;
              a_clr := (if a_noflag a then a_clr b else []) ++ (if a_noflag b then a_clr a else [])
                       ++ inter (a_clr a) (a_clr b) |}
  end.
(* a has no fact that b lacks *)
Definition ale (a b : astate) : bool :=
  (negb (a_noflag a) || a_noflag b) && forallb (allowed b) (a_clr a).
Definition aclear (a : astate) (v : nat) : astate := {| a_noflag := a_noflag a; a_clr := v :: a_clr a |}.
Definition aforget (a : astate) (v : nat) : astate :=
  {| a_noflag := a_noflag a; a_clr := filter (fun w => negb (Nat.eqb w v)) (a_clr a) |}.
Definition obind (x : option astate) (f : astate -> option astate) : option astate :=
  match x with None => None | Some a => f a end.

(* facts after the condition evaluated to [want]; None = this outcome is impossible *)
Fixpoint assume (c : cond) (want : bool) (a : astate) : option astate :=
  match c with
  | CFlag => if want then (if a_noflag a then None else Some a)
             else Some {| a_noflag := true; a_clr := a_clr a |}
  | CCheck v => if want then Some (aclear a v) else Some a
  | CIsInst v s p => if want then Some a else (if s && p then Some (aclear a v) else Some a)
  | COpaque _ => Some a
  | CNot x => assume x (negb want) a
  | CAnd x y => if want then obind (assume x true a) (assume y true)
                else ajoin (assume x false a) (obind (assume x true a) (assume y false))
  | COr x y => if want then ajoin (assume x true a) (obind (assume x false a) (assume y true))
               else obind (assume x false a) (assume y false)
  end.

(* facts at a loop head: weaken until stable (None = rejected / no fixpoint within the fuel) *)
Fixpoint aloop (f : astate -> option (option astate)) (k : nat) (a : astate) : option (option astate) :=
  match f a with
  | None => None
  | Some None => Some (Some a)
  | Some (Some a') =>
      if ale a a' then Some (Some a)
      else match k with
           | 0 => None
           | S k' => match ajoin (Some a) (Some a') with Some j => aloop f k' j | None => None end
           end
  end.

(* None = the checker rejects; Some None = control does not fall through; Some (Some a) = facts at exit *)
Fixpoint aexec (fuel : nat) (s : stmt) (a : astate) {struct s} : option (option astate) :=
  match s with
  | SSkip => Some (Some a)
  | SWrite v => if allowed a v then Some (Some a) else None
  | SReturn | SRaise => Some None
  | SAssign v => Some (Some (aforget a v))
  | SSeq x y => match aexec fuel x a with
                | None => None
                | Some None => Some None
                | Some (Some a1) => aexec fuel y a1
                end
  | SIf c t e =>
      let rt := match assume c true a with None => Some None | Some at_ => aexec fuel t at_ end in
      let re := match assume c false a with None => Some None | Some ae => aexec fuel e ae end in
      match rt, re with
      | Some x, Some y => Some (ajoin x y)
      | _, _ => None
      end
  | SFor body =>
      aloop (aexec fuel body) fuel a
  end.

Definition a0 : astate := {| a_noflag := false; a_clr := [] |}.
Definition guarded_b (s : stmt) : bool := is_some (aexec 8 s a0).

(* ------------------------------------------------------------------------------------------ *)
(* executable prediction used by the correspondence run                                         *)
(* ------------------------------------------------------------------------------------------ *)
Definition nth_or {A} (l : list A) (d : A) (k : nat) : A := nth k l d.
Definition mk_oracle (flag : bool) (bools : list bool) (answers : list string) (values : list value)
           (iters : list nat) : oracle :=
  {| o_flag := flag; o_bool := fun i _ => nth_or bools false i; o_answer := nth_or answers "";
     o_value := nth_or values VHandle; o_iters := nth_or iters 0; o_bytes := fun k => S k |}.
Definition fs_of (existing : list path) : fsys := fun p => if mem p existing then Some 0 else None.

(* (prompts in order: (file, answer); files written in order; files whose content differs afterwards) *)
Definition predict (s : stmt) (flag : bool) (bools : list bool) (answers : list string) (v0 : value)
           (values : list value) (iters : list nat) (existing : list path) (universe : list path)
  : list (path * string) * list path * list path :=
  let f0 := fs_of existing in
  let st := final (exec (mk_oracle flag bools answers values iters) s (init_state f0 (fun _ => v0))) in
  (rev (s_prompts st), rev (s_writes st),
   filter (fun p => negb (match s_fs st p, f0 p with
                          | Some a, Some b => Nat.eqb a b | None, None => true | _, _ => false end)) universe).

(* ------------------------------------------------------------------------------------------ *)
(* call sites in the command-line modules                                                       *)
(* ------------------------------------------------------------------------------------------ *)
Inductive carg := ArgNotNoWarnings      (* confirm_overwrite = not args.no_warnings *)
                | ArgDefault            (* keyword not passed *)
                | ArgOther (src : string).
Record call_site := { cs_module : string; cs_line : nat; cs_callee : string; cs_arg : carg }.
Definition site_ok (c : call_site) : bool := match cs_arg c with ArgNotNoWarnings => true | _ => false end.

Definition expected_writers : list string :=
  ["write_tum_trajectory_file"; "write_kitti_poses_file"; "save_res_file"; "save_df_as_table";
   "PlotCollection.serialize"; "PlotCollection.export"; "main_config.generate"].
Definition expected_cli_modules : list string :=
  ["main_ape"; "main_rpe"; "main_traj"; "main_res"; "common_ape_rpe"].
Fixpoint list_string_eqb (a b : list string) : bool :=
  match a, b with
  | [], [] => true
  | x :: r, y :: s => String.eqb x y && list_string_eqb r s
  | _, _ => false
  end.

(* ------------------------------------------------------------------------------------------ *)
(* "and in those cases the write happens": bounded enumeration for the single-file writers       *)
(* ------------------------------------------------------------------------------------------ *)
Fixpoint tapes (n : nat) : list (list bool) :=
  match n with 0 => [[]] | S k => flat_map (fun t => [true :: t; false :: t]) (tapes k) end.

Definition live_answers : list string := ["y"; "n"; ""; "Y"; "yes"; " y"; "y "].

(* one environment: the argument names file 0 (as str or Path), which exists or not; one answer;
   the opaque conditions follow the tape.  Unless the writer raises (invalid input), file 0 is written
   iff confirm_overwrite is false, or the file does not exist, or the answer is exactly "y" *)
Definition live_case (s : stmt) (flag ex : bool) (ans : string) (k : vkind) (tape : list bool) : bool :=
  let f0 := fs_of (if ex then [0] else []) in
  let r := exec (mk_oracle flag tape [ans] [] []) s (init_state f0 (fun _ => VPath 0 k)) in
  match r with
  | Stopped true _ => true
  | _ => Bool.eqb (mem 0 (s_writes (final r))) (negb flag || negb ex || String.eqb ans "y")
  end.

Definition live_b (n : nat) (s : stmt) : bool :=
  forallb (fun flag => forallb (fun ex => forallb (fun ans => forallb (fun k => forallb (fun tape =>
    live_case s flag ex ans k tape) (tapes n)) [KStr; KPathObj]) live_answers) [true; false]) [true; false].

Definition single_file_writers : list string :=
  ["write_tum_trajectory_file"; "write_kitti_poses_file"; "save_res_file"; "save_df_as_table";
   "PlotCollection.serialize"].
Definition is_single_file (name : string) : bool := existsb (String.eqb name) single_file_writers.

(* the flag a command-line call site passes, as a function of --no_warnings *)
Definition cli_flag (c : call_site) (no_warnings : bool) : option bool :=
  match cs_arg c with ArgNotNoWarnings => Some (negb no_warnings) | _ => None end.
Definition covers_modules (cs : list call_site) : bool :=
  forallb (fun m => existsb (fun c => String.eqb (cs_module c) m) cs) expected_cli_modules.
