(* FiltersCheck.v - executable checkers for the two clauses of C10 that do not fix the output completely
   (consecutive chains: any start "no later than the first pose reaching delta"; all-pairs path search:
   any closest pose), with soundness proofs over R. They classify an implementation output that differs
   from the model: rejected => the property text is violated on that input; accepted => only the
   correspondence is broken. Run at F_ops with the same evaluation order as the code. *)
From Coq Require Import Reals Lra Lia List Arith Bool Sorted.
From Evo Require Import Num Linalg Filters FiltersProofs.
Import ListNotations.

Section Checkers.
Context {T : Type} {ops : NumOps T}.
Local Open Scope num_scope.

Fixpoint incr_nat_b (l : list nat) : bool :=
  match l with a :: ((b :: _) as r) => Nat.ltb a b && incr_nat_b r | _ => true end.

(* what is accumulated from pose a to pose b, added up in the order the code adds it (from 0) *)
Definition trav (s : list T) (a b : nat) : T := fold_left nadd (firstn (b - a) (skipn (S a) s)) n0.

(* ids = the chain of poses (first element of the first pair, then every second element) *)
Definition chain_of_pairs (P : list (nat * nat)) : list nat :=
  match P with [] => [] | (a, _) :: _ => a :: map snd P end.
Fixpoint links_b (P : list (nat * nat)) : bool :=
  match P with p :: ((q :: _) as r) => Nat.eqb (fst q) (snd p) && links_b r | _ => true end.

Definition chain_text_b (delta : T) (s : list T) (must_start_at_0 : bool) (P : list (nat * nat)) : bool :=
  let n := length s in
  links_b P &&
  forallb (fun p => Nat.ltb (fst p) (snd p) && Nat.ltb (snd p) n &&
                    (delta <=?! trav s (fst p) (snd p)) &&
                    forallb (fun m => trav s (fst p) m <?! delta) (seq (S (fst p)) (snd p - S (fst p)))) P &&
  match P with
  | [] => true
  | (a0, _) :: _ =>
      (if must_start_at_0 then Nat.eqb a0 0 else forallb (fun m => trav s 0 m <?! delta) (seq 0 a0)) &&
      let z := snd (last P (0, 0)%nat) in
      forallb (fun m => trav s z m <?! delta) (seq (S z) (n - S z))
  end.

Definition missT (D : list T) (delta : T) (i k : nat) : T := nabs ((nth k D n0 -! nth i D n0) -! delta).
Definition path_all_text_b (D : list T) (delta tol : T) (P : list (nat * nat)) : bool :=
  let n := length D in
  forallb (fun p => Nat.ltb (fst p) (snd p) && Nat.ltb (snd p) n &&
                    (missT D delta (fst p) (snd p) <=?! tol) &&
                    forallb (fun k => missT D delta (fst p) (snd p) <=?! missT D delta (fst p) k)
                            (seq (S (fst p)) (n - S (fst p)))) P &&
  incr_nat_b (map fst P) &&
  forallb (fun i => negb (existsb (fun k => missT D delta i k <=?! tol) (seq (S i) (n - S i))) ||
                    existsb (fun p => Nat.eqb (fst p) i) P) (seq 0 n).
End Checkers.

(* ====================================================================================== *)
(* soundness over R                                                                       *)
(* ====================================================================================== *)
Local Open Scope R_scope.

Lemma fold_left_add (l : list R) : forall acc, fold_left Rplus l acc = acc + sumR l.
Proof. induction l as [|x r IH]; intros acc; cbn; [lra|rewrite IH; lra]. Qed.
Lemma trav_travelled (s : list R) a b : trav s a b = travelled s a b.
Proof. unfold trav, travelled. rnum. rewrite fold_left_add. lra. Qed.

Lemma incr_nat_b_sorted l : incr_nat_b l = true -> StronglySorted lt l.
Proof.
  induction l as [|a r IH]; [constructor|]. destruct r as [|b r']; [repeat constructor|].
  change (incr_nat_b (a :: b :: r')) with (Nat.ltb a b && incr_nat_b (b :: r')). intros H.
  apply andb_prop in H. destruct H as [H1 H2]. apply Nat.ltb_lt in H1. specialize (IH H2).
  constructor; [exact IH|]. inversion IH as [|? ? S F]; subst. constructor; [exact H1|].
  eapply Forall_impl; [|exact F]. cbn. intros; lia.
Qed.

(* the textual chain clause of C10 for a pair list P over the step list s *)
Record chain_text (delta : R) (s : list R) (must_start_at_0 : bool) (P : list (nat * nat)) : Prop := {
  ct_links : forall k p q, nth_error P k = Some p -> nth_error P (S k) = Some q -> fst q = snd p;
  ct_pairs : forall a b, In (a, b) P -> (a < b < length s)%nat /\ delta <= travelled s a b /\
                                        forall m, (a < m < b)%nat -> travelled s a m < delta;
  ct_start : forall a0 b0 r, P = (a0, b0) :: r ->
               if must_start_at_0 then a0 = 0%nat else forall m, (m < a0)%nat -> travelled s 0 m < delta;
  ct_maximal : P <> [] -> forall m, (snd (last P (0, 0)%nat) < m < length s)%nat ->
               travelled s (snd (last P (0, 0)%nat)) m < delta }.

Lemma links_b_sound (P : list (nat * nat)) : links_b P = true ->
  forall k p q, nth_error P k = Some p -> nth_error P (S k) = Some q -> fst q = snd p.
Proof.
  induction P as [|x r IH]; intros H k p q Hp Hq; [destruct k; discriminate|].
  destruct r as [|y r']; [destruct k; cbn in Hq; [discriminate|destruct k; discriminate]|].
  change (links_b (x :: y :: r')) with (Nat.eqb (fst y) (snd x) && links_b (y :: r')) in H.
  apply andb_prop in H. destruct H as [H1 H2]. apply Nat.eqb_eq in H1. destruct k as [|k].
  - cbn in Hp, Hq. injection Hp as <-. injection Hq as <-. exact H1.
  - cbn in Hp. apply (IH H2 k p q Hp). exact Hq.
Qed.

Theorem chain_text_b_sound (delta : R) (s : list R) (z0 : bool) (P : list (nat * nat)) :
  chain_text_b delta s z0 P = true -> chain_text delta s z0 P.
Proof.
  unfold chain_text_b. intros H. apply andb_prop in H. destruct H as [H H3]. apply andb_prop in H. destruct H as [H1 H2].
  constructor.
  - apply links_b_sound. exact H1.
  - intros a b I. rewrite forallb_forall in H2. specialize (H2 _ I). cbn [fst snd] in H2.
    apply andb_prop in H2. destruct H2 as [H2 Hm]. apply andb_prop in H2. destruct H2 as [H2 Hd].
    apply andb_prop in H2. destruct H2 as [Ha Hb]. apply Nat.ltb_lt in Ha, Hb. rnum.
    apply Rleb_true in Hd. rewrite trav_travelled in Hd. split; [lia|]. split; [exact Hd|].
    intros m Hm'. rewrite forallb_forall in Hm. specialize (Hm m ltac:(apply in_seq; lia)).
    apply Rltb_true in Hm. now rewrite trav_travelled in Hm.
  - intros a0 b0 r E. subst P. apply andb_prop in H3. destruct H3 as [H3 _]. destruct z0.
    + now apply Nat.eqb_eq.
    + intros m Hm. rewrite forallb_forall in H3. specialize (H3 m ltac:(apply in_seq; lia)). rnum.
      apply Rltb_true in H3. now rewrite trav_travelled in H3.
  - intros N m Hm. destruct P as [|[a0 b0] r]; [congruence|]. apply andb_prop in H3. destruct H3 as [_ H3].
    cbn zeta in H3. rewrite forallb_forall in H3. specialize (H3 m ltac:(apply in_seq; lia)). rnum.
    apply Rltb_true in H3. now rewrite trav_travelled in H3.
Qed.

(* the model's chains pass the textual clause (so the clause is satisfiable and the checker is not vacuous) *)
Lemma zip_next_last_snd (d : nat) (l : list nat) : zip_next l <> [] ->
  snd (last (zip_next l) (d, d)) = last l d.
Proof. intros H. apply (zip_next_hd d l H). Qed.

Theorem model_chain_meets_text (delta : R) (s : list R) (ids : list nat) (z0 : bool) :
  chain_spec delta s 0 ids ->
  (match ids with
   | [] => True
   | a0 :: _ => if z0 then a0 = 0%nat else forall m, (m < a0)%nat -> travelled s 0 m < delta
   end) ->
  chain_text delta s z0 (zip_next ids).
Proof.
  intros C St. constructor.
  - apply zip_next_chain.
  - intros a b I. split; [eapply chain_pairs_in_range; eassumption|]. apply (cs_pairs _ _ _ _ C). exact I.
  - intros a0 b0 r E. destruct ids as [|x t]; [discriminate|]. rewrite zip_next_cons in E.
    destruct t as [|y t']; [discriminate|]. injection E as <- _ _. exact St.
  - intros N m Hm. rewrite (zip_next_last_snd 0%nat) in * by exact N.
    apply (cs_maximal _ _ _ _ C); [|exact Hm]. intros E. subst ids. now apply N.
Qed.

(* the textual all-pairs clause: within tolerance, a closest pose, each start once, complete *)
Record path_all_text (D : list R) (delta tol : R) (P : list (nat * nat)) : Prop := {
  pt_sound : forall i j, In (i, j) P -> (i < j < length D)%nat /\ miss D delta i j <= tol /\
               forall k, (i < k < length D)%nat -> miss D delta i j <= miss D delta i k;
  pt_once : StronglySorted lt (map fst P);
  pt_complete : forall i k, (i < k < length D)%nat -> miss D delta i k <= tol -> exists j, In (i, j) P }.

Theorem path_all_text_b_sound (D : list R) (delta tol : R) (P : list (nat * nat)) :
  path_all_text_b D delta tol P = true -> path_all_text D delta tol P.
Proof.
  unfold path_all_text_b. intros H. apply andb_prop in H. destruct H as [H H3]. apply andb_prop in H. destruct H as [H1 H2].
  constructor.
  - intros i j I. rewrite forallb_forall in H1. specialize (H1 _ I). cbn [fst snd] in H1.
    apply andb_prop in H1. destruct H1 as [H1 Hm]. apply andb_prop in H1. destruct H1 as [H1 Hd].
    apply andb_prop in H1. destruct H1 as [Ha Hb]. apply Nat.ltb_lt in Ha, Hb.
    unfold missT in *. rnum. apply Rleb_true in Hd. split; [lia|]. split; [exact Hd|].
    intros k Hk. rewrite forallb_forall in Hm. specialize (Hm k ltac:(apply in_seq; lia)). now apply Rleb_true in Hm.
  - apply incr_nat_b_sorted. exact H2.
  - intros i k Hk Hm. rewrite forallb_forall in H3. specialize (H3 i ltac:(apply in_seq; lia)).
    apply orb_prop in H3. destruct H3 as [H3|H3].
    + apply negb_true_iff in H3. exfalso.
      assert (E : existsb (fun k0 => nleb (missT D delta i k0) tol) (seq (S i) (length D - S i)) = true).
      { apply existsb_exists. exists k. split; [apply in_seq; lia|]. unfold missT. rnum. now apply Rleb_true. }
      congruence.
    + apply existsb_exists in H3. destruct H3 as ([i' j] & I & E). cbn in E. apply Nat.eqb_eq in E. subst i'.
      now exists j.
Qed.

Theorem model_path_all_meets_text (ps : list (V3 R)) (delta tol : R) :
  path_all_text (acc_dists ps) delta tol (pairs_by_path ps delta tol true).
Proof.
  destruct (path_all_pairs_spec ps delta tol) as [A B C]. constructor; [|exact B|exact C].
  intros i j I. destruct (A i j I) as (H1 & H2 & H3 & _). repeat split; try assumption; lia.
Qed.

(* ---------------- statements assembled for the property file ---------------- *)
Lemma chain_text_b_sound_flat (delta : R) (s : list R) (z0 : bool) (P : list (nat * nat)) :
  chain_text_b delta s z0 P = true ->
  (forall k p q, nth_error P k = Some p -> nth_error P (S k) = Some q -> fst q = snd p) /\
  (forall a b, In (a, b) P -> (a < b < length s)%nat /\ delta <= travelled s a b /\
                              forall m, (a < m < b)%nat -> travelled s a m < delta) /\
  (forall a0 b0 r, P = (a0, b0) :: r ->
     if z0 then a0 = 0%nat else forall m, (m < a0)%nat -> travelled s 0 m < delta) /\
  (P <> [] -> forall m, (snd (last P (0, 0)%nat) < m < length s)%nat -> travelled s (snd (last P (0, 0)%nat)) m < delta).
Proof. intros H. destruct (chain_text_b_sound _ _ _ _ H) as [A B C D]. split; [exact A|]. split; [exact B|]. split; [exact C|exact D]. Qed.

Lemma path_all_text_b_sound_flat (D : list R) (delta tol : R) (P : list (nat * nat)) :
  path_all_text_b D delta tol P = true ->
  (forall i j, In (i, j) P -> (i < j < length D)%nat /\ miss D delta i j <= tol /\
       forall k, (i < k < length D)%nat -> miss D delta i j <= miss D delta i k) /\
  StronglySorted lt (map fst P) /\
  (forall i k, (i < k < length D)%nat -> miss D delta i k <= tol -> exists j, In (i, j) P).
Proof. intros H. destruct (path_all_text_b_sound _ _ _ _ H) as [A B C]. split; [exact A|split; [exact B|exact C]]. Qed.

Theorem model_meets_text :
  (forall (ps : list (V3 R)) (delta tol : R),
     chain_text delta (consec_steps ps) false (pairs_by_path ps delta tol false)) /\
  (forall (das : list R) (delta : R), chain_text delta (0 :: das) true (angle_chain delta 0 0 0 das)) /\
  (forall (ps : list (V3 R)) (delta tol : R),
     path_all_text (acc_dists ps) delta tol (pairs_by_path ps delta tol true)).
Proof.
  split; [|split].
  - intros ps delta tol. destruct (path_consecutive_chain ps delta tol) as (Eq & Cs & Fi). rewrite Eq.
    apply model_chain_meets_text; [exact Cs|]. destruct (chain_ids delta 0 0 (consec_steps ps)); [exact I|apply Fi].
  - intros das delta. destruct (angle_consecutive_chain das delta) as [Eq Cs]. rewrite Eq.
    apply model_chain_meets_text; [exact Cs|reflexivity].
  - apply model_path_all_meets_text.
Qed.
