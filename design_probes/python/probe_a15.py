import os, sys, itertools, json, copy, random
os.chdir("/tmp/scratch/w15")
import numpy as np
from evo import main_traj, main_traj_parser
from evo.core import lie_algebra as lie, sync, trajectory
from evo.core.trajectory import PoseTrajectory3D, Plane
from evo.tools import file_interface as fi
from scipy.spatial.transform import Rotation
rng=np.random.default_rng(8); random.seed(8)
def rnd_traj(n,t0=100.0):
    p=np.zeros(3); poses=[]
    for i in range(n):
        p=p+rng.normal(size=3)*0.5
        poses.append(lie.se3(Rotation.random(random_state=int(rng.integers(1<<30))).as_matrix(),p.copy()))
    ts=t0+np.arange(n)*0.1+rng.random(n)*0.004
    return PoseTrajectory3D(poses_se3=poses,timestamps=ts)
ref=rnd_traj(40); A=rnd_traj(40); B=rnd_traj(35,100.05)
fi.write_tum_trajectory_file("ref.txt",ref); fi.write_tum_trajectory_file("a.txt",A); fi.write_tum_trajectory_file("b.txt",B)
Tse3=lie.se3(Rotation.random(random_state=5).as_matrix(),np.array([1.,-2,0.5])); np.save("tse3.npy",Tse3)
Tsim=lie.sim3(Rotation.random(random_state=6).as_matrix(),np.array([0.5,2,-1.]),1.0); np.savetxt("tsim.txt",Tsim)
parser=main_traj_parser.parser()
def reference(opts):
    trs={"a.txt":fi.read_tum_trajectory_file("a.txt"),"b.txt":fi.read_tum_trajectory_file("b.txt")}
    r=fi.read_tum_trajectory_file("ref.txt") if opts.get("ref") else None
    if opts.get("downsample"):
        for t in trs.values(): t.downsample(opts["downsample"])
        if r: r.downsample(opts["downsample"])
    if opts.get("motion_filter"):
        for t in trs.values(): t.motion_filter(*opts["motion_filter"],True)
        if r: r.motion_filter(*opts["motion_filter"],True)
    if opts.get("merge"): trs={"merged_trajectory":trajectory.merge(list(trs.values()))}
    if opts.get("t_offset"):
        for t in trs.values(): t.timestamps=t.timestamps+opts["t_offset"]
    if opts.get("sync") or opts.get("align") or opts.get("correct_scale") or opts.get("align_origin"):
        for k in list(trs):
            rr,tt=sync.associate_trajectories(r,trs[k],opts.get("t_max_diff",0.01))
            if opts.get("align") or opts.get("correct_scale"):
                tt.align(rr,correct_scale=bool(opts.get("correct_scale")),correct_only_scale=bool(opts.get("correct_scale")) and not opts.get("align"),n=opts.get("n_to_align",-1))
            if opts.get("align_origin"): tt.align_origin(rr)
            trs[k]=tt
    if opts.get("tf"):
        T=fi.load_transform(opts["tf"])
        if opts.get("invert"): T=np.linalg.inv(T)
        for t in trs.values(): t.transform(T,right_mul=opts.get("side")=="right",propagate=bool(opts.get("propagate")))
    if opts.get("project"):
        for t in trs.values(): t.project(Plane(opts["project"]))
        if r: r.project(Plane(opts["project"]))
    return trs,r
def to_args(o):
    a=["tum","a.txt","b.txt","--save_as_tum","--no_warnings","--silent"]
    if o.get("ref"): a+=["--ref","ref.txt"]
    if o.get("downsample"): a+=["--downsample",str(o["downsample"])]
    if o.get("motion_filter"): a+=["--motion_filter",str(o["motion_filter"][0]),str(o["motion_filter"][1])]
    if o.get("merge"): a+=["--merge"]
    if o.get("t_offset"): a+=["--t_offset",str(o["t_offset"])]
    if o.get("sync"): a+=["--sync"]
    if o.get("align"): a+=["--align"]
    if o.get("correct_scale"): a+=["--correct_scale"]
    if o.get("align_origin"): a+=["--align_origin"]
    if o.get("n_to_align"): a+=["--n_to_align",str(o["n_to_align"])]
    if o.get("t_max_diff"): a+=["--t_max_diff",str(o["t_max_diff"])]
    if o.get("tf"): a+=["--transform_"+o["side"],o["tf"]]
    if o.get("invert"): a+=["--invert_transform"]
    if o.get("propagate"): a+=["--propagate_transform"]
    if o.get("project"): a+=["--project_to_plane",o["project"]]
    return a
nbad=0;nrun=0
for it in range(250):
    o={}
    if random.random()<0.7: o["ref"]=True
    if random.random()<0.3: o["downsample"]=random.choice([5,17,100])
    if random.random()<0.3: o["motion_filter"]=(random.choice([0.0,0.5,2.0]),random.choice([5.0,200.0]))
    if random.random()<0.3: o["merge"]=True
    if random.random()<0.3: o["t_offset"]=random.choice([0.02,-0.03])
    if o.get("ref"):
        c=random.random()
        if c<0.2: o["sync"]=True
        elif c<0.4: o["align"]=True
        elif c<0.5: o["align_origin"]=True
        if random.random()<0.3: o["correct_scale"]=True
        if (o.get("align") or o.get("correct_scale")) and random.random()<0.3: o["n_to_align"]=random.choice([5,10])
        o["t_max_diff"]=random.choice([0.01,0.06])
    if random.random()<0.5:
        o["tf"]=random.choice(["tse3.npy","tsim.txt"]); o["side"]=random.choice(["left","right"])
        if random.random()<0.5: o["invert"]=True
        if o["side"]=="right" and random.random()<0.4: o["propagate"]=True
    if random.random()<0.3: o["project"]=random.choice(["xy","xz","yz"])
    for f in os.listdir("."):
        if f.endswith(".tum"): os.remove(f)
    try: exp,rexp=reference(o); eexc=None
    except Exception as e: eexc=type(e).__name__
    try: main_traj.run(parser.parse_args(to_args(o))); gexc=None
    except SystemExit: gexc="SystemExit"
    except Exception as e: gexc=type(e).__name__
    nrun+=1
    if eexc or gexc:
        if bool(eexc)!=bool(gexc): nbad+=1; print("EXC MISMATCH",o,eexc,gexc)
        continue
    for k,t in exp.items():
        name=("merged_trajectory" if k=="merged_trajectory" else k[:-4])+".tum"
        g=fi.read_tum_trajectory_file(name)
        if g.num_poses!=t.num_poses or not (np.allclose(g.timestamps,t.timestamps,rtol=0,atol=1e-9) and np.allclose(g.positions_xyz,t.positions_xyz,atol=1e-8)):
            nbad+=1; print("MISMATCH",o,k,g.num_poses,t.num_poses); break
    if rexp is not None:
        g=fi.read_tum_trajectory_file("ref.tum")
        if g.num_poses!=rexp.num_poses or not np.allclose(g.positions_xyz,rexp.positions_xyz,atol=1e-8): nbad+=1; print("REF MISMATCH",o)
print("runs",nrun,"bad",nbad)
