"""Shared machinery of the evo verification harness (see DESIGN.md section 2).

- Coq side: build of the hand-written theories, compilation of the per-property theorem file
  with parsing of its `Print Assumptions` output, generation + parallel evaluation of case files
  (`Eval vm_compute`) and a reader for Coq's printed values.
- Python side: evidence / replay / known-findings handling and the generic check driver.
"""
import contextlib
import fcntl
import hashlib
import json
import math
import os
import random
import re
import shutil
import subprocess
import sys
import tempfile
import time
import traceback

VERIF = os.path.dirname(os.path.dirname(os.path.abspath(__file__)))
REPO = os.environ.get("EVO_REPO", "/repo")
COQ = os.path.join(VERIF, "coq")
BUILD = os.path.join(VERIF, "build")
EVIDENCE = os.path.join(VERIF, "evidence")
REPLAYS = os.path.join(VERIF, "replays")
KNOWN_FINDINGS = os.path.join(VERIF, "known_findings.json")
COQ_FLAGS = ["-Q", os.path.join(COQ, "theories"), "Evo",
             "-Q", os.path.join(COQ, "generated"), "EvoGen",
             "-Q", os.path.join(COQ, "properties"), "EvoProp"]
NPROC = min(16, os.cpu_count() or 4)

ALLOWED_AXIOMS = {
    "ClassicalDedekindReals.sig_not_dec",
    "ClassicalDedekindReals.sig_forall_dec",
    "FunctionalExtensionality.functional_extensionality_dep",
    "Classical_Prop.classic",
}
# primitive declarations that Print Assumptions lists but that are not axioms of ours
PRIMITIVE_PREFIXES = ("PrimFloat.", "Uint63.", "PrimInt63.", "FloatOps.", "FloatAxioms.",
                      "Uint63Axioms.", "PrimString.", "Sint63.")


class HarnessError(Exception):
    """Infrastructure failure (exit code 2) - never a verdict."""


# ----------------------------------------------------------------------------------------------
# numbers <-> Coq literals
# ----------------------------------------------------------------------------------------------
def cf(x):
    """Python float -> Coq PrimFloat literal (exact, hexadecimal)."""
    x = float(x)
    if math.isnan(x):
        return "nan"
    if math.isinf(x):
        return "infinity" if x > 0 else "neg_infinity"
    h = x.hex()
    return "(%s)" % h if h.startswith("-") else h


def cflist(xs):
    return "[" + "; ".join(cf(x) for x in xs) + "]"


def cnat(n):
    return "%d%%nat" % int(n)


def cnatlist(ns):
    return "[" + "; ".join(cnat(n) for n in ns) + "]"


def cz(n):
    n = int(n)
    return "(%d)%%Z" % n


def cbool(b):
    return "true" if b else "false"


def cstr(s):
    return '"' + s.replace('"', '""') + '"%string'


def cpairs_nat(ps):
    return "[" + "; ".join("(%s, %s)" % (cnat(a), cnat(b)) for a, b in ps) + "]"


def hexf(x):
    return float(x).hex()


def unhex(s):
    return float.fromhex(s) if isinstance(s, str) else float(s)


# ----------------------------------------------------------------------------------------------
# reader for Coq's printed values
# ----------------------------------------------------------------------------------------------
_TOK = re.compile(r'''\s*(?:
    (?P<str>"(?:[^"]|"")*")
  | (?P<num>-?(?:0x[0-9a-fA-F.]+p[-+]?\d+|\d+\.?\d*(?:[eE][-+]?\d+)?))
  | (?P<id>[A-Za-z_][A-Za-z_0-9.']*)
  | (?P<p>\[|\]|\(|\)|;|,|\{\||\|\}|:=)
  | (?P<scope>%[A-Za-z_]+)
)''', re.X)


def _tokenize(s):
    pos, out = 0, []
    while pos < len(s):
        if s[pos:].strip() == "":
            break
        m = _TOK.match(s, pos)
        if not m:
            raise HarnessError("cannot tokenize Coq output at: %r" % s[pos:pos + 60])
        pos = m.end()
        if m.group("scope"):
            continue
        for k in ("str", "num", "id", "p"):
            if m.group(k) is not None:
                out.append((k, m.group(k)))
                break
    return out


def _num(tok):
    if tok == "-0":
        return -0.0
    if tok.lower().startswith(("0x", "-0x")):
        return float.fromhex(tok)
    if re.fullmatch(r"-?\d+", tok):
        return int(tok)
    return float(tok)


class _P:
    def __init__(self, toks):
        self.t, self.i = toks, 0

    def peek(self):
        return self.t[self.i] if self.i < len(self.t) else (None, None)

    def eat(self, v=None):
        k, x = self.peek()
        if v is not None and x != v:
            raise HarnessError("Coq output: expected %r, got %r" % (v, x))
        self.i += 1
        return k, x

    def atom(self):
        k, x = self.peek()
        if k == "num":
            self.eat()
            return _num(x)
        if k == "str":
            self.eat()
            return x[1:-1].replace('""', '"')
        if x == "[":
            self.eat()
            items = []
            if self.peek()[1] == "]":
                self.eat()
                return items
            while True:
                items.append(self.term())
                if self.peek()[1] == ";":
                    self.eat()
                    continue
                self.eat("]")
                return items
        if x == "(":
            self.eat()
            if self.peek() == ("p", ")"):
                self.eat()
                return ()
            items = [self.term()]
            while self.peek()[1] == ",":
                self.eat()
                items.append(self.term())
            self.eat(")")
            return items[0] if len(items) == 1 else tuple(items)
        if k == "id":
            self.eat()
            if x == "true":
                return True
            if x == "false":
                return False
            if x == "None":
                return None
            if x == "nan":
                return float("nan")
            if x == "infinity":
                return float("inf")
            if x == "neg_infinity":
                return float("-inf")
            if x == "tt":
                return ()
            return ("@", x)
        raise HarnessError("Coq output: unexpected token %r" % (x,))

    def term(self):
        k, x = self.peek()
        if x == "-":
            self.eat()
            return -self.atom()
        head = self.atom()
        if isinstance(head, tuple) and len(head) == 2 and head[0] == "@":
            args = []
            while True:
                k, x = self.peek()
                if k in ("num", "str", "id") or x in ("[", "("):
                    args.append(self.atom())
                else:
                    break
            name = head[1]
            args = [a[1] if (isinstance(a, tuple) and len(a) == 2 and a[0] == "@") else a for a in args]
            if not args:
                return name
            return (name,) + tuple(args)
        return head


def parse_coq_value(s):
    p = _P(_tokenize(s))
    v = p.term()
    if p.i != len(p.t):
        raise HarnessError("Coq output: trailing tokens in %r" % s[:200])
    return v


def parse_eval_output(out):
    """Split coqc stdout into the values of successive `Eval` commands."""
    vals = []
    for chunk in re.split(r"(?m)^     = ", out)[1:]:
        body = re.split(r"(?m)^     : ", chunk)[0]
        vals.append(parse_coq_value(body.replace("\n", " ")))
    return vals


# ----------------------------------------------------------------------------------------------
# Coq build and evaluation
# ----------------------------------------------------------------------------------------------
@contextlib.contextmanager
def _lock(name):
    os.makedirs(BUILD, exist_ok=True)
    with open(os.path.join(BUILD, name + ".lock"), "w") as f:
        fcntl.flock(f, fcntl.LOCK_EX)
        try:
            yield
        finally:
            fcntl.flock(f, fcntl.LOCK_UN)


def run(cmd, timeout, cwd=None, env=None):
    p = subprocess.run(cmd, cwd=cwd, env=env, stdout=subprocess.PIPE, stderr=subprocess.PIPE,
                       text=True, timeout=timeout)
    return p.returncode, p.stdout, p.stderr


AUDIT_RE = re.compile(r"\b(Admitted|admit|Axiom|Axioms|Parameter|Parameters|Conjecture|Conjectures|"
                      r"Admit Obligations|bypass_check)\b|Unset Guard|Unset Positivity|Unset Universe|"
                      r"type-in-type|impredicative-set")


def audit_sources():
    """No Admitted/admit/Axiom/... anywhere in the development (comments are stripped first)."""
    bad = []
    for root in ("theories", "properties", "generated"):
        d = os.path.join(COQ, root)
        for dp, _, fs in os.walk(d):
            for f in fs:
                if not f.endswith(".v"):
                    continue
                src = open(os.path.join(dp, f)).read()
                src = _strip_comments(src)
                for n, line in enumerate(src.split("\n"), 1):
                    if AUDIT_RE.search(line):
                        bad.append("%s:%d: %s" % (os.path.join(root, f), n, line.strip()))
    for f in ("_CoqProject",):
        if re.search(r"type-in-type|impredicative-set|-vos", open(os.path.join(COQ, f)).read()):
            bad.append("_CoqProject: forbidden flag")
    return bad


def _strip_comments(src):
    out, depth, i = [], 0, 0
    while i < len(src):
        if src.startswith("(*", i):
            depth += 1
            i += 2
        elif src.startswith("*)", i) and depth:
            depth -= 1
            i += 2
        else:
            if depth == 0:
                out.append(src[i])
            elif src[i] == "\n":
                out.append("\n")
            i += 1
    return "".join(out)


def _makefile_current():
    """(Re)generate Makefile.coq when the set of .v files changed (short critical section)."""
    with _lock("coqmakefile"):
        files = []
        for root in ("theories", "generated"):
            d = os.path.join(COQ, root)
            for f in sorted(os.listdir(d)):
                if f.endswith(".v"):
                    files.append("%s/%s" % (root, f))
        proj = open(os.path.join(COQ, "_CoqProject")).read().strip().split("\n")
        proj = [l for l in proj if l.startswith("-")]
        listing = "\n".join(proj + files) + "\n"
        lp = os.path.join(COQ, "_CoqProject.build")
        if not os.path.exists(lp) or open(lp).read() != listing or not os.path.exists(os.path.join(COQ, "Makefile.coq")):
            open(lp, "w").write(listing)
            rc, out, err = run(["coq_makefile", "-f", "_CoqProject.build", "-o", "Makefile.coq"], 120, cwd=COQ)
            if rc != 0:
                raise HarnessError("coq_makefile failed: " + err)


def build_theories(targets=None, timeout=3000):
    """Full .vo build of the hand-written theories (and generated files) through coq_makefile.
    With targets: only those (and what they depend on), under one lock per target so that checks of
    different properties do not wait for each other."""
    _makefile_current()
    names = ["coqbuild_all"] if not targets else sorted("coqbuild_" + t.replace("/", "_") for t in targets)
    with contextlib.ExitStack() as stack:
        for n in names:
            stack.enter_context(_lock(n))
        _touch_generated_with_stale_objects()
        cmd = ["timeout", str(timeout), "make", "-f", "Makefile.coq", "-j%d" % NPROC]
        if targets:
            cmd += targets
        rc, out, err = run(cmd, timeout + 30, cwd=COQ)
        if rc == 0:
            _record_generated_hashes()
        return rc, out + err


def _gen_files():
    d = os.path.join(COQ, "generated")
    return [os.path.join(d, f) for f in sorted(os.listdir(d)) if f.endswith(".v")]


def _sha(path):
    return hashlib.sha256(open(path, "rb").read()).hexdigest()


def _touch_generated_with_stale_objects():
    """make decides by time stamps; a generated .v that was replaced by different text with an OLDER time stamp than its
    .vo (a `git checkout` racing with a compilation did that once) would keep a .vo of other content.  The text each .vo
    was compiled from is recorded; a generated file whose text differs from the record is touched so that make rebuilds it."""
    rec_dir = os.path.join(BUILD, "gensha")
    for v in _gen_files():
        vo = v + "o"
        rec = os.path.join(rec_dir, os.path.basename(v) + ".sha")
        if os.path.exists(vo) and os.path.getmtime(vo) >= os.path.getmtime(v):
            old = open(rec).read().strip() if os.path.exists(rec) else None
            if old != _sha(v):
                os.utime(v, None)


def _record_generated_hashes():
    rec_dir = os.path.join(BUILD, "gensha")
    os.makedirs(rec_dir, exist_ok=True)
    for v in _gen_files():
        vo = v + "o"
        if os.path.exists(vo) and os.path.getmtime(vo) >= os.path.getmtime(v):
            tmp = os.path.join(rec_dir, "%s.%d.tmp" % (os.path.basename(v), os.getpid()))
            with open(tmp, "w") as f:
                f.write(_sha(v))
            os.replace(tmp, os.path.join(rec_dir, os.path.basename(v) + ".sha"))


def compile_property_file(pid, timeout=1500):
    """Re-check the property theorems and read back their axioms."""
    src = os.path.join(COQ, "properties", pid + ".v")
    outdir = os.path.join(BUILD, pid)
    os.makedirs(outdir, exist_ok=True)
    cmd = ["timeout", str(timeout), "coqc"] + COQ_FLAGS + ["-o", os.path.join(outdir, pid + ".vo"), src]
    rc, out, err = run(cmd, timeout + 30, cwd=COQ)
    text = _strip_comments(open(src).read())
    stated = re.findall(r"(?m)^\s*(?:Theorem|Lemma|Corollary)\s+([A-Za-z_0-9']+)", text)
    printed = re.findall(r"(?m)^\s*Print Assumptions\s+([A-Za-z_0-9'.]+)\s*\.", text)
    blocks = re.split(r"(?m)^(?=Axioms:|Closed under the global context)", out)
    blocks = [b for b in blocks if b.startswith(("Axioms:", "Closed under"))]
    theorems = []
    ok = rc == 0 and len(blocks) == len(printed)
    for name, b in zip(printed, blocks):
        axs = re.findall(r"(?m)^([A-Za-z_][A-Za-z_0-9.']*)\s*(?::|$)", b.split("\n", 1)[1] if "\n" in b else "")
        axs = [a for a in axs if a not in ("Axioms",)]
        theorems.append({"name": name, "axioms": axs})
    return {"ok": ok, "rc": rc, "stdout": out, "stderr": err, "stated": stated, "printed": printed,
            "theorems": theorems}


def foreign_axioms(theorems):
    bad = []
    for t in theorems:
        for a in t["axioms"]:
            if a in ALLOWED_AXIOMS or a.startswith(PRIMITIVE_PREFIXES):
                continue
            bad.append((t["name"], a))
    return bad


class CoqCases:
    """Accumulates `Eval vm_compute` lines, evaluates them in parallel, returns parsed values."""

    HEADER = ("From Coq Require Import List ZArith Bool String PrimFloat.\n"
              "Import ListNotations.\n"
              "Set Printing Width 1000000.\nSet Printing Depth 1000000.\nSet Warnings \"-all\".\n")

    def __init__(self, pid, imports, scope="float_scope", per_file=250, max_bytes=1200000, tag="cases"):
        self.pid, self.imports, self.scope = pid, imports, scope
        self.per_file, self.max_bytes, self.tag = per_file, max_bytes, tag
        self.exprs = []

    def add(self, expr):
        self.exprs.append(expr)
        return len(self.exprs) - 1

    def run(self, timeout=1200):
        if not self.exprs:
            return []
        d = os.path.join(BUILD, self.pid, "%s_%d_%d" % (self.tag, os.getpid(), int(time.time() * 1000) % 10 ** 9))
        os.makedirs(d, exist_ok=True)
        files, cur, size = [], [], 0
        for e in self.exprs:
            line = "Eval vm_compute in (%s).\n" % e
            if cur and (len(cur) >= self.per_file or size + len(line) > self.max_bytes):
                files.append(cur)
                cur, size = [], 0
            cur.append(line)
            size += len(line)
        if cur:
            files.append(cur)
        paths = []
        for k, lines in enumerate(files):
            p = os.path.join(d, "%s_%d.v" % (self.tag, k))
            with open(p, "w") as f:
                f.write(self.HEADER + self.imports + "\n")
                if self.scope:
                    f.write("Local Open Scope %s.\n" % self.scope)
                f.writelines(lines)
            paths.append(p)
        procs, results = [], [None] * len(paths)
        pending = list(enumerate(paths))
        running = []
        env = dict(os.environ)
        while pending or running:
            while pending and len(running) < NPROC:
                k, p = pending.pop(0)
                pr = subprocess.Popen(["timeout", str(timeout), "coqc"] + COQ_FLAGS + [p], cwd=d,
                                      stdout=subprocess.PIPE, stderr=subprocess.PIPE, text=True, env=env,
                                      preexec_fn=_unlimit_stack)
                running.append((k, p, pr))
            k, p, pr = running.pop(0)
            out, err = pr.communicate()
            if pr.returncode != 0:
                for _, _, other in running:
                    other.kill()
                raise HarnessError("coqc failed on %s (rc %s):\n%s" % (p, pr.returncode, (err or out)[-3000:]))
            results[k] = parse_eval_output(out)
            if len(results[k]) != len(files[k]):
                raise HarnessError("coqc output of %s: %d values for %d cases" % (p, len(results[k]), len(files[k])))
        shutil.rmtree(d, ignore_errors=True)
        return [v for r in results for v in r]


def _unlimit_stack():
    import resource
    try:
        resource.setrlimit(resource.RLIMIT_STACK, (resource.RLIM_INFINITY, resource.RLIM_INFINITY))
    except Exception:
        pass


# ----------------------------------------------------------------------------------------------
# comparison helpers
# ----------------------------------------------------------------------------------------------
def bits_equal(a, b):
    import struct
    a, b = float(a), float(b)
    if math.isnan(a) and math.isnan(b):
        return True
    return struct.pack("<d", a) == struct.pack("<d", b)


def close(a, b, rtol=1e-9, atol=1e-12, scale=None):
    a, b = float(a), float(b)
    if math.isnan(a) or math.isnan(b):
        return math.isnan(a) and math.isnan(b)
    if math.isinf(a) or math.isinf(b):
        return a == b
    s = max(abs(a), abs(b)) if scale is None else scale
    return abs(a - b) <= atol + rtol * s


def all_close(xs, ys, **kw):
    return len(xs) == len(ys) and all(close(x, y, **kw) for x, y in zip(xs, ys))


# ----------------------------------------------------------------------------------------------
# check context and driver
# ----------------------------------------------------------------------------------------------
class Ctx:
    def __init__(self, pid, tier, seed):
        self.pid, self.tier, self.seed = pid, tier, seed
        self.rng = random.Random((seed * 1000003) ^ hash_str(pid))
        self.t0 = time.time()
        self.notes = []

    @property
    def quick(self):
        return self.tier == "quick"

    def n(self, quick, thorough):
        return quick if self.quick else thorough

    def cases(self, imports, **kw):
        return CoqCases(self.pid, imports, **kw)

    def np_rng(self, salt=0):
        import numpy as np
        return np.random.default_rng([self.seed, hash_str(self.pid) % (2 ** 31), salt])


def hash_str(s):
    return int(hashlib.sha256(s.encode()).hexdigest()[:12], 16)


def load_known_findings(pid):
    if not os.path.exists(KNOWN_FINDINGS):
        return []
    data = json.load(open(KNOWN_FINDINGS))
    return [f for f in data.get("findings", []) if f.get("property") == pid]


def write_replay(pid, payload):
    d = os.path.join(REPLAYS, pid)
    os.makedirs(d, exist_ok=True)
    blob = json.dumps(payload, sort_keys=True, indent=1, default=str)
    sha = hashlib.sha256(blob.encode()).hexdigest()[:12]
    p = os.path.join(d, sha + ".json")
    with open(p, "w") as f:
        f.write(blob)
    return p


def validate_evidence(path):
    schema = "/root/.vp/EVIDENCE.schema.json"
    if not os.path.exists(schema) or not shutil.which("python3-vt"):
        return None
    code = ("import json,sys,jsonschema; jsonschema.validate(json.load(open(sys.argv[1])),"
            " json.load(open(sys.argv[2])))")
    rc, out, err = run(["python3-vt", "-W", "ignore", "-c", code, path, schema], 120)
    if rc != 0:
        raise HarnessError("evidence file does not validate: " + err[-1500:])
    return True


def setup_impl_env():
    """Isolate evo's import-time side effects (it writes ~/.evo) and pin the repo under test."""
    home = tempfile.mkdtemp(prefix="evo_verif_home_")
    os.environ["HOME"] = home
    os.environ["MPLBACKEND"] = "Agg"
    os.environ.setdefault("EVO_VERIF", "1")
    if REPO not in sys.path:
        sys.path.insert(0, REPO)
    import warnings
    warnings.filterwarnings("ignore")
    import logging
    logging.disable(logging.CRITICAL)
    return home


def _json_default(o):
    try:
        import numpy as np
        if isinstance(o, np.generic):
            return o.item()
        if isinstance(o, np.ndarray):
            return o.tolist()
    except Exception:
        pass
    return str(o)


def main_check(module, argv=None):
    """Generic driver: `check <ID> --tier quick|thorough [--replay FILE]`."""
    import argparse
    ap = argparse.ArgumentParser()
    ap.add_argument("--tier", default=os.environ.get("VERIF_TIER", "quick"), choices=["quick", "thorough"])
    ap.add_argument("--replay", default=None)
    ap.add_argument("--seed", type=int, default=int(os.environ.get("VERIF_SEED", "0") or 0))
    args = ap.parse_args(argv)
    pid = module.ID
    ctx = Ctx(pid, args.tier, args.seed)
    violations = []   # (line_suffix, replay_payload)
    known_lines = []
    home = None
    try:
        os.makedirs(EVIDENCE, exist_ok=True)
        # 1. audit
        bad = audit_sources()
        if bad:
            raise HarnessError("forbidden construct in the Coq development:\n" + "\n".join(bad))
        # 2. translator ties regenerate coq/generated/*.v from /repo (may itself report broken ties)
        home = setup_impl_env()
        gen_failures = []
        if hasattr(module, "regenerate"):
            gen_failures = list(module.regenerate(ctx) or [])
        # 3. build + theorems
        rc, log = build_theories(targets=getattr(module, "COQ_TARGETS", None))
        build_ok = rc == 0
        prop = compile_property_file(pid) if build_ok else {"ok": False, "stdout": "", "stderr": log[-4000:],
                                                             "theorems": [], "stated": [], "printed": []}
        obligations = len(prop["printed"]) if prop["printed"] else len(prop.get("stated", []))
        discharged = len(prop["theorems"]) if prop["ok"] else 0
        foreign = foreign_axioms(prop["theorems"])
        if foreign:
            raise HarnessError("theorem depends on an axiom outside the allow-list: %r" % foreign)
        if prop["ok"] and set(prop["stated"]) - set(p.split(".")[-1] for p in prop["printed"]):
            raise HarnessError("property theorem without Print Assumptions: %r" %
                               (set(prop["stated"]) - set(prop["printed"])))
        broken_proof = None
        if not build_ok or not prop["ok"]:
            broken_proof = (prop["stderr"] or log)[-3000:]
        # 4. correspondence / search
        known = load_known_findings(pid)
        result = module.run(ctx, replay=json.load(open(args.replay)) if args.replay else None,
                            proofs_ok=broken_proof is None)
        for f in result.get("failures", []) + gen_failures:   # concrete inputs first, broken ties after them
            kf = None
            for k in known:
                if k.get("status") == "open" and hasattr(module, "matches_known") and module.matches_known(k, f):
                    kf = k
                    break
            if kf:
                known_lines.append("KNOWN-FINDING: property=%s %s [%s]" % (pid, kf.get("what", ""), kf.get("id", "")))
                continue
            violations.append(f)
        if broken_proof is not None:
            # a broken proof obligation: the search above ran anyway; if it found a failing input the
            # violation is already listed, otherwise report the theorem that no longer checks
            if not any(v.get("failing_input") for v in violations):
                violations.append({"kind": "obligation", "theorem_file": "coq/properties/%s.v" % pid,
                                   "error": broken_proof, "failing_input": False})
        cov = dict(result.get("coverage", {}))
        cov.setdefault("obligations", max(obligations, 1))
        if discharged >= 1:
            cov.setdefault("discharged", discharged)
        else:   # broken proof: the schema reserves `discharged` for >= 1
            cov["discharged_count"] = 0
        cov.setdefault("checker_cmd", "make -f Makefile.coq (coq/theories) && coqc coq/properties/%s.v "
                       "(Print Assumptions) && coqc build/%s/cases_*.v (Eval vm_compute)" % (pid, pid))
        tb = ["Coq 8.16.1 kernel + VM (vm_compute incl. PrimFloat primitives); no native_compute; no extraction",
              "axioms reported by Print Assumptions: " + ", ".join(sorted({a for t in prop["theorems"] for a in t["axioms"]})
                                                                 or ["none (closed under the global context)"]),
              "correspondence harness (generators, tolerances) and Python-AST translator where used"]
        cov["trusted_base"] = tb + list(getattr(module, "TRUSTED", []))
        cov["theorems"] = prop["theorems"]
        cov["known_findings_seen"] = known_lines
        cov["notes"] = ctx.notes
        ev = {"property_id": pid, "tier": args.tier, "seed": args.seed, "level": "proof", "coverage": cov,
              "assumptions": list(getattr(module, "ASSUMPTIONS", [])),
              "wall_s": round(time.time() - ctx.t0, 2), "violations": len(violations)}
        evp = os.path.join(EVIDENCE, pid + ".json")
        with open(evp, "w") as f:
            json.dump(ev, f, indent=1, sort_keys=True, default=_json_default)
        validate_evidence(evp)
    except HarnessError as e:
        print("HARNESS-ERROR property=%s: %s" % (pid, e), file=sys.stderr)
        return 2
    except Exception:
        traceback.print_exc()
        print("HARNESS-ERROR property=%s: unexpected exception" % pid, file=sys.stderr)
        return 2
    finally:
        if home and os.path.isdir(home) and os.path.basename(home).startswith("evo_verif_home_"):
            shutil.rmtree(home, ignore_errors=True)
    sys.stdout.flush()
    sys.stdout.write("\n")    # the implementation may have left an unterminated line on stdout
    for l in known_lines:
        print(l)
    for v in violations[:20]:
        payload = dict(v)
        payload.update({"property": pid, "tier": args.tier, "seed": args.seed})
        path = write_replay(pid, json.loads(json.dumps(payload, default=_json_default)))
        suffix = "" if v.get("failing_input") else " no-failing-input-found"
        print("VIOLATION property=%s replay=%s%s" % (pid, path, suffix))
    if violations:
        return 1
    print("OK property=%s tier=%s evaluations=%s theorems=%d/%d wall=%.1fs" % (
        pid, args.tier, cov.get("evaluations"), discharged, obligations, time.time() - ctx.t0))
    return 0


# ----------------------------------------------------------------------------------------------
# generic differential run: implementation vs. executable Coq model (+ Coq spec checker)
# ----------------------------------------------------------------------------------------------
def differential(ctx, cases, *, imports, impl, expr, judge, shrink=None, scope="float_scope",
                 nontrivial=None, describe=None, max_shrink_rounds=12, tag="cases", per_file=250):
    """
    impl(case)            -> implementation output (JSON-able); exceptions must be caught by impl
    expr(case, impl_out)  -> Coq expression evaluated with vm_compute (may embed impl_out for spec_b)
    judge(case, model_value, impl_out) -> None (agree, property holds on this case) or
                             dict(kind='spec-violation'|'model-vs-impl', detail=..., failing_input=bool)
    Returns (failures, stats).
    """
    def evaluate(cs):
        outs = [impl(c) for c in cs]
        cc = ctx.cases(imports, scope=scope, tag=tag, per_file=per_file)
        for c, o in zip(cs, outs):
            cc.add(expr(c, o))
        vals = cc.run()
        return [(c, o, v, judge(c, v, o)) for c, o, v in zip(cs, outs, vals)]

    res = evaluate(cases)
    failures, seen, nontriv = [], set(), 0
    for c, o, v, j in res:
        k = json.dumps(c, sort_keys=True, default=_json_default)
        h = hashlib.sha1(k.encode()).hexdigest()
        if h not in seen:
            seen.add(h)
            if nontrivial is None or nontrivial(c, v, o):
                nontriv += 1
    bad = [(c, o, v, j) for c, o, v, j in res if j is not None]
    # a genuine spec violation is more informative than a bare disagreement: report those first
    bad.sort(key=lambda r: (0 if r[3].get("failing_input") else 1, len(json.dumps(r[0], default=_json_default))))
    for c, o, v, j in bad[:3]:
        if shrink is not None:
            for _ in range(max_shrink_rounds):
                cands = list(shrink(c))[:40]
                if not cands:
                    break
                try:
                    sub = evaluate(cands)
                except HarnessError:
                    break
                nxt = [r for r in sub if r[3] is not None and r[3].get("kind") == j.get("kind")]
                if not nxt:
                    break
                nxt.sort(key=lambda r: len(json.dumps(r[0], default=_json_default)))
                c, o, v, j = nxt[0]
        f = dict(j)
        f.update({"case": c, "model_output": v, "impl_output": o})
        failures.append(f)
    stats = {"evaluations": len(cases), "distinct": len(seen), "distinct_nontrivial": nontriv,
             "disagreements": len(bad)}
    return failures, stats
