(* ReadersQuat.v - quaternion convention and Sim(3) validation of transform files, over R. *)
From Coq Require Import Reals Lra Psatz Nsatz List Bool.
From Evo Require Import Num Linalg LinalgR Readers.
Import ListNotations.
Local Open Scope R_scope.

(* the textbook rotation matrix of the unit Hamilton quaternion w + x i + y j + z k *)
Definition hamilton (w x y z : R) : M3 R :=
  mkM3 (1 - 2 * (y * y + z * z)) (2 * (x * y - z * w)) (2 * (x * z + y * w))
       (2 * (x * y + z * w)) (1 - 2 * (x * x + z * z)) (2 * (y * z - x * w))
       (2 * (x * z - y * w)) (2 * (y * z + x * w)) (1 - 2 * (x * x + y * y)).

(* Hamilton product and conjugate, quaternions as (scalar, vector) *)
Definition qmul (a b : R * V3 R) : R * V3 R :=
  let '(a0, mkV3 a1 a2 a3) := a in let '(b0, mkV3 b1 b2 b3) := b in
  (a0 * b0 - a1 * b1 - a2 * b2 - a3 * b3,
   mkV3 (a0 * b1 + a1 * b0 + a2 * b3 - a3 * b2)
        (a0 * b2 - a1 * b3 + a2 * b0 + a3 * b1)
        (a0 * b3 + a1 * b2 - a2 * b1 + a3 * b0)).
Definition qconj (a : R * V3 R) : R * V3 R := let '(a0, mkV3 a1 a2 a3) := a in (a0, mkV3 (- a1) (- a2) (- a3)).

(* [hamilton q] is the matrix of v |-> q v q* (Hamilton convention, active rotation) *)
Lemma hamilton_is_conjugation w x y z (v : V3 R) : w * w + x * x + y * y + z * z = 1 ->
  qmul (qmul (w, mkV3 x y z) (0, v)) (qconj (w, mkV3 x y z)) = (0, mv (hamilton w x y z) v).
Proof.
  intros U. destruct v as [a b c]. unfold qmul, qconj, hamilton, mv. cbn [vx vy vz m00 m01 m02 m10 m11 m12 m20 m21 m22]. rnum.
  f_equal; [ring|]. f_equal; nsatz.
Qed.

Lemma hamilton_SO3 w x y z : w * w + x * x + y * y + z * z = 1 -> SO3 (hamilton w x y z).
Proof.
  intros U. unfold hamilton. split; [split|].
  - lin_unfold. f_equal; nsatz.
  - lin_unfold. f_equal; nsatz.
  - lin_unfold. nsatz.
Qed.

Section QM.
Variable eps4 : R.
Hypothesis eps_pos : 0 < eps4.

Lemma quat_matrix_general w x y z :
  let n := w * w + x * x + y * y + z * z in
  eps4 <= n ->
  quaternion_matrix eps4 w x y z = hamilton (w / sqrt n) (x / sqrt n) (y / sqrt n) (z / sqrt n).
Proof.
  intros n Hn. unfold quaternion_matrix. rnum. fold n.
  assert (L : Rltb n eps4 = false) by (apply Rltb_false; exact Hn). rewrite L.
  assert (Pn : 0 < n) by lra.
  assert (Sn : sqrt n * sqrt n = n) by (apply sqrt_sqrt; lra).
  assert (Sp : 0 < sqrt n) by (apply sqrt_lt_R0; exact Pn).
  unfold two. rnum.
  set (k := sqrt ((1 + 1) / n)).
  assert (Hk : k * k = 2 * / n).
  { unfold k. rewrite sqrt_sqrt; [field; lra|]. apply Rmult_le_pos; [lra|]. left. apply Rinv_0_lt_compat. exact Pn. }
  set (a := / sqrt n).
  assert (Ha : a * a = / n).
  { unfold a. rewrite <- Rinv_mult. now rewrite Sn. }
  unfold hamilton, Rdiv. fold a. set (b := / n) in *.
  f_equal; nsatz.
Qed.

(* quaternion_matrix (w,x,y,z) of a unit quaternion is the textbook Hamilton matrix *)
Theorem quat_matrix_convention w x y z : eps4 <= 1 -> w * w + x * x + y * y + z * z = 1 ->
  quaternion_matrix eps4 w x y z = hamilton w x y z.
Proof.
  intros He U. pose proof (quat_matrix_general w x y z) as G. cbn zeta in G. rewrite U in G.
  rewrite G by exact He. rewrite sqrt_1. unfold Rdiv. now rewrite Rinv_1, !Rmult_1_r.
Qed.

(* ... and of every quaternion the code does not treat as zero it is a rotation *)
Theorem quat_matrix_SO3 w x y z : eps4 <= w * w + x * x + y * y + z * z -> SO3 (quaternion_matrix eps4 w x y z).
Proof.
  intros Hn. pose proof (quat_matrix_general w x y z) as G. cbn zeta in G. rewrite G by exact Hn.
  set (n := w * w + x * x + y * y + z * z) in *.
  assert (Pn : 0 < n) by lra.
  assert (Sn : sqrt n * sqrt n = n) by (apply sqrt_sqrt; lra).
  assert (Sp : 0 < sqrt n) by (apply sqrt_lt_R0; exact Pn).
  apply hamilton_SO3. unfold Rdiv. set (a := / sqrt n).
  assert (Ha : a * a = / n) by (unfold a; rewrite <- Rinv_mult; now rewrite Sn).
  replace (w * a * (w * a) + x * a * (x * a) + y * a * (y * a) + z * a * (z * a)) with (n * (a * a)) by (unfold n; ring).
  rewrite Ha. field. lra.
Qed.

(* a (numerically) zero quaternion is read as the identity rotation *)
Theorem quat_matrix_zero w x y z : w * w + x * x + y * y + z * z < eps4 -> quaternion_matrix eps4 w x y z = I3.
Proof. intros H. unfold quaternion_matrix. rnum. assert (L : Rltb (w * w + x * x + y * y + z * z) eps4 = true) by (apply Rltb_true; exact H). now rewrite L. Qed.
End QM.

(* ---------- is_so3 / is_sim3 with the tolerances of numpy.allclose ---------- *)
Section Sim3.
Variables atol rtol : R.
Hypothesis atol_nonneg : 0 <= atol.
Hypothesis rtol_nonneg : 0 <= rtol.

Notation close := (close_to (T := R) atol rtol).
Notation so3b := (is_so3 (T := R) atol rtol).
Notation sim3b := (is_sim3 (T := R) atol rtol).

Lemma close_spec a b : close a b = true <-> Rabs (a - b) <= atol + rtol * Rabs b.
Proof. unfold close_to. rnum. apply Rleb_true. Qed.
Lemma close_refl a : close a a = true.
Proof. apply close_spec. replace (a - a) with 0 by ring. rewrite Rabs_R0. pose proof (Rabs_pos a). nra. Qed.

(* the decision, spelled out: determinant and every entry of R^T R within the allclose band *)
Definition so3_within (r : M3 R) : Prop :=
  let g := mm (mt r) r in
  Rabs (det r - 1) <= atol + rtol * Rabs 1 /\
  Rabs (m00 g - 1) <= atol + rtol * Rabs 1 /\ Rabs (m01 g - 0) <= atol + rtol * Rabs 0 /\ Rabs (m02 g - 0) <= atol + rtol * Rabs 0 /\
  Rabs (m10 g - 0) <= atol + rtol * Rabs 0 /\ Rabs (m11 g - 1) <= atol + rtol * Rabs 1 /\ Rabs (m12 g - 0) <= atol + rtol * Rabs 0 /\
  Rabs (m20 g - 0) <= atol + rtol * Rabs 0 /\ Rabs (m21 g - 0) <= atol + rtol * Rabs 0 /\ Rabs (m22 g - 1) <= atol + rtol * Rabs 1.

Theorem is_so3_decides r : so3b r = true <-> so3_within r.
Proof.
  unfold is_so3, so3_within. cbn zeta. rewrite !andb_true_iff, !close_spec. rnum. tauto.
Qed.

Theorem is_so3_accepts_rotations r : SO3 r -> so3b r = true.
Proof.
  intros [[O _] D]. unfold is_so3. cbn zeta. rewrite O, D. unfold I3. cbn [m00 m01 m02 m10 m11 m12 m20 m21 m22]. rnum.
  now rewrite !close_refl.
Qed.

Theorem is_sim3_decides s blk bottom :
  sim3b s blk bottom = true <-> (0 < det blk /\ so3_within (mscale (1 / s) blk) /\ bottom = [0; 0; 0; 1]).
Proof.
  unfold is_sim3. rewrite !andb_true_iff. rnum. rewrite Rltb_true, is_so3_decides. split.
  - intros [[H1 H2] H3]. split; [exact H1|]. split; [exact H2|].
    destruct bottom as [|a [|b [|c [|d [|? ?]]]]]; try discriminate.
    rewrite !andb_true_iff, !Reqb_true in H3. destruct H3 as [[[-> ->] ->] ->]. reflexivity.
  - intros [H1 [H2 ->]]. split; [tauto|]. rewrite !andb_true_iff, !Reqb_true. tauto.
Qed.

(* every s R | t with s > 0 and R a rotation is accepted (s = the cube root of the determinant) *)
Theorem is_sim3_accepts s0 (r : M3 R) s : SO3 r -> 0 < s0 -> 0 < s -> s * s * s = det (mscale s0 r) ->
  sim3b s (mscale s0 r) [0; 0; 0; 1] = true.
Proof.
  intros S P0 Ps Hs. destruct S as [O D]. rewrite det_mscale, D in Hs.
  assert (E : s = s0).
  { assert (C : (s - s0) * (s * s + s * s0 + s0 * s0) = 0) by nra.
    apply Rmult_integral in C. destruct C as [C|C]; [lra|]. nra. }
  subst s0. apply is_sim3_decides. split.
  - rewrite det_mscale, D. assert (0 < s * s) by nra. nra.
  - split; [|reflexivity]. apply is_so3_decides.
    assert (M : mscale (1 / s) (mscale s r) = r).
    { destruct r as [a b c d e f g h i]. unfold mscale. cbn [m00 m01 m02 m10 m11 m12 m20 m21 m22]. rnum. f_equal; field; lra. }
    rewrite M. apply is_so3_accepts_rotations. split; assumption.
Qed.

(* rejection classes *)
Theorem is_sim3_rejects_reflections_and_singular s blk bottom : det blk <= 0 -> sim3b s blk bottom = false.
Proof.
  intros H. destruct (sim3b s blk bottom) eqn:E; [|reflexivity]. apply is_sim3_decides in E. lra.
Qed.
Theorem is_sim3_rejects_wrong_bottom_row s blk bottom : bottom <> [0; 0; 0; 1] -> sim3b s blk bottom = false.
Proof.
  intros H. destruct (sim3b s blk bottom) eqn:E; [|reflexivity]. apply is_sim3_decides in E. tauto.
Qed.
Theorem is_sim3_rejects_beyond_tolerance s blk bottom : ~ so3_within (mscale (1 / s) blk) -> sim3b s blk bottom = false.
Proof.
  intros H. destruct (sim3b s blk bottom) eqn:E; [|reflexivity]. apply is_sim3_decides in E. tauto.
Qed.

(* load_transform: anything that is not 4 rows of 4 entries is rejected; otherwise is_sim3 decides *)
Theorem load_transform_shape s rows : load_transform_ok (T := R) atol rtol s rows = true ->
  exists a b c t1 d e f t2 g h i t3 bottom,
    rows = [[a; b; c; t1]; [d; e; f; t2]; [g; h; i; t3]; bottom] /\ sim3b s (mkM3 a b c d e f g h i) bottom = true.
Proof.
  unfold load_transform_ok.
  destruct rows as [|[|a [|b [|c [|t1 [|? ?]]]]] [|[|d [|e [|f [|t2 [|? ?]]]]] [|[|g [|h [|i [|t3 [|? ?]]]]] [|bottom [|? ?]]]]]; try discriminate.
  intros H. repeat eexists. exact H.
Qed.

(* JSON transforms: x y z qx qy qz qw (+ scale): accepted whenever scale > 0 and the quaternion is not (numerically) zero-free of the eps test *)
Theorem json_transform_accepted eps4 x y z qx qy qz qw scale s : 0 < eps4 ->
  0 < scale -> 0 < s -> s * s * s = det (prot (transform_of_json eps4 x y z qx qy qz qw scale)) ->
  sim3b s (prot (transform_of_json eps4 x y z qx qy qz qw scale)) [0; 0; 0; 1] = true.
Proof.
  intros He Hsc Hs Hdet. unfold transform_of_json in *. cbn [prot] in *.
  apply is_sim3_accepts; try assumption.
  destruct (Rlt_le_dec (qw * qw + qx * qx + qy * qy + qz * qz) eps4) as [L|G].
  - rewrite quat_matrix_zero by exact L. apply SO3_I.
  - apply quat_matrix_SO3; assumption.
Qed.
End Sim3.

(* non-vacuity: a 90 degree turn about z *)
Example quat_example : quaternion_matrix (/ 1000) 0 0 0 1 = mkM3 (-1) 0 0 0 (-1) 0 0 0 1.
Proof.
  rewrite quat_matrix_convention by lra. unfold hamilton. f_equal; ring.
Qed.
