(* C05 - time association. Property theorems only; proofs live in Evo.SyncProofs. *)
From Coq Require Import Reals List Sorted.
From Evo Require Import Num Sync SyncProofs NpDsl SyncTie.
From EvoGen Require Import SyncGen.
Import ListNotations.
Local Open Scope R_scope.

(* S1 + S3: in range, within max_diff, nearest counterpart *)
Theorem C05_pairs_within_max_diff_and_nearest :
  forall (s1 s2 : list R) (maxd off : R), s2 <> [] ->
  forall i j, In (i, j) (matching s1 s2 maxd off) ->
    (i < length s1)%nat /\ (j < length s2)%nat /\ D s1 s2 off i j <= maxd /\
    (forall k, (k < length s2)%nat -> D s1 s2 off i j <= D s1 s2 off i k) /\
    candR s1 s2 maxd off i = Some (j, D s1 s2 off i j).
Proof. exact matching_sound. Qed.
Print Assumptions C05_pairs_within_max_diff_and_nearest.

(* S2: strictly increasing in the driving index; no pose of the searched list used twice *)
Theorem C05_driving_index_increasing :
  forall (s1 s2 : list R) (maxd off : R), StronglySorted lt1 (matching s1 s2 maxd off).
Proof. exact matching_sorted. Qed.
Print Assumptions C05_driving_index_increasing.

Theorem C05_no_pose_used_twice :
  forall (s1 s2 : list R) (maxd off : R), NoDup (map snd (matching s1 s2 maxd off)).
Proof. exact matching_injective. Qed.
Print Assumptions C05_no_pose_used_twice.

(* S2 in full for time-ordered input: increasing time order on both sides *)
Theorem C05_time_order_both_sides :
  forall (s1 s2 : list R) (maxd off : R), s2 <> [] ->
  StronglySorted Rle s1 -> StronglySorted Rlt s2 ->
  StronglySorted lt_both (matching s1 s2 maxd off).
Proof. exact matching_time_order. Qed.
Print Assumptions C05_time_order_both_sides.

(* S4: completeness *)
Theorem C05_contended_counterpart_goes_to_a_closest :
  forall (s1 s2 : list R) (maxd off : R), s2 <> [] ->
  forall i j d, (i < length s1)%nat -> candR s1 s2 maxd off i = Some (j, d) ->
  exists i', In (i', j) (matching s1 s2 maxd off) /\ D s1 s2 off i' j <= D s1 s2 off i j.
Proof. exact matching_complete. Qed.
Print Assumptions C05_contended_counterpart_goes_to_a_closest.

Theorem C05_uncontended_pose_is_paired :
  forall (s1 s2 : list R) (maxd off : R), s2 <> [] ->
  forall i j d, (i < length s1)%nat -> candR s1 s2 maxd off i = Some (j, d) ->
  (forall i' d', (i' < length s1)%nat -> candR s1 s2 maxd off i' = Some (j, d') -> i' = i) ->
  In (i, j) (matching s1 s2 maxd off).
Proof. exact matching_uncontended. Qed.
Print Assumptions C05_uncontended_pose_is_paired.

Theorem C05_nearest_within_max_diff_is_a_candidate :
  forall (s1 s2 : list R) (maxd off : R), s2 <> [] -> forall i,
  (exists k, (k < length s2)%nat /\ D s1 s2 off i k <= maxd) ->
  exists j, candR s1 s2 maxd off i = Some (j, D s1 s2 off i j).
Proof. exact cand_some. Qed.
Print Assumptions C05_nearest_within_max_diff_is_a_candidate.

(* S5 + S7 + offset sign: associate_trajectories *)
Theorem C05_associate_copies_poses_or_refuses :
  forall (A : Type) (t1 t2 : list (R * A)) (maxd off : R), t1 <> [] -> t2 <> [] ->
  match associate t1 t2 maxd off with
  | None => assoc_pairs t1 t2 maxd off = []
  | Some (r1, r2) =>
      assoc_pairs t1 t2 maxd off <> [] /\
      length r1 = length (assoc_pairs t1 t2 maxd off) /\
      length r2 = length (assoc_pairs t1 t2 maxd off) /\
      forall k i j, nth_error (assoc_pairs t1 t2 maxd off) k = Some (i, j) ->
        nth_error r1 k = nth_error t1 i /\ nth_error r2 k = nth_error t2 j
  end.
Proof. exact @associate_spec. Qed.
Print Assumptions C05_associate_copies_poses_or_refuses.

Theorem C05_offset_sign_either_length_order :
  forall (A : Type) (t1 t2 : list (R * A)) (maxd off : R) i j, t1 <> [] -> t2 <> [] ->
  In (i, j) (assoc_pairs t1 t2 maxd off) ->
  Rabs (nth i (stamps t1) 0 - (nth j (stamps t2) 0 + off)) <= maxd.
Proof. exact @associate_offset_sign. Qed.
Print Assumptions C05_offset_sign_either_length_order.

(* associate_trajectories on time-ordered inputs: the index pairs increase strictly on BOTH sides, whichever input is longer *)
Theorem C05_associated_trajectories_in_time_order :
  forall (A : Type) (t1 t2 : list (R * A)) (maxd off : R), t1 <> [] -> t2 <> [] ->
  StronglySorted Rlt (stamps t1) -> StronglySorted Rlt (stamps t2) ->
  StronglySorted lt_both (assoc_pairs t1 t2 maxd off).
Proof. exact @associate_time_order. Qed.
Print Assumptions C05_associated_trajectories_in_time_order.

(* the executable checker used to classify implementation outputs is sound *)
Theorem C05_checker_sound :
  forall (s1 s2 : list R) maxd off m, match_spec_b s1 s2 maxd off m = true ->
  (forall i j, In (i, j) m -> (i < length s1)%nat /\ (j < length s2)%nat /\ D s1 s2 off i j <= maxd /\
     forall k, (k < length s2)%nat -> D s1 s2 off i j <= D s1 s2 off i k) /\
  StronglySorted lt (map fst m) /\ StronglySorted lt (map snd m) /\
  (forall i j d, (i < length s1)%nat -> candR s1 s2 maxd off i = Some (j, d) -> exists i', In (i', j) m).
Proof. exact match_spec_b_sound. Qed.
Print Assumptions C05_checker_sound.

(* non-vacuity + regression witness for finding F2 (binary64 run of the old and new loop) *)
Theorem C05_old_code_used_a_pose_twice :
  matching_old OldWitness.w_s1 OldWitness.w_s2 OldWitness.w_maxd OldWitness.w_off = [(0, 0); (1, 0)]%nat /\
  matching OldWitness.w_s1 OldWitness.w_s2 OldWitness.w_maxd OldWitness.w_off = [(0, 0)]%nat.
Proof. exact (conj OldWitness.matching_old_uses_pose_twice OldWitness.matching_new_on_witness). Qed.
Print Assumptions C05_old_code_used_a_pose_twice.

(* ---- translator tie: matching_time_indices_gen is re-translated from evo/core/sync.py on every run ---- *)
(* the translated source returns exactly the two index lists of the model *)
Theorem C05_translated_source_is_the_model : forall (s1 s2 : list R) (maxd off : R),
  matching_time_indices_gen s1 s2 maxd off = (map fst (matching s1 s2 maxd off), map snd (matching s1 s2 maxd off)).
Proof. exact matching_time_indices_gen_is_model. Qed.
Print Assumptions C05_translated_source_is_the_model.
(* its loop (array arithmetic, argmin, dict updates) is the model's loop for every number system, binary64 included *)
Theorem C05_translated_loop_is_the_model_loop : forall (T : Type) (ops : NumOps T) (s2 : list T) (off maxd : T) (b : list (nat * (T * nat))) (i1 : nat) (x : T),
  (let diffs := np_abs_list (np_sub_scalar (np_add_scalar s2 off) x) in
   let index_2 := np_argmin diffs in
   if (nleb (np_item diffs index_2) maxd) &&
      (negb (py_dict_mem index_2 b) || (nltb (np_item diffs index_2) (fst (py_dict_get (n0, 0%nat) index_2 b))))
   then py_dict_set index_2 (np_item diffs index_2, i1) b else b)%bool
  = upd b i1 (cand s2 off maxd x).
Proof. exact (@body_eq). Qed.
Print Assumptions C05_translated_loop_is_the_model_loop.
