(* SettingsFSProofs.v - theorems for C19 over the model SettingsFS.v. *)
From Coq Require Import List Arith Bool Lia.
From Evo Require Import SettingsFS.
Import ListNotations.

(* ------------------------------------------------------------------------------------------ *)
(* basic facts about lookup / update                                                           *)
(* ------------------------------------------------------------------------------------------ *)
Lemma target_eqb_refl t : target_eqb t t = true.
Proof. destruct t; reflexivity. Qed.
Lemma target_eqb_eq t u : target_eqb t u = true <-> t = u.
Proof. destruct t, u; simpl; split; congruence. Qed.
Lemma content_eqb_eq c d : content_eqb c d = true <-> c = d.
Proof.
  destruct c as [a b], d as [a' b']; unfold content_eqb; simpl.
  destruct a, a', b, b'; simpl; split; congruence.
Qed.
Lemma path_eqb_eq p q : path_eqb p q = true <-> p = q.
Proof.
  destruct p, q; simpl; try (split; congruence).
  - rewrite target_eqb_eq. split; congruence.
  - rewrite andb_true_iff, Nat.eqb_eq, target_eqb_eq. split; [intros [-> ->]; reflexivity | intros H; inversion H; auto].
  - rewrite Nat.eqb_eq. split; congruence.
  - rewrite Nat.eqb_eq. split; congruence.
Qed.
Lemma path_eqb_refl p : path_eqb p p = true.
Proof. apply path_eqb_eq; reflexivity. Qed.
Lemma path_eqb_neq p q : p <> q -> path_eqb p q = false.
Proof. intros H. destruct (path_eqb p q) eqn:E; [apply path_eqb_eq in E; contradiction | reflexivity]. Qed.

Lemma dir_update f p s : dir (update f p s) = dir f.
Proof. destruct p; reflexivity. Qed.
Lemma foreign_update_indir f p s k : in_dir p = true -> foreign (update f p s) k = foreign f k.
Proof. destruct p; simpl; try discriminate; reflexivity. Qed.

Lemma lookup_update_same f p s : writable f p = true -> lookup (update f p s) p = s.
Proof.
  destruct p; simpl; try discriminate; intros H; rewrite ?H, ?target_eqb_refl, ?Nat.eqb_refl; reflexivity.
Qed.
Lemma lookup_update_other f p s q : p <> q -> lookup (update f p s) q = lookup f q.
Proof.
  intros N. destruct p, q; simpl; try reflexivity.
  - destruct (target_eqb t0 t) eqn:E; [apply target_eqb_eq in E; subst; contradiction | reflexivity].
  - destruct (Nat.eqb owner0 owner && target_eqb t0 t) eqn:E; [|reflexivity].
    apply andb_true_iff in E as [E1 E2]. apply Nat.eqb_eq in E1. apply target_eqb_eq in E2. subst. contradiction.
  - destruct (Nat.eqb k0 k) eqn:E; [apply Nat.eqb_eq in E; subst; contradiction | reflexivity].
  - destruct (Nat.eqb k0 k) eqn:E; [apply Nat.eqb_eq in E; subst; contradiction | reflexivity].
Qed.

Lemma lookup_absent_nodir f p : dir f = false -> in_dir p = true -> lookup f p = Absent.
Proof. intros H. destruct p; simpl; try discriminate; rewrite H; reflexivity. Qed.

(* ------------------------------------------------------------------------------------------ *)
Lemma Some_inj {A} (a b : A) : Some a = Some b -> a = b.
Proof. congruence. Qed.
Ltac some_inv H := first [discriminate H | apply Some_inj in H; subst].

(* L1. any participants that keep the discipline: never partial, complete stays complete       *)
(* ------------------------------------------------------------------------------------------ *)
Definition never_partial (f : fs) : Prop :=
  lookup f (PShared TSet) <> Partial /\ lookup f (PShared TVer) <> Partial.

Lemma never_partial_b_spec f : never_partial_b f = true <-> never_partial f.
Proof.
  unfold never_partial_b, never_partial.
  destruct (lookup f (PShared TSet)), (lookup f (PShared TVer)); simpl; split; intros H;
    try discriminate; try reflexivity; try (split; congruence); destruct H; congruence.
Qed.

(* the monitor is sound: a temp file it believes finished is complete on disk *)
Definition mon_sound (f : fs) (ms : mons) : Prop :=
  forall p t, ms p t = true -> is_present (lookup f (PTmp p t)) = true.

Lemma mons_set_same ms p m : mons_set ms p m p = m.
Proof. unfold mons_set. rewrite Nat.eqb_refl. reflexivity. Qed.
Lemma mons_set_other ms p m q : q <> p -> mons_set ms p m q = ms q.
Proof. unfold mons_set. intros H. apply Nat.eqb_neq in H. rewrite H. reflexivity. Qed.

Definition shared_kept (f f' : fs) : Prop :=
  forall t, lookup f' (PShared t) = lookup f (PShared t) \/
            (exists c, lookup f' (PShared t) = Present c).

Lemma legal_step_preserves f ms p e m' f' :
  mon_sound f ms -> legal_step p (ms p) e = Some m' -> fs_step f e = Some f' ->
  mon_sound f' (mons_set ms p m') /\ shared_kept f f' /\ (dir f = true -> dir f' = true).
Proof.
  intros S L E.
  destruct e as [q r|ok|q|q|q c|s d|q c|c|q]; simpl in L; cbn [fs_step] in E.
  - (* exists *) inversion L; subst. destruct (Bool.eqb _ _); some_inv E.
    split; [|split; [intros t; left; reflexivity|auto]].
    intros a t. destruct (Nat.eq_dec a p); [subst; rewrite mons_set_same; apply S | rewrite mons_set_other by auto; apply S].
  - (* mkdir *) destruct ok; [|discriminate]. inversion L; subst.
    assert (MS : forall a t, mons_set ms p (ms p) a t = ms a t).
    { intros a t. destruct (Nat.eq_dec a p); [subst; rewrite mons_set_same | rewrite mons_set_other by auto]; reflexivity. }
    destruct (dir f) eqn:D; some_inv E.
    + split; [|split; [intros t; left; reflexivity|auto]]. intros a t; rewrite MS; apply S.
    + split; [|split; [|auto]].
      * intros a t; rewrite MS; intros H. apply S in H. rewrite lookup_absent_nodir in H by auto. discriminate.
      * intros t; left. simpl. rewrite D. reflexivity.
  - (* openw *)
    destruct q as [|t|o t|k|k]; try discriminate.
    + destruct (Nat.eqb o p) eqn:O; [|discriminate]. apply Nat.eqb_eq in O; subst o. inversion L; subst.
      destruct (writable f (PTmp p t)) eqn:W; [|discriminate]. some_inv E.
      split; [|split; [|rewrite dir_update; auto]].
      * intros a u. destruct (Nat.eq_dec a p).
        -- subst. rewrite mons_set_same. unfold mon_set. destruct (target_eqb u t) eqn:U; [discriminate|].
           intros H. rewrite lookup_update_other; [apply S; exact H|]. intros X; inversion X; subst. rewrite target_eqb_refl in U; discriminate.
        -- rewrite mons_set_other by auto. intros H. rewrite lookup_update_other; [apply S; exact H|]. congruence.
      * intros u; left. apply lookup_update_other. discriminate.
    + inversion L; subst. simpl in E. some_inv E.
      split; [|split; [|auto]].
      * intros a u. assert (mons_set ms p (ms p) a u = ms a u) as ->.
        { destruct (Nat.eq_dec a p); [subst; rewrite mons_set_same | rewrite mons_set_other by auto]; reflexivity. }
        intros H. apply S in H. exact H.
      * intros u; left; reflexivity.
  - (* write *)
    assert (f' = f) by (destruct (lookup f q); inversion E; reflexivity). subst f'.
    destruct q as [|t|o t|k|k]; try discriminate.
    + destruct (Nat.eqb o p) eqn:O; [|discriminate]. apply Nat.eqb_eq in O; subst o. inversion L; subst.
      split; [|split; [intros u; left; reflexivity|auto]].
      intros a u. destruct (Nat.eq_dec a p).
      * subst. rewrite mons_set_same. unfold mon_set. destruct (target_eqb u t); [discriminate|]. apply S.
      * rewrite mons_set_other by auto. apply S.
    + inversion L; subst. split; [|split; [intros u; left; reflexivity|auto]].
      intros a u. destruct (Nat.eq_dec a p); [subst; rewrite mons_set_same | rewrite mons_set_other by auto]; apply S.
  - (* close *)
    destruct (lookup f q) eqn:Q; try discriminate. some_inv E.
    destruct q as [|t|o t|k|k]; try discriminate.
    + destruct (Nat.eqb o p) eqn:O; [|discriminate]. apply Nat.eqb_eq in O; subst o. inversion L; subst.
      assert (W : writable f (PTmp p t) = true).
      { simpl. simpl in Q. destruct (dir f); [reflexivity|discriminate]. }
      split; [|split; [|rewrite dir_update; auto]].
      * intros a u. destruct (Nat.eq_dec a p).
        -- subst. rewrite mons_set_same. unfold mon_set. destruct (target_eqb u t) eqn:U.
           ++ apply target_eqb_eq in U; subst. intros _. rewrite lookup_update_same by exact W. reflexivity.
           ++ intros H. rewrite lookup_update_other; [apply S; exact H|]. intros X; inversion X; subst. rewrite target_eqb_refl in U; discriminate.
        -- rewrite mons_set_other by auto. intros H. rewrite lookup_update_other; [apply S; exact H|]. congruence.
      * intros u; left. apply lookup_update_other. discriminate.
    + inversion L; subst. split; [|split; [|auto]].
      * intros a u. assert (mons_set ms p (ms p) a u = ms a u) as ->.
        { destruct (Nat.eq_dec a p); [subst; rewrite mons_set_same | rewrite mons_set_other by auto]; reflexivity. }
        intros H. apply S in H. exact H.
      * intros u; left; reflexivity.
  - (* rename *)
    destruct s as [|t|o t|k|k]; try discriminate.
    + destruct d as [|u|o' u|k|k]; try discriminate.
      destruct (Nat.eqb o p) eqn:O; [|discriminate]. apply Nat.eqb_eq in O; subst o.
      destruct (target_eqb t u) eqn:TU; [|discriminate]. apply target_eqb_eq in TU; subst u.
      simpl in L. destruct (ms p t) eqn:M; [|discriminate]. inversion L; subst.
      pose proof (S p t M) as Pres.
      destruct (writable f (PTmp p t) && writable f (PShared t)) eqn:W; [|discriminate].
      apply andb_true_iff in W as [W1 W2].
      destruct (lookup f (PTmp p t)) eqn:Q; try discriminate. some_inv E.
      assert (W2' : writable (update f (PTmp p t) Absent) (PShared t) = true) by (simpl; simpl in W2; exact W2).
      split; [|split; [|rewrite !dir_update; auto]].
      * intros a u. destruct (Nat.eq_dec a p).
        -- subst. rewrite mons_set_same. unfold mon_set. destruct (target_eqb u t) eqn:U; [discriminate|].
           intros H. rewrite lookup_update_other by discriminate. rewrite lookup_update_other; [apply S; exact H|].
           intros X; inversion X; subst. rewrite target_eqb_refl in U; discriminate.
        -- rewrite mons_set_other by auto. intros H. rewrite lookup_update_other by discriminate.
           rewrite lookup_update_other; [apply S; exact H|]. congruence.
      * intros u. destruct (target_eqb u t) eqn:U.
        -- apply target_eqb_eq in U; subst. right. exists c. apply lookup_update_same. exact W2'.
        -- left. rewrite lookup_update_other.
           ++ apply lookup_update_other. discriminate.
           ++ intros X; inversion X; subst. rewrite target_eqb_refl in U; discriminate.
    + destruct d as [|u|o' u|k'|k']; try discriminate. inversion L; subst.
      destruct (writable f (PForeign k) && writable f (PForeign k')); [|discriminate].
      destruct (lookup f (PForeign k)) eqn:Q; try discriminate; some_inv E;
      (split; [|split; [|auto]];
       [ intros a u; assert (mons_set ms p (ms p) a u = ms a u) as ->
           by (destruct (Nat.eq_dec a p); [subst; rewrite mons_set_same | rewrite mons_set_other by auto]; reflexivity);
         intros H; apply S in H; exact H
       | intros u; left; reflexivity ]).
  - (* read *) inversion L; subst.
    assert (f' = f) by (destruct (lookup f q); try discriminate; destruct (content_eqb _ _); inversion E; reflexivity). subst.
    split; [|split; [intros t; left; reflexivity|auto]].
    intros a t. destruct (Nat.eq_dec a p); [subst; rewrite mons_set_same | rewrite mons_set_other by auto]; apply S.
  - (* load *) inversion L; subst.
    assert (f' = f) by (destruct (lookup f (PShared TSet)); try discriminate; destruct (content_eqb _ _); inversion E; reflexivity). subst.
    split; [|split; [intros t; left; reflexivity|auto]].
    intros a t. destruct (Nat.eq_dec a p); [subst; rewrite mons_set_same | rewrite mons_set_other by auto]; apply S.
  - (* unlink *) discriminate.
Qed.

Lemma shared_kept_never_partial f f' : shared_kept f f' -> never_partial f -> never_partial f'.
Proof.
  intros K [A B]. split.
  - destruct (K TSet) as [E|[c E]]; rewrite E; [exact A|discriminate].
  - destruct (K TVer) as [E|[c E]]; rewrite E; [exact B|discriminate].
Qed.

Lemma shared_kept_present f f' t :
  shared_kept f f' -> is_present (lookup f (PShared t)) = true -> is_present (lookup f' (PShared t)) = true.
Proof. intros K H. destruct (K t) as [E|[c E]]; rewrite E; [exact H|reflexivity]. Qed.

Lemma shared_kept_refl f : shared_kept f f.
Proof. intros t; left; reflexivity. Qed.
Lemma shared_kept_trans f g h : shared_kept f g -> shared_kept g h -> shared_kept f h.
Proof.
  intros A B t. destruct (B t) as [E|[c E]]; [rewrite E; apply A | right; eauto].
Qed.

(* along a whole legal run: the monitor stays sound, shared files are only ever replaced by complete ones *)
Theorem legal_run_sound :
  forall tr f ms f' ms', legal_run f ms tr = Some (f', ms') -> mon_sound f ms ->
    mon_sound f' ms' /\ shared_kept f f'.
Proof.
  induction tr as [|[p e] r IH]; intros f ms f' ms' L S; simpl in L.
  - some_inv L. injection L as <- <-. split; [exact S|apply shared_kept_refl].
  - destruct (legal_step p (ms p) e) as [m'|] eqn:LS; [|discriminate].
    destruct (fs_step f e) as [f1|] eqn:E.
    + destruct (legal_step_preserves _ _ _ _ _ _ S LS E) as (S1 & K1 & _).
      destruct (IH _ _ _ _ L S1) as (S2 & K2). split; [exact S2|eapply shared_kept_trans; eassumption].
    + apply (IH _ _ _ _ L S).
Qed.

Lemma legal_run_app tr1 : forall tr2 f ms r, legal_run f ms (tr1 ++ tr2) = Some r ->
  exists f1 ms1, legal_run f ms tr1 = Some (f1, ms1) /\ legal_run f1 ms1 tr2 = Some r.
Proof.
  induction tr1 as [|[p e] t IH]; intros tr2 f ms r H; simpl in *.
  - eauto.
  - destruct (legal_step p (ms p) e); [|discriminate].
    destruct (fs_step f e); apply IH; exact H.
Qed.

Lemma run_legal_run tr : forall f ms f' ms', legal_run f ms tr = Some (f', ms') -> f' = run f tr.
Proof.
  induction tr as [|[p e] t IH]; intros f ms f' ms' H; simpl in *.
  - congruence.
  - destruct (legal_step p (ms p) e); [|discriminate]. destruct (fs_step f e); eapply IH; exact H.
Qed.

Lemma mon0_sound f : mon_sound f (fun _ => mon0).
Proof. intros p t H. discriminate. Qed.

(* headline: any number of processes, any interleaving, any crash points (a crash = a process that
   contributes no further events; every prefix of a legal trace is a legal trace) *)
Theorem inv_settings :
  forall (f : fs) (tr : list (nat * ev)), never_partial f -> legal_run_b f tr = true ->
  forall k, never_partial (run f (firstn k tr)).
Proof.
  intros f tr N L k. unfold legal_run_b in L.
  destruct (legal_run f (fun _ => mon0) tr) as [[fr msr]|] eqn:E; [|discriminate].
  rewrite <- (firstn_skipn k tr) in E.
  destruct (legal_run_app _ _ _ _ _ E) as (f1 & ms1 & E1 & _).
  rewrite <- (run_legal_run _ _ _ _ _ E1).
  destruct (legal_run_sound _ _ _ _ _ E1 (mon0_sound f)) as (_ & K1).
  eapply shared_kept_never_partial; eassumption.
Qed.

(* monotone history: a shared file that is complete at some instant is complete at every later one *)
Theorem complete_is_stable :
  forall (f : fs) (tr : list (nat * ev)) (t : target), legal_run_b f tr = true ->
  forall j k, j <= k ->
    is_present (lookup (run f (firstn j tr)) (PShared t)) = true ->
    is_present (lookup (run f (firstn k tr)) (PShared t)) = true.
Proof.
  intros f tr t L j k JK H. unfold legal_run_b in L.
  destruct (legal_run f (fun _ => mon0) tr) as [[fr msr]|] eqn:E; [|discriminate].
  rewrite <- (firstn_skipn k tr) in E.
  destruct (legal_run_app _ _ _ _ _ E) as (fk & msk & Ek & _).
  assert (FJ : firstn j tr = firstn j (firstn k tr)) by (rewrite firstn_firstn; f_equal; lia).
  rewrite FJ in H.
  rewrite <- (run_legal_run _ _ _ _ _ Ek).
  rewrite <- (firstn_skipn j (firstn k tr)) in Ek.
  destruct (legal_run_app _ _ _ _ _ Ek) as (fj & msj & Ej & Ejk).
  rewrite <- (run_legal_run _ _ _ _ _ Ej) in H.
  destruct (legal_run_sound _ _ _ _ _ Ej (mon0_sound f)) as (Sj & _).
  destruct (legal_run_sound _ _ _ _ _ Ejk Sj) as (_ & Kjk).
  eapply shared_kept_present; eassumption.
Qed.

(* the old protocol breaks the invariant: truncating the shared file in place *)
Theorem old_protocol_refuted :
  exists f tr, never_partial f /\ ~ never_partial (run f tr) /\
               tr = [(0, EOpenW (PShared TSet))] /\ legal_run_b f tr = false.
Proof.
  exists (fs_home true (Present c_defaults) (Present c_version)), [(0, EOpenW (PShared TSet))].
  split; [split; discriminate|]. split; [|split; reflexivity].
  intros [H _]. apply H. reflexivity.
Qed.

(* ------------------------------------------------------------------------------------------ *)
(* L2. evo's own processes: nobody fails, every load sees every default key                     *)
(* ------------------------------------------------------------------------------------------ *)
Definition set_all (f : fs) : bool :=
  match lookup f (PShared TSet) with Present s => all_keys s | _ => false end.
Definition set_ok (f : fs) : bool :=
  match lookup f (PShared TSet) with Present s => all_keys s | Absent => true | Partial => false end.
Definition ver_cur (f : fs) : bool :=
  match lookup f (PShared TVer) with Present c => cur c | _ => false end.

(* states of a home directory that evo's own operations (including crashes) can produce *)
Definition glob (f : fs) : Prop :=
  never_partial f /\
  (is_present (lookup f (PShared TSet)) = true -> is_present (lookup f (PShared TVer)) = true) /\
  (ver_cur f = true -> set_ok f = true) /\
  (forall k, is_present (foreign f k) = true).

Definition tmp_holds (pid : nat) (f : fs) (t : target) (s : tmpk) : Prop :=
  match s with
  | TUnknown => True
  | TOpen => lookup f (PTmp pid t) = Partial
  | TDone c => lookup f (PTmp pid t) = Present c
  end.

Definition holds (pid : nat) (k : know) (f : fs) : Prop :=
  (kdir k = true -> dir f = true) /\
  (kver k = true -> is_present (lookup f (PShared TVer)) = true) /\
  (kvercur k = true -> ver_cur f = true) /\
  (kset k = true -> is_present (lookup f (PShared TSet)) = true) /\
  (ksetall k = true -> set_all f = true) /\
  (ksetok k = true -> set_ok f = true) /\
  (forall t, tmp_holds pid f t (ktmp k t)).

(* what one step of process pid may do to the others (guarantee) *)
Definition guar (pid : nat) (f f' : fs) : Prop :=
  (dir f = true -> dir f' = true) /\
  (lookup f' (PShared TSet) = lookup f (PShared TSet) \/ set_all f' = true) /\
  (lookup f' (PShared TVer) = lookup f (PShared TVer) \/ ver_cur f' = true) /\
  (forall q t, q <> pid -> lookup f' (PTmp q t) = lookup f (PTmp q t)).

Lemma guar_refl pid f : guar pid f f.
Proof. repeat split; auto. Qed.

Lemma set_all_ok f : set_all f = true -> set_ok f = true.
Proof. unfold set_all, set_ok. destruct (lookup f (PShared TSet)); auto; discriminate. Qed.
Lemma set_all_present f : set_all f = true -> is_present (lookup f (PShared TSet)) = true.
Proof. unfold set_all. destruct (lookup f (PShared TSet)); auto. Qed.
Lemma ver_cur_present f : ver_cur f = true -> is_present (lookup f (PShared TVer)) = true.
Proof. unfold ver_cur. destruct (lookup f (PShared TVer)); auto. Qed.
Lemma present_ok_all f : is_present (lookup f (PShared TSet)) = true -> set_ok f = true -> set_all f = true.
Proof. unfold set_ok, set_all. destruct (lookup f (PShared TSet)); auto; discriminate. Qed.
Lemma present_dir f p : in_dir p = true -> is_present (lookup f p) = true -> dir f = true.
Proof. destruct p; simpl; try discriminate; destruct (dir f); auto. Qed.

(* knowledge is stable under the steps of the others *)
Lemma holds_stable pid q k f f' : q <> pid -> guar pid f f' -> holds q k f -> holds q k f'.
Proof.
  intros NE (Gd & Gs & Gv & Gt) (Hd & Hv & Hvc & Hs & Hsa & Hso & Ht).
  unfold holds. repeat split.
  - auto.
  - intros X. destruct Gv as [E|E]; [rewrite E; auto | apply ver_cur_present; exact E].
  - intros X. destruct Gv as [E|E]; [unfold ver_cur in *; rewrite E; auto | exact E].
  - intros X. destruct Gs as [E|E]; [rewrite E; auto | apply set_all_present; exact E].
  - intros X. destruct Gs as [E|E]; [unfold set_all in *; rewrite E; auto | exact E].
  - intros X. destruct Gs as [E|E]; [unfold set_ok in *; rewrite E; auto | apply set_all_ok; exact E].
  - intros t. specialize (Ht t). unfold tmp_holds in *. rewrite Gt by exact NE. exact Ht.
Qed.

Lemma holds_norm pid k f : glob f -> holds pid k f -> holds pid (norm k) f.
Proof.
  intros (GN & G1 & G2 & G3) (Hd & Hv & Hvc & Hs & Hsa & Hso & Ht).
  assert (SA : ksetall k || kset k && ksetok k = true -> set_all f = true).
  { intros X. apply orb_true_iff in X as [X|X]; [auto|]. apply andb_true_iff in X as [X1 X2].
    apply present_ok_all; auto. }
  unfold holds, norm; cbn [kdir kver kvercur kset ksetall ksetok ktmp]. repeat split.
  - intros X. apply orb_true_iff in X as [X|X]; [apply orb_true_iff in X as [X|X]|]; auto.
    + eapply present_dir; [|apply Hv; exact X]. reflexivity.
    + eapply present_dir; [|apply Hs; exact X]. reflexivity.
  - intros X. apply orb_true_iff in X as [X|X]; [apply orb_true_iff in X as [X|X]|]; auto.
    + apply ver_cur_present; auto.
  - auto.
  - intros X. apply orb_true_iff in X as [X|X]; auto. apply set_all_present; auto.
  - exact SA.
  - intros X. apply orb_true_iff in X as [X|X]; auto. apply set_all_ok; auto.
  - exact Ht.
Qed.

(* a step that only touches temp files *)
Definition same_shared (f f' : fs) : Prop :=
  dir f' = dir f /\ (forall t, lookup f' (PShared t) = lookup f (PShared t)) /\ (forall k, foreign f' k = foreign f k).

Lemma same_shared_update_tmp f o t s : same_shared f (update f (PTmp o t) s).
Proof.
  split; [apply dir_update|split].
  - intros u. apply lookup_update_other. discriminate.
  - intros k. reflexivity.
Qed.

Lemma glob_same f f' : same_shared f f' -> glob f -> glob f'.
Proof.
  intros (D & L & F) (N & G1 & G2 & G3).
  unfold glob, never_partial, ver_cur, set_ok in *. rewrite !L. repeat split; try tauto.
  intros k. rewrite F. apply G3.
Qed.

Lemma guar_same pid f f' :
  same_shared f f' -> (forall q t, q <> pid -> lookup f' (PTmp q t) = lookup f (PTmp q t)) -> guar pid f f'.
Proof.
  intros (D & L & F) T. unfold guar. rewrite D, !L. repeat split; auto.
Qed.

Lemma holds_same pid k f f' :
  same_shared f f' -> (forall t, tmp_holds pid f t (ktmp k t) -> tmp_holds pid f' t (ktmp k t)) ->
  holds pid k f -> holds pid k f'.
Proof.
  intros (D & L & F) T (Hd & Hv & Hvc & Hs & Hsa & Hso & Ht).
  unfold holds, ver_cur, set_all, set_ok in *. rewrite D, !L. repeat split; auto.
Qed.

Lemma tmp_lookup_other f pid t u s : u <> t -> lookup (update f (PTmp pid t) s) (PTmp pid u) = lookup f (PTmp pid u).
Proof. intros N. apply lookup_update_other. congruence. Qed.

Lemma holds_ktmp_set pid k f t s f' :
  holds pid k f -> same_shared f f' ->
  (forall u, u <> t -> lookup f' (PTmp pid u) = lookup f (PTmp pid u)) ->
  tmp_holds pid f' t s -> holds pid (ktmp_set k t s) f'.
Proof.
  intros H SS O T.
  destruct H as (Hd & Hv & Hvc & Hs & Hsa & Hso & Ht). destruct SS as (D & L & F).
  unfold holds, ktmp_set, ver_cur, set_all, set_ok in *; cbn [kdir kver kvercur kset ksetall ksetok ktmp].
  rewrite D, !L. repeat split; auto.
  intros u. destruct (target_eqb u t) eqn:U.
  - apply target_eqb_eq in U. subst. exact T.
  - assert (u <> t) by (intros ->; rewrite target_eqb_refl in U; discriminate).
    specialize (Ht u). unfold tmp_holds in *. rewrite O by assumption. exact Ht.
Qed.

Lemma holds_dir_false pid k f : holds pid k f -> dir f = false ->
  kver k = false /\ kvercur k = false /\ kset k = false /\ ksetall k = false /\
  (forall t, ktmp k t = TUnknown) /\ kdir k = false.
Proof.
  intros (Hd & Hv & Hvc & Hs & Hsa & Hso & Ht) D.
  assert (LS : forall p, in_dir p = true -> lookup f p = Absent) by (intros; apply lookup_absent_nodir; auto).
  repeat split.
  - destruct (kver k); auto. specialize (Hv eq_refl). rewrite LS in Hv by reflexivity. discriminate.
  - destruct (kvercur k); auto. specialize (Hvc eq_refl). unfold ver_cur in Hvc. rewrite LS in Hvc by reflexivity. discriminate.
  - destruct (kset k); auto. specialize (Hs eq_refl). rewrite LS in Hs by reflexivity. discriminate.
  - destruct (ksetall k); auto. specialize (Hsa eq_refl). unfold set_all in Hsa. rewrite LS in Hsa by reflexivity. discriminate.
  - intros t. specialize (Ht t). destruct (ktmp k t); auto; unfold tmp_holds in Ht; rewrite LS in Ht by reflexivity; discriminate.
  - destruct (kdir k); auto. specialize (Hd eq_refl). congruence.
Qed.

Lemma abstract_act_sound pid k a k' f :
  glob f -> holds pid k f -> abstract_act k a = Some k' ->
  exists f', fs_step f (act_ev pid a) = Some f' /\ guar pid f f' /\ glob f' /\ holds pid k' f'.
Proof.
  intros G H A. pose proof H as (Hd & Hv & Hvc & Hs & Hsa & Hso & Ht).
  destruct a as [ok|q|q c|s d]; cbn [abstract_act] in A.
  - (* mkdir *)
    destruct ok; [|discriminate]. some_inv A. cbn [act_ev fs_step].
    destruct (dir f) eqn:D.
    + exists f. split; [reflexivity|]. split; [apply guar_refl|]. split; [exact G|].
      unfold holds, with_dir in *; cbn [kdir kver kvercur kset ksetall ksetok ktmp]. repeat split; auto.
    + exists (empty_dir f true). split; [reflexivity|].
      assert (LA : forall p, in_dir p = true -> lookup (empty_dir f true) p = Absent) by (intros p; destruct p; simpl; auto; discriminate).
      assert (LB : forall p, in_dir p = true -> lookup f p = Absent) by (intros; apply lookup_absent_nodir; auto).
      destruct (holds_dir_false _ _ _ H D) as (K1 & K2 & K3 & K4 & K5 & K6).
      split; [|split].
      * unfold guar, set_all, ver_cur. rewrite !LA, !LB by reflexivity. repeat split; auto.
        intros q t _. rewrite LA, LB by reflexivity. reflexivity.
      * destruct G as (N & G1 & G2 & G3). unfold glob, never_partial, ver_cur, set_ok. rewrite !LA by reflexivity.
        repeat split; try discriminate; auto.
      * unfold holds, with_dir, ver_cur, set_all, set_ok; cbn [kdir kver kvercur kset ksetall ksetok ktmp].
        rewrite !LA by reflexivity. rewrite K1, K2, K3, K4. repeat split; try discriminate; auto.
        intros t. rewrite K5. exact I.
  - (* open *)
    destruct q as [| |t|]; try discriminate.
    destruct (kdir k) eqn:KD; [|discriminate]. some_inv A. cbn [act_ev resolve fs_step].
    assert (W : writable f (PTmp pid t) = true) by (simpl; auto). rewrite W.
    eexists; split; [reflexivity|].
    pose proof (same_shared_update_tmp f pid t Partial) as SS.
    split; [|split].
    + apply guar_same; [exact SS|]. intros q u NE. apply lookup_update_other. congruence.
    + eapply glob_same; eassumption.
    + eapply holds_ktmp_set; eauto.
      * intros u NE. apply tmp_lookup_other; auto.
      * unfold tmp_holds. apply lookup_update_same; exact W.
  - (* close *)
    destruct q as [| |t|]; try discriminate.
    destruct (ktmp k t) eqn:KT; try discriminate. some_inv A. cbn [act_ev resolve fs_step].
    pose proof (Ht t) as P. rewrite KT in P. unfold tmp_holds in P. rewrite P.
    assert (W : writable f (PTmp pid t) = true).
    { simpl. simpl in P. destruct (dir f); [reflexivity|discriminate]. }
    eexists; split; [reflexivity|].
    pose proof (same_shared_update_tmp f pid t (Present c)) as SS.
    split; [|split].
    + apply guar_same; [exact SS|]. intros q u NE. apply lookup_update_other. congruence.
    + eapply glob_same; eassumption.
    + eapply holds_ktmp_set; eauto.
      * intros u NE. apply tmp_lookup_other; auto.
      * unfold tmp_holds. apply lookup_update_same; exact W.
  - (* rename *)
    destruct s as [| |t|]; try discriminate. destruct d as [|u| |]; try discriminate.
    destruct (target_eqb t u) eqn:TU; [|discriminate]. apply target_eqb_eq in TU. subst u.
    destruct (ktmp k t) as [| |c] eqn:KT; try discriminate.
    pose proof (Ht t) as P. rewrite KT in P. unfold tmp_holds in P.
    assert (D : dir f = true) by (eapply present_dir; [|rewrite P]; reflexivity).
    cbn [act_ev resolve fs_step].
    assert (W1 : writable f (PTmp pid t) = true) by (simpl; auto).
    assert (W2 : writable f (PShared t) = true) by (simpl; auto).
    rewrite W1, W2, P. cbn [andb].
    set (f1 := update f (PTmp pid t) Absent).
    set (f' := update f1 (PShared t) (Present c)).
    assert (W2' : writable f1 (PShared t) = true) by (unfold f1; simpl; auto).
    assert (LS : lookup f' (PShared t) = Present c) by (apply lookup_update_same; exact W2').
    assert (LO : forall u, u <> t -> lookup f' (PShared u) = lookup f (PShared u)).
    { intros u NE. unfold f', f1. rewrite lookup_update_other by congruence. apply lookup_update_other. discriminate. }
    assert (LT : forall q u, PTmp q u <> PTmp pid t -> lookup f' (PTmp q u) = lookup f (PTmp q u)).
    { intros q u NE. unfold f', f1. rewrite lookup_update_other by discriminate. apply lookup_update_other. congruence. }
    assert (DF : dir f' = true) by (unfold f', f1; rewrite !dir_update; exact D).
    assert (FF : forall j, foreign f' j = foreign f j).
    { intros j. unfold f', f1. rewrite foreign_update_indir by reflexivity. apply foreign_update_indir. reflexivity. }
    exists f'. split; [reflexivity|].
    destruct G as ((N1 & N2) & G1 & G2 & G3).
    destruct t.
    + (* settings *)
      destruct (all_keys c && kver k) eqn:C; [|discriminate]. apply andb_true_iff in C as [CA CV]. some_inv A.
      assert (SA : set_all f' = true) by (unfold set_all; rewrite LS; exact CA).
      assert (LV : lookup f' (PShared TVer) = lookup f (PShared TVer)) by (apply LO; discriminate).
      assert (GL : glob f').
      { unfold glob, never_partial, ver_cur, set_ok. rewrite LS, LV. repeat split; try discriminate; auto;
        try (intros j; rewrite FF; apply G3). }
      split; [|split; [exact GL|]].
      * unfold guar. repeat split; auto. intros q u NE. apply LT. congruence.
      * apply holds_norm; [exact GL|].
        unfold holds, with_setall, ktmp_set, ver_cur, set_ok; cbn [kdir kver kvercur kset ksetall ksetok ktmp].
        rewrite LV. repeat split; auto.
        -- intros _. rewrite LS. reflexivity.
        -- intros _. apply set_all_ok in SA. exact SA.
        -- intros u. destruct (target_eqb u TSet) eqn:U; [exact I|].
           specialize (Ht u). unfold tmp_holds in *. rewrite LT; [exact Ht|].
           intros X. inversion X; subst. discriminate.
    + (* version *)
      destruct (cur c && ksetok k) eqn:C; [|discriminate]. apply andb_true_iff in C as [CC CO]. some_inv A.
      assert (VC : ver_cur f' = true) by (unfold ver_cur; rewrite LS; exact CC).
      assert (LV : lookup f' (PShared TSet) = lookup f (PShared TSet)) by (apply LO; discriminate).
      assert (GL : glob f').
      { unfold glob, never_partial, ver_cur, set_ok. rewrite LS, LV. repeat split; try discriminate; auto;
        try (intros j; rewrite FF; apply G3); try (intros _; apply Hso in CO; exact CO). }
      split; [|split; [exact GL|]].
      * unfold guar. repeat split; auto. intros q u NE. apply LT. congruence.
      * apply holds_norm; [exact GL|].
        unfold holds, with_vercur, ktmp_set, set_all, set_ok; cbn [kdir kver kvercur kset ksetall ksetok ktmp].
        rewrite LV. repeat split; auto.
        -- intros _. rewrite LS. reflexivity.
        -- intros u. destruct (target_eqb u TVer) eqn:U; [exact I|].
           specialize (Ht u). unfold tmp_holds in *. rewrite LT; [exact Ht|].
           intros X. inversion X; subst. discriminate.
Qed.

Lemma in_all_contents c : In c all_contents.
Proof. destruct c as [[|] [|]]; simpl; auto. Qed.

Lemma glob_exists_shared f t : glob f -> exists_b f (PShared t) = is_present (lookup f (PShared t)).
Proof.
  intros ((N1 & N2) & _). unfold exists_b.
  destruct t; [destruct (lookup f (PShared TSet)) | destruct (lookup f (PShared TVer))]; auto; contradiction.
Qed.

Definition step_ok (pid : nat) (f : fs) (r : res) : Prop :=
  match r with
  | RFail => False
  | RDone => True
  | RStep e f' p' => guar pid f f' /\ glob f' /\ exists k', holds pid k' f' /\ safe_b k' p' = true
  end.

Lemma safe_step : forall pr pid k f, glob f -> holds pid k f -> safe_b k pr = true -> step_ok pid f (pstep pid f pr).
Proof.
  induction pr as [|a p IH|q n p IH|q kt IHt kf IHf|q p IH|p IH]; intros pid k f G H S.
  - exact I.
  - (* Act *)
    cbn [safe_b] in S. destruct (abstract_act k a) as [k'|] eqn:A; [|discriminate].
    destruct (abstract_act_sound pid _ _ _ f G H A) as (f' & E & GU & GL & HO).
    cbn [pstep]. rewrite E. cbn [step_ok]. eauto.
  - (* Chunks *)
    cbn [safe_b] in S. destruct q as [| |t|]; try discriminate.
    destruct (ktmp k t) eqn:KT; try discriminate.
    destruct n as [|n].
    + cbn [pstep]. eapply IH; eassumption.
    + cbn [pstep resolve fs_step].
      pose proof H as (_ & _ & _ & _ & _ & _ & Ht). specialize (Ht t). rewrite KT in Ht. unfold tmp_holds in Ht.
      rewrite Ht. cbn [step_ok]. split; [apply guar_refl|]. split; [exact G|].
      exists k. split; [exact H|]. cbn [safe_b]. rewrite KT. exact S.
  - (* IfExists *)
    cbn [pstep step_ok]. split; [apply guar_refl|]. split; [exact G|].
    pose proof H as (Hd & Hv & Hvc & Hs & Hsa & Hso & Ht).
    destruct q as [|t|t|j]; cbn [safe_b] in S.
    + apply andb_true_iff in S as [S1 S2]. cbn [resolve exists_b].
      destruct (dir f) eqn:D.
      * exists (norm (with_dir k)). split; [|exact S1]. apply holds_norm; [exact G|].
        unfold holds, with_dir; cbn [kdir kver kvercur kset ksetall ksetok ktmp]. repeat split; auto.
      * exists k. auto.
    + cbn [resolve]. rewrite glob_exists_shared by exact G.
      destruct t; apply andb_true_iff in S as [S1 S2].
      * destruct (is_present (lookup f (PShared TSet))) eqn:P.
        -- exists (norm (with_set k)). split; [|exact S1]. apply holds_norm; [exact G|].
           unfold holds, with_set; cbn [kdir kver kvercur kset ksetall ksetok ktmp]. repeat split; auto.
        -- exists k. auto.
      * destruct (is_present (lookup f (PShared TVer))) eqn:P.
        -- exists (norm (with_ver k)). split; [|exact S1]. apply holds_norm; [exact G|].
           unfold holds, with_ver; cbn [kdir kver kvercur kset ksetall ksetok ktmp]. repeat split; auto.
        -- exists (norm (with_setok k)). split; [|exact S2]. apply holds_norm; [exact G|].
           unfold holds, with_setok; cbn [kdir kver kvercur kset ksetall ksetok ktmp]. repeat split; auto.
           ++ intros X. apply Hv in X. discriminate.
           ++ intros _. destruct G as ((N1 & N2) & G1 & _). unfold set_ok.
           destruct (lookup f (PShared TSet)) eqn:LS;
             [reflexivity | exfalso; apply N1; reflexivity | specialize (G1 eq_refl); congruence].
    + apply andb_true_iff in S as [S1 S2].
      destruct (exists_b f (resolve pid (QMyTmp t))); exists k; auto.
    + apply andb_true_iff in S as [S1 S2].
      destruct (exists_b f (resolve pid (QForeign j))); exists k; auto.
  - (* ReadK *)
    pose proof H as (Hd & Hv & Hvc & Hs & Hsa & Hso & Ht).
    destruct q as [|t|t|j]; cbn [safe_b] in S; try discriminate.
    + destruct t; apply andb_true_iff in S as [S0 S]; rewrite forallb_forall in S.
      * (* settings *)
        apply Hs in S0. cbn [pstep resolve].
        destruct (lookup f (PShared TSet)) as [| |c] eqn:L; try discriminate.
        cbn [step_ok]. split; [apply guar_refl|]. split; [exact G|].
        specialize (S c (in_all_contents c)).
        destruct (all_keys c) eqn:AK.
        -- exists (norm (with_setall k)). split; [|exact S]. apply holds_norm; [exact G|].
           unfold holds, with_setall, set_all, set_ok; cbn [kdir kver kvercur kset ksetall ksetok ktmp].
           rewrite L. repeat split; auto.
        -- destruct (ksetall k) eqn:KA.
           ++ specialize (Hsa eq_refl). unfold set_all in Hsa. rewrite L in Hsa. congruence.
           ++ exists k. auto.
      * (* version *)
        apply Hv in S0. cbn [pstep resolve].
        destruct (lookup f (PShared TVer)) as [| |c] eqn:L; try discriminate.
        cbn [step_ok]. split; [apply guar_refl|]. split; [exact G|].
        specialize (S c (in_all_contents c)).
        destruct (cur c) eqn:CC.
        -- exists (norm (with_vercur k)). split; [|exact S]. apply holds_norm; [exact G|].
           assert (VC : ver_cur f = true) by (unfold ver_cur; rewrite L; exact CC).
           unfold holds, with_vercur; cbn [kdir kver kvercur kset ksetall ksetok ktmp].
           repeat split; auto.
           ++ intros _. rewrite L. reflexivity.
           ++ intros _. destruct G as (_ & _ & G2 & _). auto.
        -- destruct (kvercur k) eqn:KA.
           ++ specialize (Hvc eq_refl). unfold ver_cur in Hvc. rewrite L in Hvc. congruence.
           ++ exists k. auto.
    + (* foreign *)
      rewrite forallb_forall in S. cbn [pstep resolve]. change (lookup f (PForeign j)) with (foreign f j).
      destruct G as (GN & G1 & G2 & G3). pose proof (G3 j) as F.
      destruct (foreign f j) as [| |c] eqn:L; try discriminate.
      cbn [step_ok]. split; [apply guar_refl|]. split; [exact (conj GN (conj G1 (conj G2 G3)))|].
      exists k. split; [exact H|]. apply S. apply in_all_contents.
  - (* LoadK *)
    cbn [safe_b] in S. apply andb_true_iff in S as [S0 S].
    pose proof H as (_ & _ & _ & _ & Hsa & _). apply Hsa in S0. unfold set_all in S0.
    cbn [pstep]. destruct (lookup f (PShared TSet)) as [| |c]; try discriminate. rewrite S0.
    cbn [step_ok]. split; [apply guar_refl|]. split; [exact G|]. eauto.
Qed.

(* ------------------------------------------------------------------------------------------ *)
(* the interleaved system                                                                       *)
(* ------------------------------------------------------------------------------------------ *)
Definition sys_inv (f : fs) (ps : list prog) : Prop :=
  glob f /\ forall i pr, nth_error ps i = Some pr -> exists k, holds i k f /\ safe_b k pr = true.

Definition load_ok (pe : nat * ev) : Prop :=
  match snd pe with ELoad c => all_keys c = true | _ => True end.

Lemma nth_error_set_nth_same {A} (l : list A) i x y : nth_error l i = Some y -> nth_error (set_nth l i x) i = Some x.
Proof. revert i; induction l as [|a r IH]; intros [|i] H; simpl in *; try discriminate; auto. Qed.
Lemma nth_error_set_nth_other {A} (l : list A) i j x : i <> j -> nth_error (set_nth l i x) j = nth_error l j.
Proof.
  revert i j; induction l as [|a r IH]; intros [|i] [|j] H; simpl; auto; try congruence.
Qed.

Lemma pstep_load : forall pr pid f c f' k, pstep pid f pr = RStep (ELoad c) f' k -> all_keys c = true.
Proof.
  induction pr as [|a p IH|q n p IH|q kt IHt kf IHf|q p IH|p IH]; intros pid f c f' k E; cbn [pstep] in E.
  - discriminate.
  - destruct (fs_step f (act_ev pid a)); [|discriminate]. destruct a; simpl in E; discriminate.
  - destruct n; cbn [pstep] in E.
    + eapply IH; exact E.
    + destruct (fs_step f (EWrite (resolve pid q))); discriminate.
  - discriminate.
  - destruct (lookup f (resolve pid q)); discriminate.
  - destruct (lookup f (PShared TSet)) as [| |c']; try discriminate.
    destruct (all_keys c') eqn:A; [|discriminate]. inversion E; subst. exact A.
Qed.

Lemma sys_step_inv f ps i : sys_inv f ps ->
  exists f' ps' t, sys_step f ps i = Some (f', ps', t) /\ sys_inv f' ps' /\ Forall load_ok t.
Proof.
  intros (G & P). unfold sys_step.
  destruct (nth_error ps i) as [pr|] eqn:N.
  - destruct (P _ _ N) as (k & H & S).
    pose proof (safe_step pr i k f G H S) as OK.
    destruct (pstep i f pr) as [| |e f' p'] eqn:E; cbn [step_ok] in OK.
    + exists f, ps, []. split; [reflexivity|]. split; [split; assumption|constructor].
    + contradiction.
    + destruct OK as (GU & GL & k' & H' & S').
      exists f', (set_nth ps i p'), [(i, e)]. split; [reflexivity|]. split.
      * split; [exact GL|]. intros j pj Nj.
        destruct (Nat.eq_dec i j).
        -- subst j. rewrite (nth_error_set_nth_same _ _ _ _ N) in Nj. inversion Nj; subst. eauto.
        -- rewrite nth_error_set_nth_other in Nj by exact n.
           destruct (P _ _ Nj) as (kj & Hj & Sj). exists kj. split; [|exact Sj].
           eapply holds_stable; [|exact GU|exact Hj]. congruence.
      * constructor; [|constructor]. unfold load_ok; simpl. destruct e; auto. eapply pstep_load; exact E.
  - exists f, ps, []. split; [reflexivity|]. split; [split; assumption|constructor].
Qed.

Theorem sys_run_safe : forall sched f ps, sys_inv f ps ->
  exists f' ps' t, sys_run f ps sched = Some (f', ps', t) /\ sys_inv f' ps' /\ Forall load_ok t.
Proof.
  induction sched as [|i r IH]; intros f ps I; cbn [sys_run].
  - exists f, ps, []. auto.
  - destruct (sys_step_inv f ps i I) as (f1 & ps1 & t1 & E1 & I1 & L1). rewrite E1.
    destruct (IH f1 ps1 I1) as (f2 & ps2 & t2 & E2 & I2 & L2). rewrite E2.
    exists f2, ps2, (t1 ++ t2). split; [reflexivity|]. split; [exact I2|]. apply Forall_app; auto.
Qed.

Lemma holds_K0 pid f : holds pid K0 f.
Proof. unfold holds, K0; simpl. repeat split; try discriminate. Qed.

(* every evo process (start, then possibly a settings-writing command), for any chunking of its writes *)
Lemma evo_prog_safe n c : safe_b K0 (evo_prog n c) = true.
Proof. destruct c; vm_compute; reflexivity. Qed.

Definition is_evo_prog (p : prog) : Prop := exists n c, p = evo_prog n c.

(* headline for evo's own processes: from any home that evo's operations (with crashes) can have left
   behind, for any number of processes running start (+ set / merge / reset), any schedule and any
   crash points: no step of any process fails, every load sees every default key, and the directory is
   again in such a state *)
Theorem every_start_loads :
  forall (ps : list prog) (f : fs) (sched : list nat),
    Forall is_evo_prog ps -> glob f ->
    exists f' ps' t, sys_run f ps sched = Some (f', ps', t) /\ glob f' /\ Forall load_ok t.
Proof.
  intros ps f sched E G.
  assert (I : sys_inv f ps).
  { split; [exact G|]. intros i pr N. exists K0. split; [apply holds_K0|].
    rewrite Forall_forall in E. destruct (E pr (nth_error_In _ _ N)) as (n & c & ->). apply evo_prog_safe. }
  destruct (sys_run_safe sched f ps I) as (f' & ps' & t & R & (G' & _) & L).
  exists f', ps', t. auto.
Qed.

Lemma glob_never_partial f : glob f -> never_partial f.
Proof. intros (N & _). exact N. Qed.

Lemma glob_fresh : glob fs_fresh.
Proof. unfold glob, never_partial; simpl. repeat split; try discriminate; auto. Qed.

(* non-vacuity: two racing first starts on an empty home, one schedule; both load all keys *)
Example two_first_starts :
  exists f' ps' t, sys_run fs_fresh [evo_prog 1 CNone; evo_prog 1 CNone]
                     [0;1;0;1;0;1;0;1;0;1;0;1;0;1;0;1;0;1;0;1;0;1;0;1;0;0;0;0;0;0;1;1;1;1;1;1] = Some (f', ps', t) /\
    ps' = [Done; Done] /\
    length (filter (fun pe => match snd pe with ELoad _ => true | _ => false end) t) = 2 /\
    obs 2 f' = (true, (Present c_defaults, Present c_version), [(Absent, Absent); (Absent, Absent)]).
Proof. vm_compute. do 3 eexists. repeat split. Qed.

(* ------------------------------------------------------------------------------------------ *)
(* regression witnesses: the protocol before the repair                                         *)
(* ------------------------------------------------------------------------------------------ *)
(* (i) crash between open('w') and write leaves an empty settings.json: the next start dies *)
Theorem old_crash_breaks_next_start_refuted :
  exists sched, sys_run (fs_home true (Present c_defaults) (Present (C false false)))
                        [old_start 1 Done; evo_prog 1 CNone] sched = None.
Proof. exists [0;0;0;0;0;0; 1;1;1;1;1]. vm_compute. reflexivity. Qed.

(* (ii)+(iii) two old first starts on an empty home: the loser of the mkdir race raises *)
Theorem old_two_first_starts_refuted :
  exists sched, sys_run fs_fresh [old_start 1 Done; old_start 1 Done] sched = None.
Proof. exists [0;1;0;1]. vm_compute. reflexivity. Qed.
