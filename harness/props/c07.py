"""C07 - file conventions and rejection of malformed files (evo/tools/file_interface.py readers,
transformations.quaternion_matrix, lie.is_sim3) against the Coq model Evo.Readers.

The model is character level (bytes of the file); numeric-token recognition is the oracle: a finite table
token -> binary64 built with numpy's own str -> float conversion (what astype(float) does), checked against
python float() on every token."""
import copy
import io
import json
import math
import os
import re
import shutil
import tempfile
from fractions import Fraction

import numpy as np

from harness.common import cf, cflist, cnat, cbool, differential, hexf, unhex, close

ID = "C07"
IMPORTS = "From Coq Require Import Ascii.\nFrom Evo Require Import Num Linalg FileFmt Readers.\n"
COQ_TARGETS = ["theories/ReadersProofs.vo", "theories/ReadersQuat.vo", "theories/ReadersWriter.vo"]
TRUSTED = ["model Evo.Readers (has_utf8_bom, csv_read_matrix, read_tum/kitti/euroc, quaternion_matrix, is_so3/is_sim3, "
           "load_transform(_json) validation) written by hand from the source; tie = differential run on generated files",
           "convention specs tum_spec / kitti_spec / euroc_spec written from the published format descriptions (TUM RGB-D "
           "'timestamp tx ty tz qx qy qz qw', KITTI odometry 12 row-major entries, EuRoC ASL csv header) - reviewed, not derived",
           "numeric-token recognition (float() / numpy astype(float)) is an oracle: finite table per file; python text decoding "
           "(UTF-8, universal newlines), csv.reader on quote-free input, np.load / np.loadtxt / json.load are library kernels",
           "lie.sim3_scale (det ** (1/3) through LAPACK) is an oracle tape for the is_sim3 decision model; decisions whose margin "
           "is below 1e-6 of the tolerance are counted as fragile and both outcomes accepted"]
ASSUMPTIONS = ["files are UTF-8 text without the quote character and without NUL bytes; CR only in CRLF or as the last byte "
               "(a lone CR inside a line is a newline for paths but a csv.Error for StringIO handles - outside the conventions)",
               "a data field holding bytes that are not UTF-8 is a non-numeric field: the file must not be loaded; python's text "
               "layer refuses it with UnicodeDecodeError before evo sees the field - counted as refused (observation: not evo's "
               "file-format error), a returned trajectory is flagged",
               "a BOM is only skipped for paths (a handle has no byte position): with a handle the BOM makes the first token "
               "non-numeric and the file is rejected",
               "transform files that numpy cannot parse as a matrix at all (non-numeric or ragged text, JSON that is not an "
               "object of numbers, >= 6 bytes of leading whitespace before '{') raise numpy's/json's own ValueError instead of "
               "FileInterfaceException: counted separately, not judged (the property's transform class is 'a matrix that is not "
               "in SE(3)/Sim(3)'); reported to the lead as an observation"]


# ------------------------------------------------------------------ Coq literals for byte strings
def cbytes(b):
    parts, cur = [], []

    def flush():
        if cur:
            parts.append('"%s"' % "".join(cur))
            del cur[:]
    i = 0
    while i < len(b):
        c = b[i]
        if c == 10:
            flush()
            parts.append("NL")
        elif c == 13 and i + 1 < len(b) and b[i + 1] == 10:
            flush()
            parts.append("CRLF")
            i += 1
        elif 32 <= c <= 126 and c != 34:
            cur.append(chr(c))
        else:
            flush()
            j = i
            codes = []
            while j < len(b) and not (32 <= b[j] <= 126 and b[j] != 34) and b[j] != 10 and not (b[j] == 13 and j + 1 < len(b) and b[j + 1] == 10):
                codes.append(b[j])
                j += 1
            parts.append("bs [%s]" % "; ".join("%d%%nat" % x for x in codes))
            i = j - 1
        i += 1
    flush()
    if not parts:
        return '""%string'
    return "(" + " ++ ".join(parts) + ")%string"


def np_float(tok):
    """numpy's str -> float64 conversion (what np.array(raw).astype(float) applies to each token)"""
    try:
        return float(np.array([tok]).astype(float)[0])
    except ValueError:
        return None


def py_float(tok):
    try:
        return float(tok)
    except ValueError:
        return None


DELIM = {"tum": b" ", "kitti": b" ", "euroc": b","}


def token_table(fmt, content, stats):
    pieces = set()
    for body in (content, content[3:] if content.startswith(b"\xef\xbb\xbf") else content):
        for p in re.split(b"[" + re.escape(DELIM[fmt]) + b"\n\r]", body):
            pieces.add(p)
    tbl = []
    for p in sorted(pieces):
        try:
            s = p.decode("utf-8")
        except UnicodeDecodeError:
            continue
        v = np_float(s)
        w = py_float(s)
        same = (v is None and w is None) or (v is not None and w is not None and (hexf(v) == hexf(w)))
        if not same:
            stats["oracle_disagreements"] = stats.get("oracle_disagreements", 0) + 1
        if v is not None:
            tbl.append((p, v))
    return tbl


# ------------------------------------------------------------------ implementation side
def impl_text(case):
    from evo.tools import file_interface as fi
    content = bytes.fromhex(case["hex"])
    reader = {"tum": fi.read_tum_trajectory_file, "kitti": fi.read_kitti_poses_file, "euroc": fi.read_euroc_csv_trajectory}[case["format"]]
    d = tempfile.mkdtemp(prefix="c07_")
    p = os.path.join(d, "file.txt")
    with open(p, "wb") as f:
        f.write(content)
    try:
        if case["src"] == "path":
            r = reader(p)
        elif case["src"] == "handle":
            with open(p) as fh:
                r = reader(fh)
        else:
            r = reader(io.StringIO(content.decode("utf-8")))
    except fi.FileInterfaceException:
        return {"reject": True}
    except Exception as e:  # noqa
        return {"error": type(e).__name__ + ": " + str(e)[:120]}
    finally:
        shutil.rmtree(d, ignore_errors=True)
    if case["format"] == "kitti":
        return {"poses": [[hexf(v) for v in np.asarray(m, dtype=float).ravel()] for m in r.poses_se3], "type": type(r).__name__}
    return {"poses": [[hexf(r.timestamps[i]), [hexf(v) for v in r.positions_xyz[i]], [hexf(v) for v in r.orientations_quat_wxyz[i]]]
                      for i in range(r.num_poses)], "type": type(r).__name__}


def impl_quat(case):
    import evo.core.transformations as tr
    from evo.core.trajectory import PosePath3D
    q = [unhex(x) for x in case["q"]]
    m = tr.quaternion_matrix(q)
    path = PosePath3D(np.array([[1.0, 2.0, 3.0]]), np.array([q]))
    pose = np.asarray(path.poses_se3[0], dtype=float)
    return {"m": [hexf(v) for v in m[:3, :3].ravel()], "homog": bool((m[3] == [0, 0, 0, 1]).all() and (m[:3, 3] == 0).all()),
            "pose_rot": [hexf(v) for v in pose[:3, :3].ravel()], "pose_t": [hexf(v) for v in pose[:3, 3]],
            "pose_bottom": bool((pose[3] == [0, 0, 0, 1]).all())}


def _write_transform(case, p):
    form = case["form"]
    if form == "json":
        with open(p, "w") as f:
            if case.get("raw_text") is not None:
                f.write(case["raw_text"])
            else:
                json.dump({k: unhex(v) for k, v in case["fields"]}, f)
        return
    m = np.array([[unhex(v) for v in row] for row in case["rows"]], dtype=float)
    if case.get("shape"):
        m = m.reshape(case["shape"])
    if form == "npy":
        with open(p, "wb") as f:
            np.save(f, m)
    else:
        np.savetxt(p, m)


def impl_transform(case):
    from evo.tools import file_interface as fi
    from evo.core import lie_algebra as lie
    d = tempfile.mkdtemp(prefix="c07_")
    p = os.path.join(d, "transform" + {"npy": ".npy", "txt": ".txt", "json": ".json"}[case["form"]])
    out = {}
    try:
        _write_transform(case, p)
        # oracle tape: the matrix the library kernels deliver and evo's own scale estimate for it
        try:
            if case["form"] == "json":
                m = fi.load_transform_json(p)
            elif case["form"] == "npy":
                m = np.load(p)
            else:
                m = np.loadtxt(p)
            out["matrix"] = [[hexf(v) for v in row] for row in np.atleast_2d(np.asarray(m, dtype=float))] if np.ndim(m) <= 2 else None
            out["shape"] = list(np.shape(m))
            if np.shape(m) == (4, 4):
                with np.errstate(all="ignore"):
                    out["scale"] = hexf(lie.sim3_scale(np.asarray(m, dtype=float)))
        except fi.FileInterfaceException:
            out["kernel_error"] = "FileInterfaceException"
        except Exception as e:  # noqa
            out["kernel_error"] = type(e).__name__
        try:
            with np.errstate(all="ignore"):
                got = fi.load_transform(p)
            out["accept"] = [[hexf(v) for v in row] for row in np.asarray(got, dtype=float)]
        except fi.FileInterfaceException:
            out["reject"] = True
        except Exception as e:  # noqa
            out["error"] = type(e).__name__ + ": " + str(e)[:120]
    finally:
        shutil.rmtree(d, ignore_errors=True)
    return out


def impl_written(case):
    """a trajectory written by evo's own writer; the bytes go to the convention spec"""
    from evo.tools import file_interface as fi
    from evo.core.trajectory import PoseTrajectory3D, PosePath3D
    from harness.props import c06
    g = case["gen"]
    buf = io.StringIO()
    try:
        if case["format"] == "tum":
            st, xyz, q = c06.gen_tum_arrays(g["seed"], g["n"], g["style"])
            fi.write_tum_trajectory_file(buf, PoseTrajectory3D(xyz, q, st))
            want = [[hexf(st[i]), [hexf(v) for v in xyz[i]], [hexf(v) for v in q[i]]] for i in range(len(st))]
        else:
            poses = c06.gen_kitti_poses(g["seed"], g["n"], g["style"])
            fi.write_kitti_poses_file(buf, PosePath3D(poses_se3=poses))
            want = [[hexf(v) for v in p.ravel()] for p in poses]
    except Exception as e:  # noqa
        return {"error": type(e).__name__ + ": " + str(e)[:120]}
    return {"hex": buf.getvalue().encode("utf-8").hex(), "want": want}


def impl(case):
    return {"text": impl_text, "quat": impl_quat, "transform": impl_transform, "written": impl_written}[case["kind"]](case)


# ------------------------------------------------------------------ model side
STATS = {}


def expr(case, out):
    k = case["kind"]
    if k == "text":
        content = bytes.fromhex(case["hex"])
        tbl = token_table(case["format"], content, STATS)
        ctbl = "[" + "; ".join("(%s, %s)" % (cbytes(p), cf(v)) for p, v in tbl) + "]"
        src = "FromPath" if case["src"] == "path" else "FromHandle"
        fn, spec, view = {"tum": ("read_tum_file", "tum_spec", "tps_view"), "kitti": ("read_kitti_file", "kitti_spec", ""),
                          "euroc": ("read_euroc_file", "euroc_spec", "tps_view")}[case["format"]]
        return ("(let f := list_ascii_of_string %s in let p := parse_tbl (%s : list (string * PrimFloat.float)) in "
                "(%s (%s p %s f), %s (%s p %s f), no_lone_cr f))" % (cbytes(content), ctbl, view, fn, src, view, spec, src))
    if k == "written":
        if "error" in out:
            return "0%nat"
        content = bytes.fromhex(out["hex"])
        tbl = token_table(case["format"], content, STATS)
        ctbl = "[" + "; ".join("(%s, %s)" % (cbytes(p), cf(v)) for p, v in tbl) + "]"
        spec, view = {"tum": ("tum_spec", "tps_view"), "kitti": ("kitti_spec", "")}[case["format"]]
        return ("(%s (%s (parse_tbl (%s : list (string * PrimFloat.float))) FromHandle (list_ascii_of_string %s)))"
                % (view, spec, ctbl, cbytes(content)))
    if k == "quat":
        w, x, y, z = [cf(unhex(v)) for v in case["q"]]
        return "M3_view (quaternion_matrix F_eps4 %s %s %s %s)" % (w, x, y, z)
    # transform
    if case["form"] == "json" and case.get("raw_text") is None:
        f = dict(case["fields"])
        if all(kk in f for kk in ("x", "y", "z", "qx", "qy", "qz", "qw")) and "scale" in out:
            args = " ".join(cf(unhex(f[kk])) for kk in ("x", "y", "z", "qx", "qy", "qz", "qw"))
            sc = cf(unhex(f["scale"])) if "scale" in f else "1"
            pose = "(transform_of_json F_eps4 %s %s)" % (args, sc)
            return "(1%%nat, pose_rows %s, load_transform_ok F_atol F_rtol %s (pose_rows %s))" % (pose, cf(unhex(out["scale"])), pose)
        return "(0%nat, 0%nat, false)"
    if out.get("matrix") is not None and "kernel_error" not in out and len(out.get("shape", [])) == 2:
        rows = "[" + "; ".join(cflist(unhex(v) for v in row) for row in out["matrix"]) + "]"
        s = cf(unhex(out["scale"])) if "scale" in out else "1"
        return "(2%%nat, 0%%nat, load_transform_ok F_atol F_rtol %s %s)" % (s, rows)
    return "(0%nat, 0%nat, false)"


def _unsome(v):
    return v[1] if isinstance(v, tuple) and len(v) == 2 and v[0] == "Some" else v


def _hl(xs):
    return [hexf(x) for x in xs]


def _canon(v):
    if isinstance(v, float):
        return hexf(v)
    if isinstance(v, (list, tuple)):
        return [_canon(x) for x in v]
    return v


def judge_text(case, val, out):
    model, spec, nolone = val
    if nolone is True and _canon(model) != _canon(spec):
        return {"kind": "obligation", "failing_input": False, "theorem": "C07_read_%s_refines_spec" % case["format"],
                "detail": "binary64 evaluation of reader model and convention spec differ on a file the theorem covers"}
    if "error" in out:
        if nolone is not True:
            return None     # lone CR: outside the conventions (counted by the generator class)
        if case.get("undecodable") and out["error"].startswith("UnicodeDecodeError") and _unsome(spec) is None:
            # a byte sequence that is not UTF-8 inside a numeric field: python's text layer refuses the file before evo sees
            # the field.  Any refusal counts as 'not loaded' here (see ASSUMPTIONS); only a returned trajectory is flagged.
            STATS["undecodable_refused_by_text_layer"] = STATS.get("undecodable_refused_by_text_layer", 0) + 1
            return None
        return {"kind": "spec-violation", "failing_input": True,
                "detail": "reader raised %s instead of accepting or rejecting with FileInterfaceException" % out["error"]}
    m = _unsome(spec if nolone is True else model)
    if m is None:
        if out.get("reject"):
            return None
        return {"kind": "spec-violation", "failing_input": True,
                "detail": "malformed file (class: %s) was loaded: %d poses" % (case.get("cls"), len(out["poses"]))}
    if out.get("reject"):
        return {"kind": "spec-violation", "failing_input": True, "detail": "file following the convention was rejected (class: %s)" % case.get("cls")}
    if case["format"] == "kitti":
        want = [_hl(p) for p in m]
    else:
        want = [[hexf(s), _hl(x), _hl(q)] for s, x, q in m]
    if want != out["poses"]:
        i = next((j for j in range(min(len(want), len(out["poses"]))) if want[j] != out["poses"][j]), None)
        return {"kind": "spec-violation", "failing_input": True,
                "detail": "loaded values differ from the numbers in the file: %d poses expected, %d loaded, first difference at pose %r: "
                          "convention %r, evo %r" % (len(want), len(out["poses"]), i, want[i] if i is not None and i < len(want) else None,
                                                     out["poses"][i] if i is not None and i < len(out["poses"]) else None)}
    want_type = "PosePath3D" if case["format"] == "kitti" else "PoseTrajectory3D"
    if out["type"] != want_type:
        return {"kind": "spec-violation", "failing_input": True, "detail": "reader returned a %s" % out["type"]}
    return None


def textbook_rotation(q):
    """Hamilton convention, q = (w, x, y, z) normalised: exact rationals"""
    w, x, y, z = [Fraction(v) for v in q]
    n = w * w + x * x + y * y + z * z
    return [1 - 2 * (y * y + z * z) / n, 2 * (x * y - z * w) / n, 2 * (x * z + y * w) / n,
            2 * (x * y + z * w) / n, 1 - 2 * (x * x + z * z) / n, 2 * (y * z - x * w) / n,
            2 * (x * z - y * w) / n, 2 * (y * z + x * w) / n, 1 - 2 * (x * x + y * y) / n]


def judge_quat(case, val, out):
    q = [unhex(v) for v in case["q"]]
    n = sum(Fraction(v) ** 2 for v in q)
    got = [unhex(v) for v in out["m"]]
    if n >= Fraction(2) ** -40:       # clearly not the zero quaternion
        ref = textbook_rotation(q)
        if any(abs(Fraction(g) - r) > Fraction(1, 10 ** 9) for g, r in zip(got, ref)):
            return {"kind": "spec-violation", "failing_input": True,
                    "detail": "quaternion_matrix(w,x,y,z) is not the Hamilton rotation matrix: %r vs %r" % (got, [float(r) for r in ref])}
    if not out["homog"] or not out["pose_bottom"]:
        return {"kind": "spec-violation", "failing_input": True, "detail": "homogeneous part of the matrix is not (0 0 0 1) / zero translation"}
    if out["pose_rot"] != out["m"] or [unhex(v) for v in out["pose_t"]] != [1.0, 2.0, 3.0]:
        return {"kind": "spec-violation", "failing_input": True, "detail": "poses_se3 of a path is not se3(quaternion_matrix(q), xyz)"}
    if not all(close(a, b, rtol=1e-9, atol=1e-12) for a, b in zip(val, got)):
        return {"kind": "model-vs-impl", "failing_input": False, "correspondence": "Readers.quaternion_matrix",
                "detail": "quaternion_matrix differs from the model beyond 1e-9: %r vs %r" % (list(val), got)}
    return None


def sim3_margin(rows):
    """relative distance of the closest is_sim3 test from its threshold (None: not 4x4)"""
    m = np.array([[unhex(v) for v in r] for r in rows], dtype=float)
    if m.shape != (4, 4) or not np.isfinite(m).all():
        return None
    d = np.linalg.det(m[:3, :3])
    if not d > 0:
        return 1.0 if d < -1e-9 else abs(d)
    s = d ** (1 / 3)
    b = m[:3, :3] / s
    g = b.T @ b
    margins = [abs(abs(np.linalg.det(b) - 1.0) - (1e-6 + 1e-5)) / (1e-6 + 1e-5)]
    for i in range(3):
        for j in range(3):
            bound = 1e-6 + (1e-5 if i == j else 0.0)
            margins.append(abs(abs(g[i, j] - (1.0 if i == j else 0.0)) - bound) / bound)
    return float(min(margins))


def judge_transform(case, val, out):
    flag, rows, ok = val
    if "error" in out:
        if case.get("unparseable"):
            STATS["transform_kernel_errors"] = STATS.get("transform_kernel_errors", 0) + 1
            return None     # numpy/json refused to parse the file at all (see ASSUMPTIONS)
        return {"kind": "spec-violation", "failing_input": True, "detail": "load_transform raised " + out["error"]}
    accepted = "accept" in out
    if case["form"] == "json" and case.get("raw_text") is None and not all(kk in dict(case["fields"]) for kk in ("x", "y", "z", "qx", "qy", "qz", "qw")):
        if accepted:
            return {"kind": "spec-violation", "failing_input": True, "detail": "JSON transform with a missing key was loaded"}
        return None
    if flag == 0:
        if accepted:
            return {"kind": "spec-violation", "failing_input": True, "detail": "a file that holds no 4x4 matrix was loaded as a transform"}
        return None
    matrix = out.get("matrix")
    if flag == 1:
        want = [[unhex(v) for v in r] for r in matrix] if matrix else None
        if want is None or not all(close(a, b, rtol=1e-9, atol=1e-12) for ra, rb in zip(rows, want) for a, b in zip(ra, rb)):
            return {"kind": "spec-violation", "failing_input": True,
                    "detail": "JSON transform is not sim3(quaternion_matrix(qw,qx,qy,qz), (x,y,z), scale): model %r, evo %r" % (rows, want)}
    marg = sim3_margin(matrix) if matrix else None
    fragile = marg is not None and marg < 1e-6
    if fragile:
        STATS["fragile"] = STATS.get("fragile", 0) + 1
        return None
    if ok is True and not accepted:
        return {"kind": "spec-violation", "failing_input": True, "detail": "a valid SE(3)/Sim(3) transform was rejected"}
    if ok is not True and accepted:
        return {"kind": "spec-violation", "failing_input": True,
                "detail": "a matrix that is not in SE(3)/Sim(3) (shape, bottom row, reflection or beyond the allclose band) was loaded"}
    if accepted and matrix is not None and out["accept"] != matrix:
        return {"kind": "spec-violation", "failing_input": True, "detail": "load_transform returned another matrix than the file holds"}
    return None


def judge_written(case, val, out):
    if "error" in out:
        return {"kind": "spec-violation", "failing_input": True, "detail": "writer failed: " + out["error"]}
    m = _unsome(val)
    if m is None:
        return {"kind": "spec-violation", "failing_input": True,
                "detail": "the file evo wrote does not follow the %s convention (rejected by the independent parser)" % case["format"]}
    got = [_hl(p) for p in m] if case["format"] == "kitti" else [[hexf(s), _hl(x), _hl(q)] for s, x, q in m]
    if got != out["want"]:
        i = next((j for j in range(min(len(got), len(out["want"]))) if got[j] != out["want"][j]), None)
        return {"kind": "spec-violation", "failing_input": True,
                "detail": "the file evo wrote is read by the independent %s parser to other poses: pose %r written %r, read %r"
                          % (case["format"], i, out["want"][i] if i is not None else None, got[i] if i is not None else None)}
    return None


def judge(case, val, out):
    return {"text": judge_text, "quat": judge_quat, "transform": judge_transform, "written": judge_written}[case["kind"]](case, val, out)


def nontrivial(case, val, out):
    if case["kind"] == "written":
        return case["gen"]["n"] >= 2
    if case["kind"] == "text":
        return len(bytes.fromhex(case["hex"]).split(b"\n")) >= 2
    return True


def shrink(case):
    if case["kind"] == "written":
        for n in sorted({1, 2, case["gen"]["n"] // 2} - {0, case["gen"]["n"]}):
            c = copy.deepcopy(case)
            c["gen"]["n"] = n
            yield c
        return
    if case["kind"] != "text":
        return
    content = bytes.fromhex(case["hex"])
    lines = content.split(b"\n")
    if len(lines) > 1:
        for i in range(len(lines)):
            c = dict(case)
            c["hex"] = b"\n".join(lines[:i] + lines[i + 1:]).hex()
            yield c


# ------------------------------------------------------------------ generators
NUM_SPELLINGS = ["0", "-0", "1", "-1", "+4", "7.", ".5", "-.5e3", "1E5", "1e+5", "1.5e-07", "00012", "3.141592653589793",
                 "2.2250738585072014e-308", "1.7976931348623157e308", "4.9e-324", "1e-300", "1e300", "123456789.12345679",
                 "0.30000000000000004", "1.000000000000000000e+00", "-2.500000000000000000e-01", "1_0", "nan", "inf", "-inf",
                 "Infinity", "NaN", "1e400", "0.1", "1403636580.838555574"]
JUNK = ["abc", "1.2.3", "--1", "1e", "0x10", "1d5", "n/a", "1.0f", "#5", "1;2", "٣٫5x", "True", "1e5e5", "+-1", "."]


def spell(rng, fmt):
    r = rng.random()
    if r < 0.45:
        return repr(float(rng.normal(0, 10.0 ** int(rng.integers(-3, 6)))))
    if r < 0.6:
        return "%.18e" % float(rng.normal(0, 100))
    if r < 0.7:
        return str(int(rng.integers(-1000, 1000)))
    s = str(rng.choice(NUM_SPELLINGS))
    if fmt == "euroc" and rng.random() < 0.2:
        s = " " * int(rng.integers(0, 3)) + s + " " * int(rng.integers(0, 2))
    return s


def well_formed_rows(rng, fmt, n):
    rows = []
    ncol = {"tum": 8, "kitti": 12, "euroc": int(rng.choice([8, 8, 9, 17]))}[fmt]
    for i in range(n):
        row = [spell(rng, fmt) for _ in range(ncol)]
        if fmt == "euroc":
            row[0] = str(1403636580838555648 + int(rng.integers(0, 10 ** 12))) if rng.random() < 0.7 else row[0]
        rows.append(row)
    return rows


def assemble(rng, fmt, rows, comments=True, bom=False, nl=None, final_nl=None):
    d = DELIM[fmt].decode()
    lines = [d.join(r) for r in rows]
    if comments:
        k = int(rng.integers(0, 4))
        for _ in range(k):
            pos = int(rng.integers(0, len(lines) + 1))
            lines.insert(pos, str(rng.choice(["# timestamp tx ty tz qx qy qz qw", "#", "#1 2 3 4 5 6 7 8", "# ünïcode ✓ comment", "##", "#\t x"])))
    nl = nl if nl is not None else str(rng.choice(["\n", "\n", "\r\n", "mixed"]))
    out = ""
    for i, l in enumerate(lines):
        e = nl if nl != "mixed" else str(rng.choice(["\n", "\r\n"]))
        last = i == len(lines) - 1
        fin = final_nl if final_nl is not None else bool(rng.random() < 0.8)
        out += l + (e if (not last or fin) else "")
    b = out.encode("utf-8")
    return (b"\xef\xbb\xbf" + b) if bom else b


def text_case(fmt, src, content, cls, expect):
    return {"kind": "text", "format": fmt, "src": src, "hex": content.hex(), "cls": cls, "expect": expect}


def well_formed_cases(ctx):
    rng = ctx.np_rng(11)
    cs = []
    for i in range(ctx.n(420, 2600)):
        fmt = ["tum", "kitti", "euroc"][i % 3]
        n = int(rng.integers(1, 7)) if (ctx.quick or i % 40) else int(rng.integers(50, 200))
        src = ["path", "handle", "stringio"][(i // 3) % 3]
        bom = src == "path" and rng.random() < 0.25
        content = assemble(rng, fmt, well_formed_rows(rng, fmt, n), bom=bom)
        cs.append(text_case(fmt, src, content, "well-formed" + (",bom" if bom else ""), "accept"))
    return cs


def malformed_cases(ctx):
    rng = ctx.np_rng(12)
    cs = []
    classes = ["col-", "col+", "junk", "empty-field", "trailing-delim", "double-delim", "leading-delim", "blank-row", "ws-row",
               "indented-comment", "tab", "wrong-delim", "bom-on-handle", "no-data"]
    for i in range(ctx.n(420, 2600)):
        fmt = ["tum", "kitti", "euroc"][i % 3]
        cls = classes[(i // 3) % len(classes)]
        n = int(rng.integers(1, 7))
        src = ["path", "handle", "stringio"][int(rng.integers(0, 3))]
        rows = well_formed_rows(rng, fmt, n)
        d = DELIM[fmt].decode()
        r = int(rng.integers(0, n))
        c = int(rng.integers(0, len(rows[r])))
        bom = False
        if cls == "col-":
            del rows[r][c]
            if fmt == "euroc" and len(rows[r]) >= 8 and n == 1:
                rows[r] = rows[r][:7]
        elif cls == "col+":
            rows[r].insert(c, spell(rng, "tum"))
            if fmt == "euroc" and n == 1:
                cls = "euroc-extra-column-single-row(ok)"
        elif cls == "junk":
            rows[r][c] = str(rng.choice(JUNK))
        elif cls == "empty-field":
            rows[r][c] = ""
        elif cls == "trailing-delim":
            rows[r][-1] = rows[r][-1] + d
        elif cls == "double-delim":
            c = max(c, 1)
            rows[r][c] = d + rows[r][c] if fmt != "euroc" else "," + rows[r][c]
        elif cls == "leading-delim":
            rows[r][0] = d + rows[r][0]
        elif cls == "blank-row":
            rows.insert(r if rng.random() < 0.7 else len(rows), [""])
        elif cls == "ws-row":
            rows.insert(r, ["   "] if fmt == "euroc" else [" ", " "][:1])
        elif cls == "indented-comment":
            rows.insert(r, [" # comment"])
        elif cls == "tab":
            rows[r] = ["\t".join(rows[r])]
        elif cls == "wrong-delim":
            rows[r] = [("," if fmt != "euroc" else ";").join(rows[r])]
        elif cls == "bom-on-handle":
            src = str(rng.choice(["handle", "stringio"]))
            bom = True
        elif cls == "no-data":
            variant = int(rng.integers(0, 5))
            content = [b"", b"# only\n# comments\r\n", b"\xef\xbb\xbf", b"\n", b"#\n\n"][variant]
            cs.append(text_case(fmt, src if variant != 2 else "path", content, cls, "reject"))
            continue
        content = assemble(rng, fmt, rows, bom=bom, comments=bool(rng.random() < 0.5))
        if cls == "bom-on-handle" and src == "stringio":
            content = content     # StringIO gets the decoded text incl. U+FEFF
        cs.append(text_case(fmt, src, content, cls, "reject"))
    # lone CR: observed, not judged when the readers disagree among themselves
    for fmt in ("tum", "kitti", "euroc"):
        rows = well_formed_rows(rng, fmt, 2)
        d = DELIM[fmt].decode()
        cs.append(text_case(fmt, "path", (d.join(rows[0]) + "\r" + d.join(rows[1]) + "\n").encode(), "lone-cr", "n/a"))
    return cs


def systematic_malformed(ctx):
    """the defect in EVERY row and EVERY column of a small file (4 defect kinds), plus the same file without defect"""
    rng = ctx.np_rng(16)
    cs = []
    for fmt in ("tum", "kitti", "euroc"):
        nrows = ctx.n(2, 4)
        rows = well_formed_rows(rng, fmt, nrows)
        if fmt == "euroc":
            rows = [r[:9] + ["0"] * max(0, 9 - len(r)) for r in rows]
        cs.append(text_case(fmt, "path", assemble(rng, fmt, rows, comments=False, nl="\n", final_nl=True), "systematic:none", "accept"))
        for r in range(nrows):
            for c in range(len(rows[r])):
                if ctx.quick and (r + c) % 3:
                    continue
                for kind in ("drop", "junk", "empty", "insert"):
                    rr = copy.deepcopy(rows)
                    if kind == "drop":
                        del rr[r][c]
                    elif kind == "junk":
                        rr[r][c] = JUNK[(r + c) % len(JUNK)]
                    elif kind == "empty":
                        rr[r][c] = ""
                    else:
                        rr[r].insert(c, "1.5")
                    cs.append(text_case(fmt, ["path", "handle", "stringio"][(r + c) % 3],
                                        assemble(rng, fmt, rr, comments=False, nl="\n", final_nl=True),
                                        "systematic:%s at row %d col %d" % (kind, r, c), "reject"))
    return cs


BAD_BYTES = [b"\xae", b"\xb2", b"\x80", b"\xbf", b"\xc3", b"\xe2\x82", b"\xff", b"\xfe", b"\xf0\x9f", b"\xc0", b"\xa0", b"\xe9"]


def undecodable_cases(ctx):
    """'a non-numeric field ... never loaded', defect in any row/column: a numeric field damaged at byte level - one character
    with its high bit flipped (b'1\\xae25' for '1.25'), or a stray Latin-1 / truncated multi-byte sequence inside, before or
    after the digits - so that the field is not a number (not even text) while the REMAINING characters still spell one.
    Files given by path (a handle is decoded by the caller).  Refusal by python's text layer (UnicodeDecodeError) counts as
    refusal; a returned trajectory is the violation."""
    rng = ctx.np_rng(17)
    cs = []
    for i in range(ctx.n(72, 600)):
        fmt = ["tum", "kitti", "euroc"][i % 3]
        n = int(rng.integers(1, 6))
        rows = [[s.encode("utf-8") for s in row] for row in well_formed_rows(rng, fmt, n)]
        r = int(rng.integers(0, n)) if i % 4 else [0, n - 1][(i // 4) % 2]
        ncol = len(rows[r])
        c = int(rng.integers(0, min(ncol, 8 if fmt == "euroc" else ncol)))
        tok = rows[r][c]
        kind = i % 5
        core = tok.strip()
        if kind in (0, 1) and len(core) >= 2:
            # flip the high bit of one character of the number ('.' -> 0xae, '2' -> 0xb2, 'e' -> 0xe5, '-' -> 0xad)
            js = [j for j in range(len(tok)) if tok[j:j + 1] not in (b" ",)]
            j = js[int(rng.integers(0, len(js)))] if kind == 0 else (tok.find(b".") if b"." in tok else js[0])
            rest = tok[:j] + tok[j + 1:]
            if py_float(rest.decode()) is None:   # the remaining characters must still spell a number
                j = js[-1] if py_float(tok[:js[-1]].decode() or "x") is not None else j
                rest = tok[:j] + tok[j + 1:]
            bad = tok[:j] + bytes([tok[j] | 0x80]) + tok[j + 1:]
            if py_float(rest.decode()) is None:
                bad = tok[:1] + BAD_BYTES[i % len(BAD_BYTES)] + tok[1:]
        else:
            bb = BAD_BYTES[int(rng.integers(0, len(BAD_BYTES)))]
            pos = [0, len(tok), int(rng.integers(0, len(tok) + 1))][kind % 3]
            bad = tok[:pos] + bb + tok[pos:]
        rows[r][c] = bad
        d = DELIM[fmt]
        nl = [b"\n", b"\r\n"][int(rng.integers(0, 2))]
        lines = [d.join(row) for row in rows]
        if rng.random() < 0.4:
            lines.insert(int(rng.integers(0, len(lines) + 1)), b"# timestamp tx ty tz qx qy qz qw")
        content = nl.join(lines) + (nl if rng.random() < 0.8 else b"")
        bom = rng.random() < 0.2
        if bom:
            content = b"\xef\xbb\xbf" + content
        case = text_case(fmt, "path", content, "undecodable-byte-in-field" + (",bom" if bom else ""), "reject")
        case["undecodable"] = True
        cs.append(case)
    return cs


def quat_cases(ctx):
    rng = ctx.np_rng(13)
    cs = []
    fixed = [[1, 0, 0, 0], [0, 1, 0, 0], [0, 0, 1, 0], [0, 0, 0, 1], [0.5, 0.5, 0.5, 0.5], [math.sqrt(.5), 0, 0, math.sqrt(.5)],
             [math.sqrt(.5), math.sqrt(.5), 0, 0], [0.99810947, 0.06146124, 0, 0], [2, 0, 0, 0], [0, 0, 0, 0], [1e-9, 0, 0, 0],
             [3, -4, 12, 84], [1e-8, 1e-8, 0, 0], [-1, 0, 0, 0], [0.1, 0.2, 0.3, 0.4]]
    for q in fixed:
        cs.append({"kind": "quat", "q": [hexf(v) for v in q]})
    for i in range(ctx.n(150, 1500)):
        q = rng.normal(0, 1, 4)
        if i % 3 == 0:
            q /= np.linalg.norm(q)
        if i % 7 == 0:
            q *= 10.0 ** rng.integers(-6, 6)
        cs.append({"kind": "quat", "q": [hexf(v) for v in q]})
    return cs


def _rot(rng):
    qm, _ = np.linalg.qr(rng.normal(0, 1, (3, 3)))
    if np.linalg.det(qm) < 0:
        qm[:, 0] *= -1
    return qm


def transform_cases(ctx):
    rng = ctx.np_rng(14)
    cs = []

    def mat_case(form, m, cls, shape=None):
        m = np.asarray(m, dtype=float)
        return {"kind": "transform", "form": form, "rows": [[hexf(v) for v in row] for row in np.atleast_2d(m)], "cls": cls,
                "shape": list(shape) if shape else None}
    for i in range(ctx.n(130, 1300)):
        form = ["npy", "txt"][i % 2]
        m = np.eye(4)
        m[:3, :3] = _rot(rng)
        m[:3, 3] = rng.normal(0, 100, 3)
        cls = ["se3", "sim3", "reflection", "bottom", "near-in", "near-out", "near-edge", "zero", "shape", "shear", "tiny-scale", "huge-scale"][i % 12]
        if cls == "sim3":
            m[:3, :3] *= 10.0 ** rng.uniform(-2, 2)
        elif cls == "reflection":
            m[:3, int(rng.integers(0, 3))] *= -1
            if rng.random() < 0.5:
                m[:3, :3] *= float(rng.uniform(0.5, 2))
        elif cls == "bottom":
            m[3, int(rng.integers(0, 4))] += float(rng.choice([1.0, -1.0, 1e-12, 0.5]))
        elif cls in ("near-in", "near-out", "near-edge"):
            s = float(rng.choice([1.0, 1.0, 3.0]))
            e = np.zeros((3, 3))
            a, b = int(rng.integers(0, 3)), int(rng.integers(0, 3))
            # an off-diagonal entry of R^T R moves by ~delta, a diagonal one by ~2 delta (band 1e-6 resp. 1.1e-5)
            delta = {"near-in": 2e-7, "near-out": 2e-5, "near-edge": 1e-6 * float(rng.uniform(0.9, 1.1))}[cls]
            e[a, b] = delta
            m[:3, :3] = s * (m[:3, :3] @ (np.eye(3) + e))
        elif cls == "zero":
            m[:3, :3] = 0.0 if rng.random() < 0.5 else m[:3, :3] * np.array([1.0, 1.0, 0.0])
        elif cls == "shape":
            sh = [(3, 4), (4, 3), (3, 3), (5, 5), (16,), (2, 8), (1, 4)][int(rng.integers(0, 7))]
            cs.append(mat_case(form, np.resize(m, sh), cls + str(sh)))
            continue
        elif cls == "shear":
            m[:3, :3] = m[:3, :3] @ np.array([[1, float(rng.uniform(0.01, 1)), 0], [0, 1, 0], [0, 0, 1]])
        elif cls == "tiny-scale":
            m[:3, :3] *= 1e-5
        elif cls == "huge-scale":
            m[:3, :3] *= 1e6
        cs.append(mat_case(form, m, cls))
    for i in range(ctx.n(90, 900)):
        q = rng.normal(0, 1, 4)
        if i % 2:
            q /= np.linalg.norm(q)
        f = [["x", float(rng.normal(0, 10))], ["y", float(rng.normal(0, 10))], ["z", float(rng.normal(0, 10))],
             ["qx", q[1]], ["qy", q[2]], ["qz", q[3]], ["qw", q[0]]]
        cls = ["plain", "scale", "neg-scale", "zero-scale", "missing", "zero-quat", "int-values", "shuffled"][i % 8]
        if cls == "scale":
            f.append(["scale", float(10.0 ** rng.uniform(-2, 2))])
        elif cls == "neg-scale":
            f.append(["scale", -float(10.0 ** rng.uniform(-2, 2))])
        elif cls == "zero-scale":
            f.append(["scale", 0.0])
        elif cls == "missing":
            del f[int(rng.integers(0, 7))]
        elif cls == "zero-quat":
            for kv in f[3:7]:
                kv[1] = 0.0
        elif cls == "int-values":
            f = [[k, float(int(rng.integers(-3, 4)))] for k, _ in f]
            f[6][1] = 1.0
        elif cls == "shuffled":
            f.append(["scale", 2.0])
            rng.shuffle(f)
        cs.append({"kind": "transform", "form": "json", "fields": [[k, hexf(v)] for k, v in f], "cls": "json-" + cls})
    for raw in ['  \n {"x":1,"y":2,"z":3,"qx":0,"qy":0,"qz":0,"qw":1}', "12", "", "1 2"]:
        cs.append({"kind": "transform", "form": "json", "raw_text": raw, "fields": [], "cls": "raw-text"})
    for raw in ["hello world\nfoo\n", '{"x": 1, ', "[1, 2, 3]", "1 0 0 0\n0 1 0\n0 0 1 0\n0 0 0 1\n",
                '{"x":"a","y":2,"z":3,"qx":0,"qy":0,"qz":0,"qw":1}', '        {"x":1,"y":2,"z":3,"qx":0,"qy":0,"qz":0,"qw":1}']:
        cs.append({"kind": "transform", "form": "json", "raw_text": raw, "fields": [], "cls": "raw-text-unparseable", "unparseable": True})
    return cs


def written_cases(ctx):
    rng = ctx.np_rng(15)
    cs = []
    for i in range(ctx.n(60, 600)):
        fmt = ["tum", "kitti"][i % 2]
        style = ["epoch", "hard", "small", "hardquat"][i % 4] if fmt == "tum" else ["rot", "arbitrary"][(i // 2) % 2]
        cs.append({"kind": "written", "format": fmt, "gen": {"seed": int(rng.integers(0, 2 ** 31)), "n": int(rng.integers(1, 8)), "style": style}})
    return cs


def corpus():
    row = "1 2 3 4 5 6 7 8"
    krow = " ".join(str(i) for i in range(1, 13))
    erow = "1403636580838555648,4.688319,-1.786938,0.783338,0.534108,-0.153029,-0.827383,-0.082152,-0.027876,0.033207,0.800006,-0.003172,0.021267,0.078502,-0.025266,0.136696,0.075593"
    cs = [
        text_case("tum", "path", (row + "\n").encode(), "well-formed", "accept"),
        text_case("tum", "path", (row + "\n" + "1 2 3 4 5 6 7\n").encode(), "col- in the last row", "reject"),
        text_case("tum", "path", (row + "\n" + row + " 9\n" + row + "\n").encode(), "col+ in a middle row", "reject"),
        text_case("tum", "path", (row + "\n\n" + row + "\n").encode(), "blank-row", "reject"),
        text_case("tum", "path", (row + "\n\n").encode(), "blank-row at the end", "reject"),
        text_case("tum", "path", (row + "\n" + row + " \n").encode(), "trailing-delim", "reject"),
        text_case("tum", "path", b"\xef\xbb\xbf" + (row + "\r\n# c\r\n" + row).encode(), "well-formed,bom,crlf", "accept"),
        text_case("tum", "handle", b"\xef\xbb\xbf" + (row + "\n").encode(), "bom-on-handle", "reject"),
        text_case("tum", "stringio", (row + "\r\n" + row + "\r\n").encode(), "well-formed,crlf", "accept"),
        text_case("kitti", "path", (krow + "\n# x\n" + krow).encode(), "well-formed", "accept"),
        text_case("kitti", "path", (krow + "\n" + krow + " 13\n").encode(), "col+", "reject"),
        text_case("euroc", "path", ("#timestamp, p_RS_R_x [m], ...\n" + erow + "\n" + erow + "\n").encode(), "well-formed", "accept"),
        text_case("euroc", "path", (erow + "\n" + erow.rsplit(",", 1)[0] + "\n").encode(), "col- in the last row", "reject"),
        text_case("euroc", "path", ("1,2,3,4,5,6,7\n").encode(), "col-", "reject"),
        text_case("euroc", "path", ("1,2,3,4,5,6,7,8,x\n").encode(), "junk beyond column 8", "reject"),
    ]
    return cs


def run(ctx, replay=None, proofs_ok=True):
    STATS.clear()
    if replay is not None:
        cases = [replay["case"]]
    else:
        cases = corpus() + well_formed_cases(ctx) + malformed_cases(ctx) + systematic_malformed(ctx) + undecodable_cases(ctx) + written_cases(ctx) + quat_cases(ctx) + transform_cases(ctx)
    failures, stats = differential(ctx, cases, imports=IMPORTS, impl=impl, expr=expr, judge=judge, shrink=shrink,
                                   nontrivial=nontrivial, per_file=60)
    hist = {}
    for c in cases:
        if c["kind"] == "text":
            cls = c.get("cls") or ""
            b = "text:%s:%s:%s" % (c["format"], c["src"], cls.split(" at row")[0])
        elif c["kind"] == "written":
            b = "written by evo:%s" % c["format"]
        elif c["kind"] == "quat":
            b = "quaternion"
        else:
            b = "transform:%s:%s" % (c["form"], c.get("cls"))
        hist[b] = hist.get(b, 0) + 1
    cov = {"evaluations": stats["evaluations"], "distinct_nontrivial": stats["distinct_nontrivial"],
           "rule": "corpus + generated well-formed TUM/KITTI/EuRoC files (1..6 rows, thorough up to 200; comment lines anywhere, "
                   "BOM, LF/CRLF/mixed, with/without final newline, ~40 float spellings incl. exponents, leading/trailing dot, "
                   "signs, nan/inf, underscores, 19-digit ns stamps, blanks around EuRoC fields; path / text handle / StringIO) + "
                   "separate malformed stream (14 classes: missing/extra column, junk or empty field, trailing/doubled/leading "
                   "delimiter, blank and whitespace rows, indented comment, tab or wrong delimiter, BOM on a handle, no data rows) "
                   "with the defect in a random row and column + a systematic sweep (missing / junk / empty / extra field at every row and column of a small file) + numeric fields damaged at byte level (high bit of one character flipped, stray Latin-1 / truncated UTF-8 bytes; path variant; any refusal accepted) + TUM/KITTI files written by evo's own writers handed to the convention specs + quaternions (axis, unit, non-unit, tiny, zero) + transform files "
                   "(.npy/text/JSON; SE(3), Sim(3), reflections, wrong bottom row, shapes, shear, near-miss at 0.2x / 1x / 20x of the "
                   "tolerance, JSON with/without scale, negative/zero scale, missing keys); distinct by input; non-trivial = at "
                   "least two lines, or a quaternion/transform case",
           "samples": cases[:2] + cases[-2:], "input_distribution": hist,
           "regimes": {"exact": stats["evaluations"] - STATS.get("fragile", 0), "rounded": 0, "fragile": STATS.get("fragile", 0)},
           "oracle_disagreements_float_vs_numpy": STATS.get("oracle_disagreements", 0),
           "transform_files_numpy_could_not_parse": STATS.get("transform_kernel_errors", 0),
           "undecodable_fields_refused_with_UnicodeDecodeError": STATS.get("undecodable_refused_by_text_layer", 0),
           "disagreements": stats["disagreements"], "exhaustive": False}
    return {"failures": failures, "coverage": cov}


LEVEL_TEXT = ("Machine-checked theorems (Coq): on every file (bytes; quote-free, CR only in CRLF) and for every numeric-token "
              "recogniser, the code-shaped model of csv_read_matrix + read_tum/kitti/euroc returns exactly what independently "
              "written convention specs return - hence a wrong column count, non-numeric or empty field, trailing/doubled "
              "delimiter or blank row in ANY row, or no data rows, rejects the file, and every token of an accepted file lands "
              "in the slot the convention names (TUM xyzw -> wxyz, KITTI row-major, EuRoC ns/1e9 and wxyz); quaternion_matrix of "
              "a unit (w,x,y,z) is the textbook Hamilton matrix (= v -> q v q*) and a rotation; is_sim3 with the allclose "
              "tolerances accepts every s R | t, rejects reflections, singular blocks, wrong bottom rows and anything outside "
              "the band. The model is tied to the code by a differential run on generated well-formed and malformed files "
              "(accept/reject and every slot, bit for bit) and transform files.")
LEVEL_NOTE = ("Trusted: Coq kernel/VM, Reals axioms, the convention specs as transcriptions of the published formats, the "
              "hand-written model's correspondence (tested), float()/numpy token recognition, python text decoding, csv.reader, "
              "np.load/np.loadtxt/json as kernels, LAPACK det through the sim3_scale tape (fragile decisions counted).")
TECHNIQUE = ("Coq proof (refinement of a code-shaped parser model against independent convention specs; ring/nsatz for the "
             "quaternion convention) + model/implementation correspondence by vm_compute on generated files")
