(* SettingsFS.v - executable model for C19: evo's settings directory (~/.evo) under crashes and
   concurrent process starts.  Mirrors evo/tools/settings.py (write_atomically, write_to_json_file,
   reset, initialize_if_needed, update_if_outdated, the import-time load) and the settings-writing
   commands of evo/main_config.py (set_config, merge_json_union, reset).

   Three layers, all executable (vm_compute):
   1. the file system and its primitive events (what the OS does, including the steps that the
      protocol must NOT take: truncating a shared file in place, renaming an unfinished temp file,
      mkdir without exist_ok, unlink);
   2. the protocol discipline as a per-process monitor ([legal_step]): shared paths are only ever
      the target of a rename of a completely written, closed, private temp file;
   3. evo's processes as decision trees over observations ([prog]), an interleaving semantics for
      any number of them, and an abstract interpreter [safe_b] (rely/guarantee knowledge that is
      stable under interference).
   Proofs are in SettingsFSProofs.v.  No proofs in this file. *)
From Coq Require Import List Arith Bool.
Import ListNotations.

(* ------------------------------------------------------------------------------------------ *)
(* 1. file system                                                                               *)
(* ------------------------------------------------------------------------------------------ *)
Inductive target := TSet (* settings.json *) | TVer (* assets_version *).
Definition target_eqb (a b : target) : bool :=
  match a, b with TSet, TSet | TVer, TVer => true | _, _ => false end.

(* contents are abstract: a complete settings document is characterised by "has every default key",
   a complete version file by "equals the running __version__" *)
Record content := C { all_keys : bool; cur : bool }.
Definition content_eqb (a b : content) : bool :=
  Bool.eqb (all_keys a) (all_keys b) && Bool.eqb (cur a) (cur b).

Inductive fstate := Absent | Partial | Present (c : content).
Definition fstate_eqb (a b : fstate) : bool :=
  match a, b with
  | Absent, Absent | Partial, Partial => true
  | Present c, Present d => content_eqb c d
  | _, _ => false
  end.
Definition is_present (s : fstate) : bool := match s with Present _ => true | _ => false end.

Inductive path :=
| PDir                              (* ~/.evo *)
| PShared (t : target)              (* ~/.evo/settings.json, ~/.evo/assets_version *)
| PTmp (owner : nat) (t : target)   (* ~/.evo/<name>.<pid of owner>.tmp : private to its owner *)
| PForeign (k : nat)                (* a file outside ~/.evo (e.g. the config merged in by `set -m`) *)
| PUnknown (k : nat).               (* any other file inside ~/.evo: not part of the protocol *)

Definition path_eqb (a b : path) : bool :=
  match a, b with
  | PDir, PDir => true
  | PShared t, PShared u => target_eqb t u
  | PTmp o t, PTmp p u => Nat.eqb o p && target_eqb t u
  | PForeign k, PForeign l => Nat.eqb k l
  | PUnknown k, PUnknown l => Nat.eqb k l
  | _, _ => false
  end.

Record fs := FS { dir : bool; shared : target -> fstate; tmps : nat -> target -> fstate;
                  foreign : nat -> fstate; unknown : nat -> fstate }.

Definition empty_dir (f : fs) (d : bool) : fs :=
  FS d (fun _ => Absent) (fun _ _ => Absent) (foreign f) (fun _ => Absent).

(* files inside ~/.evo only exist when the directory does *)
Definition lookup (f : fs) (p : path) : fstate :=
  match p with
  | PDir => Absent
  | PShared t => if dir f then shared f t else Absent
  | PTmp o t => if dir f then tmps f o t else Absent
  | PForeign k => foreign f k
  | PUnknown k => if dir f then unknown f k else Absent
  end.

Definition exists_b (f : fs) (p : path) : bool :=
  match p with
  | PDir => dir f
  | _ => match lookup f p with Absent => false | _ => true end
  end.

Definition update (f : fs) (p : path) (s : fstate) : fs :=
  match p with
  | PDir => f
  | PShared t => FS (dir f) (fun u => if target_eqb u t then s else shared f u) (tmps f) (foreign f) (unknown f)
  | PTmp o t => FS (dir f) (shared f)
                   (fun q u => if Nat.eqb q o && target_eqb u t then s else tmps f q u) (foreign f) (unknown f)
  | PForeign k => FS (dir f) (shared f) (tmps f) (fun l => if Nat.eqb l k then s else foreign f l) (unknown f)
  | PUnknown k => FS (dir f) (shared f) (tmps f) (foreign f) (fun l => if Nat.eqb l k then s else unknown f l)
  end.

Definition in_dir (p : path) : bool :=
  match p with PShared _ | PTmp _ _ | PUnknown _ => true | _ => false end.

(* primitive file-system events of one process; observations carry the observed result *)
Inductive ev :=
| EExists (p : path) (r : bool)       (* Path.exists() returned r *)
| EMkdir (exist_ok : bool)            (* Path.mkdir(exist_ok=...) of ~/.evo *)
| EOpenW (p : path)                   (* open(p, 'w'): create or truncate *)
| EWrite (p : path)                   (* a chunk of data reaches the file; more is to come *)
| EClose (p : path) (c : content)     (* the last data is written and the file closed: content c *)
| ERename (src dst : path)            (* os.replace(src, dst) *)
| ERead (p : path) (c : content)      (* open(p).read() / json.load: saw the complete content c *)
| ELoad (c : content)                 (* the import-time load of settings.json (a read) *)
| EUnlink (p : path).

Definition writable (f : fs) (p : path) : bool :=
  match p with PDir => false | PForeign _ => true | _ => dir f end.

(* effect of one event; None = the call raises in the calling process (or the recorded observation is
   impossible in this state) *)
Definition fs_step (f : fs) (e : ev) : option fs :=
  match e with
  | EExists p r => if Bool.eqb (exists_b f p) r then Some f else None
  | EMkdir ok => if dir f then (if ok then Some f else None) else Some (empty_dir f true)
  | EOpenW p => if writable f p then Some (update f p Partial) else None
  | EWrite p => match lookup f p with Partial => Some f | _ => None end
  | EClose p c => match lookup f p with Partial => Some (update f p (Present c)) | _ => None end
  | ERename s d =>
      if writable f s && writable f d then
        match lookup f s with
        | Absent => None
        | st => Some (update (update f s Absent) d st)
        end
      else None
  | ERead p c => match lookup f p with
                 | Present c' => if content_eqb c c' then Some f else None
                 | _ => None end
  | ELoad c => match lookup f (PShared TSet) with
               | Present c' => if content_eqb c c' then Some f else None
               | _ => None end
  | EUnlink p => match lookup f p with Absent => None | _ => Some (update f p Absent) end
  end.

(* the property's state predicate: each shared file is absent or complete *)
Definition never_partial_b (f : fs) : bool :=
  negb (fstate_eqb (lookup f (PShared TSet)) Partial) && negb (fstate_eqb (lookup f (PShared TVer)) Partial).

(* ------------------------------------------------------------------------------------------ *)
(* 2. protocol discipline (monitor)                                                             *)
(* ------------------------------------------------------------------------------------------ *)
(* per process: "my temp file for target t is completely written and closed" *)
Definition mon := target -> bool.
Definition mon0 : mon := fun _ => false.
Definition mon_set (m : mon) (t : target) (b : bool) : mon := fun u => if target_eqb u t then b else m u.

Definition legal_step (pid : nat) (m : mon) (e : ev) : option mon :=
  match e with
  | EExists _ _ | ERead _ _ | ELoad _ => Some m
  | EMkdir ok => if ok then Some m else None
  | EOpenW (PTmp o t) => if Nat.eqb o pid then Some (mon_set m t false) else None
  | EWrite (PTmp o t) => if Nat.eqb o pid then Some (mon_set m t false) else None
  | EClose (PTmp o t) _ => if Nat.eqb o pid then Some (mon_set m t true) else None
  | ERename (PTmp o t) (PShared u) =>
      if Nat.eqb o pid && target_eqb t u && m t then Some (mon_set m t false) else None
  | EOpenW (PForeign _) | EWrite (PForeign _) | EClose (PForeign _) _ => Some m
  | ERename (PForeign _) (PForeign _) => Some m
  | _ => None
  end.

Definition mons := nat -> mon.
Definition mons_set (ms : mons) (pid : nat) (m : mon) : mons := fun q => if Nat.eqb q pid then m else ms q.

(* a run of any number of processes: a list of (process, event).  A step that fails is skipped (the
   process raised; the others go on).  A crash is a process that contributes no further events.
   [run] is total (what the OS does with any trace); [legal_run] additionally demands the discipline. *)
Fixpoint run (f : fs) (tr : list (nat * ev)) : fs :=
  match tr with
  | [] => f
  | (_, e) :: r => match fs_step f e with Some f' => run f' r | None => run f r end
  end.

Fixpoint legal_run (f : fs) (ms : mons) (tr : list (nat * ev)) : option (fs * mons) :=
  match tr with
  | [] => Some (f, ms)
  | (p, e) :: r =>
      match legal_step p (ms p) e with
      | None => None
      | Some m' => match fs_step f e with
                   | Some f' => legal_run f' (mons_set ms p m') r
                   | None => legal_run f ms r
                   end
      end
  end.
Definition legal_run_b (f : fs) (tr : list (nat * ev)) : bool :=
  match legal_run f (fun _ => mon0) tr with Some _ => true | None => false end.

(* index of the first illegal event (diagnostics for a broken tie) *)
Fixpoint first_illegal (f : fs) (ms : mons) (tr : list (nat * ev)) (i : nat) : option nat :=
  match tr with
  | [] => None
  | (p, e) :: r =>
      match legal_step p (ms p) e with
      | None => Some i
      | Some m' => match fs_step f e with
                   | Some f' => first_illegal f' (mons_set ms p m') r (S i)
                   | None => first_illegal f ms r (S i)
                   end
      end
  end.

(* strict replay of a recorded trace: every recorded event must be possible *)
Fixpoint replay (f : fs) (tr : list (nat * ev)) : option fs :=
  match tr with
  | [] => Some f
  | (_, e) :: r => match fs_step f e with Some f' => replay f' r | None => None end
  end.

(* the states after every prefix of a recorded trace (for comparison with the observed directory) *)
Fixpoint states (f : fs) (tr : list (nat * ev)) : list fs :=
  match tr with
  | [] => []
  | (_, e) :: r => match fs_step f e with
                   | Some f' => f' :: states f' r
                   | None => f :: states f r
                   end
  end.

(* finite observation of a state: directory, the two shared files, the temp files of processes 0..n-1 *)
Definition obs (n : nat) (f : fs) : bool * (fstate * fstate) * list (fstate * fstate) :=
  (dir f, (lookup f (PShared TSet), lookup f (PShared TVer)),
   map (fun p => (lookup f (PTmp p TSet), lookup f (PTmp p TVer))) (seq 0 n)).

(* ------------------------------------------------------------------------------------------ *)
(* 3. evo's processes                                                                           *)
(* ------------------------------------------------------------------------------------------ *)
(* paths as a program names them (its own temp files are relative to its pid) *)
Inductive ppath := QDir | QShared (t : target) | QMyTmp (t : target) | QForeign (k : nat).
Definition resolve (pid : nat) (q : ppath) : path :=
  match q with QDir => PDir | QShared t => PShared t | QMyTmp t => PTmp pid t | QForeign k => PForeign k end.

Inductive act :=
| AMkdir (exist_ok : bool)
| AOpenW (q : ppath)
| AClose (q : ppath) (c : content)
| ARename (s d : ppath).
Definition act_ev (pid : nat) (a : act) : ev :=
  match a with
  | AMkdir ok => EMkdir ok
  | AOpenW q => EOpenW (resolve pid q)
  | AClose q c => EClose (resolve pid q) c
  | ARename s d => ERename (resolve pid s) (resolve pid d)
  end.

Inductive prog :=
| Done
| Act (a : act) (k : prog)
| Chunks (q : ppath) (n : nat) (k : prog)         (* n partial writes to q, then k *)
| IfExists (q : ppath) (kt kf : prog)
| ReadK (q : ppath) (k : content -> prog)
| LoadK (k : prog).                                 (* SETTINGS = from_json_file(DEFAULT_PATH) *)

Inductive res := RDone | RFail | RStep (e : ev) (f' : fs) (k : prog).

Fixpoint pstep (pid : nat) (f : fs) (pr : prog) : res :=
  match pr with
  | Done => RDone
  | Act a k => match fs_step f (act_ev pid a) with Some f' => RStep (act_ev pid a) f' k | None => RFail end
  | Chunks q 0 k => pstep pid f k
  | Chunks q (S n) k =>
      match fs_step f (EWrite (resolve pid q)) with
      | Some f' => RStep (EWrite (resolve pid q)) f' (Chunks q n k)
      | None => RFail end
  | IfExists q kt kf => let r := exists_b f (resolve pid q) in
                        RStep (EExists (resolve pid q) r) f (if r then kt else kf)
  | ReadK q k => match lookup f (resolve pid q) with
                 | Present c => RStep (ERead (resolve pid q) c) f (k c)
                 | _ => RFail end
  | LoadK k => match lookup f (PShared TSet) with
               | Present c => if all_keys c then RStep (ELoad c) f k else RFail
               | _ => RFail end
  end.

(* --- the programs, read off the source ---------------------------------------------------- *)
Definition c_defaults : content := C true false.      (* json.dumps(DEFAULT_SETTINGS_DICT) *)
Definition c_version : content := C false true.       (* __version__ *)
Definition c_upgrade (old : content) : content := C true false.        (* old + missing defaults *)
Definition c_edit (old : content) : content := C (all_keys old) false. (* same key set as what was read *)

(* settings.write_atomically(path, text): open(tmp,'w'); write; close; os.replace(tmp, path) *)
Definition wa (n : nat) (t : target) (c : content) (k : prog) : prog :=
  Act (AOpenW (QMyTmp t)) (Chunks (QMyTmp t) n (Act (AClose (QMyTmp t) c) (Act (ARename (QMyTmp t) (QShared t)) k))).

(* settings.reset(destination, parameter_subset) *)
Definition reset_all (n : nat) (k : prog) : prog :=
  IfExists (QShared TSet) (wa n TSet c_defaults k) (wa n TSet c_defaults k).
Definition reset_subset (n : nat) (k : prog) : prog :=
  IfExists (QShared TSet)
    (ReadK (QShared TSet) (fun c => wa n TSet (c_edit c) k))
    (wa n TSet c_defaults k).

(* module level of evo/tools/settings.py: initialize_if_needed(); update_if_outdated(); load *)
Definition start (n : nat) (k : prog) : prog :=
  let s4 := LoadK k in
  let s3 := ReadK (QShared TVer) (fun v =>
              if cur v then s4
              else ReadK (QShared TSet) (fun s => wa n TSet (c_upgrade s) (wa n TVer c_version s4))) in
  let s2 := IfExists (QShared TSet) s3 (reset_all n s3) in
  let s1 := IfExists (QShared TVer) s2 (wa n TVer c_version s2) in
  IfExists QDir s1 (Act (AMkdir true) s1).

(* evo_config sub-commands that write the package settings (main_config.main) *)
Inductive cmd := CNone | CSet | CSetMerge | CResetAll | CResetSubset.

Definition show (k : prog) : prog := ReadK (QShared TSet) (fun _ => k).
Definition set_config (n : nat) (k : prog) : prog :=
  ReadK (QShared TSet) (fun c => wa n TSet (c_edit c) k).
Definition merge_json_union (n : nat) (k : prog) : prog :=
  ReadK (QShared TSet) (fun c1 => ReadK (QForeign 0) (fun _ => wa n TSet (c_edit c1) k)).

Definition cmd_prog (n : nat) (c : cmd) : prog :=
  match c with
  | CNone => Done
  | CSet => show (set_config n (show Done))
  | CSetMerge => show (set_config n (merge_json_union n (show Done)))
  | CResetAll => reset_all n (show Done)
  | CResetSubset => reset_subset n (show Done)
  end.

Definition evo_prog (n : nat) (c : cmd) : prog := start n (cmd_prog n c).

(* --- interleaving semantics ---------------------------------------------------------------- *)
Fixpoint set_nth {A} (l : list A) (i : nat) (x : A) : list A :=
  match l, i with
  | [], _ => []
  | _ :: r, 0 => x :: r
  | y :: r, S j => y :: set_nth r j x
  end.

(* the scheduler picks process i; None = that process fails (raises) at this step *)
Definition sys_step (f : fs) (ps : list prog) (i : nat) : option (fs * list prog * list (nat * ev)) :=
  match nth_error ps i with
  | None => Some (f, ps, [])
  | Some pr => match pstep i f pr with
               | RDone => Some (f, ps, [])
               | RFail => None
               | RStep e f' k => Some (f', set_nth ps i k, [(i, e)])
               end
  end.

Fixpoint sys_run (f : fs) (ps : list prog) (sched : list nat) : option (fs * list prog * list (nat * ev)) :=
  match sched with
  | [] => Some (f, ps, [])
  | i :: r => match sys_step f ps i with
              | None => None
              | Some (f', ps', t1) =>
                  match sys_run f' ps' r with
                  | None => None
                  | Some (f'', ps'', t2) => Some (f'', ps'', t1 ++ t2)
                  end
              end
  end.

(* one process alone, run to completion (fuel = upper bound on its number of steps) *)
Fixpoint run_solo (fuel : nat) (pid : nat) (f : fs) (pr : prog) : option (fs * list (nat * ev)) :=
  match fuel with
  | 0 => None
  | S fu => match pstep pid f pr with
            | RDone => Some (f, [])
            | RFail => None
            | RStep e f' k => match run_solo fu pid f' k with
                              | Some (f'', t) => Some (f'', (pid, e) :: t)
                              | None => None end
            end
  end.

(* traces are compared with the recorded ones up to the Load/Read distinction (the recording shim sees
   a read of settings.json in both cases) *)
Definition erase (e : ev) : ev := match e with ELoad c => ERead (PShared TSet) c | _ => e end.

Definition ev_eqb (a b : ev) : bool :=
  match a, b with
  | EExists p r, EExists q s => path_eqb p q && Bool.eqb r s
  | EMkdir a, EMkdir b => Bool.eqb a b
  | EOpenW p, EOpenW q | EWrite p, EWrite q | EUnlink p, EUnlink q => path_eqb p q
  | EClose p c, EClose q d | ERead p c, ERead q d => path_eqb p q && content_eqb c d
  | ERename a b, ERename c d => path_eqb a c && path_eqb b d
  | ELoad c, ELoad d => content_eqb c d
  | _, _ => false
  end.
Fixpoint trace_eqb (a b : list (nat * ev)) : bool :=
  match a, b with
  | [], [] => true
  | (p, e) :: r, (q, g) :: s => Nat.eqb p q && ev_eqb (erase e) (erase g) && trace_eqb r s
  | _, _ => false
  end.

(* ------------------------------------------------------------------------------------------ *)
(* abstract interpreter: knowledge that is stable under interference                            *)
(* ------------------------------------------------------------------------------------------ *)
Inductive tmpk := TUnknown | TOpen | TDone (c : content).

Record know := K { kdir : bool;      (* ~/.evo exists *)
                   kver : bool;      (* assets_version is present (complete) *)
                   kvercur : bool;   (* ... and current *)
                   kset : bool;      (* settings.json is present (complete) *)
                   ksetall : bool;   (* ... and has every default key *)
                   ksetok : bool;    (* settings.json is absent or has every default key *)
                   ktmp : target -> tmpk }.

Definition K0 : know := K false false false false false false (fun _ => TUnknown).

Definition norm (k : know) : know :=
  let sall := ksetall k || (kset k && ksetok k) in
  K (kdir k || kver k || kset k) (kver k || kvercur k || kset k) (kvercur k) (kset k || sall) sall
    (ksetok k || sall) (ktmp k).

Definition ktmp_set (k : know) (t : target) (s : tmpk) : know :=
  K (kdir k) (kver k) (kvercur k) (kset k) (ksetall k) (ksetok k)
    (fun u => if target_eqb u t then s else ktmp k u).

Definition with_dir (k : know) := K true (kver k) (kvercur k) (kset k) (ksetall k) (ksetok k) (ktmp k).
Definition with_ver (k : know) := K (kdir k) true (kvercur k) (kset k) (ksetall k) (ksetok k) (ktmp k).
Definition with_vercur (k : know) := K (kdir k) true true (kset k) (ksetall k) true (ktmp k).
Definition with_set (k : know) := K (kdir k) (kver k) (kvercur k) true (ksetall k) (ksetok k) (ktmp k).
Definition with_setall (k : know) := K (kdir k) (kver k) (kvercur k) true true true (ktmp k).
Definition with_setok (k : know) := K (kdir k) (kver k) (kvercur k) (kset k) (ksetall k) true (ktmp k).

Definition abstract_act (k : know) (a : act) : option know :=
  match a with
  | AMkdir true => Some (with_dir k)
  | AOpenW (QMyTmp t) => if kdir k then Some (ktmp_set k t TOpen) else None
  | AClose (QMyTmp t) c => match ktmp k t with TOpen => Some (ktmp_set k t (TDone c)) | _ => None end
  | ARename (QMyTmp t) (QShared u) =>
      if target_eqb t u then
        match ktmp k t with
        | TDone c =>
            match t with
            | TSet => if all_keys c && kver k then Some (norm (with_setall (ktmp_set k t TUnknown))) else None
            | TVer => if cur c && ksetok k then Some (norm (with_vercur (ktmp_set k t TUnknown))) else None
            end
        | _ => None
        end
      else None
  | _ => None
  end.

Definition all_contents : list content := [C true true; C true false; C false true; C false false].

Fixpoint safe_b (k : know) (pr : prog) : bool :=
  match pr with
  | Done => true
  | Act a p => match abstract_act k a with Some k' => safe_b k' p | None => false end
  | Chunks (QMyTmp t) _ p => match ktmp k t with TOpen => safe_b k p | _ => false end
  | Chunks _ _ _ => false
  | IfExists QDir kt kf => safe_b (norm (with_dir k)) kt && safe_b k kf
  | IfExists (QShared TVer) kt kf => safe_b (norm (with_ver k)) kt && safe_b (norm (with_setok k)) kf
  | IfExists (QShared TSet) kt kf => safe_b (norm (with_set k)) kt && safe_b k kf
  | IfExists _ kt kf => safe_b k kt && safe_b k kf
  | ReadK (QShared TVer) p =>
      kver k && forallb (fun c => if cur c then safe_b (norm (with_vercur k)) (p c)
                                  else if kvercur k then true else safe_b k (p c)) all_contents
  | ReadK (QShared TSet) p =>
      kset k && forallb (fun c => if all_keys c then safe_b (norm (with_setall k)) (p c)
                                  else if ksetall k then true else safe_b k (p c)) all_contents
  | ReadK (QForeign _) p => forallb (fun c => safe_b k (p c)) all_contents
  | ReadK _ _ => false
  | LoadK p => ksetall k && safe_b k p
  end.

(* ------------------------------------------------------------------------------------------ *)
(* the old protocol (before the repair), kept as regression witness                             *)
(* ------------------------------------------------------------------------------------------ *)
(* write_to_json_file / version file: open(path, 'w') on the shared file itself, then write *)
Definition old_write (n : nat) (t : target) (c : content) (k : prog) : prog :=
  Act (AOpenW (QShared t)) (Chunks (QShared t) n (Act (AClose (QShared t) c) k)).
Definition old_start (n : nat) (k : prog) : prog :=
  let s4 := LoadK k in
  let s3 := ReadK (QShared TVer) (fun v =>
              if cur v then s4
              else ReadK (QShared TSet) (fun s => old_write n TSet (c_upgrade s) (old_write n TVer c_version s4))) in
  let s2 := IfExists (QShared TSet) s3 (IfExists (QShared TSet) (old_write n TSet c_defaults s3)
                                                              (old_write n TSet c_defaults s3)) in
  let s1 := IfExists (QShared TVer) s2 (old_write n TVer c_version s2) in
  IfExists QDir s1 (Act (AMkdir false) s1).

(* concrete homes used by examples and by the harness *)
Definition fs_fresh : fs := FS false (fun _ => Absent) (fun _ _ => Absent) (fun _ => Present c_defaults) (fun _ => Absent).
Definition fs_home (d : bool) (s v : fstate) : fs :=
  FS d (fun t => match t with TSet => s | TVer => v end) (fun _ _ => Absent) (fun _ => Present c_defaults) (fun _ => Absent).
