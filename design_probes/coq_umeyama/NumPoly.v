From Coq Require Import Reals Lra Lia List ZArith Ring Field Psatz Nsatz.
From Coq Require PrimFloat Uint63 Floats.
Local Open Scope R_scope.
Import ListNotations.

Class NumOps (T : Type) := {
  n0 : T; n1 : T;
  nadd : T -> T -> T; nsub : T -> T -> T; nmul : T -> T -> T; ndiv : T -> T -> T;
  nsqrt : T -> T; nabs : T -> T;
  nleb : T -> T -> bool; nltb : T -> T -> bool }.

Section Gen.
Context {T : Type} {ops : NumOps T}.
Record V3 := mkV3 { vx : T; vy : T; vz : T }.
Record M3 := mkM3 { m00:T; m01:T; m02:T; m10:T; m11:T; m12:T; m20:T; m21:T; m22:T }.
Definition vsub a b := mkV3 (nsub (vx a) (vx b)) (nsub (vy a) (vy b)) (nsub (vz a) (vz b)).
Definition dot a b := nadd (nadd (nmul (vx a) (vx b)) (nmul (vy a) (vy b))) (nmul (vz a) (vz b)).
Definition norm a := nsqrt (dot a a).
Definition mv (m:M3) (v:V3) := mkV3
  (nadd (nadd (nmul (m00 m) (vx v)) (nmul (m01 m) (vy v))) (nmul (m02 m) (vz v)))
  (nadd (nadd (nmul (m10 m) (vx v)) (nmul (m11 m) (vy v))) (nmul (m12 m) (vz v)))
  (nadd (nadd (nmul (m20 m) (vx v)) (nmul (m21 m) (vy v))) (nmul (m22 m) (vz v))).
Definition mtr (m:M3) := mkM3 (m00 m) (m10 m) (m20 m) (m01 m) (m11 m) (m21 m) (m02 m) (m12 m) (m22 m).
Fixpoint argmin_aux (best : nat) (bv : T) (i : nat) (l : list T) : nat :=
  match l with [] => best | x :: r => if nltb x bv then argmin_aux i x (S i) r else argmin_aux best bv (S i) r end.
Definition ape_trans (ref est : list V3) : list T := map (fun p => norm (vsub (snd p) (fst p))) (combine ref est).
End Gen.
Arguments V3 T : clear implicits.
Arguments M3 T : clear implicits.

#[global] Instance R_ops : NumOps R := {|
  n0 := 0%R; n1 := 1%R; nadd := Rplus; nsub := Rminus; nmul := Rmult; ndiv := Rdiv; nsqrt := R_sqrt.sqrt; nabs := Rabs;
  nleb := fun a b => if Rle_dec a b then true else false;
  nltb := fun a b => if Rlt_dec a b then true else false |}.
#[global] Instance F_ops : NumOps PrimFloat.float := {|
  n0 := PrimFloat.zero; n1 := PrimFloat.one; nadd := PrimFloat.add; nsub := PrimFloat.sub; nmul := PrimFloat.mul; ndiv := PrimFloat.div;
  nsqrt := PrimFloat.sqrt; nabs := PrimFloat.abs; nleb := PrimFloat.leb; nltb := PrimFloat.ltb |}.

Definition orth (m : M3 R) : Prop :=
  let t := mtr m in
  (m00 m * m00 m + m10 m * m10 m + m20 m * m20 m = 1 /\ m01 m * m01 m + m11 m * m11 m + m21 m * m21 m = 1 /\
   m02 m * m02 m + m12 m * m12 m + m22 m * m22 m = 1 /\ m00 m * m01 m + m10 m * m11 m + m20 m * m21 m = 0 /\
   m00 m * m02 m + m10 m * m12 m + m20 m * m22 m = 0 /\ m01 m * m02 m + m11 m * m12 m + m21 m * m22 m = 0)%R.

Lemma dot_mv_orth (m : M3 R) (v : V3 R) : orth m -> dot (mv m v) (mv m v) = dot v v.
Proof.
  destruct m, v; unfold orth, dot, mv; cbn. intros (H1&H2&H3&H4&H5&H6).
  nsatz.
Qed.

Lemma ape_len (ref est : list (V3 R)) : length ref = length est -> length (ape_trans ref est) = length ref.
Proof. intros H. unfold ape_trans. rewrite map_length, combine_length. lia. Qed.

Module FE.
Import PrimFloat.
Local Open Scope float_scope.
Eval vm_compute in (@ape_trans PrimFloat.float _ [mkV3 1 2 3; mkV3 0x1.999999999999ap-4 0 0] [mkV3 4 6 3; mkV3 0.5 0 0]).
Eval vm_compute in (PrimFloat.sqrt 2, PrimFloat.div 1 3, (0x1.999999999999ap-4)).
End FE.
Print Assumptions dot_mv_orth.
