(* Config.v - executable model of evo's configuration editing:
   evo/main_config.py   set_config, finalize_values, is_number, generate, merge_json_union
   evo/tools/settings.py merge_dicts, reset, update_if_outdated, SettingsContainer (lock)
   evo/entry_points.py   merge_config
   JSON documents are association lists (files are written with sort_keys, dict order is not observable);
   [F] is the carrier of JSON floats.  A command-line token carries its text and the verdict of python's
   float() on it (the numeric-token oracle): not a number / integral value / non-integral value / nan-inf.
   Definitions only; proofs in ConfigProofs.v. *)
From Coq Require Import Ascii String.
From Coq Require Import List Arith Bool ZArith.
Import ListNotations.
Local Open Scope string_scope.

Section Model.
Context {F : Type}.

Inductive json :=
| JNull
| JBool (b : bool)
| JInt (z : Z)
| JFloat (f : F)
| JStr (s : string)
| JList (l : list json).

Definition dict := list (string * json).

Fixpoint get (k : string) (d : dict) : option json :=
  match d with
  | [] => None
  | (k', v) :: r => if String.eqb k' k then Some v else get k r
  end.
Definition has (k : string) (d : dict) : bool := match get k d with Some _ => true | None => false end.
Definition keys (d : dict) : list string := map fst d.
(* d[k] = v : replace in place, append when new *)
Fixpoint set (k : string) (v : json) (d : dict) : dict :=
  match d with
  | [] => [(k, v)]
  | (k', w) :: r => if String.eqb k' k then (k', v) :: r else (k', w) :: set k v r
  end.
(* dict.update(other) *)
Definition update (d other : dict) : dict := fold_left (fun acc kv => set (fst kv) (snd kv) acc) other d.

(* ---------------- tokens ---------------- *)
Inductive numc := NotNum | NumInt (z : Z) | NumFlt (f : F) | NumBad.   (* NumBad: nan / inf *)
Record token := mkTok { txt : string; num : numc }.

Definition is_number (t : token) : bool := match num t with NotNum => false | _ => true end.

Definition lower_ascii (c : ascii) : ascii :=
  let n := nat_of_ascii c in if Nat.leb 65 n && Nat.leb n 90 then ascii_of_nat (n + 32) else c.
Fixpoint lower (s : string) : string :=
  match s with EmptyString => EmptyString | String c r => String (lower_ascii c) (lower r) end.

(* the value appended to [values]: numbers become int / float, everything else stays a string;
   None: int(float("nan" | "inf")) raises before anything is written *)
Definition value_of_token (t : token) : option json :=
  match num t with
  | NotNum => Some (JStr (txt t))
  | NumInt z => Some (JInt z)
  | NumFlt f => Some (JFloat f)
  | NumBad => None
  end.

Fixpoint take_values (iskey : string -> bool) (ts : list token) : list token :=
  match ts with
  | [] => []
  | t :: r => if iskey (txt t) then [] else t :: take_values iskey r
  end.

Fixpoint all_some {A} (l : list (option A)) : option (list A) :=
  match l with
  | [] => Some []
  | Some a :: r => match all_some r with Some r' => Some (a :: r') | None => None end
  | None :: _ => None
  end.

(* ---------------- finalize_values ---------------- *)
Variable palette_ok : string -> bool.    (* seaborn.color_palette(name) succeeds (oracle) *)

Definition is_bool (v : option json) : option bool := match v with Some (JBool b) => Some b | _ => None end.
Definition is_list (v : option json) : bool := match v with Some (JList _) => true | _ => false end.

(* None = an exception (TypeError of color_palette on a number); values is non-empty here *)
Definition finalize_values (cfg : dict) (key : string) (values : list json) : option json :=
  match values with
  | [] => Some JNull
  | v0 :: rest =>
      if String.eqb key "plot_seaborn_palette" then
        match rest with
        | _ :: _ => Some (JList values)
        | [] => match v0 with
                | JStr s => if palette_ok s then Some v0 else Some (JList values)
                | _ => None
                end
        end
      else match is_bool (get key cfg) with
      | Some b =>
          match last values JNull with
          | JStr s => if String.eqb (lower s) "false" then Some (JBool false)
                      else if String.eqb (lower s) "true" then Some (JBool true)
                      else Some (JBool (negb b))
          | _ => Some (JBool (negb b))
          end
      | None =>
          if negb (is_list (get key cfg)) then Some v0
          else match v0 with
               | JStr s => if String.eqb (lower s) "[]" || String.eqb (lower s) "none" then Some (JList []) else Some (JList values)
               | _ => Some (JList values)
               end
      end
  end.

(* ---------------- set_config ---------------- *)
Definition toggle (cfg : dict) (k : string) : dict :=
  match get k cfg with Some (JBool b) => set k (JBool (negb b)) cfg | _ => cfg end.

(* the loop over arg_list; None = an exception was raised, the file is not written *)
Fixpoint set_loop (cfg : dict) (args : list token) : option dict :=
  match args with
  | [] => Some cfg
  | a :: rest =>
      if has (txt a) cfg then
        match rest with
        | b :: _ =>
            if has (txt b) cfg then set_loop (toggle cfg (txt a)) rest
            else match all_some (map value_of_token (take_values (fun s => has s cfg) rest)) with
                 | None => None
                 | Some values => match finalize_values cfg (txt a) values with
                                  | None => None
                                  | Some v => set_loop (set (txt a) v cfg) rest
                                  end
                 end
        | [] => set_loop (toggle cfg (txt a)) rest
        end
      else set_loop cfg rest
  end.
(* the file after `evo_config set ARGS` *)
Definition set_config (cfg : dict) (args : list token) : dict :=
  match set_loop cfg args with Some c => c | None => cfg end.

(* ---------------- settings.py ---------------- *)
Definition merge_dicts (soft : bool) (first second : dict) : dict :=
  if soft then update first (filter (fun kv => negb (has (fst kv) first)) second) else update first second.

Variable defaults : dict.    (* DEFAULT_SETTINGS_DICT *)

(* reset(destination, parameter_subset): None = the whole file *)
Definition reset (cfg : dict) (subset : option (list string)) : dict :=
  match subset with
  | None => defaults
  | Some ps => fold_left (fun acc p => match get p defaults with Some v => set p v acc | None => acc end) ps cfg
  end.

(* update_if_outdated on an outdated version file *)
Definition upgrade (cfg : dict) : dict := merge_dicts true cfg defaults.

(* SettingsContainer: a dict whose key "__locked__" holds the lock *)
Definition LOCK : string := "__locked__".
Variable f_is_zero : F -> bool.
Definition truthy (v : json) : bool :=
  match v with
  | JNull => false | JBool b => b | JInt z => negb (Z.eqb z 0) | JFloat f => negb (f_is_zero f)
  | JStr s => negb (String.eqb s "") | JList l => match l with [] => false | _ => true end
  end.
Definition locked (c : dict) : bool := match get LOCK c with Some v => truthy v | None => false end.
(* SETTINGS.attr = value : None = SettingsException *)
Definition setattr (c : dict) (k : string) (v : json) : option dict :=
  if locked c && negb (has k c) then None else Some (set k v c).
(* SettingsContainer(data): setattr for every item, then setattr("__locked__", True) *)
Definition setattr_opt (c : option dict) (k : string) (v : json) : option dict :=
  match c with Some c' => setattr c' k v | None => None end.
Definition container_init (data : dict) : option dict :=
  setattr_opt (fold_left (fun acc kv => setattr_opt acc (fst kv) (snd kv)) data (Some [])) LOCK (JBool true).
Definition getattr (c : dict) (k : string) : option json := get k c.
Definition update_existing_keys (c other : dict) : dict :=
  update c (filter (fun kv => has (fst kv) c) other).

(* ---------------- histories of edits of a settings / config file ---------------- *)
Inductive op :=
| OSet (args : list token)
| OReset (subset : option (list string))
| OMerge (soft : bool) (other : dict)       (* merge_json_union(file, other, soft) *)
| OUpgrade.
Definition apply_op (cfg : dict) (o : op) : dict :=
  match o with
  | OSet args => set_config cfg args
  | OReset s => reset cfg s
  | OMerge soft other => merge_dicts soft cfg other
  | OUpgrade => upgrade cfg
  end.
Definition run (ops : list op) (cfg : dict) : dict := fold_left apply_op ops cfg.
Definition op_raises (cfg : dict) (o : op) : bool :=
  match o with OSet args => match set_loop cfg args with None => true | Some _ => false end | _ => false end.
(* the document after each operation, and whether the operation raised *)
Fixpoint trace (ops : list op) (cfg : dict) : list (bool * dict) :=
  match ops with
  | [] => []
  | o :: r => let c := apply_op cfg o in (op_raises cfg o, c) :: trace r c
  end.

(* operations on the loaded SettingsContainer *)
Inductive cop := CSet (k : string) (v : json) | CUpd (other : dict).
(* a failed assignment raises and leaves the container as it was *)
Definition apply_cop (c : dict) (o : cop) : dict :=
  match o with
  | CSet k v => match setattr c k v with Some c' => c' | None => c end
  | CUpd other => update_existing_keys c other
  end.
Definition cop_raises (c : dict) (o : cop) : bool :=
  match o with CSet k v => match setattr c k v with None => true | Some _ => false end | CUpd _ => false end.
Fixpoint ctrace (ops : list cop) (c : dict) : list (bool * dict) :=
  match ops with
  | [] => []
  | o :: r => let c' := apply_cop c o in (cop_raises c o, c') :: ctrace r c'
  end.

(* ---------------- entry_points.merge_config ---------------- *)
(* (namespace after the merge, SETTINGS after the merge); the settings file is not touched *)
Definition merge_config (args cfgfile settings : dict) : dict * dict :=
  (update args cfgfile, update_existing_keys settings cfgfile).

(* ---------------- evo_config generate ---------------- *)
Definition starts_dash (s : string) : bool := match s with String "-"%char _ => true | _ => false end.
Definition is_flag (t : token) : bool := starts_dash (txt t) && negb (is_number t).
Definition strip_dashes (s : string) : string :=
  match s with
  | String "-"%char (String "-"%char r) => r
  | String "-"%char r => r
  | _ => s
  end.
(* numbers: int when integral, float otherwise (nan / inf stay floats: value [bad]) *)
Variable bad_float : string -> json.    (* float("nan"), float("inf"), ... as a JSON value *)
Definition gen_value (t : token) : json :=
  match num t with
  | NotNum => JStr (txt t)
  | NumInt z => JInt z
  | NumFlt f => JFloat f
  | NumBad => bad_float (txt t)
  end.
Fixpoint take_nonflags (ts : list token) : list token :=
  match ts with
  | [] => []
  | t :: r => if is_flag t then [] else t :: take_nonflags r
  end.
Fixpoint gen_loop (data : dict) (args : list token) : dict :=
  match args with
  | [] => data
  | a :: rest =>
      if is_flag a then
        let name := strip_dashes (txt a) in
        match rest with
        | [] => gen_loop (set name (JBool true) data) rest
        | b :: _ =>
            if is_flag b then gen_loop (set name (JBool true) data) rest
            else let values := map gen_value (take_nonflags rest) in
                 gen_loop (set name (match values with [v] => v | _ => JList values end) data) rest
        end
      else gen_loop data rest
  end.
Definition generate (args : list token) : dict := gen_loop [] args.

End Model.

Arguments json F : clear implicits.
Arguments token F : clear implicits.
Arguments numc F : clear implicits.
Arguments dict F : clear implicits.

(* ---------------- the argument lists of the generate / -c equivalence ---------------- *)
Section Args.
Context {F : Type}.
Variable F_of_Z : Z -> F.     (* float(int) *)

(* one typed option occurrence: "--name" followed by its value tokens *)
Inductive optkind := KFlag | KStr | KInt | KFloat | KFloats (n : nat).
(* a numeric value as spelled on the command line: integral spelling (float() gives an integral value)
   or a non-integral float *)
Inductive numv := VInt (z : Z) | VFlt (f : F).
Inductive arg :=
| AFlag (name : string)
| AStr (name : string) (s : string)
| AInt (name : string) (z : Z) (spelling : string)
| AFloat (name : string) (v : numv) (spelling : string)
| AFloats (name : string) (vs : list (numv * string)).

Definition arg_name (a : arg) : string :=
  match a with AFlag n | AStr n _ | AInt n _ _ | AFloat n _ _ | AFloats n _ => n end.
Definition num_token (v : numv) (spelling : string) : token F :=
  mkTok spelling (match v with VInt z => NumInt z | VFlt f => NumFlt f end).
Definition arg_tokens (a : arg) : list (token F) :=
  mkTok ("--" ++ arg_name a) NotNum ::
  match a with
  | AFlag _ => []
  | AStr _ s => [mkTok s NotNum]
  | AInt _ z sp => [mkTok sp (NumInt z)]
  | AFloat _ v sp => [num_token v sp]
  | AFloats _ vs => map (fun p => num_token (fst p) (snd p)) vs
  end.
Definition flatten (args : list arg) : list (token F) := flat_map arg_tokens args.

(* what argparse stores for the occurrence (type=int -> int, type=float -> float, store_true -> True) *)
Definition float_of (v : numv) : F := match v with VInt z => F_of_Z z | VFlt f => f end.
Definition arg_value (a : arg) : json F :=
  match a with
  | AFlag _ => JBool true
  | AStr _ s => JStr s
  | AInt _ z _ => JInt z
  | AFloat _ v _ => JFloat (float_of v)
  | AFloats _ vs => JList (map (fun p => JFloat (float_of (fst p))) vs)
  end.
(* parser.parse_args: defaults overridden occurrence by occurrence *)
Definition parse_direct (dflt : dict F) (args : list arg) : dict F :=
  fold_left (fun acc a => set (arg_name a) (arg_value a) acc) args dflt.

(* python's ==  on the values involved: 1 == 1.0, lists element-wise *)
Definition jsim1 (a b : json F) : Prop :=
  match a, b with
  | JInt z, JFloat f | JFloat f, JInt z => f = F_of_Z z
  | _, _ => a = b
  end.
Definition jsim (a b : json F) : Prop :=
  match a, b with
  | JList la, JList lb => Forall2 jsim1 la lb
  | _, _ => jsim1 a b
  end.

(* well-formed occurrences: the name is a plain word, string values are neither numbers nor dashed,
   a two-value option has two values *)
Definition plain (s : string) : Prop := starts_dash s = false.
Definition arg_ok (a : arg) : Prop :=
  plain (arg_name a) /\
  match a with
  | AStr _ s => plain s
  | AFloats _ vs => (2 <= length vs)%nat
  | _ => True
  end.
End Args.

(* boolean duplicate check, used for the re-translated DEFAULT_SETTINGS_DICT *)
Fixpoint nodup_strings (l : list string) : bool :=
  match l with
  | [] => true
  | a :: r => negb (existsb (String.eqb a) r) && nodup_strings r
  end.

(* printable views for the correspondence runs *)
Section CView.
Context {F : Type}.
Definition dict_view (o : option (dict F)) : option (list (string * json F)) := o.
End CView.

(* ---------------- the pre-repair generate (finding F6), kept as a regression witness ---------------- *)
Section OldGenerate.
Context {F : Type}.
Variable F_of_Z : Z -> F.
(* every token starting with "-" was a flag, every number became a float *)
Definition is_flag_old (t : token F) : bool := starts_dash (txt t).
Definition gen_value_old (t : token F) : json F :=
  match num t with
  | NotNum => JStr (txt t)
  | NumInt z => JFloat (F_of_Z z)
  | NumFlt f => JFloat f
  | NumBad => JNull
  end.
Fixpoint take_nonflags_old (ts : list (token F)) : list (token F) :=
  match ts with
  | [] => []
  | t :: r => if is_flag_old t then [] else t :: take_nonflags_old r
  end.
Fixpoint gen_loop_old (data : dict F) (args : list (token F)) : dict F :=
  match args with
  | [] => data
  | a :: rest =>
      if is_flag_old a then
        let name := strip_dashes (txt a) in
        match rest with
        | [] => gen_loop_old (set name (JBool true) data) rest
        | b :: _ =>
            if is_flag_old b then gen_loop_old (set name (JBool true) data) rest
            else let values := map gen_value_old (take_nonflags_old rest) in
                 gen_loop_old (set name (match values with [v] => v | _ => JList values end) data) rest
        end
      else gen_loop_old data rest
  end.
Definition generate_old (args : list (token F)) : dict F := gen_loop_old [] args.
End OldGenerate.
