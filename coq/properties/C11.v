(* C11 - sub-sampling, cropping, splitting, merging. Property theorems only; proofs live in
   Evo.SubsampleProofs. Model: Evo.Subsample (downsample_ids / linspace_z, motion_ids, crop_ids,
   split_slices with the three flag criteria, merge3, select_ids = reduce_to_ids). *)
From Coq Require Import Reals List Sorted ZArith Permutation.
From Evo Require Import Num Linalg Filters FiltersProofs Subsample SubsampleProofs.
Import ListNotations.

(* ---------------- down-sampling ---------------- *)
(* what "evenly spaced by index" means: N indices, first 0, last n-1 (N >= 2), every gap >= 1 and
   equal to floor((n-1)/(N-1)) or (only if the division is not exact) that plus one *)
Theorem C11_evenly_spaced_checker_is_exact :
  forall n N ids, evenly_spaced_zb n N ids = true <-> evenly_spaced n N ids.
Proof. exact evenly_spaced_zb_iff. Qed.
Print Assumptions C11_evenly_spaced_checker_is_exact.

Theorem C11_evenly_spaced_increasing :
  forall n N ids, evenly_spaced n N ids ->
  forall a b, (a < b < length ids)%nat -> (nth a ids 0 < nth b ids 0)%Z.
Proof. exact evenly_spaced_increasing. Qed.
Print Assumptions C11_evenly_spaced_increasing.

(* exact-rational sampling ids_k = floor(k (n-1)/(N-1)) is evenly spaced for every 1 <= N <= n *)
Theorem C11_exact_sampling_evenly_spaced :
  forall n N, (1 <= N <= n)%Z -> evenly_spaced n N (exact_z n N).
Proof. exact exact_z_evenly_spaced. Qed.
Print Assumptions C11_exact_sampling_evenly_spaced.

(* read over the reals, the model of numpy.linspace(0, n-1, N, dtype=int) IS the exact sampling *)
Theorem C11_linspace_over_reals_is_exact :
  forall n N, (1 <= N)%Z -> @linspace_z R R_ops n N = exact_z n N.
Proof. exact linspace_real_is_exact. Qed.
Print Assumptions C11_linspace_over_reals_is_exact.

(* downsample: keeps min(N, count) poses; all of them if N >= count; refuses N < 1; else evenly spaced *)
Theorem C11_downsample :
  forall (n N : nat),
  match @downsample_ids R R_ops n N with
  | None => (N < 1 /\ N < n)%nat
  | Some ids =>
      length ids = Nat.min N n /\
      if Nat.leb n N then ids = seq 0 n
      else ids = map Z.to_nat (exact_z (Z.of_nat n) (Z.of_nat N)) /\
           evenly_spaced (Z.of_nat n) (Z.of_nat N) (exact_z (Z.of_nat n) (Z.of_nat N))
  end.
Proof. exact downsample_spec. Qed.
Print Assumptions C11_downsample.

(* FINITE statement (bounded enumeration by vm_compute, bound 300 in the statement): the binary64
   evaluation  floor(fl(k * fl((n-1)/(N-1))))  with the last index forced to n-1, which is what numpy
   computes (it differs from the exact floor for many (n, N)), is evenly spaced as well *)
Theorem C11_linspace_binary64_evenly_spaced_upto_300 :
  forall n N, (1 <= N < n)%Z -> (n <= 300)%Z -> evenly_spaced n N (linspace_zf n N).
Proof. exact linspace_float_evenly_spaced. Qed.
Print Assumptions C11_linspace_binary64_evenly_spaced_upto_300.

Theorem C11_downsample_binary64_upto_300 :
  forall (n N : nat), (1 <= N < n)%nat -> (n <= 300)%nat ->
  @downsample_ids PrimFloat.float F_ops n N = Some (map Z.to_nat (linspace_zf (Z.of_nat n) (Z.of_nat N))) /\
  evenly_spaced (Z.of_nat n) (Z.of_nat N) (linspace_zf (Z.of_nat n) (Z.of_nat N)).
Proof. exact downsample_float_spec. Qed.
Print Assumptions C11_downsample_binary64_upto_300.

(* non-vacuity, and the reason for the second model: numpy's result is not the exact floor *)
Theorem C11_binary64_linspace_differs_from_exact_floor :
  linspace_zf 31 23 = [0; 1; 2; 4; 5; 6; 8; 9; 10; 12; 13; 14; 16; 17; 19; 20; 21; 23; 24; 25; 27; 28; 30]%Z /\
  exact_z 31 23 = [0; 1; 2; 4; 5; 6; 8; 9; 10; 12; 13; 15; 16; 17; 19; 20; 21; 23; 24; 25; 27; 28; 30]%Z.
Proof. exact linspace_float_differs_from_exact. Qed.
Print Assumptions C11_binary64_linspace_differs_from_exact_floor.

Local Open Scope R_scope.

(* ---------------- motion filter ---------------- *)
(* refusal: fewer than two poses or a negative threshold. Otherwise pose 0 is kept, the kept indices are
   strictly increasing, and a later pose j is kept IF AND ONLY IF, with p the last pose kept before j,
   the path travelled from p to j reached the distance threshold or the direct rotation angle between
   p and j reached the angle threshold *)
Theorem C11_motion_filter :
  forall (ps : list (V3 R)) (ang : nat -> nat -> R) (dthr athr : R) (degrees : bool),
  let a := if degrees then athr * (PI / 180) else athr in
  match motion_ids PI ps ang dthr athr degrees with
  | None => (length ps < 2)%nat \/ dthr < 0 \/ athr < 0
  | Some K =>
      (2 <= length ps)%nat /\ 0 <= dthr /\ 0 <= athr /\
      hd 1%nat K = 0%nat /\ StronglySorted lt K /\ Forall (fun j => (j < length ps)%nat) K /\
      forall j, (1 <= j < length ps)%nat ->
        (In j K <-> keep dthr a ang (acc_dists ps) (last_kept K 0 j) j)
  end.
Proof. exact motion_ids_spec. Qed.
Print Assumptions C11_motion_filter.

(* that characterisation determines the result: two strictly increasing index lists below n that both contain
   pose 0 and both satisfy it are equal *)
Theorem C11_motion_filter_characterisation_is_unique :
  forall (dthr a : R) (ang : nat -> nat -> R) (D : list R) (n : nat) (K K' : list nat),
  (forall L, L = K \/ L = K' ->
     StronglySorted lt L /\ Forall (fun j => (j < n)%nat) L /\ In 0%nat L /\
     forall j, (1 <= j < n)%nat -> (In j L <-> keep dthr a ang D (last_kept L 0 j) j)) ->
  K = K'.
Proof. exact motion_characterisation_unique. Qed.
Print Assumptions C11_motion_filter_characterisation_is_unique.

(* ---------------- time cropping ---------------- *)
Theorem C11_crop_is_filter :
  forall (ts : list R) (start stop : option R),
  match crop_ids ts start stop with
  | None => ts = [] \/ (match stop with Some x => x | None => last ts 0 end) < (match start with Some x => x | None => hd 0 ts end)
  | Some ids =>
      ts <> [] /\ StronglySorted lt ids /\
      forall i, In i ids <->
        (i < length ts)%nat /\
        (match start with Some x => x | None => hd 0 ts end) <= nth i ts 0 <= (match stop with Some x => x | None => last ts 0 end)
  end.
Proof. exact crop_ids_spec. Qed.
Print Assumptions C11_crop_is_filter.

(* ---------------- splitting ---------------- *)
Theorem C11_split_concat_is_original :
  forall (A : Type) (flags : list bool) (l : list A), (length flags < length l \/ length l < 2)%nat ->
  concat (split_slices flags l) = l.
Proof. exact @split_concat. Qed.
Print Assumptions C11_split_concat_is_original.

(* every cut is at a flagged step, no flagged step remains inside a part *)
Theorem C11_split_parts :
  forall (A : Type) (flags : list bool) (l : list A), (length flags < length l)%nat -> (2 <= length l)%nat ->
  where_idx flags <> [] ->
  let b := split_bounds flags (length l) in
  split_slices flags l = map (fun ab => slice l (fst ab) (snd ab)) (zip_next b) /\
  hd 1%nat b = 0%nat /\ last b 0%nat = length l /\ StronglySorted lt b /\
  (forall c, In c b -> c = 0%nat \/ c = length l \/ nth (c - 1) flags false = true) /\
  (forall lo hi, In (lo, hi) (zip_next b) -> (lo < hi <= length l)%nat /\
      forall k, (lo <= k)%nat -> (S k < hi)%nat -> nth k flags false = false).
Proof. exact @split_parts_spec. Qed.
Print Assumptions C11_split_parts.

Theorem C11_split_nothing_to_split :
  forall (A : Type) (flags : list bool) (l : list A),
  ((length l < 2)%nat \/ (forall k, (k < length flags)%nat -> nth k flags false = false)) -> split_slices flags l = [l].
Proof. exact @split_whole. Qed.
Print Assumptions C11_split_nothing_to_split.

(* the three criteria: step k -> k+1 is flagged iff it exceeds the threshold *)
Theorem C11_time_gap_criterion :
  forall (dt : R) (ts : list R),
  length (time_gap_flags dt ts) = (length ts - 1)%nat /\
  forall k, (S k < length ts)%nat -> (nth k (time_gap_flags dt ts) false = true <-> dt < nth (S k) ts 0 - nth k ts 0).
Proof. exact time_gap_flags_spec. Qed.
Print Assumptions C11_time_gap_criterion.

Theorem C11_distance_gap_criterion :
  forall (d0 : V3 R) (dist : R) (ps : list (V3 R)), ps <> [] ->
  length (dist_gap_flags dist ps) = (length ps - 1)%nat /\
  forall k, (S k < length ps)%nat ->
    (nth k (dist_gap_flags dist ps) false = true <-> dist < norm (vsub (nth k ps d0) (nth (S k) ps d0))).
Proof. exact dist_gap_flags_spec. Qed.
Print Assumptions C11_distance_gap_criterion.

Theorem C11_speed_criterion :
  forall (d0 : V3 R) (vmax : R) (ps : list (V3 R)) (ts : list R), length ps = length ts ->
  match speed_flags vmax ps ts with
  | Some f => length f = (length ps - 1)%nat /\
              forall k, (S k < length ps)%nat -> 0 < nth (S k) ts 0 - nth k ts 0 /\
                (nth k f false = true <->
                 vmax < norm (vsub (nth (S k) ps d0) (nth k ps d0)) / (nth (S k) ts 0 - nth k ts 0))
  | None => exists k, (S k < length ps)%nat /\ nth (S k) ts 0 - nth k ts 0 <= 0
  end.
Proof. exact speed_flags_spec. Qed.
Print Assumptions C11_speed_criterion.

(* ---------------- merging ---------------- *)
(* the three arrays are indexed with the same order: the merged (stamp, position, orientation) triples
   are a permutation of the input triples - every pose keeps its own timestamp and orientation *)
Theorem C11_merge_keeps_triples_together :
  forall (A B : Type) (da : A) (db : B) (order : list nat) (stamps : list R) (xyz : list A) (quat : list B),
  length xyz = length stamps -> length quat = length stamps -> Permutation order (seq 0 (length stamps)) ->
  let '(s', x', q') := merge3 0 da db order stamps xyz quat in
  combine s' (combine x' q') = select_ids (0, (da, db)) (combine stamps (combine xyz quat)) order /\
  Permutation (combine s' (combine x' q')) (combine stamps (combine xyz quat)) /\
  length s' = length stamps /\ length x' = length stamps /\ length q' = length stamps.
Proof. exact @merge3_spec. Qed.
Print Assumptions C11_merge_keeps_triples_together.

(* the argsort oracle: the checker applied to every recorded answer is sound, and the specification is
   satisfiable (a stable insertion argsort meets it), so the merged stamps are sorted *)
Theorem C11_argsort_checker_sound :
  forall (keys : list R) (order inv : list nat), is_argsort_b keys order inv = true ->
  Permutation order (seq 0 (length keys)) /\ StronglySorted Rle (select_ids 0 keys order).
Proof. exact is_argsort_b_sound. Qed.
Print Assumptions C11_argsort_checker_sound.

Theorem C11_argsort_exists :
  forall (keys : list R),
  Permutation (argsort_model keys) (seq 0 (length keys)) /\
  StronglySorted Rle (select_ids 0 keys (argsort_model keys)).
Proof. exact argsort_model_spec. Qed.
Print Assumptions C11_argsort_exists.

(* ---------------- reduce_to_ids: order and togetherness ---------------- *)
Theorem C11_reduce_keeps_arrays_together :
  forall (A B : Type) (da : A) (db : B) la lb ids, length la = length lb ->
  select_ids (da, db) (combine la lb) ids = combine (select_ids da la ids) (select_ids db lb ids).
Proof. exact @select_ids_combine. Qed.
Print Assumptions C11_reduce_keeps_arrays_together.

Theorem C11_reduce_picks_by_index :
  forall (A : Type) (d : A) l ids k, (k < length ids)%nat ->
  length (select_ids d l ids) = length ids /\ nth k (select_ids d l ids) d = nth (nth k ids 0%nat) l d.
Proof. exact @reduce_picks_by_index. Qed.
Print Assumptions C11_reduce_picks_by_index.

Theorem C11_reduce_preserves_relative_order :
  forall (A : Type) (d : A) l ids, StronglySorted lt ids -> Forall (fun i => (i < length l)%nat) ids ->
  forall k1 k2, (k1 < k2 < length ids)%nat ->
  exists i1 i2, (i1 < i2 < length l)%nat /\ nth k1 (select_ids d l ids) d = nth i1 l d /\
                nth k2 (select_ids d l ids) d = nth i2 l d.
Proof. exact @select_ids_order. Qed.
Print Assumptions C11_reduce_preserves_relative_order.
