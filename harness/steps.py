"""Translator tie (T): extract the ordered, guarded list of processing calls from a function of the
CURRENT source and emit it as a Coq `list string` (coq/generated/Steps<ID>.v). Fail-closed: a function
that cannot be found, or a watched callee occurring inside a construct the extractor does not walk
(loops are walked, comprehensions / lambdas / nested defs are not), aborts the translation."""
import ast
import os

from harness import common


class StepError(Exception):
    pass


def _callee(node):
    f = node.func
    if isinstance(f, ast.Attribute):
        return f.attr
    if isinstance(f, ast.Name):
        return f.id
    return None


def _calls_in(expr, watched):
    """watched calls inside an expression, in evaluation (source) order"""
    found = []
    for n in ast.walk(expr):
        if isinstance(n, (ast.Lambda, ast.ListComp, ast.GeneratorExp, ast.DictComp, ast.SetComp)):
            for m in ast.walk(n):
                if isinstance(m, ast.Call) and _callee(m) in watched:
                    raise StepError("watched call %s inside a comprehension/lambda" % _callee(m))
    calls = [n for n in ast.walk(expr) if isinstance(n, ast.Call) and _callee(n) in watched]
    calls.sort(key=lambda n: (n.lineno, n.col_offset))
    for c in calls:
        args = [ast.unparse(a) for a in c.args] + ["%s=%s" % (k.arg, ast.unparse(k.value)) for k in c.keywords]
        recv = ast.unparse(c.func.value) + "." if isinstance(c.func, ast.Attribute) else ""
        found.append("%s%s(%s)" % (recv, _callee(c), ", ".join(args)))
    return found


def _walk(stmts, watched, out, prefix=""):
    for s in stmts:
        if isinstance(s, ast.If):
            for c in _calls_in(s.test, watched):
                out.append(prefix + c)
            g = ast.unparse(s.test)
            _walk(s.body, watched, out, prefix + "if[%s] " % g)
            if s.orelse:
                _walk(s.orelse, watched, out, prefix + "else[%s] " % g)
        elif isinstance(s, (ast.For, ast.While)):
            g = ast.unparse(s.target) + " in " + ast.unparse(s.iter) if isinstance(s, ast.For) else ast.unparse(s.test)
            _walk(s.body, watched, out, prefix + "loop[%s] " % g)
            _walk(s.orelse, watched, out, prefix)
        elif isinstance(s, ast.With):
            _walk(s.body, watched, out, prefix)
        elif isinstance(s, ast.Try):
            _walk(s.body, watched, out, prefix)
            for h in s.handlers:
                _walk(h.body, watched, out, prefix + "except ")
            _walk(s.orelse, watched, out, prefix)
            _walk(s.finalbody, watched, out, prefix)
        elif isinstance(s, (ast.FunctionDef, ast.ClassDef, ast.AsyncFunctionDef)):
            for n in ast.walk(s):
                if isinstance(n, ast.Call) and _callee(n) in watched:
                    raise StepError("watched call %s inside a nested definition" % _callee(n))
        else:
            if isinstance(s, ast.AugAssign) and isinstance(s.target, ast.Attribute) and s.target.attr in watched:
                out.append(prefix + ast.unparse(s))
            for c in _calls_in(s, watched):
                out.append(prefix + c)


def extract(relpath, funcname, watched):
    src = open(os.path.join(common.REPO, relpath)).read()
    tree = ast.parse(src)
    for n in ast.walk(tree):
        if isinstance(n, ast.FunctionDef) and n.name == funcname:
            out = []
            _walk(n.body, set(watched), out)
            return out
    raise StepError("function %s not found in %s" % (funcname, relpath))


def coq_string_list(name, items):
    body = ";\n   ".join('"%s"' % s.replace('"', '""') for s in items)
    return "Definition %s : list string :=\n  [%s].\n" % (name, body)


def write_generated(modname, defs):
    """defs: list of (coq_name, list of step strings). Rewrites coq/generated/<modname>.v only on change."""
    text = ("(* GENERATED on every run by harness/steps.py from the current source - do not edit *)\n"
            "From Coq Require Import String List.\nImport ListNotations.\nLocal Open Scope string_scope.\n\n")
    for name, items in defs:
        text += coq_string_list(name, items) + "\n"
    path = os.path.join(common.COQ, "generated", modname + ".v")
    if not os.path.exists(path) or open(path).read() != text:
        with open(path, "w") as f:
            f.write(text)
    return path
