(* Filters.v - executable model of evo's RPE pair selection (property C10):
     evo/core/filters.py   filter_pairs_by_index / filter_pairs_by_path / filter_pairs_by_angle
     evo/core/metrics.py   id_pairs_from_delta
     evo/core/geometry.py  accumulated_distances
   Generic over NumOps: run at F_ops against numpy, reasoned about at R_ops (FiltersProofs.v).
   Rotation angles are NOT computed here: the angle between consecutive poses (so3_log_angle of
   relative_so3) and, for the all-pairs search, the angle between pose i and pose j (scipy
   Rotation, as the code calls it) enter as oracle values. No proofs in this file. *)
From Coq Require Import List Arith Bool ZArith.
From Coq Require PrimFloat.
From Evo Require Import Num Linalg.
Import ListNotations.
Local Open Scope num_scope.

Inductive outcome := Pairs (l : list (nat * nat)) | FilterError.
Inductive DUnit := DFrames | DMeters | DDegrees | DRadians | DOther.

(* zip(ids, ids[1:]) *)
Definition zip_next {A : Type} (l : list A) : list (A * A) := combine l (tl l).

(* ---------------- filter_pairs_by_index ---------------- *)
(* numpy.arange(0, n, d, dtype=int): the ceil(n/d) values 0, d, 2d, ... below n *)
Definition arange_step (n d : nat) : list nat := map (fun k => k * d) (seq 0 ((n + d - 1) / d)).
Definition pairs_by_index (n delta : nat) (all_pairs : bool) : list (nat * nat) :=
  if all_pairs
  then map (fun i => (i, i + delta)) (filter (fun i => Nat.ltb (i + delta) n) (seq 0 n))
  else zip_next (arange_step n delta).

Section Model.
Context {T : Type} {ops : NumOps T}.

(* numpy.argmin: index of the first minimal element *)
Fixpoint argmin_aux (best : nat) (bv : T) (i : nat) (l : list T) : nat :=
  match l with
  | [] => best
  | x :: r => if x <?! bv then argmin_aux i x (S i) r else argmin_aux best bv (S i) r
  end.
Definition argmin (l : list T) : nat :=
  match l with [] => 0 | x :: r => argmin_aux 0 x 1 r end.

(* ---------------- geometry.accumulated_distances ---------------- *)
(* np.linalg.norm(x[:-1] - x[1:], axis=1) *)
Fixpoint seg_norms (ps : list (V3 T)) : list T :=
  match ps with
  | a :: ((b :: _) as r) => norm (vsub a b) :: seg_norms r
  | _ => []
  end.
(* np.cumsum *)
Fixpoint cumsum_from (acc : T) (l : list T) : list T :=
  match l with [] => [] | x :: r => let a := acc +! x in a :: cumsum_from a r end.
Definition cumsum (l : list T) : list T :=
  match l with [] => [] | x :: r => x :: cumsum_from x r end.
Definition acc_dists (ps : list (V3 T)) : list T := n0 :: cumsum (seg_norms ps).

(* ---------------- filter_pairs_by_path ---------------- *)
(* all_pairs: for every i but the last, the candidate argmin_j |(D_j - D_i) - delta| over j > i,
   kept unless its distance to delta exceeds tol *)
Fixpoint path_all_aux (delta tol : T) (i : nat) (D : list T) : list (nat * nat) :=
  match D with
  | [] => []
  | d :: rest =>
      match rest with
      | [] => []
      | _ =>
          let ab := map (fun x => nabs ((x -! d) -! delta)) rest in
          let c := argmin ab in
          (if tol <?! nth c ab n0 then [] else [(i, c + S i)]) ++ path_all_aux delta tol (S i) rest
      end
  end.

(* consecutive: current_path += norm(current - previous) (previous starts as poses[0]) *)
Fixpoint steps_from (prev : V3 T) (ps : list (V3 T)) : list T :=
  match ps with [] => [] | p :: r => norm (vsub p prev) :: steps_from p r end.
Definition consec_steps (ps : list (V3 T)) : list T :=
  match ps with [] => [] | p0 :: _ => steps_from p0 ps end.
(* if current_path >= delta: ids.append(i); current_path = 0 *)
Fixpoint chain_ids (delta cur : T) (i : nat) (steps : list T) : list nat :=
  match steps with
  | [] => []
  | s :: r => let c := cur +! s in
              if delta <=?! c then i :: chain_ids delta n0 (S i) r else chain_ids delta c (S i) r
  end.

Definition pairs_by_path (ps : list (V3 T)) (delta tol : T) (all_pairs : bool) : list (nat * nat) :=
  if all_pairs then path_all_aux delta tol 0 (acc_dists ps)
  else zip_next (chain_ids delta n0 0 (consec_steps ps)).

(* ---------------- filter_pairs_by_angle ---------------- *)
Definition deg2rad (pi x : T) : T := x *! (pi /! nofZ 180).
(* consecutive: accumulate the consecutive angles; emit (start, end) and restart at end *)
Fixpoint angle_chain (delta acc : T) (start i : nat) (das : list T) : list (nat * nat) :=
  match das with
  | [] => []
  | a :: r => let c := acc +! a in
              if delta <=?! c then (start, S i) :: angle_chain delta n0 (S i) (S i) r
              else angle_chain delta c start (S i) r
  end.
(* all_pairs: every (i, j), i < j, whose direct angle lies in [lower, upper] *)
Definition angle_all (n : nat) (ang : nat -> nat -> T) (lo hi : T) : list (nat * nat) :=
  flat_map (fun i => map (fun j => (i, j))
                         (filter (fun j => (lo <=?! ang i j) && (ang i j <=?! hi)) (seq (S i) (n - S i))))
           (seq 0 (n - 1)).
(* oracle table: row i holds the angles between pose i and poses i+1, i+2, ... *)
Definition rows_ang (rows : list (list T)) (i j : nat) : T := nth (j - S i) (nth i rows []) n0.

Definition pairs_by_angle (pi : T) (n : nat) (das : list T) (ang : nat -> nat -> T)
           (delta tol : T) (degrees all_pairs : bool) : outcome :=
  let upper_limit := if degrees then nofZ 180 else pi in
  if (delta <?! n0) || (upper_limit <?! delta) then FilterError else
  let d := if degrees then deg2rad pi delta else delta in
  let t := if degrees then deg2rad pi tol else tol in
  Pairs (if all_pairs then angle_all n ang (d -! t) (d +! t) else angle_chain d n0 0 0 das).

(* ---------------- metrics.id_pairs_from_delta ---------------- *)
Definition select (pi : T) (ps : list (V3 T)) (das : list T) (ang : nat -> nat -> T)
           (delta : T) (dframes : nat) (u : DUnit) (rel_tol : T) (all_pairs : bool) : outcome :=
  match u with
  | DFrames => Pairs (pairs_by_index (length ps) dframes all_pairs)
  | DMeters => Pairs (pairs_by_path ps delta (delta *! rel_tol) all_pairs)
  | DDegrees => pairs_by_angle pi (length ps) das ang delta (delta *! rel_tol) true all_pairs
  | DRadians => pairs_by_angle pi (length ps) das ang delta (delta *! rel_tol) false all_pairs
  | DOther => FilterError
  end.
Definition id_pairs_from_delta (pi : T) (ps : list (V3 T)) (das : list T) (ang : nat -> nat -> T)
           (delta : T) (dframes : nat) (u : DUnit) (rel_tol : T) (all_pairs : bool) : outcome :=
  match select pi ps das ang delta dframes u rel_tol all_pairs with
  | Pairs [] => FilterError
  | o => o
  end.

(* ---------------- decision margins (used only by the float run) ----------------
   smallest relative distance |c - delta| / (|c| + |delta|) over the threshold tests of the
   consecutive path chain: a disagreement with the implementation is only excused as rounding
   (np.linalg.norm of a single vector goes through BLAS ddot) when this is below 1e-9. *)
Definition relm (a b : T) : T := if neqb a b then n0 else nabs (a -! b) /! (nabs a +! nabs b).
Definition nmin (a b : T) : T := if b <?! a then b else a.
Fixpoint chain_margin (delta cur : T) (steps : list T) : T :=
  match steps with
  | [] => n1
  | s :: r => let c := cur +! s in
              nmin (relm c delta) (if delta <=?! c then chain_margin delta n0 r else chain_margin delta c r)
  end.
End Model.

(* float constants for the case files (the property files must not import PrimFloat) *)
Module FilterConsts.
Import PrimFloat.
Local Open Scope float_scope.
Definition pi_f : float := 0x1.921fb54442d18p+1.
End FilterConsts.
Definition pi_f := FilterConsts.pi_f.
