(* C08 - trajectory operations: documented effect, consistent views, for every history. Proofs in Evo.TrajProofs.
   Oracles (Section variables there, hypotheses here): quaternion_from_matrix [qfm] returns a unit quaternion whose
   matrix is its argument; [cbrt] is a cube root; transformations._EPS [eps4] lies in [0,1). *)
From Coq Require Import Reals List.
From Evo Require Import Num Linalg LinalgR Lie LieProofs Traj TrajProofs.
Import ListNotations.
Local Open Scope R_scope.

Section Oracles.
Variable qfm : M3R -> Q4R.
Variable cbrt : R -> R.
Variable eps4 : R.
Hypothesis eps4_small : 0 <= eps4 < 1.
Hypothesis qfm_spec : forall m, SO3 m -> unitq (qfm m) /\ @qmat R _ eps4 (qfm m) = m.
Hypothesis cbrt_spec : forall x, cbrt x * cbrt x * cbrt x = x.

(* one step: invariant preserved, documented effect on the denoted pose list *)
Theorem C08_every_operation_refines_its_documented_effect :
  forall (s s' : @traj R) (o : @op R), Inv eps4 s -> op_ok o -> step qfm cbrt eps4 s o = Some s' ->
  Inv eps4 s' /\ spec_step cbrt eps4 (poses_of eps4 s) o = Some (poses_of eps4 s').
Proof. exact (step_refines qfm cbrt eps4 qfm_spec cbrt_spec). Qed.

(* every finite history of operations and reads, no depth bound *)
Theorem C08_every_history_keeps_views_consistent :
  forall (os : list (@op R)) (s s' : @traj R), Inv eps4 s -> Forall op_ok os -> run qfm cbrt eps4 s os = Some s' ->
  Inv eps4 s' /\ spec_run cbrt eps4 (poses_of eps4 s) os = Some (poses_of eps4 s').
Proof. exact (history_refines qfm cbrt eps4 qfm_spec cbrt_spec). Qed.

Theorem C08_initial_state_from_matrices : forall (ps : list PoseR) st, Forall SE3 ps ->
  (forall l, st = Some l -> length l = length ps) ->
  Inv eps4 (init_poses ps st) /\ poses_of eps4 (init_poses ps st) = ps.
Proof. exact (inv_init_from_poses eps4). Qed.
Theorem C08_initial_state_from_positions_and_quaternions : forall (xs : list V3R) (qs : list Q4R) st,
  length xs = length qs -> Forall unitq qs -> (forall l, st = Some l -> length l = length xs) ->
  Inv eps4 (init_pos_quat xs qs st) /\ poses_of eps4 (init_pos_quat xs qs st) = zip_pose eps4 qs xs.
Proof. exact (inv_init_from_pos_quat eps4 eps4_small). Qed.

(* a similarity applied from the left: positions s*R*p + t, orientations R*R_p (poses stay rigid) *)
Theorem C08_similarity_effect : forall (r : M3R) (tau : V3R) k (p : PoseR), SO3 r -> 0 < k -> SE3 p ->
  renorm cbrt (pmul (sim3 r tau k) p) = mkPose (mm r (prot p)) (vadd (vscale k (mv r (ptr p))) tau).
Proof. exact (sim_left_effect cbrt cbrt_spec). Qed.
End Oracles.
Print Assumptions C08_every_operation_refines_its_documented_effect.
Print Assumptions C08_every_history_keeps_views_consistent.
Print Assumptions C08_initial_state_from_matrices.
Print Assumptions C08_initial_state_from_positions_and_quaternions.
Print Assumptions C08_similarity_effect.

(* the documented effects on the pose list *)
Theorem C08_left_multiplication : forall t (P : list PoseR), transform_poses t false false P = map (pmul t) P.
Proof. exact effect_left. Qed.
Print Assumptions C08_left_multiplication.
Theorem C08_right_multiplication : forall t (P : list PoseR), transform_poses t true false P = map (fun p => pmul p t) P.
Proof. exact effect_right. Qed.
Print Assumptions C08_right_multiplication.
Theorem C08_propagation_keeps_first_pose_and_maps_relative_motions : forall t p0 (r : list PoseR),
  SE3 t -> Forall SE3 (p0 :: r) ->
  exists r', transform_poses t true true (p0 :: r) = p0 :: r' /\ rels p0 r' = map (fun d => pmul d t) (rels p0 r).
Proof. exact effect_propagate. Qed.
Print Assumptions C08_propagation_keeps_first_pose_and_maps_relative_motions.
Theorem C08_scaling_multiplies_positions_only : forall k (p : PoseR),
  prot (scale_pose k p) = prot p /\ ptr (scale_pose k p) = vscale k (ptr p).
Proof. exact effect_scale. Qed.
Print Assumptions C08_scaling_multiplies_positions_only.
Theorem C08_quaternion_matrix_is_hamilton_rotation : forall eps4 : R, eps4 <= 1 -> forall q : Q4R, unitq q ->
  @qmat R _ eps4 q = hamilton q /\ SO3 (@qmat R _ eps4 q).
Proof. intros e He q U. split; [now apply qmat_unit|now apply qmat_SO3]. Qed.
Print Assumptions C08_quaternion_matrix_is_hamilton_rotation.
Theorem C08_distances_one_per_pose_from_zero : forall (a : V3R) r,
  length (@distances R _ (a :: r)) = length (a :: r) /\ hd 1 (@distances R _ (a :: r)) = 0.
Proof. exact distances_spec. Qed.
Print Assumptions C08_distances_one_per_pose_from_zero.

(* ---- derived quantities under the operations (added after every property had a check) ---- *)
(* left-multiplication by a rigid motion keeps all accumulated distances and the path length *)
Theorem C08_left_rigid_transform_keeps_distances_and_path_length : forall (t : PoseR) (P : list PoseR), SE3 t ->
  @distances R _ (map ptr (transform_poses t false false P)) = @distances R _ (map ptr P) /\
  @path_length R _ (map ptr (transform_poses t false false P)) = @path_length R _ (map ptr P).
Proof. exact left_rigid_transform_keeps_distances. Qed.
Print Assumptions C08_left_rigid_transform_keeps_distances_and_path_length.
(* scaling by k multiplies every step length, hence the path length, by |k| *)
Theorem C08_scaling_multiplies_path_length : forall k (xs : list V3R),
  @step_lengths R _ (map (vscale k) xs) = map (Rmult (Rabs k)) (@step_lengths R _ xs) /\
  @path_length R _ (map (vscale k) xs) = Rabs k * @path_length R _ xs.
Proof. intros k xs. split; [apply step_lengths_scale|apply path_length_scale]. Qed.
Print Assumptions C08_scaling_multiplies_path_length.
(* the accumulated distances never decrease and end at the path length *)
Theorem C08_distances_nondecreasing_and_end_at_path_length : forall xs : list V3R,
  nondecreasing_from 0 (@cumsum R _ 0 (@step_lengths R _ xs)) /\ last (@distances R _ xs) 0 = @path_length R _ xs.
Proof. intros xs. split; [apply distances_nondecreasing|apply distances_end_at_path_length]. Qed.
Print Assumptions C08_distances_nondecreasing_and_end_at_path_length.
