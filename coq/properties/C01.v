(* C01 - APE values equal the definition, pose by pose. Proofs in Evo.MetricsProofs. *)
From Coq Require Import Reals List.
From Evo Require Import Num Linalg LinalgR Lie LieProofs Metrics MetricsProofs NpDsl MetricsTieApe.
From EvoGen Require StepsC01.
From EvoGen Require Import LieGen MetricsGen.
Import ListNotations.
Local Open Scope R_scope.

Theorem C01_unequal_lengths_refused : forall rel (ref est : list PoseR),
  length ref <> length est -> apeR rel ref est = None.
Proof. exact ape_refuses_unequal. Qed.
Print Assumptions C01_unequal_lengths_refused.

Theorem C01_one_value_per_pose_in_order : forall rel (ref est : list PoseR) errs, apeR rel ref est = Some errs ->
  length ref = length est /\ length errs = length ref /\
  forall k, (k < length ref)%nat -> ape_pairR rel (nth k ref pI) (nth k est pI) = Some (nth k errs 0).
Proof. exact ape_one_value_per_pose. Qed.
Print Assumptions C01_one_value_per_pose_in_order.

Theorem C01_defined_for_supported_relations : forall rel (ref est : list PoseR),
  length ref = length est -> rel <> point_distance_error_ratio -> exists errs, apeR rel ref est = Some errs.
Proof. exact ape_defined. Qed.
Print Assumptions C01_defined_for_supported_relations.

(* the per-pair definition: translation part of E = est^-1 ref is the position distance;
   full^2 = rotation part^2 + translation^2; angle in [0, pi]; degrees = radians * 180/pi *)
Theorem C01_translation_part_is_position_distance : forall ref est : PoseR, Orth (prot est) ->
  norm (ptr (relative_se3 est ref)) = norm (vsub (ptr est) (ptr ref)).
Proof. exact ape_trans_is_E_translation. Qed.
Print Assumptions C01_translation_part_is_position_distance.
Theorem C01_full_is_frobenius_of_E_minus_I : forall (E : PoseR) x,
  reduce_pose angleR rad2degR full_transformation E = Some x ->
  x * x = fnorm2 (msub (prot E) I3) + nrm2 (ptr E).
Proof. exact ape_full_sq. Qed.
Print Assumptions C01_full_is_frobenius_of_E_minus_I.
Theorem C01_angle_in_0_pi : forall (ref est : PoseR) x,
  ape_pairR rotation_angle_rad ref est = Some x -> 0 <= x <= PI.
Proof. exact ape_angle_range. Qed.
Print Assumptions C01_angle_in_0_pi.
Theorem C01_degrees_are_scaled_radians : forall (ref est : PoseR) x y,
  ape_pairR rotation_angle_rad ref est = Some x -> ape_pairR rotation_angle_deg ref est = Some y -> y = x * (180 / PI).
Proof. exact ape_deg_is_rad_scaled. Qed.
Print Assumptions C01_degrees_are_scaled_radians.

(* the "hence" clauses *)
Theorem C01_zero_when_trajectories_coincide : forall rel (tr : list PoseR),
  Forall (fun p => Orth (prot p)) tr -> rel <> point_distance_error_ratio ->
  apeR rel tr tr = Some (repeat 0 (length tr)).
Proof. exact ape_zero_on_equal. Qed.
Print Assumptions C01_zero_when_trajectories_coincide.
Theorem C01_unchanged_under_common_rigid_motion : forall rel (t : PoseR) (ref est : list PoseR),
  Orth (prot t) -> apeR rel (map (pmul t) ref) (map (pmul t) est) = apeR rel ref est.
Proof. exact ape_left_invariant. Qed.
Print Assumptions C01_unchanged_under_common_rigid_motion.
Theorem C01_unchanged_when_swapped : forall rel (ref est : list PoseR),
  Forall (fun p => Orth (prot p)) ref -> Forall (fun p => Orth (prot p)) est ->
  apeR rel est ref = apeR rel ref est.
Proof. exact ape_swap. Qed.
Print Assumptions C01_unchanged_when_swapped.

(* CLI clause, translator tie: the ordered, guarded processing calls of main_ape.ape / main_ape.run /
   common.downsample_or_filter as re-extracted from the CURRENT source (EvoGen.StepsC01, regenerated on every
   run) are the documented order: filter/downsample -> crop reference -> associate -> align (est onto ref,
   correct_scale, only_scale, n) -> origin -> project ref, est -> APE(ref, est) -> unit -> result. *)
(* ---- translator tie: EvoGen.MetricsGen is re-translated from evo/core/metrics.py on every run ---- *)
(* the value APE.process_data computes for one reference/estimate pair (error quantity + per-relation reduction, as
   translated from the source) is the model's ape_pair, for every number system and every angle oracle *)
Theorem C01_translated_source_is_the_model : forall (T : Type) (ops : NumOps T) (angle_of : M3 T -> T) (rad2deg : T -> T)
  (rel : PoseRelation) (ref est : Pose T),
  ape_pair_gen angle_of rad2deg rel ref est = ape_pair angle_of rad2deg rel ref est.
Proof. exact (@ape_pair_gen_is_model). Qed.
Print Assumptions C01_translated_source_is_the_model.

From Coq Require Import String.
Local Open Scope string_scope.
Theorem C01_step_order_main_ape_ape : StepsC01.main_ape_ape =
  ["if[align or correct_scale] traj_est.align(traj_ref, correct_scale, only_scale, n=n_to_align)";
   "if[align or correct_scale] lie_algebra.sim3(r_a, t_a, s)";
   "if[align_origin] traj_est.align_origin(traj_ref)";
   "if[align_origin] to_ref_origin.dot(alignment_transformation)";
   "if[project_to_plane] traj_ref.project(project_to_plane)";
   "if[project_to_plane] traj_est.project(project_to_plane)";
   "metrics.APE(pose_relation)";
   "ape_metric.process_data(data)";
   "if[change_unit] ape_metric.change_unit(change_unit)";
   "ape_metric.get_result(ref_name, est_name)";
   "ape_result.add_trajectory(ref_name, traj_ref)";
   "ape_result.add_trajectory(est_name, traj_est)";
   "if[isinstance(traj_est, PoseTrajectory3D)] ape_result.add_np_array('seconds_from_start', seconds_from_start)";
   "if[isinstance(traj_est, PoseTrajectory3D)] ape_result.add_np_array('timestamps', traj_est.timestamps)";
   "if[isinstance(traj_est, PoseTrajectory3D)] ape_result.add_np_array('distances_from_start', traj_ref.distances)";
   "if[isinstance(traj_est, PoseTrajectory3D)] ape_result.add_np_array('distances', traj_est.distances)";
   "if[alignment_transformation is not None] ape_result.add_np_array('alignment_transformation_sim3', alignment_transformation)"].
Proof. reflexivity. Qed.
Print Assumptions C01_step_order_main_ape_ape.

Theorem C01_step_order_main_ape_run : StepsC01.main_ape_run =
  ["common.load_trajectories(args)";
   "common.get_pose_relation(args)";
   "if[args.plot_full_ref] copy.deepcopy(traj_ref)";
   "common.downsample_or_filter(args, traj_ref, traj_est)";
   "if[isinstance(traj_ref, PoseTrajectory3D) and isinstance(traj_est, PoseTrajectory3D)] if[args.t_start or args.t_end] traj_ref.reduce_to_time_range(args.t_start, args.t_end)";
   "if[isinstance(traj_ref, PoseTrajectory3D) and isinstance(traj_est, PoseTrajectory3D)] sync.associate_trajectories(traj_ref, traj_est, args.t_max_diff, args.t_offset, first_name=ref_name, snd_name=est_name)";
   "ape(traj_ref=traj_ref, traj_est=traj_est, pose_relation=pose_relation, align=args.align, correct_scale=args.correct_scale, n_to_align=args.n_to_align, align_origin=args.align_origin, ref_name=ref_name, est_name=est_name, change_unit=change_unit, project_to_plane=plane)";
   "if[args.save_results] file_interface.save_res_file(args.save_results, result, confirm_overwrite=not args.no_warnings)"].
Proof. reflexivity. Qed.
Print Assumptions C01_step_order_main_ape_run.

Theorem C01_step_order_downsample_or_filter : StepsC01.downsample_or_filter =
  ["if[args.downsample] traj_ref.downsample(args.downsample)";
   "if[args.downsample] traj_est.downsample(args.downsample)";
   "if[args.motion_filter] traj_ref.motion_filter(distance_threshold, angle_threshold, True)";
   "if[args.motion_filter] traj_est.motion_filter(distance_threshold, angle_threshold, True)"].
Proof. reflexivity. Qed.
Print Assumptions C01_step_order_downsample_or_filter.

(* ---- body frame (added after every property had a check): the rotation-angle APE is unchanged when every pose of both
   trajectories is right-multiplied by one rigid T (a change of the body-frame convention) ---- *)
Theorem C01_rotation_angle_independent_of_body_frame : forall rel (t : PoseR) (ref est : list PoseR),
  Forall (fun p => Orth (prot p)) est -> Orth (prot t) -> rel = rotation_angle_rad \/ rel = rotation_angle_deg ->
  apeR rel (map (fun p => pmul p t) ref) (map (fun p => pmul p t) est) = apeR rel ref est.
Proof. exact ape_rotation_angle_body_frame_invariant_traj. Qed.
Print Assumptions C01_rotation_angle_independent_of_body_frame.
