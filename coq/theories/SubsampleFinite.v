(* SubsampleFinite.v - the bounded enumeration behind C11's statement about numpy's binary64 linspace:
   for every 1 <= N < n <= 300 the list computed by the float model linspace_zf is evenly spaced
   (checker evenly_spaced_zb, proved equivalent to the declarative statement in SubsampleProofs.v).
   Kept in its own file because the evaluation takes about a minute. *)
From Coq Require Import List ZArith.
From Evo Require Import Num Subsample.
Local Open Scope Z_scope.

Lemma linspace_even_300 : forallb linspace_row_ok (ziota 301 0) = true.
Proof. vm_cast_no_check (eq_refl true). Qed.
