(* C09 - Lie-group helpers. Property theorems only; proofs live in Evo.LieProofs / Evo.LinalgR. *)
From Coq Require Import Reals List.
From Evo Require Import Num Linalg LinalgR Lie LieProofs NpDsl LieTie.
From EvoGen Require Import LieGen.
Local Open Scope R_scope.

Theorem C09_vee_hat : forall v : V3R, vee (hat v) = v.
Proof. exact vee_hat. Qed.
Print Assumptions C09_vee_hat.
Theorem C09_hat_vee : forall m : M3R, Skew m -> hat (vee m) = m.
Proof. exact hat_vee. Qed.
Print Assumptions C09_hat_vee.

Theorem C09_se3_inverse_left : forall p : PoseR, SE3 p -> pmul (se3_inverse p) p = pI.
Proof. exact se3_inverse_left. Qed.
Print Assumptions C09_se3_inverse_left.
Theorem C09_se3_inverse_right : forall p : PoseR, SE3 p -> pmul p (se3_inverse p) = pI.
Proof. exact se3_inverse_right. Qed.
Print Assumptions C09_se3_inverse_right.
Theorem C09_relative_se3_is_inverse_times : forall a b : PoseR, relative_se3 a b = pmul (se3_inverse a) b.
Proof. exact relative_se3_def. Qed.
Print Assumptions C09_relative_se3_is_inverse_times.
Theorem C09_relative_se3_self : forall a : PoseR, SE3 a -> relative_se3 a a = pI.
Proof. exact relative_se3_self. Qed.
Print Assumptions C09_relative_se3_self.
Theorem C09_relative_so3_self : forall r : M3R, SO3 r -> relative_so3 r r = I3.
Proof. exact relative_so3_self. Qed.
Print Assumptions C09_relative_so3_self.
Theorem C09_relative_so3_is_inverse_times : forall r q : M3R, SO3 r -> mm r (relative_so3 r q) = q.
Proof. exact relative_so3_inverse. Qed.
Print Assumptions C09_relative_so3_is_inverse_times.

Theorem C09_sim3_inverse_left : forall (r : M3R) (t : V3R) (s : R), Orth r -> s <> 0 ->
  pmul (sim3_inverse_with s (sim3 r t s)) (sim3 r t s) = pI.
Proof. exact sim3_inverse_left. Qed.
Print Assumptions C09_sim3_inverse_left.
Theorem C09_sim3_inverse_right : forall (r : M3R) (t : V3R) (s : R), Orth r -> s <> 0 ->
  pmul (sim3 r t s) (sim3_inverse_with s (sim3 r t s)) = pI.
Proof. exact sim3_inverse_right. Qed.
Print Assumptions C09_sim3_inverse_right.
Theorem C09_sim3_scale_recovered : forall (r : M3R) (t : V3R) (s c : R), SO3 r ->
  c * c * c = det (prot (sim3 r t s)) -> c = s.
Proof. exact sim3_scale_recovered. Qed.
Print Assumptions C09_sim3_scale_recovered.

Theorem C09_exp_is_rotation : forall v : V3R, SO3 (so3_expR v).
Proof. exact so3_exp_is_rotation. Qed.
Print Assumptions C09_exp_is_rotation.
Theorem C09_exp_angle : forall v : V3R, theta v <= PI -> angleR (so3_expR v) = theta v.
Proof. exact so3_exp_angle. Qed.
Print Assumptions C09_exp_angle.
Theorem C09_log_exp : forall v : V3R, theta v < PI -> so3_logR (so3_expR v) = v.
Proof. exact so3_log_exp. Qed.
Print Assumptions C09_log_exp.
(* exp o log = id on every rotation whose angle is not pi (cos_angle = -1 is the cut locus of the logarithm) *)
Theorem C09_exp_log : forall r : M3R, SO3 r -> cos_angle r <> -1 -> so3_expR (so3_logR r) = r.
Proof. exact so3_exp_log. Qed.
Print Assumptions C09_exp_log.
Theorem C09_exp_neg_is_inverse : forall v : V3R, mt (so3_expR v) = so3_expR (vopp v).
Proof. exact so3_exp_neg. Qed.
Print Assumptions C09_exp_neg_is_inverse.
(* the Rodrigues form used by the executable model is a rotation whenever the supplied
   coefficients satisfy the trigonometric identity (what the harness measures on every case) *)
Theorem C09_rodrigues_is_rotation : forall (v : V3R) (A B : R),
  2 * B = A * A + B * B * nrm2 v -> SO3 (rodrigues v A B).
Proof. exact rodrigues_SO3. Qed.
Print Assumptions C09_rodrigues_is_rotation.

Theorem C09_angle_range : forall r : M3R, 0 <= angleR r <= PI.
Proof. exact angle_range. Qed.
Print Assumptions C09_angle_range.
Theorem C09_angle_symmetric : forall a b : M3R, dist_angle a b = dist_angle b a.
Proof. exact dist_angle_sym. Qed.
Print Assumptions C09_angle_symmetric.
Theorem C09_angle_left_invariant : forall c a b : M3R, Orth c -> dist_angle (mm c a) (mm c b) = dist_angle a b.
Proof. exact dist_angle_left_invariant. Qed.
Print Assumptions C09_angle_left_invariant.
Theorem C09_angle_right_invariant : forall c a b : M3R, Orth c -> dist_angle (mm a c) (mm b c) = dist_angle a b.
Proof. exact dist_angle_right_invariant. Qed.
Print Assumptions C09_angle_right_invariant.
Theorem C09_angle_zero_iff_equal : forall a b : M3R, SO3 a -> SO3 b -> (dist_angle a b = 0 <-> a = b).
Proof. exact dist_angle_zero_iff. Qed.
Print Assumptions C09_angle_zero_iff_equal.
(* NOT proved in full: triangle_inequality_statement (needs spherical geometry); only degenerate cases *)
Theorem C09_triangle_inequality_partial : forall a c : M3R, SO3 a -> SO3 c ->
  dist_angle a c <= dist_angle a a + dist_angle a c /\ dist_angle a c <= dist_angle a c + dist_angle c c.
Proof. exact triangle_inequality_partial. Qed.
Print Assumptions C09_triangle_inequality_partial.

Theorem C09_is_so3_accepts : forall atol rtol : R, 0 <= atol -> 0 <= rtol ->
  forall r : M3R, SO3 r -> is_so3_b atol rtol (det r) r = true.
Proof. exact is_so3_accepts. Qed.
Print Assumptions C09_is_so3_accepts.
Theorem C09_is_se3_accepts : forall atol rtol : R, 0 <= atol -> 0 <= rtol ->
  forall p : PoseR, SE3 p -> is_se3_b atol rtol (det (prot p)) p (0, 0, 0, 1) = true.
Proof. exact is_se3_accepts. Qed.
Print Assumptions C09_is_se3_accepts.
Theorem C09_is_sim3_accepts : forall atol rtol : R, 0 <= atol -> 0 <= rtol ->
  forall (r : M3R) (t : V3R) (s : R), SO3 r -> s <> 0 -> is_sim3_b atol rtol s 1 (sim3 r t s) (0, 0, 0, 1) = true.
Proof. exact is_sim3_accepts. Qed.
Print Assumptions C09_is_sim3_accepts.
Theorem C09_rejects_reflection : forall atol rtol : R, forall r : M3R, atol + rtol < 2 -> det r = -1 ->
  is_so3_b atol rtol (det r) r = false.
Proof. exact is_so3_rejects_reflection. Qed.
Print Assumptions C09_rejects_reflection.
Theorem C09_rejects_scaled_block : forall atol rtol : R, forall (r : M3R) (k : R), SO3 r ->
  atol + rtol < Rabs (k * k * k - 1) -> is_so3_b atol rtol (det (mscale k r)) (mscale k r) = false.
Proof. exact is_so3_rejects_scaled. Qed.
Print Assumptions C09_rejects_scaled_block.
Theorem C09_rejects_wrong_bottom_row : forall atol rtol : R, forall (p : PoseR) d b0 b1 b2 b3,
  (b0, b1, b2, b3) <> (0, 0, 0, 1) -> is_se3_b atol rtol d p (b0, b1, b2, b3) = false.
Proof. exact is_se3_rejects_bottom. Qed.
Print Assumptions C09_rejects_wrong_bottom_row.

(* ---- translator tie: EvoGen.LieGen is re-translated from evo/core/lie_algebra.py on every run ---- *)
(* for EVERY number system (reals of the theorems, binary64 of the correspondence runs) the translated functions are
   the model's functions *)
Theorem C09_translated_source_is_the_model : forall (T : Type) (ops : NumOps T) (cbrt : T -> T) (rtol atol : T),
  (forall v : V3 T, hat_gen v = hat v) /\ (forall m : M3 T, vee_gen m = vee m) /\
  (forall (r : M3 T) (t : V3 T), se3_gen r t = mkPose r t) /\ (forall (r : M3 T) (t : V3 T) (s : T), sim3_gen r t s = sim3 r t s) /\
  (forall p : Pose T, so3_from_se3_gen p = prot p) /\ (forall p : Pose T, se3_inverse_gen p = se3_inverse p) /\
  (forall a : Pose T, sim3_scale_gen cbrt a = cbrt (det (prot a))) /\
  (forall a : Pose T, sim3_inverse_gen cbrt a = sim3_inverse_with (cbrt (det (prot a))) a) /\
  (forall r1 r2 : M3 T, relative_so3_gen r1 r2 = relative_so3 r1 r2) /\
  (forall p1 p2 : Pose T, relative_se3_gen p1 p2 = relative_se3 p1 p2) /\
  (forall r : M3 T, is_so3_gen rtol atol r = is_so3_b atol rtol (det r) r).
Proof. exact (@lie_gen_is_model). Qed.
Print Assumptions C09_translated_source_is_the_model.
(* hence, e.g., the inverse laws hold of the translated source itself *)
Theorem C09_translated_se3_inverse_is_inverse : forall p : PoseR, SE3 p ->
  pmul (se3_inverse_gen p) p = pI /\ pmul p (se3_inverse_gen p) = pI /\ relative_se3_gen p p = pI.
Proof.
  intros p H. rewrite relative_se3_gen_is_model, se3_inverse_gen_is_model.
  exact (conj (se3_inverse_left p H) (conj (se3_inverse_right p H) (relative_se3_self p H))).
Qed.
Print Assumptions C09_translated_se3_inverse_is_inverse.

(* ---- group laws (added after every property had a check): closure, inverse of a product, involution, uniqueness of
   the inverse, and the relative-pose helper as a left-invariant difference that chains and inverts ---- *)
Theorem C09_se3_closed_under_product_and_inverse : forall a b : PoseR, SE3 a -> SE3 b ->
  SE3 (pmul a b) /\ SE3 (se3_inverse a) /\ SE3 (relative_se3 a b).
Proof.
  intros a b Ha Hb. split; [now apply se3_product_closed|]. split; [now apply se3_inverse_closed|].
  rewrite relative_se3_def. apply se3_product_closed; [now apply se3_inverse_closed|exact Hb].
Qed.
Print Assumptions C09_se3_closed_under_product_and_inverse.
Theorem C09_se3_inverse_involutive : forall p : PoseR, SE3 p -> se3_inverse (se3_inverse p) = p.
Proof. exact se3_inverse_involutive. Qed.
Print Assumptions C09_se3_inverse_involutive.
Theorem C09_se3_inverse_of_product : forall a b : PoseR, SE3 a ->
  se3_inverse (pmul a b) = pmul (se3_inverse b) (se3_inverse a).
Proof. exact se3_inverse_of_product. Qed.
Print Assumptions C09_se3_inverse_of_product.
Theorem C09_se3_inverse_unique : forall p q : PoseR, SE3 p -> pmul q p = pI -> q = se3_inverse p.
Proof. exact se3_inverse_unique. Qed.
Print Assumptions C09_se3_inverse_unique.
Theorem C09_relative_se3_left_invariant : forall c a b : PoseR, SE3 c ->
  relative_se3 (pmul c a) (pmul c b) = relative_se3 a b.
Proof. exact relative_se3_left_invariant. Qed.
Print Assumptions C09_relative_se3_left_invariant.
Theorem C09_relative_se3_chain : forall a b c : PoseR, SE3 b ->
  pmul (relative_se3 a b) (relative_se3 b c) = relative_se3 a c.
Proof. exact relative_se3_chain. Qed.
Print Assumptions C09_relative_se3_chain.
Theorem C09_relative_se3_inverse_swaps : forall a b : PoseR, SE3 a -> SE3 b ->
  se3_inverse (relative_se3 a b) = relative_se3 b a.
Proof. exact relative_se3_inverse. Qed.
Print Assumptions C09_relative_se3_inverse_swaps.
Theorem C09_relative_se3_recovers_second : forall a b : PoseR, SE3 a -> pmul a (relative_se3 a b) = b.
Proof. exact relative_se3_recovers. Qed.
Print Assumptions C09_relative_se3_recovers_second.
Theorem C09_relative_so3_chain_and_closure : forall a b c : M3R, SO3 a -> SO3 b ->
  mm (relative_so3 a b) (relative_so3 b c) = relative_so3 a c /\ SO3 (relative_so3 a b).
Proof. intros a b c Ha Hb. split; [now apply relative_so3_chain|now apply relative_so3_closed]. Qed.
Print Assumptions C09_relative_so3_chain_and_closure.
(* Sim(3): the product of two similarity matrices is the similarity matrix of the product rotation, the composed
   translation and the product scale, and sim3_scale recovers that product scale *)
Theorem C09_sim3_product : forall (r1 r2 : M3R) (t1 t2 : V3R) (s1 s2 : R),
  pmul (sim3 r1 t1 s1) (sim3 r2 t2 s2) = sim3 (mm r1 r2) (vadd (vscale s1 (mv r1 t2)) t1) (s1 * s2).
Proof. exact sim3_product. Qed.
Print Assumptions C09_sim3_product.
Theorem C09_sim3_scale_of_product : forall (r1 r2 : M3R) (t1 t2 : V3R) (s1 s2 c : R), SO3 r1 -> SO3 r2 ->
  c * c * c = det (prot (pmul (sim3 r1 t1 s1) (sim3 r2 t2 s2))) -> c = s1 * s2.
Proof. exact sim3_scale_of_product. Qed.
Print Assumptions C09_sim3_scale_of_product.
Theorem C09_sim3_inverse_is_similarity_with_reciprocal_scale : forall (r : M3R) (t : V3R) (s : R), s <> 0 ->
  sim3_inverse_with s (sim3 r t s) = sim3 (mt r) (vopp (mv (mt r) (vscale (1 / s) t))) (1 / s).
Proof. exact sim3_inverse_is_sim3. Qed.
Print Assumptions C09_sim3_inverse_is_similarity_with_reciprocal_scale.
Theorem C09_sim3_inverse_extends_se3_inverse : forall (r : M3R) (t : V3R),
  sim3_inverse_with 1 (sim3 r t 1) = se3_inverse (mkPose r t).
Proof. exact sim3_inverse_unit_scale_is_se3_inverse. Qed.
Print Assumptions C09_sim3_inverse_extends_se3_inverse.
(* the same laws of the translated source itself (through the translator tie) *)
Theorem C09_translated_relative_se3_group_laws : forall a b c : PoseR, SE3 a -> SE3 b ->
  pmul (relative_se3_gen a b) (relative_se3_gen b c) = relative_se3_gen a c /\
  se3_inverse_gen (relative_se3_gen a b) = relative_se3_gen b a /\
  pmul a (relative_se3_gen a b) = b /\ se3_inverse_gen (se3_inverse_gen a) = a.
Proof.
  intros a b c Ha Hb. rewrite !relative_se3_gen_is_model, !se3_inverse_gen_is_model.
  split; [now apply relative_se3_chain|]. split; [now apply relative_se3_inverse|].
  split; [now apply relative_se3_recovers|now apply se3_inverse_involutive].
Qed.
Print Assumptions C09_translated_relative_se3_group_laws.

(* ---- the angle as a class function (added after every property had a check) ---- *)
Theorem C09_angle_of_inverse_and_conjugate : forall c r : M3R, Orth c ->
  angleR (mt r) = angleR r /\ angleR (mm (mm c r) (mt c)) = angleR r.
Proof. intros c r O. split; [apply angle_of_inverse|now apply angle_conjugation_invariant]. Qed.
Print Assumptions C09_angle_of_inverse_and_conjugate.
Theorem C09_angle_to_identity_is_own_angle : forall r : M3R, dist_angle I3 r = angleR r /\ dist_angle r I3 = angleR r.
Proof. exact dist_angle_identity. Qed.
Print Assumptions C09_angle_to_identity_is_own_angle.
Theorem C09_angle_left_and_right_difference_agree : forall a b : M3R, dist_angle a b = angleR (mm b (mt a)).
Proof. exact dist_angle_as_right_difference. Qed.
Print Assumptions C09_angle_left_and_right_difference_agree.
