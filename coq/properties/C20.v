(* C20 - plots draw the trajectory's own coordinates on the labelled axes.
   Property theorems only; proofs live in Evo.PlotModelProofs (hand model Evo.PlotModel) and, for the
   finite theorems, are re-run by vm_compute against the term EvoGen.PlotGen that is regenerated from
   evo/tools/plot.py and evo/core/units.py on every check. *)
From Coq Require Import String.
From Coq Require Import Reals List ZArith.
From Evo Require Import Num Linalg PlotModel PyAstPlot PlotModelProofs.
From EvoGen Require PlotGen.
Import ListNotations.

(* ---- (T) labels = indices for the 7 plot modes x 4 length units x all flag settings --------- *)
(* LabelSpec (Evo.PyAstPlot): the interpreter runs plot_mode_to_idx and prepare_axis of the current
   source; the returned indices are the positions of the letters of the mode's own name, each of
   set_xlabel / set_ylabel (/ set_zlabel exactly on 3-D axes) is called once on the returned axes with
   "$<letter of that index>$ (<value of the length unit>)", and no other object gets a label. *)
Theorem C20_labels_name_the_plotted_axes :
  map fst PlotGen.PlotMode_members = ["xy"; "xz"; "yx"; "yz"; "zx"; "zy"; "xyz"]%string /\
  interp_length_units Gen.tabs PlotGen.LENGTH_UNITS =
    Some ["millimeters"; "centimeters"; "meters"; "kilometers"]%string /\
  forall (m u : string) (f : axis_flags),
    In m ["xy"; "xz"; "yx"; "yz"; "zx"; "zy"; "xyz"]%string ->
    In u ["millimeters"; "centimeters"; "meters"; "kilometers"]%string ->
    LabelSpec Gen.tabs PlotGen.LENGTH_UNITS PlotGen.plot_mode_to_idx_body PlotGen.prepare_axis_body m u f.
Proof. exact Gen.labels_name_the_plotted_axes. Qed.
Print Assumptions C20_labels_name_the_plotted_axes.

(* every unit that is not a length unit is refused (so a label always carries a length unit) *)
Theorem C20_other_units_are_refused :
  map fst PlotGen.Unit_members =
    ("none" :: ["millimeters"; "centimeters"; "meters"; "kilometers"] ++
     ["seconds"; "degrees"; "radians"; "frames"; "percent"])%string /\
  forall (m u : string) (f : axis_flags),
    In m ["xy"; "xz"; "yx"; "yz"; "zx"; "zy"; "xyz"]%string ->
    In u ["none"; "seconds"; "degrees"; "radians"; "frames"; "percent"]%string ->
    exists r, interp_prepare Gen.tabs PlotGen.LENGTH_UNITS PlotGen.prepare_axis_body m u f = Some r /\
              ar_raised r = true.
Proof. exact Gen.other_units_are_refused. Qed.
Print Assumptions C20_other_units_are_refused.

(* the hand model (used by all theorems below and by the correspondence run) has the tables of the
   current source: same 7 modes, same indices, same 4 units, same labels *)
Theorem C20_model_tables_are_those_of_the_source :
  map mode_name all_modes = map fst PlotGen.PlotMode_members /\
  Some (map unit_name all_length_units) = interp_length_units Gen.tabs PlotGen.LENGTH_UNITS /\
  forall (m : PlotMode) (u : LengthUnit) (f : axis_flags),
    interp_idx Gen.tabs PlotGen.plot_mode_to_idx_body (mode_name m) = Some (Gen.idxZ (mode_idx m)) /\
    exists r, interp_prepare Gen.tabs PlotGen.LENGTH_UNITS PlotGen.prepare_axis_body (mode_name m) (unit_name u) f = Some r /\
      ar_raised r = false /\ ar_xlabels r ++ ar_ylabels r ++ ar_zlabels r = axis_labels m u.
Proof. exact Gen.model_tables_match_source. Qed.
Print Assumptions C20_model_tables_are_those_of_the_source.

(* ---- (H) data handed to the artists, for trajectories of any length -------------------------- *)
(* traj(): line data = the selected coordinate columns, in pose order *)
Theorem C20_line_data_is_the_selected_columns_in_pose_order :
  forall (A : Type) (m : PlotMode) (ps : list (V3 A)),
    traj_line m ps = map (fun i => column i ps) (mode_axes m) /\
    forall i, length (column i ps) = length ps /\
              forall k d, nth k (column i ps) (vcomp i d) = vcomp i (nth k ps d).
Proof. exact @traj_line_columns. Qed.
Print Assumptions C20_line_data_is_the_selected_columns_in_pose_order.

(* add_start_end_markers(): first and last pose, on the axes of the mode; nothing for an empty path *)
Theorem C20_start_end_markers_at_first_and_last_pose :
  forall (A : Type) (m : PlotMode) (ps : list (V3 A)) (d : V3 A),
    match ps with
    | [] => start_end_markers m ps = []
    | _ => start_end_markers m ps = [point m (nth 0 ps d); point m (nth (length ps - 1) ps d)]
    end.
Proof. exact @start_end_markers_spec. Qed.
Print Assumptions C20_start_end_markers_at_first_and_last_pose.

(* colored_line_collection(step=1) / traj_colormap(): segment k = (p_k, p_k+1) *)
Theorem C20_segments_step1 :
  forall (A : Type) (m : PlotMode) (xyz : list (V3 A)) (ncolors : nat),
    exists segs, line_collection 1 m xyz ncolors = Drawn segs /\
      length segs = length xyz - 1 /\
      forall k d, S k < length xyz ->
        nth_error segs k = Some [point m (nth k xyz d); point m (nth (S k) xyz d)].
Proof. exact @segments_step1. Qed.
Print Assumptions C20_segments_step1.

(* colored_line_collection(step=2) on interleaved vertices a_0 b_0 a_1 b_1 ...: segment k = (a_k, b_k) *)
Theorem C20_segments_step2_on_interleaved_array :
  forall (A : Type) (m : PlotMode) (a b : list (V3 A)),
    length a = length b ->
    exists segs, line_collection 2 m (interleave a b) (length a) = Drawn segs /\
      length segs = length a /\
      forall k d, k < length a -> nth_error segs k = Some [point m (nth k a d); point m (nth k b d)].
Proof. exact @segments_step2. Qed.
Print Assumptions C20_segments_step2_on_interleaved_array.

(* draw_correspondence_edges(): edge k joins pose k of both trajectories; unequal lengths are refused *)
Theorem C20_correspondence_edges :
  forall (A : Type) (m : PlotMode) (ps1 ps2 : list (V3 A)),
    (length ps1 <> length ps2 -> correspondence_edges m ps1 ps2 = Refused) /\
    (length ps1 = length ps2 ->
     exists segs, correspondence_edges m ps1 ps2 = Drawn segs /\ length segs = length ps1 /\
       forall k d, k < length ps1 -> nth_error segs k = Some [point m (nth k ps1 d); point m (nth k ps2 d)]).
Proof. exact @correspondence_edges_spec. Qed.
Print Assumptions C20_correspondence_edges.

(* draw_coordinate_axes(): marker a of pose k starts at the pose position and ends at p + scale * R e_a *)
Theorem C20_marker_vertices :
  forall (m : PlotMode) (s : R) (poses : list (Pose R)),
    ((s <= 0)%R -> coordinate_axes m s poses = Nothing) /\
    ((0 < s)%R ->
     exists segs, coordinate_axes m s poses = Drawn segs /\ length segs = 3 * length poses /\
       forall a k d, a < 3 -> k < length poses ->
         nth_error segs (a * length poses + k) =
         Some [point m (ptr (nth k poses d));
               point m (vadd (ptr (nth k poses d)) (vscale s (mv (prot (nth k poses d)) (basis a))))]).
Proof. exact coordinate_axes_spec. Qed.
Print Assumptions C20_marker_vertices.

(* x arrays of traj_xyz / traj_rpy: stamps minus the start time (no start time: minus 0), or pose index *)
Theorem C20_x_arrays :
  forall (stamps : option (list R)) (start : option R) (n : nat),
    match stamps with
    | Some ts => x_array stamps start n = map (fun t => t - match start with Some s => s | None => 0 end)%R ts
    | None => length (x_array stamps start n) = n /\
              forall k d, k < n -> nth k (x_array stamps start n) d = INR k
    end.
Proof. exact x_array_spec. Qed.
Print Assumptions C20_x_arrays.

Theorem C20_traj_xyz_shows_coordinate_i_against_x_array :
  forall (stamps : option (list R)) (start : option R) (ps : list (V3 R)) (i : nat), i < 3 ->
    nth_error (traj_xyz_lines stamps start ps) i = Some (x_array stamps start (length ps), column i ps).
Proof. exact traj_xyz_lines_spec. Qed.
Print Assumptions C20_traj_xyz_shows_coordinate_i_against_x_array.

Theorem C20_traj_rpy_shows_angle_i_in_degrees_against_x_array :
  forall (k : R) (stamps : option (list R)) (start : option R) (angles : list (V3 R)) (i : nat), i < 3 ->
    nth_error (traj_rpy_lines k stamps start angles) i =
    Some (x_array stamps start (length angles), map (fun a => vcomp i a * k)%R angles).
Proof. exact traj_rpy_lines_spec. Qed.
Print Assumptions C20_traj_rpy_shows_angle_i_in_degrees_against_x_array.

(* speeds(): value k against stamps[1:][k] = stamp k+1 (minus start time) *)
Theorem C20_speeds_against_later_stamp :
  forall (stamps : list R) (start : option R) (sp : list R),
    snd (speeds_line stamps start sp) = sp /\
    length (fst (speeds_line stamps start sp)) = length stamps - 1 /\
    forall k, S k < length stamps ->
      (nth k (fst (speeds_line stamps start sp)) 0 =
       nth (S k) stamps 0 - match start with Some s => s | None => 0 end)%R.
Proof. exact speeds_line_spec. Qed.
Print Assumptions C20_speeds_against_later_stamp.

Theorem C20_speed_values :
  forall (ps : list (V3 R)) (stamps : list R) (k : nat) (dp : V3 R),
    S k < length ps -> S k < length stamps ->
    nth_error (speed_values ps stamps) k =
    Some (dist (nth (S k) ps dp) (nth k ps dp) / (nth (S k) stamps 0 - nth k stamps 0))%R.
Proof. exact speed_values_spec. Qed.
Print Assumptions C20_speed_values.

(* error_array(): the values against the given x array (or the index), in order *)
Theorem C20_error_array_against_given_x :
  forall (err : list R) (xs : option (list R)) (cumulative : bool),
    (forall x, xs = Some x -> fst (error_array_line err xs cumulative) = x) /\
    (xs = None -> length (fst (error_array_line err xs cumulative)) = length err /\
                  forall k d, k < length err -> nth k (fst (error_array_line err xs cumulative)) d = INR k) /\
    (cumulative = false -> snd (error_array_line err xs cumulative) = err) /\
    (cumulative = true -> length (snd (error_array_line err xs cumulative)) = length err /\
                          forall k, k < length err ->
                            nth k (snd (error_array_line err xs cumulative)) 0%R = sum_first (S k) err).
Proof. exact error_array_line_spec. Qed.
Print Assumptions C20_error_array_against_given_x.

(* ---- non-vacuity: concrete data -------------------------------------------------------------- *)
Theorem C20_example_lists_and_labels :
  traj_line PMzx Example.path = [[3; 6; 9]; [1; 4; 7]] /\
  start_end_markers PMyz Example.path = [[2; 3]; [8; 9]] /\
  line_collection 1 PMzy Example.path 3 = Drawn [[[3; 2]; [6; 5]]; [[6; 5]; [9; 8]]] /\
  correspondence_edges PMxyz Example.path Example.path2 =
    Drawn [[[1; 2; 3]; [11; 12; 13]]; [[4; 5; 6]; [14; 15; 16]]; [[7; 8; 9]; [17; 18; 19]]] /\
  correspondence_edges PMxy Example.path (tl Example.path2) = Refused /\
  axis_labels PMzx LUmm = ["$z$ (mm)"; "$x$ (mm)"]%string /\
  exists r, interp_prepare Gen.tabs PlotGen.LENGTH_UNITS PlotGen.prepare_axis_body "zx" "millimeters"
                           (mkFlags false false true) = Some r /\
            ar_xlabels r = ["$z$ (mm)"]%string /\ ar_ylabels r = ["$x$ (mm)"]%string /\ ar_zlabels r = [] /\
            interp_idx Gen.tabs PlotGen.plot_mode_to_idx_body "zx" = Some (2%Z, 0%Z, None).
Proof. exact Example.concrete. Qed.
Print Assumptions C20_example_lists_and_labels.

Theorem C20_example_frame_marker :
  exists segs, coordinate_axes PMyx 2%R [Example.quarter] = Drawn segs /\
    nth_error segs 0 = Some [[20; 10]; [20 + 2 * 1; 10 + 2 * 0]]%R /\
    nth_error segs 1 = Some [[20; 10]; [20 + 2 * 0; 10 + 2 * -1]]%R /\
    nth_error segs 2 = Some [[20; 10]; [20 + 2 * 0; 10 + 2 * 0]]%R.
Proof. exact Example.concrete_marker. Qed.
Print Assumptions C20_example_frame_marker.
