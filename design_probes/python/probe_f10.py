import numpy as np
from evo.core import geometry, lie_algebra as lie
from scipy.spatial.transform import Rotation
rng=np.random.default_rng(7)
def resid(x,y,r,t,c): return np.sum((y-(c*r@x+t[:,None]))**2)
worst=0;bad=0
for it in range(400):
    n=rng.integers(3,40)
    kind=it%5
    x=rng.normal(size=(3,n))*10.0**rng.integers(-3,4)
    if kind==1: x[2]=0            # planar
    if kind==2: x=np.outer(rng.normal(size=3),rng.normal(size=n))+1e-3*rng.normal(size=(3,n))  # nearly collinear
    R0=Rotation.random(random_state=int(rng.integers(1<<30))).as_matrix(); t0=rng.normal(size=3)*100; c0=10.0**rng.uniform(-2,2)
    y=c0*R0@x+t0[:,None]
    if kind==3: y=y*np.array([[1],[1],[-1]])  # mirrored
    if kind==4: y=y+rng.normal(size=y.shape)*np.abs(x).max()*0.3
    for ws in (False,True):
        try: r,t,c=geometry.umeyama_alignment(x,y,ws)
        except geometry.GeometryException as e: print("refused",kind); continue
        proper=np.allclose(r.T@r,np.eye(3),atol=1e-9) and abs(np.linalg.det(r)-1)<1e-9
        f0=resid(x,y,r,t,c)
        # competitors
        better=False
        for k in range(60):
            dR=Rotation.from_rotvec(rng.normal(size=3)*10.0**rng.uniform(-6,0)).as_matrix()
            r2=dR@r; c2=c*(1+ (rng.normal()*10.0**rng.uniform(-6,-1) if ws else 0))
            t2=y.mean(1)-c2*r2@x.mean(1)
            if resid(x,y,r2,t2,c2)<f0*(1-1e-9)-1e-20: better=True
        if not proper or better or c<=0: bad+=1; print("BAD",kind,ws,proper,better,c)
print("bad",bad)
# degenerate
for x in (np.zeros((3,5))+1.0, np.vstack([np.arange(5.),np.zeros(5),np.zeros(5)])):
    try: geometry.umeyama_alignment(x,x.copy(),True); print("accepted degenerate")
    except geometry.GeometryException: print("refused ok")
try: geometry.umeyama_alignment(np.zeros((3,4)),np.zeros((3,5))); print("shape accepted")
except geometry.GeometryException: print("shape refused ok")
# general collinear (not axis)
x=np.outer(np.array([1.,2,3]),np.arange(6.))
try: r,t,c=geometry.umeyama_alignment(x,x.copy(),False); print("collinear general accepted", np.linalg.det(r))
except geometry.GeometryException: print("collinear general refused")
