(* UmeyamaProofs.v - optimality of the Umeyama/Kabsch solution computed by the model (property C03). *)
From Coq Require Import Reals Lra Psatz Nsatz Lia List Arith Bool ZArith Permutation.
From Evo Require Import Num Linalg LinalgR Umeyama.
Import ListNotations.
Local Open Scope R_scope.

(* ---------- trace bound (von Neumann for 3x3 with sign) ---------- *)
Lemma Orth_diag_sign s : s = 1 \/ s = -1 -> Orth (diag 1 1 s).
Proof. intros [->| ->]; split; m3eq. Qed.
Lemma tr_mm_diag (w : M3R) d1 d2 d3 : tr (mm w (diag d1 d2 d3)) = m00 w * d1 + m11 w * d2 + m22 w * d3.
Proof. destruct w; lin_unfold; ring. Qed.
Lemma trace_bound (w : M3R) d1 d2 d3 :
  Orth w -> d1 >= d2 -> d2 >= d3 -> d3 >= 0 ->
  m00 w * d1 + m11 w * d2 + m22 w * d3 <= d1 + d2 + det w * d3.
Proof.
  intros O G1 G2 G3. pose proof (Orth_scalars w O) as S. pose proof (Orth_det w O) as D.
  destruct w as [a b c d e f g h i]. destruct S as (c1&c2&c3&c12&c13&c23&r1&r2&r3&r12&r13&r23).
  cbn [m00 m11 m22].
  assert (A1 : a <= 1) by nra. assert (A2 : e <= 1) by nra. assert (A3 : i <= 1) by nra.
  destruct D as [D|D]; rewrite D.
  - assert (a*d1 <= 1*d1) by (apply Rmult_le_compat_r; lra).
    assert (e*d2 <= 1*d2) by (apply Rmult_le_compat_r; lra).
    assert (i*d3 <= 1*d3) by (apply Rmult_le_compat_r; lra). lra.
  - lin_unfold.
    assert (Tb : a + e + i <= 1).
    { pose proof (rot_tr_ge (-a) (-b) (-c) (-d) (-e) (-f) (-g) (-h) (-i)) as Tb.
      assert (-1 <= -a + -e + -i); [apply Tb; nra | lra]. }
    replace (a*d1 + e*d2 + i*d3) with ((d1-d2)*a + (d2-d3)*(a+e) + d3*(a+e+i)) by ring.
    assert ((d1-d2)*a <= (d1-d2)*1) by (apply Rmult_le_compat_l; lra).
    assert ((d2-d3)*(a+e) <= (d2-d3)*2) by (apply Rmult_le_compat_l; lra).
    assert (d3*(a+e+i) <= d3*1) by (apply Rmult_le_compat_l; lra).
    lra.
Qed.

(* ---------- rotation part ---------- *)
Section Umeyama_rot.
Variables (U Vt cov : M3R) (d1 d2 d3 : R).
Hypothesis OU : Orth U.
Hypothesis OV : Orth Vt.
Hypothesis Hd : d1 >= d2 /\ d2 >= d3 /\ d3 >= 0.
Hypothesis Hcov : cov = mm (mm U (diag d1 d2 d3)) Vt.
Let s := det U * det Vt.
Let r := mm (mm U (diag 1 1 s)) Vt.

Lemma s_sign : s = 1 \/ s = -1.
Proof. unfold s. destruct (Orth_det U OU) as [->| ->], (Orth_det Vt OV) as [->| ->]; [left|right|right|left]; ring. Qed.
Lemma r_orth : Orth r.
Proof. unfold r. apply Orth_mm; [apply Orth_mm; [exact OU | apply Orth_diag_sign, s_sign] | exact OV]. Qed.
Lemma r_det : det r = 1.
Proof.
  unfold r. rewrite !det_mm. replace (det (diag 1 1 s)) with s by (lin_unfold; ring).
  unfold s. pose proof (Orth_det_sq U OU). pose proof (Orth_det_sq Vt OV). nra.
Qed.
Lemma frob_as_trace R' : frob R' cov = tr (mm (mm (mm Vt (mt R')) U) (diag d1 d2 d3)).
Proof.
  rewrite frob_tr, Hcov.
  rewrite <- !mm_assoc. rewrite (tr_mm_comm _ Vt). rewrite <- !mm_assoc. reflexivity.
Qed.
Lemma frob_le R' : Orth R' -> det R' = 1 -> frob R' cov <= d1 + d2 + s * d3.
Proof.
  intros OR DR. rewrite frob_as_trace, tr_mm_diag.
  set (W := mm (mm Vt (mt R')) U).
  assert (OW : Orth W) by (unfold W; apply Orth_mm; [apply Orth_mm; [exact OV | apply Orth_mt, OR] | exact OU]).
  assert (DW : det W = s) by (unfold W, s; rewrite !det_mm, det_mt, DR; ring).
  destruct Hd as (G1&G2&G3). rewrite <- DW. apply trace_bound; assumption.
Qed.
Lemma frob_r : frob r cov = d1 + d2 + s * d3.
Proof.
  rewrite frob_as_trace, tr_mm_diag.
  assert (E : mm (mm Vt (mt r)) U = diag 1 1 s).
  { unfold r. rewrite !mt_mm. destruct OU as [U1 U2], OV as [V1 V2].
    replace (mt (diag 1 1 s)) with (diag 1 1 s) by reflexivity.
    rewrite <- !mm_assoc. rewrite V2, mm_I_l. rewrite mm_assoc, U1, mm_I_r. reflexivity. }
  rewrite E. lin_unfold. ring.
Qed.
End Umeyama_rot.

(* ---------- residual in terms of moments ---------- *)
Notation pts := (list (V3R * V3R)).
Notation vsumR := (@vsum R _).
Notation msumR := (@msum R _).
Notation tsumR := (@tsum R _).
Definition xs (l : pts) := map fst l.
Definition ys (l : pts) := map snd l.
Definition nn (l : pts) := INR (length l).
Definition Sx l := vsumR (xs l).
Definition Sy l := vsumR (ys l).
Definition Sxx l := tsumR (map nrm2 (xs l)).
Definition Syy l := tsumR (map nrm2 (ys l)).
Definition Syx (l : pts) := msumR (map (fun p => outer (snd p) (fst p)) l).
Definition residP c (Rm : M3R) t (l : pts) :=
  tsumR (map (fun p => nrm2 (vsub (snd p) (apply_sim c Rm t (fst p)))) l).

Ltac um_unfold := unfold Syy, Syx, Sy, Sxx, Sx, xs, ys, residP, apply_sim in *; cbn [map vsum msum tsum fst snd] in *.

Lemma nn_cons p (l : pts) : nn (p :: l) = nn l + 1.
Proof. unfold nn. cbn [length]. rewrite S_INR. reflexivity. Qed.

Lemma resid_moments c (Rm : M3R) t (l : pts) : Orth Rm ->
  residP c Rm t l = Syy l - 2 * c * frob Rm (Syx l) - 2 * dot t (Sy l) + c*c * Sxx l
                    + 2 * c * dot (mv Rm (Sx l)) t + nn l * nrm2 t.
Proof.
  intros O. induction l as [|[x y] l IH].
  - um_unfold. unfold nn. cbn [length INR]. destruct Rm as [a b c0 d e f g h i], t as [t1 t2 t3]. lin_unfold. ring.
  - unfold residP in *. cbn [map tsum fst snd]. rnum. rewrite IH. rewrite nn_cons.
    um_unfold. rnum.
    pose proof (nrm2_mv_orth Rm x O) as N.
    assert (E : nrm2 (vsub y (vadd (vscale c (mv Rm x)) t)) =
                nrm2 y - 2*c*frob Rm (outer y x) - 2*dot t y + c*c*nrm2 (mv Rm x) + 2*c*dot (mv Rm x) t + nrm2 t).
    { destruct Rm as [a b c0 d e f g h i], t as [t1 t2 t3], x as [x1 x2 x3], y as [y1 y2 y3]. lin_unfold. ring. }
    rewrite E, N.
    set (sa := vsumR (map fst l)). set (sb := vsumR (map snd l)).
    set (M := msumR (map (fun p : V3R * V3R => outer (snd p) (fst p)) l)).
    destruct Rm as [a b c0 d e f g h i], t as [t1 t2 t3], x as [x1 x2 x3], y as [y1 y2 y3],
      sa as [a1 a2 a3], sb as [b1 b2 b3], M as [ma mb mc md me mf mg mh mi]. lin_unfold. ring.
Qed.

Definition mux l := vscale (/ nn l) (Sx l).
Definition muy l := vscale (/ nn l) (Sy l).
Definition Aof l := Syy l - nn l * nrm2 (muy l).      (* sum |y~|^2 *)
Definition Bof l := Sxx l - nn l * nrm2 (mux l).      (* sum |x~|^2 = n sigma_x^2 *)
Definition covP l := mscale (/ nn l) (madd (Syx l) (mscale (- nn l) (outer (muy l) (mux l)))).

Lemma vscale_mux l : nn l <> 0 -> Sx l = vscale (nn l) (mux l).
Proof. intros H. unfold mux. destruct (Sx l) as [a b c]. lin_unfold. f_equal; field; exact H. Qed.
Lemma vscale_muy l : nn l <> 0 -> Sy l = vscale (nn l) (muy l).
Proof. intros H. unfold muy. destruct (Sy l) as [a b c]. lin_unfold. f_equal; field; exact H. Qed.
Lemma frob_cov (Rm : M3R) l : nn l <> 0 ->
  nn l * frob Rm (covP l) = frob Rm (Syx l) - nn l * dot (muy l) (mv Rm (mux l)).
Proof.
  intros H. unfold covP. set (n := nn l) in *.
  destruct Rm as [a b c d e f g h i], (Syx l) as [ma mb mc md me mf mg mh mi], (muy l) as [y1 y2 y3], (mux l) as [x1 x2 x3].
  lin_unfold. field. exact H.
Qed.

Lemma resid_decomp c (Rm : M3R) t l : Orth Rm -> nn l <> 0 ->
  residP c Rm t l = Aof l - 2 * c * (nn l * frob Rm (covP l)) + c*c * Bof l
                   + nn l * nrm2 (vsub (vsub (muy l) (vscale c (mv Rm (mux l)))) t).
Proof.
  intros O Hn. rewrite (resid_moments c Rm t l O).
  rewrite (frob_cov Rm l Hn). unfold Aof, Bof.
  rewrite (vscale_mux l Hn) at 1. rewrite (vscale_muy l Hn) at 1. rewrite mv_vscale.
  pose proof (nrm2_mv_orth Rm (mux l) O) as N.
  set (n := nn l) in *. set (u := mv Rm (mux l)) in *. set (my := muy l). set (mx := mux l) in *.
  set (F := frob Rm (Syx l)). set (yy := Syy l). set (xx := Sxx l).
  destruct u as [u1 u2 u3], my as [y1 y2 y3], mx as [x1 x2 x3], t as [t1 t2 t3].
  lin_unfold. nsatz.
Qed.

(* ---------- optimality given an SVD of the covariance ---------- *)
Section Optimal.
Variable l : pts.
Hypothesis Hn : 0 < nn l.
Variables (U Vt : M3R) (d1 d2 d3 : R).
Hypothesis OU : Orth U.
Hypothesis OV : Orth Vt.
Hypothesis Hd : d1 >= d2 /\ d2 >= d3 /\ d3 >= 0.
Hypothesis Hcov : covP l = mm (mm U (diag d1 d2 d3)) Vt.
Let s := det U * det Vt.
Let r := mm (mm U (diag 1 1 s)) Vt.
Let Tstar := d1 + d2 + s * d3.
Definition tstar c := vsub (muy l) (vscale c (mv r (mux l))).

Lemma nn_ne : nn l <> 0. Proof. lra. Qed.
Lemma r_O : Orth r. Proof. exact (r_orth U Vt OU OV). Qed.
Lemma nrm2_self (v : V3R) : nrm2 (vsub v v) = 0.
Proof. destruct v as [a b c]. lin_unfold. ring. Qed.

Lemma resid_at_opt c : residP c r (tstar c) l = Aof l - 2 * c * (nn l * Tstar) + c*c * Bof l.
Proof.
  rewrite (resid_decomp c r (tstar c) l r_O nn_ne). unfold tstar. rewrite nrm2_self.
  pose proof (frob_r U Vt (covP l) d1 d2 d3 OU OV Hcov) as F. fold s in F. fold r in F. rewrite F. unfold Tstar. ring.
Qed.
Lemma resid_lower c R' t' : Orth R' -> det R' = 1 -> 0 <= c ->
  Aof l - 2 * c * (nn l * Tstar) + c*c * Bof l <= residP c R' t' l.
Proof.
  intros O D Hc. rewrite (resid_decomp c R' t' l O nn_ne).
  pose proof (frob_le U Vt (covP l) d1 d2 d3 OU OV Hd Hcov R' O D) as L. fold s in L. fold Tstar in L.
  pose proof (nrm2_nonneg (vsub (vsub (muy l) (vscale c (mv R' (mux l)))) t')) as P.
  assert (nn l * frob R' (covP l) <= nn l * Tstar) by (apply Rmult_le_compat_l; lra).
  assert (c * (nn l * frob R' (covP l)) <= c * (nn l * Tstar)) by (apply Rmult_le_compat_l; lra).
  assert (0 <= nn l * nrm2 (vsub (vsub (muy l) (vscale c (mv R' (mux l)))) t')) by (apply Rmult_le_pos; lra).
  lra.
Qed.
Theorem optimal_rigid R' t' : Orth R' -> det R' = 1 ->
  residP 1 r (tstar 1) l <= residP 1 R' t' l.
Proof. intros O D. rewrite resid_at_opt. apply (resid_lower 1 R' t' O D). lra. Qed.

Hypothesis HB : 0 < Bof l.
Definition cstar := nn l * Tstar / Bof l.
Theorem optimal_sim c' R' t' : Orth R' -> det R' = 1 -> 0 < c' ->
  residP cstar r (tstar cstar) l <= residP c' R' t' l.
Proof.
  intros O D Hc. rewrite resid_at_opt.
  eapply Rle_trans; [|apply (resid_lower c' R' t' O D); lra].
  unfold cstar. set (n := nn l) in *. set (b := Bof l) in *. set (Tt := Tstar).
  assert (E : Aof l - 2 * (n*Tt/b) * (n*Tt) + (n*Tt/b)*(n*Tt/b)*b = Aof l - (n*Tt)*(n*Tt)/b) by (field; lra).
  rewrite E.
  assert (Q : 0 <= b * ((c' - n*Tt/b) * (c' - n*Tt/b))) by (apply Rmult_le_pos; [lra | apply Rle_0_sqr]).
  assert (E2 : b * ((c' - n*Tt/b) * (c' - n*Tt/b)) = c'*c'*b - 2*c'*(n*Tt) + (n*Tt)*(n*Tt)/b) by (field; lra).
  lra.
Qed.
Theorem scale_positive : 0 < d2 -> 0 < cstar.
Proof.
  intros H2. unfold cstar, Tstar. destruct Hd as (G1&G2&G3).
  assert (0 < d1 + d2 + s * d3).
  { destruct (s_sign U Vt OU OV) as [E|E]; fold s in E; rewrite E; lra. }
  apply Rdiv_lt_0_compat; [apply Rmult_lt_0_compat; lra | lra].
Qed.
End Optimal.

(* ---------- bridge: the code-shaped quantities are the moment forms ---------- *)
Lemma combine_fst {A B} (x : list A) (y : list B) : length x = length y -> map fst (combine x y) = x.
Proof. revert y. induction x as [|a x IH]; intros [|b y] H; cbn in *; try lia; [reflexivity|]. f_equal. apply IH. lia. Qed.
Lemma combine_snd {A B} (x : list A) (y : list B) : length x = length y -> map snd (combine x y) = y.
Proof. revert y. induction x as [|a x IH]; intros [|b y] H; cbn in *; try lia; [reflexivity|]. f_equal. apply IH. lia. Qed.
Lemma ncount_INR (x : list V3R) : ncount x = INR (length x).
Proof. unfold ncount. rnum. now rewrite INR_IZR_INZ. Qed.

(* sums of centred quantities about arbitrary points a (for x) and b (for y) *)
Lemma msum_centred (l : pts) (a b : V3R) :
  msumR (map (fun p => outer (vsub (snd p) b) (vsub (fst p) a)) l) =
  madd (madd (Syx l) (mscale (-1) (outer b (Sx l)))) (madd (mscale (-1) (outer (Sy l) a)) (mscale (nn l) (outer b a))).
Proof.
  induction l as [|[x y] l IH].
  - um_unfold. unfold nn. cbn [length INR]. destruct a as [a1 a2 a3], b as [b1 b2 b3]. lin_unfold. f_equal; ring.
  - cbn [map msum fst snd]. rewrite IH, nn_cons. um_unfold.
    set (sa := vsumR (map fst l)). set (sb := vsumR (map snd l)). set (n := nn l).
    set (M := msumR (map (fun p : V3R * V3R => outer (snd p) (fst p)) l)).
    destruct a as [a1 a2 a3], b as [b1 b2 b3], x as [x1 x2 x3], y as [y1 y2 y3], sa as [s1 s2 s3], sb as [u1 u2 u3],
      M as [ma mb mc md me mf mg mh mi]. lin_unfold. f_equal; ring.
Qed.
Lemma tsum_centred (l : list V3R) (a : V3R) :
  tsumR (map (fun v => nrm2 (vsub v a)) l) =
  tsumR (map nrm2 l) - 2 * dot a (vsumR l) + INR (length l) * nrm2 a.
Proof.
  induction l as [|x l IH].
  - cbn. destruct a as [a1 a2 a3]. lin_unfold. ring.
  - cbn [map tsum vsum length]. rnum. rewrite IH, S_INR.
    set (sa := vsumR l). destruct a as [a1 a2 a3], x as [x1 x2 x3], sa as [s1 s2 s3]. lin_unfold. ring.
Qed.

Lemma combine_map2 {A B C D} (f : A -> C) (g : B -> D) (x : list A) (y : list B) : length x = length y ->
  combine (map f x) (map g y) = map (fun p => (f (fst p), g (snd p))) (combine x y).
Proof. revert y. induction x as [|u x IH]; intros [|v y] H; cbn in *; try lia; [reflexivity|]. f_equal. apply IH. lia. Qed.

Section Bridge.
Variables x y : list V3R.
Hypothesis Hlen : length x = length y.
Hypothesis Hn : 0 < INR (length x).
Let l : pts := combine x y.
Lemma l_xs : xs l = x. Proof. apply combine_fst; exact Hlen. Qed.
Lemma l_ys : ys l = y. Proof. apply combine_snd; exact Hlen. Qed.
Lemma l_nn : nn l = INR (length x).
Proof. unfold nn, l. rewrite combine_length, <- Hlen, Nat.min_id. reflexivity. Qed.
Lemma mean_x : mean x = mux l.
Proof. unfold mean, mux, Sx. rewrite l_xs, l_nn, ncount_INR. rnum. f_equal. field. lra. Qed.
Lemma mean_y : mean y = muy l.
Proof. unfold mean, muy, Sy. rewrite l_ys, l_nn, ncount_INR, <- Hlen. rnum. f_equal. field. lra. Qed.
Lemma combine_centred :
  combine (centred x) (centred y) = map (fun p => (vsub (fst p) (mean x), vsub (snd p) (mean y))) l.
Proof. unfold centred, l. exact (combine_map2 (fun v => vsub v (mean x)) (fun v => vsub v (mean y)) x y Hlen). Qed.
Lemma cov_bridge : cov_xy x y = covP l.
Proof.
  unfold cov_xy. rewrite combine_centred, map_map. cbn [fst snd].
  rewrite (msum_centred l (mean x) (mean y)), mean_x, mean_y, ncount_INR, <- l_nn.
  unfold covP. rnum. assert (N : nn l <> 0) by (rewrite l_nn; lra).
  rewrite (vscale_mux l N) at 1. rewrite (vscale_muy l N) at 1.
  set (n := nn l) in *. destruct (Syx l) as [ma mb mc md me mf mg mh mi], (mux l) as [x1 x2 x3], (muy l) as [y1 y2 y3].
  lin_unfold. f_equal; field; exact N.
Qed.
Lemma sigma_bridge : sigma2 x = Bof l / nn l.
Proof.
  unfold sigma2, centred. rewrite map_map, (tsum_centred x (mean x)), mean_x, ncount_INR, <- l_nn.
  unfold Bof, Sxx. rewrite l_xs. assert (N : nn l <> 0) by (rewrite l_nn; lra).
  assert (E : vsumR x = vscale (nn l) (mux l)) by (rewrite <- (vscale_mux l N); unfold Sx; now rewrite l_xs).
  rewrite E. rnum. set (n := nn l) in *. destruct (mux l) as [x1 x2 x3]. lin_unfold. field. exact N.
Qed.
Lemma Bof_sum : Bof l = tsumR (map nrm2 (centred x)).
Proof.
  unfold centred. rewrite map_map, (tsum_centred x (mean x)), mean_x, <- l_nn.
  unfold Bof, Sxx. rewrite l_xs. assert (N : nn l <> 0) by (rewrite l_nn; lra).
  assert (E : vsumR x = vscale (nn l) (mux l)) by (rewrite <- (vscale_mux l N); unfold Sx; now rewrite l_xs).
  rewrite E. set (n := nn l) in *. destruct (mux l) as [x1 x2 x3]. lin_unfold. ring.
Qed.
Lemma resid_bridge c r t : resid c r t x y = residP c r t l.
Proof. reflexivity. Qed.
End Bridge.

(* ---------- the model's result, for every SVD oracle meeting its specification ---------- *)
(* specification of the oracle at the one matrix it is asked about *)
Definition svd_at (svd : M3R -> M3R * V3R * M3R) (c : M3R) : Prop :=
  let '(u, d, v) := svd c in
    Orth u /\ Orth v /\ c = mm (mm u (diag (vx d) (vy d) (vz d))) v /\ vx d >= vy d /\ vy d >= vz d /\ vz d >= 0.
Definition svd_spec (svd : M3R -> M3R * V3R * M3R) : Prop := forall c, svd_at svd c.

Lemma mm_M0_l (a : M3R) : mm M0 a = M0. Proof. destruct a; m3eq. Qed.
Lemma mm_M0_r (a : M3R) : mm a M0 = M0. Proof. destruct a; m3eq. Qed.
Lemma svd_of_zero (u v : M3R) d1 d2 d3 : Orth u -> Orth v -> M0 = mm (mm u (diag d1 d2 d3)) v -> d1 = 0 /\ d2 = 0 /\ d3 = 0.
Proof.
  intros [U1 _] [_ V2] H.
  assert (E : diag d1 d2 d3 = mm (mm (mt u) (mm (mm u (diag d1 d2 d3)) v)) (mt v)).
  { rewrite <- !mm_assoc, U1, mm_I_l, mm_assoc, V2, mm_I_r. reflexivity. }
  rewrite <- H, mm_M0_r, mm_M0_l in E. lin_unfold. injection E; intros. repeat split; assumption.
Qed.

Lemma tsum_nonneg (l : list R) : Forall (fun v => 0 <= v) l -> 0 <= tsumR l.
Proof. induction 1; cbn; rnum; lra. Qed.
Lemma tsum_zero (l : list R) : Forall (fun v => 0 <= v) l -> tsumR l = 0 -> Forall (fun v => v = 0) l.
Proof.
  induction 1 as [|v l Hv F IH]; cbn; rnum; intros H; constructor.
  - pose proof (tsum_nonneg l F). lra.
  - apply IH. pose proof (tsum_nonneg l F). lra.
Qed.
Lemma nrm2_zero (v : V3R) : nrm2 v = 0 -> v = V0.
Proof.
  destruct v as [a b c]. lin_unfold. intros H. assert (forall t, 0 <= t * t) by (intros; nra).
  apply V3_ext; cbn; nra.
Qed.

Section Main.
Variable svd : M3R -> M3R * V3R * M3R.
Variable eps : R.
Hypothesis eps_nonneg : 0 <= eps.
Notation umeyamaR := (umeyama svd eps).

Lemma rank_ok_d2 (d : V3R) : vx d >= vy d -> vy d >= vz d -> rank_ok eps d = true -> rank_tol eps d < vy d.
Proof.
  intros G1 G2. unfold rank_ok. set (eps0 := rank_tol eps d). rnum.
  destruct (Rltb eps0 (vx d)) eqn:E1, (Rltb eps0 (vy d)) eqn:E2, (Rltb eps0 (vz d)) eqn:E3; cbn; intros H;
    try discriminate; try (apply Rltb_true in E2; exact E2);
    apply Rltb_false in E2; try (apply Rltb_true in E3); try (apply Rltb_true in E1); lra.
Qed.
Lemma rank_tol_nonneg (d : V3R) : vx d >= vy d -> vy d >= vz d -> vz d >= 0 -> 0 <= rank_tol eps d.
Proof.
  intros G1 G2 G3. unfold rank_tol. rnum. destruct (Rltb eps _) eqn:E; [|exact eps_nonneg].
  apply Rmult_le_pos; [|exact eps_nonneg]. apply Rmult_le_pos; lra.
Qed.
Lemma kabsch_sign_det (u v : M3R) : Orth u -> Orth v -> kabsch_sign u v = det u * det v.
Proof.
  intros Ou Ov. unfold kabsch_sign. rnum.
  destruct (Orth_det u Ou) as [->| ->], (Orth_det v Ov) as [->| ->];
    destruct (Rltb _ 0) eqn:E; try (apply Rltb_true in E); try (apply Rltb_false in E); lra.
Qed.

(* if every centred x vanishes the covariance is zero *)
Lemma cov_zero_of_B (x y : list V3R) : length x = length y -> Forall (fun v => v = V0) (centred x) -> cov_xy x y = M0.
Proof.
  intros Hl F. unfold cov_xy.
  assert (Z : msumR (map (fun p : V3R * V3R => outer (snd p) (fst p)) (combine (centred x) (centred y))) = M0).
  { assert (Hl' : length (centred x) = length (centred y)) by (unfold centred; now rewrite !map_length).
    revert F Hl'. generalize (centred x) (centred y). intros a. induction a as [|u a IH]; intros [|v b] F Hl'; cbn in *; try lia; [reflexivity|].
    inversion F; subst. rewrite IH by (try assumption; lia). destruct v as [v1 v2 v3]. lin_unfold. f_equal; ring. }
  rewrite Z. lin_unfold. f_equal; ring.
Qed.

Theorem umeyama_spec (ws : bool) (x y : list V3R) r t c : svd_at svd (cov_xy x y) -> umeyamaR ws x y = Some (r, t, c) ->
  length x = length y /\ SO3 r /\ 0 < c /\ (ws = false -> c = 1) /\
  (ws = false -> forall R' t', SO3 R' -> resid c r t x y <= resid 1 R' t' x y) /\
  (ws = true -> forall c' R' t', SO3 R' -> 0 < c' -> resid c r t x y <= resid c' R' t' x y).
Proof.
  intros S. unfold svd_at in S. unfold umeyama. destruct (Nat.eqb_spec (length x) (length y)) as [Hl|]; [|discriminate]. unfold negb.
  destruct (svd (cov_xy x y)) as [[u d] v].
  destruct S as (Ou & Ov & Hc & G1 & G2 & G3).
  destruct (rank_ok eps d) eqn:Rk; [|discriminate]. unfold negb.
  pose proof (rank_ok_d2 d G1 G2 Rk) as D2. pose proof (rank_tol_nonneg d G1 G2 G3) as Tn. assert (D2p : 0 < vy d) by lra.
  rewrite (kabsch_sign_det u v Ou Ov). intros H.
  apply (f_equal (fun o => match o with Some q => q | None => (r, t, c) end)) in H.
  apply pair_equal_spec in H. destruct H as [H Hc0]. apply pair_equal_spec in H. destruct H as [Hr0 Ht0].
  subst r t c.
  (* n > 0: otherwise the covariance is zero and the rank test refuses *)
  assert (Hn : 0 < INR (length x)).
  { destruct x as [|x0 x']; [|cbn [length]; rewrite S_INR; pose proof (pos_INR (length x')); lra].
    destruct y; [|discriminate]. exfalso.
    assert (Z : cov_xy (@nil V3R) [] = M0) by (unfold cov_xy; cbn; lin_unfold; f_equal; ring).
    rewrite Z in Hc. destruct (svd_of_zero _ _ _ _ _ Ou Ov Hc) as (_ & E & _). lra. }
  set (l := combine x y).
  assert (Hcov : covP l = mm (mm u (diag (vx d) (vy d) (vz d))) v) by (unfold l; rewrite <- (cov_bridge x y Hl Hn); exact Hc).
  assert (Hnl : 0 < nn l) by (unfold l; now rewrite (l_nn x y Hl)).
  assert (Hd : vx d >= vy d /\ vy d >= vz d /\ vz d >= 0) by tauto.
  (* B > 0 *)
  assert (HB : 0 < Bof l).
  { unfold l. rewrite (Bof_sum x y Hl Hn).
    assert (P : Forall (fun v0 => 0 <= v0) (map nrm2 (centred x))).
    { rewrite Forall_forall. intros q Hq. apply in_map_iff in Hq. destruct Hq as (w & <- & _). apply nrm2_nonneg. }
    pose proof (tsum_nonneg _ P) as NN. destruct (Req_dec (tsumR (map nrm2 (centred x))) 0) as [Z|NZ]; [|lra].
    exfalso. pose proof (tsum_zero _ P Z) as AllZ.
    assert (F : Forall (fun w => w = V0) (centred x)).
    { rewrite Forall_forall in *. intros w Hw. apply nrm2_zero. apply AllZ. now apply in_map. }
    rewrite (cov_zero_of_B x y Hl F) in Hc. destruct (svd_of_zero _ _ _ _ _ Ou Ov Hc) as (_ & E & _). lra. }
  split; [exact Hl|].
  split; [split; [exact (r_orth u v Ou Ov)|exact (r_det u v Ou Ov)]|].
  rewrite !(resid_bridge x y).
  destruct ws.
  - (* similarity *)
    assert (Ec : nmul (ndiv n1 (sigma2 x)) (nadd (nadd (vx d) (vy d)) (nmul (det u * det v) (vz d)))
                 = cstar l u v (vx d) (vy d) (vz d)).
    { unfold cstar. rewrite (sigma_bridge x y Hl Hn). fold l.
      change (1 / (Bof l / nn l) * (vx d + vy d + det u * det v * vz d) =
              nn l * (vx d + vy d + det u * det v * vz d) / Bof l). field. split; lra. }
    rewrite Ec. rewrite (mean_x x y Hl Hn), (mean_y x y Hl Hn). fold l.
    split; [apply (scale_positive l Hnl u v _ _ _ Ou Ov Hd HB D2p)|].
    split; [discriminate|]. split; [discriminate|]. intros _ c' R' t' [OR DR] Hc'.
    apply (optimal_sim l Hnl u v _ _ _ Ou Ov Hd Hcov HB c' R' t' OR DR Hc').
  - rewrite (mean_x x y Hl Hn), (mean_y x y Hl Hn). fold l. change (@n1 R R_ops) with 1.
    split; [lra|]. split; [reflexivity|]. split; [|discriminate]. intros _ R' t' [OR DR].
    apply (optimal_rigid l Hnl u v _ _ _ Ou Ov Hd Hcov R' t' OR DR).
Qed.

(* refusals *)
Theorem umeyama_refuses_unequal ws (x y : list V3R) : length x <> length y -> umeyamaR ws x y = None.
Proof. intros H. unfold umeyama. destruct (Nat.eqb_spec (length x) (length y)); [contradiction|reflexivity]. Qed.

Lemma refuse_if_d2_zero ws (x y : list V3R) : svd_at svd (cov_xy x y) ->
  (forall u d v, svd (cov_xy x y) = (u, d, v) -> vy d = 0) -> umeyamaR ws x y = None.
Proof.
  intros S H. unfold svd_at in S. unfold umeyama. destruct (negb _); [reflexivity|].
  destruct (svd (cov_xy x y)) as [[u d] v] eqn:E.
  destruct S as (_ & _ & _ & G1 & G2 & G3). specialize (H u d v eq_refl).
  destruct (rank_ok eps d) eqn:Rk; [|reflexivity]. pose proof (rank_ok_d2 d G1 G2 Rk). pose proof (rank_tol_nonneg d G1 G2 G3). lra.
Qed.
(* all points of x coincident: exactly degenerate, refused *)
Theorem umeyama_refuses_coincident ws (x y : list V3R) (p : V3R) : svd_at svd (cov_xy x y) -> length x = length y ->
  Forall (fun v => v = p) x -> umeyamaR ws x y = None.
Proof.
  intros S0 Hl F. apply refuse_if_d2_zero; [exact S0|]. intros u d v E.
  pose proof S0 as S. unfold svd_at in S. rewrite E in S. destruct S as (Ou & Ov & Hc & _).
  assert (Z : cov_xy x y = M0).
  { destruct x as [|x0 x'].
    - destruct y; [|discriminate]. unfold cov_xy; cbn; lin_unfold; f_equal; ring.
    - apply cov_zero_of_B; [exact Hl|].
      assert (Hn : 0 < INR (length (x0 :: x'))) by (cbn [length]; rewrite S_INR; pose proof (pos_INR (length x')); lra).
      assert (M : mean (x0 :: x') = p).
      { unfold mean. rewrite ncount_INR. rnum.
        assert (Sx : vsumR (x0 :: x') = vscale (INR (length (x0 :: x'))) p).
        { clear -F. induction F as [|a l Ha F IH]; [cbn; destruct p; lin_unfold; f_equal; ring|].
          cbn [vsum length]. rewrite IH, S_INR, Ha. destruct p as [a1 a2 a3]. lin_unfold. f_equal; ring. }
        rewrite Sx. destruct p as [a1 a2 a3]. lin_unfold. f_equal; field; lra. }
      unfold centred. rewrite M. rewrite Forall_forall in *. intros w Hw. apply in_map_iff in Hw.
      destruct Hw as (q & <- & Hq). rewrite (F q Hq). destruct p as [a1 a2 a3]. lin_unfold. f_equal; ring. }
  rewrite Z in Hc. now destruct (svd_of_zero _ _ _ _ _ Ou Ov Hc) as (_ & E2 & _).
Qed.
End Main.

(* ---------- more refusals, noise-free data, permutation invariance ---------- *)
Section More.
Variable svd : M3R -> M3R * V3R * M3R.
Variable eps : R.
Hypothesis eps_nonneg : 0 <= eps.
Notation umeyamaR := (umeyama svd eps).

(* all x on the first coordinate axis: rank <= 1, refused. (The other axes are the same statement after
   relabelling coordinates; the check exercises all three.) *)
Lemma vsum_axis (x : list V3R) : Forall (fun v => vy v = 0 /\ vz v = 0) x -> vy (vsumR x) = 0 /\ vz (vsumR x) = 0.
Proof. induction 1 as [|v l [H1 H2] F [I1 I2]]; cbn; [split; reflexivity|]. destruct v as [a b c], (vsumR l) as [s1 s2 s3]. lin_unfold. split; lra. Qed.
Lemma cov_axis_cols (x y : list V3R) : length x = length y -> Forall (fun v => vy v = 0 /\ vz v = 0) x ->
  let c := cov_xy x y in m01 c = 0 /\ m02 c = 0 /\ m11 c = 0 /\ m12 c = 0 /\ m21 c = 0 /\ m22 c = 0.
Proof.
  intros Hl F. unfold cov_xy.
  assert (Fc : Forall (fun v => vy v = 0 /\ vz v = 0) (centred x)).
  { destruct (vsum_axis x F) as [S1 S2]. unfold centred, mean. rewrite Forall_forall in *. intros w Hw.
    apply in_map_iff in Hw. destruct Hw as (q & <- & Hq). destruct (F q Hq) as [Q1 Q2].
    destruct q as [q1 q2 q3], (vsumR x) as [s1 s2 s3]. cbn [vy vz] in *. subst. lin_unfold. split; unfold Rdiv; ring. }
  assert (Hl' : length (centred x) = length (centred y)) by (unfold centred; now rewrite !map_length).
  assert (Z : let s := msumR (map (fun p : V3R * V3R => outer (snd p) (fst p)) (combine (centred x) (centred y))) in
              m01 s = 0 /\ m02 s = 0 /\ m11 s = 0 /\ m12 s = 0 /\ m21 s = 0 /\ m22 s = 0).
  { revert Fc Hl'. generalize (centred x) (centred y). intros a. induction a as [|u a IH]; intros [|v b] Fa Hl'; cbn in *; try lia.
    - lin_unfold. repeat split; reflexivity.
    - inversion Fa as [|? ? [U1 U2] Fa']; subst. destruct (IH b Fa' ltac:(lia)) as (I1&I2&I3&I4&I5&I6).
      destruct u as [u1 u2 u3], v as [v1 v2 v3]. cbn in U1, U2. subst u2 u3.
      destruct (msumR _) as [s0 s1 s2 s3 s4 s5 s6 s7 s8]. lin_unfold. repeat split; lra. }
  cbn zeta in *. destruct (msumR _) as [s0 s1 s2 s3 s4 s5 s6 s7 s8]. destruct Z as (Z1&Z2&Z3&Z4&Z5&Z6).
  lin_unfold. subst. repeat split; ring.
Qed.
Lemma rank1_d2_zero (u v c : M3R) d1 d2 d3 : Orth u -> Orth v -> c = mm (mm u (diag d1 d2 d3)) v ->
  d1 >= d2 -> d2 >= d3 -> d3 >= 0 ->
  m01 c = 0 -> m02 c = 0 -> m11 c = 0 -> m12 c = 0 -> m21 c = 0 -> m22 c = 0 -> d2 = 0.
Proof.
  intros Ou Ov Hc G1 G2 G3 Z1 Z2 Z3 Z4 Z5 Z6.
  assert (E : mm (diag d1 d2 d3) v = mm (mt u) c).
  { destruct Ou as [U1 _]. rewrite Hc, <- !mm_assoc, U1, mm_I_l. reflexivity. }
  pose proof (Orth_scalars v Ov) as S.
  destruct c as [c0 c1 c2 c3 c4 c5 c6 c7 c8]. cbn in Z1, Z2, Z3, Z4, Z5, Z6. subst.
  destruct u as [u0 u1 u2 u3 u4 u5 u6 u7 u8], v as [a b cc d e f g h i].
  destruct S as (_&s2&s3&_&_&s23&_). lin_unfold. injection E; clear E; intros.
  destruct (Req_dec d2 0) as [Z|NZ]; [exact Z|exfalso].
  assert (P2 : 0 < d2) by lra. assert (P1 : 0 < d1) by lra.
  assert (b = 0) by nra. assert (cc = 0) by nra. assert (e = 0) by nra. assert (f = 0) by nra. subst.
  nra.
Qed.
Theorem umeyama_refuses_axis ws (x y : list V3R) : svd_at svd (cov_xy x y) -> length x = length y ->
  Forall (fun v => vy v = 0 /\ vz v = 0) x -> umeyamaR ws x y = None.
Proof.
  intros S0 Hl F. apply (refuse_if_d2_zero svd eps eps_nonneg); [exact S0|]. intros u d v E.
  pose proof S0 as S. unfold svd_at in S. rewrite E in S. destruct S as (Ou & Ov & Hc & G1 & G2 & G3).
  destruct (cov_axis_cols x y Hl F) as (Z1&Z2&Z3&Z4&Z5&Z6).
  exact (rank1_d2_zero u v _ _ _ _ Ou Ov Hc G1 G2 G3 Z1 Z2 Z3 Z4 Z5 Z6).
Qed.

(* noise-free data: the result maps every x_i onto y_i *)
Lemma resid_exact c0 (R0 : M3R) t0 (x : list V3R) : resid c0 R0 t0 x (map (apply_sim c0 R0 t0) x) = 0.
Proof.
  unfold resid. induction x as [|a x IH]; [reflexivity|]. cbn [map combine tsum fst snd]. rewrite IH.
  rewrite nrm2_self. rnum. ring.
Qed.
Lemma resid_zero_maps c (r : M3R) t (x y : list V3R) : length x = length y -> resid c r t x y = 0 ->
  map (apply_sim c r t) x = y.
Proof.
  unfold resid. revert y. induction x as [|a x IH]; intros [|b y] Hl H; cbn [length] in *; try lia; [reflexivity|].
  cbn [map combine tsum fst snd] in *. change (@nadd R R_ops) with Rplus in H. set (rest := tsumR _) in H.
  assert (P : 0 <= rest).
  { apply tsum_nonneg. rewrite Forall_forall. intros q Hq. apply in_map_iff in Hq. destruct Hq as (w & <- & _). apply nrm2_nonneg. }
  pose proof (nrm2_nonneg (vsub b (apply_sim c r t a))) as Q.
  assert (Z1 : nrm2 (vsub b (apply_sim c r t a)) = 0) by lra. assert (Z2 : rest = 0) by lra.
  apply nrm2_zero in Z1. f_equal; [|apply IH; [lia|exact Z2]].
  destruct b as [b1 b2 b3], (apply_sim c r t a) as [p1 p2 p3]. lin_unfold. injection Z1; intros. f_equal; lra.
Qed.
Theorem umeyama_exact_data ws c0 (R0 : M3R) t0 (x : list V3R) r t c : SO3 R0 -> 0 < c0 -> (ws = false -> c0 = 1) ->
  svd_at svd (cov_xy x (map (apply_sim c0 R0 t0) x)) ->
  umeyamaR ws x (map (apply_sim c0 R0 t0) x) = Some (r, t, c) ->
  map (apply_sim c r t) x = map (apply_sim c0 R0 t0) x.
Proof.
  intros H0 Hc0 Hws S0 H. destruct (umeyama_spec svd eps eps_nonneg ws x _ r t c S0 H) as (Hl & _ & _ & _ & Hr & Hs).
  apply resid_zero_maps; [exact Hl|].
  assert (Pz : 0 <= resid c r t x (map (apply_sim c0 R0 t0) x)).
  { unfold resid. apply tsum_nonneg. rewrite Forall_forall. intros q Hq. apply in_map_iff in Hq.
    destruct Hq as (w & <- & _). apply nrm2_nonneg. }
  pose proof (resid_exact c0 R0 t0 x) as Z.
  destruct ws.
  - specialize (Hs eq_refl c0 R0 t0 H0 Hc0). lra.
  - pose proof (Hws eq_refl) as E1. subst c0. specialize (Hr eq_refl R0 t0 H0). lra.
Qed.
End More.

(* permutation of the paired points leaves every quantity the result is computed from unchanged *)
Lemma vsum_perm (a b : list V3R) : Permutation a b -> vsumR a = vsumR b.
Proof.
  induction 1; cbn; try congruence.
  - rewrite <- !vadd_assoc, (vadd_comm y x). reflexivity.
Qed.
Lemma msum_perm (a b : list M3R) : Permutation a b -> msumR a = msumR b.
Proof.
  induction 1; cbn; try congruence.
  destruct x, y, (msumR l). m3eq.
Qed.
Lemma tsum_perm (a b : list R) : Permutation a b -> tsumR a = tsumR b.
Proof. induction 1; cbn; rnum; try congruence; try lra. Qed.
Theorem moments_permutation (l l' : pts) : Permutation l l' ->
  nn l = nn l' /\ Sx l = Sx l' /\ Sy l = Sy l' /\ Sxx l = Sxx l' /\ Syy l = Syy l' /\ Syx l = Syx l' /\
  mux l = mux l' /\ muy l = muy l' /\ covP l = covP l' /\ Bof l = Bof l'.
Proof.
  intros P.
  assert (E1 : nn l = nn l') by (unfold nn; now rewrite (Permutation_length P)).
  assert (E2 : Sx l = Sx l') by (apply vsum_perm; unfold xs; now apply Permutation_map).
  assert (E3 : Sy l = Sy l') by (apply vsum_perm; unfold ys; now apply Permutation_map).
  assert (E4 : Sxx l = Sxx l') by (apply tsum_perm; unfold xs; now repeat apply Permutation_map).
  assert (E5 : Syy l = Syy l') by (apply tsum_perm; unfold ys; now repeat apply Permutation_map).
  assert (E6 : Syx l = Syx l') by (apply msum_perm; now apply Permutation_map).
  unfold covP, Bof, mux, muy. rewrite E1, E2, E3, E4, E5, E6. repeat split; reflexivity.
Qed.

Lemma combine_xs_ys (l : pts) : combine (xs l) (ys l) = l.
Proof. unfold xs, ys. induction l as [|[a b] l IH]; cbn [map combine fst snd]; [reflexivity|]. now rewrite IH. Qed.

Theorem umeyama_permutation svd eps ws (l l' : pts) : Permutation l l' ->
  umeyama svd eps ws (xs l) (ys l) = umeyama svd eps ws (xs l') (ys l').
Proof.
  intros P. destruct l as [|p l0].
  - apply Permutation_nil in P. now subst.
  - set (l := p :: l0) in *.
    assert (Hl : length (xs l) = length (ys l)) by (unfold xs, ys; now rewrite !map_length).
    assert (Hl' : length (xs l') = length (ys l')) by (unfold xs, ys; now rewrite !map_length).
    assert (Hn : 0 < INR (length (xs l))).
    { unfold xs, l. cbn [map length]. rewrite S_INR. pose proof (pos_INR (length (map fst l0))). lra. }
    assert (Hn' : 0 < INR (length (xs l'))).
    { unfold xs in *. rewrite map_length in *. now rewrite <- (Permutation_length P). }
    destruct (moments_permutation l l' P) as (_&_&_&_&_&_&Emx&Emy&Ecov&EB).
    assert (C : cov_xy (xs l) (ys l) = cov_xy (xs l') (ys l')).
    { rewrite (cov_bridge _ _ Hl Hn), (cov_bridge _ _ Hl' Hn'), !combine_xs_ys. exact Ecov. }
    assert (Mx : mean (xs l) = mean (xs l')).
    { rewrite (mean_x _ _ Hl Hn), (mean_x _ _ Hl' Hn'), !combine_xs_ys. exact Emx. }
    assert (My : mean (ys l) = mean (ys l')).
    { rewrite (mean_y _ _ Hl Hn), (mean_y _ _ Hl' Hn'), !combine_xs_ys. exact Emy. }
    assert (Sg : sigma2 (xs l) = sigma2 (xs l')).
    { rewrite (sigma_bridge _ _ Hl Hn), (sigma_bridge _ _ Hl' Hn'), !combine_xs_ys, EB.
      unfold nn. now rewrite (Permutation_length P). }
    unfold umeyama. rewrite C, Mx, My, Sg. unfold xs, ys. rewrite !map_length, (Permutation_length P). reflexivity.
Qed.

(* ---------- non-vacuity: a concrete point set, a concrete SVD answer, the hypotheses hold ---------- *)
Definition ex_pts : list V3R :=
  [mkV3 1 0 0; mkV3 (-1) 0 0; mkV3 0 1 0; mkV3 0 (-1) 0; mkV3 0 0 (1/2); mkV3 0 0 (-(1/2))].
Definition ex_svd (c : M3R) : M3R * V3R * M3R := (I3, mkV3 (1/3) (1/3) (1/12), I3).
Lemma ex_cov : cov_xy ex_pts ex_pts = diag (1/3) (1/3) (1/12).
Proof.
  unfold cov_xy, centred, mean, ncount, ex_pts. cbn [length map combine vsum msum fst snd Z.of_nat Pos.of_succ_nat Pos.succ].
  lin_unfold. f_equal; field.
Qed.
Example ex_svd_ok : svd_at ex_svd (cov_xy ex_pts ex_pts).
Proof.
  unfold svd_at, ex_svd. rewrite ex_cov. cbn [vx vy vz].
  split; [apply Orth_I|]. split; [apply Orth_I|]. split; [now rewrite mm_I_l, mm_I_r|]. lra.
Qed.
Example ex_result_exists : exists r t c, umeyama ex_svd (/ 2 ^ 52) false ex_pts ex_pts = Some (r, t, c).
Proof.
  unfold umeyama. cbn [length Nat.eqb negb ex_svd].
  assert (Rk : rank_ok (/ 2 ^ 52) (mkV3 (1/3) (1/3) (1/12)) = true).
  { unfold rank_ok.
    assert (Et : rank_tol (/ 2 ^ 52) (mkV3 (1/3) (1/3) (1/12)) = / 2 ^ 52).
    { unfold rank_tol. rnum. cbn [vx]. replace (1 / 3 * 3 * / 2 ^ 52) with (/ 2 ^ 52) by field.
      replace (Rltb (/ 2 ^ 52) (/ 2 ^ 52)) with false; [reflexivity|]. symmetry. apply Rltb_false. lra. }
    rewrite Et. rnum. cbn [vx vy vz].
    assert (E : / 2 ^ 52 < 1 / 12).
    { assert (12 < 2 ^ 52) by (simpl; lra). apply Rmult_lt_reg_r with (2 ^ 52 * 12); [nra|]. field_simplify; lra. }
    replace (Rltb (/ 2 ^ 52) (1 / 3)) with true by (symmetry; apply Rltb_true; lra).
    replace (Rltb (/ 2 ^ 52) (1 / 12)) with true by (symmetry; apply Rltb_true; lra). reflexivity. }
  change (ex_pts) with ex_pts. unfold ex_pts at 1 2. cbn [length Nat.eqb negb].
  rewrite Rk. cbn [negb]. eexists _, _, _. reflexivity.
Qed.

(* ---------- equivariance (partial): moving / scaling the inputs maps optimal solutions to optimal solutions ----------
   x' = s1 R1 x + t1, y' = s2 R2 y + t2. For EVERY candidate (c, R, t) the residual on the moved data equals s2^2 times the
   residual of the pulled-back candidate on the original data; so the optimum on the moved data is the image of an optimum on
   the original data under "the corresponding composition". That the RETURNED triple is that image additionally needs
   uniqueness of the optimum (not proved): umeyama_equivariant_partial. *)
Definition pull_c (s1 s2 c : R) : R := c * s1 / s2.
Definition pull_R (R1 R2 Rm : M3R) : M3R := mm (mt R2) (mm Rm R1).
Definition pull_t (s2 : R) (R2 Rm : M3R) (t1 t2 t : V3R) (c : R) : V3R :=
  vscale (/ s2) (mv (mt R2) (vsub (vadd (vscale c (mv Rm t1)) t) t2)).

Lemma resid_point_equivariant (s1 s2 c : R) (R1 R2 Rm : M3R) (t1 t2 t x y : V3R) : Orth R2 -> s2 <> 0 ->
  nrm2 (vsub (apply_sim s2 R2 t2 y) (apply_sim c Rm t (apply_sim s1 R1 t1 x))) =
  s2 * s2 * nrm2 (vsub y (apply_sim (pull_c s1 s2 c) (pull_R R1 R2 Rm) (pull_t s2 R2 Rm t1 t2 t c) x)).
Proof.
  intros O Hs.
  assert (E : vsub (apply_sim s2 R2 t2 y) (apply_sim c Rm t (apply_sim s1 R1 t1 x)) =
              vscale s2 (mv R2 (vsub y (apply_sim (pull_c s1 s2 c) (pull_R R1 R2 Rm) (pull_t s2 R2 Rm t1 t2 t c) x)))).
  { unfold apply_sim, pull_c, pull_R, pull_t.
    rewrite !mv_vsub, !mv_vadd, !mv_vscale, !mv_mm, !mv_vsub, !mv_vadd, !mv_vscale.
    destruct O as [_ O2].
    assert (K : forall v, mv R2 (mv (mt R2) v) = v) by (intros v; rewrite <- mv_mm, O2; apply mv_I).
    rewrite !K.
    destruct (mv R2 y) as [a1 a2 a3], (mv Rm (mv R1 x)) as [b1 b2 b3], (mv Rm t1) as [c1 c2 c3], t as [d1 d2 d3], t2 as [e1 e2 e3].
    lin_unfold. f_equal; field; exact Hs. }
  rewrite E. set (w := vsub y _). transitivity (s2 * s2 * nrm2 (mv R2 w)).
  - destruct (mv R2 w) as [a b d]. lin_unfold. ring.
  - now rewrite nrm2_mv_orth.
Qed.
Theorem umeyama_equivariant_partial (s1 s2 c : R) (R1 R2 Rm : M3R) (t1 t2 t : V3R) (x y : list V3R) : Orth R2 -> s2 <> 0 ->
  resid c Rm t (map (apply_sim s1 R1 t1) x) (map (apply_sim s2 R2 t2) y) =
  s2 * s2 * resid (pull_c s1 s2 c) (pull_R R1 R2 Rm) (pull_t s2 R2 Rm t1 t2 t c) x y.
Proof.
  intros O Hs. unfold resid. revert y. induction x as [|a x IH]; intros [|b y]; cbn [map combine tsum fst snd]; rnum; try ring.
  rewrite IH, resid_point_equivariant by assumption. ring.
Qed.


(* ---------- the returned similarity maps the centroid of x onto the centroid of y ---------- *)
Theorem umeyama_maps_centroid svd eps ws (x y : list V3R) r t c :
  umeyama svd eps ws x y = Some (r, t, c) -> apply_sim c r t (mean x) = mean y.
Proof.
  unfold umeyama. destruct (negb (Nat.eqb _ _)); [discriminate|].
  destruct (svd (cov_xy x y)) as [[u d] v]. destruct (negb (rank_ok eps d)); [discriminate|].
  intros H. injection H as <- <- <-. unfold apply_sim.
  set (a := vscale _ _). destruct a, (mean y); v3eq.
Qed.
Lemma vsum_apply_sim c (r : M3R) t (x : list V3R) :
  @vsum R _ (map (apply_sim c r t) x) = vadd (vscale c (mv r (@vsum R _ x))) (vscale (INR (length x)) t).
Proof.
  induction x as [|a x IH].
  - cbn [map vsum length]. destruct t; cbn [INR]; lin_unfold; rnum; f_equal; ring.
  - change (vadd (apply_sim c r t a) (@vsum R _ (map (apply_sim c r t) x)) =
            vadd (vscale c (mv r (vadd a (@vsum R _ x)))) (vscale (INR (S (length x))) t)).
    rewrite IH, S_INR, mv_vadd. unfold apply_sim.
    destruct (mv r a), (mv r (@vsum R _ x)), t; v3eq.
Qed.
(* hence the mean of the aligned points is the mean of y (non-empty input) *)
Theorem umeyama_aligned_mean svd eps ws (x y : list V3R) r t c : x <> [] ->
  umeyama svd eps ws x y = Some (r, t, c) -> mean (map (apply_sim c r t) x) = mean y.
Proof.
  intros Hx H. rewrite <- (umeyama_maps_centroid svd eps ws x y r t c H).
  unfold mean, ncount. rewrite map_length, vsum_apply_sim. rnum. rewrite <- INR_IZR_INZ.
  assert (Hn : INR (length x) <> 0) by (destruct x as [|a0 x0]; [contradiction|cbn [length]; rewrite S_INR; pose proof (pos_INR (length x0)); lra]).
  unfold apply_sim. rewrite mv_vscale.
  destruct (mv r (@vsum R _ x)), t. lin_unfold. f_equal; field; exact Hn.
Qed.
