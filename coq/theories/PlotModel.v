(* PlotModel.v - executable model of the data that evo/tools/plot.py hands to matplotlib (C20):
   traj, add_start_end_markers, colored_line_collection / traj_colormap, draw_coordinate_axes,
   draw_correspondence_edges, traj_xyz, traj_rpy, speeds, error_array, and the label strings of
   prepare_axis / traj_xyz / traj_rpy / speeds.  Functions from trajectory data (lists of poses,
   positions, stamps) to the artists' data arrays.  Pure data movement is polymorphic in the element
   type; numeric parts are generic over NumOps (run at F_ops against matplotlib's artists, reasoned
   about at R_ops in PlotModelProofs.v).  Definitions only. *)
From Coq Require Import String.
From Coq Require Import List Arith Bool ZArith.
From Evo Require Import Num Linalg.
Import ListNotations.

(* ---------------------------------------------------------------- plot modes, units, labels *)
Inductive PlotMode := PMxy | PMxz | PMyx | PMyz | PMzx | PMzy | PMxyz.
Definition all_modes : list PlotMode := [PMxy; PMxz; PMyx; PMyz; PMzx; PMzy; PMxyz].
Definition mode_name (m : PlotMode) : string :=
  match m with PMxy => "xy" | PMxz => "xz" | PMyx => "yx" | PMyz => "yz" | PMzx => "zx" | PMzy => "zy"
             | PMxyz => "xyz" end.
(* plot_mode_to_idx *)
Definition mode_idx (m : PlotMode) : nat * nat * option nat :=
  match m with
  | PMxy => (0, 1, None) | PMxz => (0, 2, None) | PMyx => (1, 0, None) | PMyz => (1, 2, None)
  | PMzx => (2, 0, None) | PMzy => (2, 1, None) | PMxyz => (0, 1, Some 2)
  end.
(* the coordinate columns a mode draws, in axis order *)
Definition mode_axes (m : PlotMode) : list nat :=
  let '(xi, yi, zi) := mode_idx m in xi :: yi :: match zi with Some z => [z] | None => [] end.

Inductive LengthUnit := LUmm | LUcm | LUm | LUkm.
Definition all_length_units : list LengthUnit := [LUmm; LUcm; LUm; LUkm].
Definition unit_name (u : LengthUnit) : string :=
  match u with LUmm => "millimeters" | LUcm => "centimeters" | LUm => "meters" | LUkm => "kilometers" end.
Definition unit_value (u : LengthUnit) : string :=
  match u with LUmm => "mm" | LUcm => "cm" | LUm => "m" | LUkm => "km" end.

Definition letter (i : nat) : string := match i with 0 => "x" | 1 => "y" | 2 => "z" | _ => "?" end.
Definition coord_label (i : nat) (u : LengthUnit) : string :=
  ("$" ++ letter i ++ "$ (" ++ unit_value u ++ ")")%string.
(* prepare_axis: [xlabel; ylabel] (+ [zlabel] on 3-D axes) *)
Definition axis_labels (m : PlotMode) (u : LengthUnit) : list string :=
  map (fun i => coord_label i u) (mode_axes m).
(* traj_xyz / traj_rpy / speeds *)
Definition xyz_ylabels (u : LengthUnit) : list string := [coord_label 0 u; coord_label 1 u; coord_label 2 u].
Definition rpy_ylabels : list string := ["$roll$ (deg)"; "$pitch$ (deg)"; "$yaw$ (deg)"]%string.
Definition time_xlabel (has_stamps : bool) : string := if has_stamps then "$t$ (s)"%string else "index"%string.
Definition speeds_xlabel : string := "$t$ (s)"%string.
Definition speeds_ylabel : string := "$v$ (m/s)"%string.

(* what a drawing call did: returned without drawing / raised PlotException / added an artist *)
Inductive drawn (X : Type) := Nothing | Refused | Drawn (x : X).
Arguments Nothing {X}. Arguments Refused {X}. Arguments Drawn {X} x.

(* ---------------------------------------------------------------- pure data movement *)
Section Poly.
Context {A : Type}.

Definition vcomp (i : nat) (v : V3 A) : A := match i with 0 => vx v | 1 => vy v | _ => vz v end.
(* positions_xyz[:, i] *)
Definition column (i : nat) (ps : list (V3 A)) : list A := map (vcomp i) ps.
(* the coordinates of one position on the axes of the mode: [p[x_idx]; p[y_idx]] (+ [p[z_idx]]) *)
Definition point (m : PlotMode) (p : V3 A) : list A := map (fun i => vcomp i p) (mode_axes m).

(* traj(): x = positions_xyz[:, x_idx]; y = ...[:, y_idx]; (z = ...[:, z_idx]); ax.plot(x, y(, z)) *)
Definition traj_line (m : PlotMode) (ps : list (V3 A)) : list (list A) :=
  let '(xi, yi, zi) := mode_idx m in
  let x := column xi ps in
  let y := column yi ps in
  match zi with
  | Some z => [x; y; column z ps]
  | None => [x; y]
  end.

(* add_start_end_markers(): two scatter calls with one point each, nothing for an empty path *)
Definition start_end_markers (m : PlotMode) (ps : list (V3 A)) : list (list A) :=
  match ps with
  | [] => []
  | p0 :: _ =>
      let start := p0 in                 (* positions_xyz[0] *)
      let end_ := last ps p0 in          (* positions_xyz[-1] *)
      let '(xi, yi, zi) := mode_idx m in
      let sc := [vcomp xi start; vcomp yi start] in
      let ec := [vcomp xi end_; vcomp yi end_] in
      match zi with
      | Some z => [sc ++ [vcomp z start]; ec ++ [vcomp z end_]]
      | None => [sc; ec]
      end
  end.

(* a[0::step] with a running counter (structural) *)
Fixpoint every_from {X} (s c : nat) (l : list X) : list X :=
  match l with
  | [] => []
  | x :: r => match c with 0 => x :: every_from s (s - 1) r | S c' => every_from s c' r end
  end.
Definition every {X} (s : nat) (l : list X) : list X := every_from s 0 l.

(* zip(xyz[:-1:step, i], xyz[1::step, i]) *)
Definition pairs_col (step i : nat) (xyz : list (V3 A)) : list (A * A) :=
  combine (column i (every step (removelast xyz))) (column i (every step (tl xyz))).

(* segs_2d = [list(zip(x, y)) for x, y in zip(xs, ys)]  with xs = [[x_1, x_2] ...] *)
Definition segs_2d (xs ys : list (A * A)) : list (list (list A)) :=
  map (fun q => let '((x1, x2), (y1, y2)) := q in [[x1; y1]; [x2; y2]]) (combine xs ys).
Definition segs_3d (xs ys zs : list (A * A)) : list (list (list A)) :=
  map (fun q => let '((x1, x2), ((y1, y2), (z1, z2))) := q in [[x1; y1; z1]; [x2; y2; z2]])
      (combine xs (combine ys zs)).

(* colored_line_collection(xyz, colors, plot_mode, step): the segments of the (3-D) LineCollection *)
Definition line_collection (step : nat) (m : PlotMode) (xyz : list (V3 A)) (ncolors : nat)
  : drawn (list (list (list A))) :=
  if (1 <? step) && negb (length xyz =? step * ncolors) then Refused   (* len(xyz) / step != len(colors) *)
  else
    let '(xi, yi, zi) := mode_idx m in
    let xs := pairs_col step xi xyz in
    let ys := pairs_col step yi xyz in
    match zi with
    | Some z => Drawn (segs_3d xs ys (pairs_col step z xyz))
    | None => Drawn (segs_2d xs ys)
    end.

(* traj_colormap(): colored_line_collection(pos, colors, plot_mode) with one colour per value of
   the array, step = 1, followed by the optional start/end markers *)
Definition colormap_segments (m : PlotMode) (ps : list (V3 A)) (narray : nat) :=
  line_collection 1 m ps narray.

(* interweaved_positions[0::2] = traj_1.positions_xyz; [1::2] = traj_2.positions_xyz *)
Definition interleave {X} (a b : list X) : list X := flat_map (fun q => [fst q; snd q]) (combine a b).

(* draw_correspondence_edges() *)
Definition correspondence_edges (m : PlotMode) (ps1 ps2 : list (V3 A)) : drawn (list (list (list A))) :=
  if negb (length ps1 =? length ps2) then Refused
  else
    let n := length ps1 in
    line_collection 2 m (interleave ps1 ps2) n.     (* colors = n * [color] *)

(* error_array(): the x data when an x array is given *)
Definition tail_of {X} (l : list X) : list X := tl l.     (* a[1:] *)
End Poly.

(* ---------------------------------------------------------------- numeric parts *)
Section Num.
Context {T : Type} {ops : NumOps T}.
Local Open Scope num_scope.

(* row . u for one row (a b c d) of the 4x4 pose matrix, numpy order of the products *)
Definition dot4 (a b c d u0 u1 u2 u3 : T) : T := a *! u0 +! b *! u1 +! c *! u2 +! d *! u3.
(* p.dot(u)[:3] for p = [[R, t], [0 0 0 1]] *)
Definition pdot (p : Pose T) (u : T * T * T * T) : V3 T :=
  let '(u0, u1, u2, u3) := u in
  let r := prot p in
  let t := ptr p in
  mkV3 (dot4 (m00 r) (m01 r) (m02 r) (vx t) u0 u1 u2 u3)
       (dot4 (m10 r) (m11 r) (m12 r) (vy t) u0 u1 u2 u3)
       (dot4 (m20 r) (m21 r) (m22 r) (vz t) u0 u1 u2 u3).
(* unit_x = np.array([1 * marker_scale, 0, 0, 1]) etc. *)
Definition unit_vec (a : nat) (s : T) : T * T * T * T :=
  match a with
  | 0 => (n1 *! s, n0, n0, n1)
  | 1 => (n0, n1 *! s, n0, n1)
  | _ => (n0, n0, n1 *! s, n1)
  end.
(* x_vertices = [[p[:3, 3], p.dot(unit_x)[:3]] for p in traj.poses_se3] *)
Definition vertex_pairs (a : nat) (s : T) (poses : list (Pose T)) : list (V3 T * V3 T) :=
  map (fun p => (ptr p, pdot p (unit_vec a s))) poses.
(* np.concatenate((x_vertices, y_vertices, z_vertices)).reshape((n * 2 * 3, 3)) *)
Definition marker_vertices (s : T) (poses : list (Pose T)) : list (V3 T) :=
  flat_map (fun q => [fst q; snd q]) (vertex_pairs 0 s poses ++ vertex_pairs 1 s poses ++ vertex_pairs 2 s poses).

(* draw_coordinate_axes() *)
Definition coordinate_axes (m : PlotMode) (s : T) (poses : list (Pose T)) : drawn (list (list (list T))) :=
  if s <=?! n0 then Nothing
  else
    let n := length poses in
    line_collection 2 m (marker_vertices s poses) (n + n + n).   (* colors: n*[x] + n*[y] + n*[z] *)

(* `if start_timestamp:` - None and 0.0 are false *)
Definition start_given (start : option T) : bool :=
  match start with None => false | Some s => negb (neqb s n0) end.
(* np.arange(0., n, dtype=float) *)
Definition index_array (n : nat) : list T := map (fun k => nofZ (Z.of_nat k)) (seq 0 n).
(* traj.timestamps - start_timestamp  |  traj.timestamps *)
Definition shifted (stamps : list T) (start : option T) : list T :=
  match start with
  | Some s => if start_given start then map (fun t => t -! s) stamps else stamps
  | None => stamps
  end.
(* the x array of traj_xyz / traj_rpy: stamps = None models a PosePath3D (no timestamps) *)
Definition x_array (stamps : option (list T)) (start : option T) (n : nat) : list T :=
  match stamps with
  | Some ts => shifted ts start
  | None => index_array n
  end.

(* traj_xyz(): per subplot i the line (x, positions_xyz[:, i]) *)
Definition traj_xyz_lines (stamps : option (list T)) (start : option T) (ps : list (V3 T))
  : list (list T * list T) :=
  let x := x_array stamps start (length ps) in
  map (fun i => (x, column i ps)) [0; 1; 2]%nat.

(* traj_rpy(): angles = traj.get_orientations_euler(..) (library kernel, given); np.rad2deg(angles[:, i]) *)
Definition rad2deg (k a : T) : T := a *! k.       (* k = 180/pi *)
Definition traj_rpy_lines (k : T) (stamps : option (list T)) (start : option T) (angles : list (V3 T))
  : list (list T * list T) :=
  let x := x_array stamps start (length angles) in
  map (fun i => (x, map (rad2deg k) (column i angles))) [0; 1; 2]%nat.

(* speeds(): ax.plot(timestamps[1:], traj.speeds) *)
Definition speeds_line (stamps : list T) (start : option T) (speed_values : list T) : list T * list T :=
  (tail_of (shifted stamps start), speed_values).
(* PoseTrajectory3D.speeds: norm(p[i+1] - p[i]) / (t[i+1] - t[i]) *)
Definition speed_values (ps : list (V3 T)) (stamps : list T) : list T :=
  map (fun q => let '((p1, p2), (t1, t2)) := q in norm (vsub p2 p1) /! (t2 -! t1))
      (combine (combine (removelast ps) (tl ps)) (combine (removelast stamps) (tl stamps))).

(* np.cumsum *)
Fixpoint cumsum_from (acc : T) (l : list T) : list T :=
  match l with [] => [] | x :: r => let a := acc +! x in a :: cumsum_from a r end.
Definition cumsum (l : list T) : list T :=
  match l with [] => [] | x :: r => x :: cumsum_from x r end.
(* error_array(): ax.plot(x_array, err) | ax.plot(err) (matplotlib then uses 0..n-1) *)
Definition error_array_line (err : list T) (xs : option (list T)) (cumulative : bool) : list T * list T :=
  let y := if cumulative then cumsum err else err in
  (match xs with Some x => x | None => index_array (length y) end, y).

(* ------------------------------------------------------------ one scenario = all artists' data *)
Definition positions (poses : list (Pose T)) : list (V3 T) := map ptr poses.

Definition scenario (m : PlotMode) (u : LengthUnit) (k180pi scale : T)
           (poses poses2 : list (Pose T)) (stamps : option (list T)) (start : option T)
           (angles : list (V3 T)) (speeds_in : list T) (err : list T) (err_x : option (list T)) (cumulative : bool) :=
  let ps := positions poses in
  ( (axis_labels m u, xyz_ylabels u, time_xlabel (match stamps with Some _ => true | None => false end)),
    traj_line m ps,
    start_end_markers m ps,
    colormap_segments m ps (length err),
    coordinate_axes m scale poses,
    correspondence_edges m ps (positions poses2),
    traj_xyz_lines stamps start ps,
    traj_rpy_lines k180pi stamps start angles,
    match stamps with Some ts => Some (speeds_line ts start speeds_in, speed_values ps ts) | None => None end,
    error_array_line err err_x cumulative ).
End Num.

(* float constants used by the correspondence run (kept here: property files do not import PrimFloat) *)
Module FloatConst.
  Import PrimFloat.
  Definition deg_per_rad : float := 0x1.ca5dc1a63c1f8p+5%float.     (* 180/pi, numpy's rad2deg factor *)
End FloatConst.
