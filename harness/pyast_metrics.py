"""Translator tie (T) for the metric kernels of evo/core/metrics.py (C01, C02): re-translate from the CURRENT source
  * APE.ape_base, RPE.rpe_base (static methods, straight-line code over lie_algebra helpers),
  * the construction of the error poses E and the per-relation reduction chain of APE.process_data,
  * the per-relation reduction chain of RPE.process_data for the SE(3)-based relations
into coq/generated/MetricsGen.v (vocabulary: Evo.NpDsl, the translated lie_algebra functions of EvoGen.LieGen and the two
oracles angle_of = so3_log_angle(radians), rad2deg).  Fail-closed: anything outside the recognised shapes raises
Unsupported.  Evo.MetricsTie proves the regenerated functions equal to the hand model Evo.Metrics for every number system."""
import ast
import os

from harness.pyast_np import LIE_SIGS, Translator, Unsupported, Val, to_S

RELS = ["full_transformation", "translation_part", "rotation_part", "rotation_angle_rad", "rotation_angle_deg",
        "point_distance", "point_distance_error_ratio"]


class MetricsTranslator(Translator):
    """adds the forms the metric kernels use on top of the numpy vocabulary"""

    def __init__(self):
        sigs = dict(LIE_SIGS)
        super().__init__(sigs=sigs)
        self.rtype = None

    def e_Call(self, e, env):
        fn = ast.unparse(e.func)
        if fn.startswith("lie.") and fn[4:] in LIE_SIGS and not e.keywords:
            e2 = ast.Call(func=ast.Name(id=fn[4:], ctx=ast.Load()), args=e.args, keywords=[])
            return super().e_Call(ast.copy_location(e2, e), env)
        if fn == "lie.so3_log_angle" and not e.keywords and len(e.args) in (1, 2):
            m = self.expr(e.args[0], env)
            if m.ty != "M":
                raise Unsupported("so3_log_angle of %s" % m.ty)
            if len(e.args) == 1:
                return Val("(angle_of %s)" % m.coq, "S")
            if isinstance(e.args[1], ast.Constant) and e.args[1].value is True:
                return Val("(rad2deg (angle_of %s))" % m.coq, "S")
            raise Unsupported("so3_log_angle with degrees=%s" % ast.unparse(e.args[1]))
        if fn == "abs" and len(e.args) == 1 and not e.keywords:
            v = self.expr(e.args[0], env)
            if v.ty == "S":
                return Val("(nabs %s)" % v.coq, "S")
        if fn == "np.linalg.norm" and len(e.args) == 1 and not e.keywords:
            v = self.expr(e.args[0], env)
            if v.ty == "V":
                return Val("(norm %s)" % v.coq, "S")
            if v.ty == "M":
                return Val("(np_fro_norm_m %s)" % v.coq, "S")
            if v.ty == "P_MINUS_EYE":
                return Val("(np_fro_norm_p_minus_eye %s)" % v.coq, "S")
            raise Unsupported("np.linalg.norm of %s" % v.ty)
        return super().e_Call(e, env)

    def e_BinOp(self, e, env):
        if isinstance(e.op, ast.Sub):
            a, b = self.expr(e.left, env), self.expr(e.right, env)
            if a.ty == "M" and b.ty == "M":
                return Val("(msub %s %s)" % (a.coq, b.coq), "M")
            if a.ty == "P" and b.ty == "P" and b.coq == "pI":
                return Val(a.coq, "P_MINUS_EYE")
            if a.ty == "AV" and b.ty == "AV":     # row-wise difference of two position arrays
                return Val("(vsub %s %s)" % (a.coq, b.coq), "AV")
        return super().e_BinOp(e, env)

    def e_Attribute(self, e, env):
        s = ast.unparse(e)
        if s in env:
            return env[s]
        return super().e_Attribute(e, env)


def _method(cls, name):
    ms = [n for n in cls.body if isinstance(n, ast.FunctionDef) and n.name == name]
    if len(ms) != 1:
        raise Unsupported("method %s.%s not found exactly once" % (cls.name, name))
    return ms[0]


def _rel_of(node):
    s = ast.unparse(node)
    if not s.startswith("PoseRelation.") or s[len("PoseRelation."):] not in RELS:
        raise Unsupported("pose relation expression %s" % s)
    return s[len("PoseRelation."):]


def _test_holds(test, rel):
    """evaluate `self.pose_relation == PoseRelation.x` / `self.pose_relation in (PoseRelation.a, ...)` for a concrete relation"""
    if not (isinstance(test, ast.Compare) and len(test.ops) == 1 and ast.unparse(test.left) == "self.pose_relation"):
        raise Unsupported("condition %s" % ast.unparse(test))
    op, rhs = test.ops[0], test.comparators[0]
    if isinstance(op, ast.Eq):
        return _rel_of(rhs) == rel
    if isinstance(op, ast.In) and isinstance(rhs, (ast.Tuple, ast.List, ast.Set)):
        return rel in [_rel_of(x) for x in rhs.elts]
    raise Unsupported("condition %s" % ast.unparse(test))


def _chains(fdef):
    """the top-level if/elif chains over self.pose_relation of a process_data method, in source order"""
    out = []
    for s in fdef.body:
        if isinstance(s, ast.If) and "self.pose_relation" in ast.unparse(s.test):
            out.append(s)
    return out


def _select(chain, rel):
    """body (statement list) of the branch a concrete relation takes"""
    node = chain
    while True:
        if _test_holds(node.test, rel):
            return node.body
        if len(node.orelse) == 1 and isinstance(node.orelse[0], ast.If):
            node = node.orelse[0]
            continue
        return node.orelse


def _single_assign(body, target):
    if len(body) == 1 and isinstance(body[0], ast.Assign) and len(body[0].targets) == 1 and ast.unparse(body[0].targets[0]) == target:
        return body[0].value
    return None


def _np_array_comp(value):
    """np.array([<elt> for <target> in <iter>]) -> (elt, target, iter)"""
    if isinstance(value, ast.Call) and ast.unparse(value.func) == "np.array" and len(value.args) == 1 and not value.keywords \
            and isinstance(value.args[0], ast.ListComp) and len(value.args[0].generators) == 1:
        g = value.args[0].generators[0]
        if not g.ifs and not g.is_async:
            return value.args[0].elt, g.target, g.iter
    return None


def _is_raise(body):
    return len(body) == 1 and isinstance(body[0], ast.Raise)


def _is_pass(body):
    return len(body) == 1 and isinstance(body[0], ast.Pass)


def _translate_ape(classes):
    tr = MetricsTranslator()
    defs = [tr.function(_method(classes["APE"], "ape_base"), "ape_base_gen", ["P", "P"], "P")]
    tr.sigs["ape_base"] = (["P", "P"], "P")
    # ---- APE.process_data: E construction + reduction, per relation
    pd = _method(classes["APE"], "process_data")
    chains = _chains(pd)
    if len(chains) != 2:
        raise Unsupported("APE.process_data has %d chains over self.pose_relation, 2 expected" % len(chains))
    unpack = [s for s in pd.body if isinstance(s, ast.Assign) and ast.unparse(s) == "traj_ref, traj_est = data"]
    if len(unpack) != 1:
        raise Unsupported("APE.process_data does not unpack `traj_ref, traj_est = data`")
    branches = []
    for rel in RELS:
        ebody, rbody = _select(chains[0], rel), _select(chains[1], rel)
        if _is_raise(rbody):
            branches.append("  | %s => None" % rel)
            continue
        evalue = _single_assign(ebody, "self.E")
        rvalue = _single_assign(rbody, "self.error")
        if evalue is None or rvalue is None:
            raise Unsupported("APE branch of %s is not a single assignment to self.E / self.error" % rel)
        comp = _np_array_comp(rvalue)
        if comp is None:
            raise Unsupported("APE reduction of %s is not np.array([... for E_i in self.E])" % rel)
        elt, tgt, it = comp
        if ast.unparse(it) != "self.E" or not isinstance(tgt, ast.Name):
            raise Unsupported("APE reduction of %s iterates over %s" % (rel, ast.unparse(it)))
        # the element of self.E for one reference/estimate pair
        if isinstance(evalue, ast.ListComp):
            g = evalue.generators[0]
            if len(evalue.generators) != 1 or g.ifs or ast.unparse(g.iter) != "zip(traj_est.poses_se3, traj_ref.poses_se3)" \
                    or not isinstance(g.target, ast.Tuple) or len(g.target.elts) != 2:
                raise Unsupported("APE error poses are built by %s" % ast.unparse(evalue))
            a, b = (x.id for x in g.target.elts)
            env = {a: Val("est", "P"), b: Val("ref", "P")}
            call = evalue.elt
            if isinstance(call, ast.Call) and ast.unparse(call.func) == "self.ape_base":
                call = ast.copy_location(ast.Call(func=ast.Name(id="ape_base", ctx=ast.Load()), args=call.args, keywords=call.keywords), call)
            E = tr.expr(call, env)
            if E.ty != "P":
                raise Unsupported("APE error pose of type %s" % E.ty)
        else:
            env = {"traj_est.positions_xyz": Val("(ptr est)", "AV"), "traj_ref.positions_xyz": Val("(ptr ref)", "AV")}
            E = tr.expr(evalue, env)
            if E.ty != "AV":
                raise Unsupported("APE error vectors of type %s" % E.ty)
            E = Val(E.coq, "V")
        v = tr.expr(elt, {tgt.id: Val(tgt.id, E.ty)})
        if v.ty != "S":
            raise Unsupported("APE value of type %s" % v.ty)
        branches.append("  | %s => let %s := %s in Some %s" % (rel, tgt.id, E.coq, v.coq))
    defs.append("Definition ape_pair_gen (rel : PoseRelation) (ref est : Pose T) : option T :=\n  match rel with\n%s\n  end."
                % "\n".join(branches))
    if tr.literals:
        raise Unsupported("float literals %r in the APE kernels" % tr.literals)
    return defs


def _translate_rpe(classes):
    tr = MetricsTranslator()
    defs = [tr.function(_method(classes["RPE"], "rpe_base"), "rpe_base_gen", ["P", "P", "P", "P"], "P")]
    # ---- RPE.process_data: reduction chain of the SE(3)-based relations (the last chain)
    pd = _method(classes["RPE"], "process_data")
    chains = _chains(pd)
    if len(chains) != 2:
        raise Unsupported("RPE.process_data has %d chains over self.pose_relation, 2 expected" % len(chains))
    # first chain: the else branch builds self.E with rpe_base on (ref i, ref j, est i, est j)
    ebody = _select(chains[0], "full_transformation")
    evalue = _single_assign(ebody, "self.E")
    if evalue is None or not isinstance(evalue, ast.ListComp) or len(evalue.generators) != 1 \
            or ast.unparse(evalue.generators[0].iter) != "id_pairs" or ast.unparse(evalue.generators[0].target) != "(i, j)":
        raise Unsupported("RPE error poses are not built by a comprehension over id_pairs")
    want = "self.rpe_base(traj_ref.poses_se3[i], traj_ref.poses_se3[j], traj_est.poses_se3[i], traj_est.poses_se3[j])"
    if ast.unparse(evalue.elt) != want:
        raise Unsupported("RPE error pose is %s" % ast.unparse(evalue.elt))
    for rel in RELS:
        uses_E = _select(chains[0], rel) is ebody
        if uses_E != (rel not in ("point_distance", "point_distance_error_ratio")):
            raise Unsupported("relation %s takes the %s branch of the first chain" % (rel, "pose" if uses_E else "distance"))
    branches = []
    for rel in RELS:
        rbody = _select(chains[1], rel)
        if _is_raise(rbody) or _is_pass(rbody):
            branches.append("  | %s => None" % rel)
            continue
        comp = _np_array_comp(_single_assign(rbody, "self.error"))
        if comp is None:
            raise Unsupported("RPE reduction of %s is not np.array([... for E_i in self.E])" % rel)
        elt, tgt, it = comp
        if ast.unparse(it) != "self.E" or not isinstance(tgt, ast.Name):
            raise Unsupported("RPE reduction of %s iterates over %s" % (rel, ast.unparse(it)))
        v = tr.expr(elt, {tgt.id: Val("E", "P")})
        if v.ty != "S":
            raise Unsupported("RPE value of type %s" % v.ty)
        branches.append("  | %s => Some %s" % (rel, v.coq))
    defs.append("Definition rpe_reduce_gen (rel : PoseRelation) (E : Pose T) : option T :=\n  match rel with\n%s\n  end."
                % "\n".join(branches))
    if tr.literals:
        raise Unsupported("float literals %r in the RPE kernels" % tr.literals)
    return defs


APE_STUB = ["Definition ape_base_gen (a b : Pose T) : Pose T := pI.  (* translation failed *)",
            "Definition ape_pair_gen (rel : PoseRelation) (ref est : Pose T) : option T := None.  (* translation failed *)"]
RPE_STUB = ["Definition rpe_base_gen (a b c d : Pose T) : Pose T := pI.  (* translation failed *)",
            "Definition rpe_reduce_gen (rel : PoseRelation) (E : Pose T) : option T := None.  (* translation failed *)"]


def translate_metrics(repo):
    """-> (text, failed): the APE and the RPE part are translated independently; a part that cannot be translated becomes a
    stub of its own (failed: part name -> reason)"""
    rel_path = "evo/core/metrics.py"
    failed = {}
    try:
        tree = ast.parse(open(os.path.join(repo, rel_path)).read())
        classes = {n.name: n for n in tree.body if isinstance(n, ast.ClassDef)}
        for c in ("APE", "RPE", "PoseRelation"):
            if c not in classes:
                raise Unsupported("class %s not found" % c)
        members = [t.id for n in classes["PoseRelation"].body if isinstance(n, ast.Assign) for t in n.targets if isinstance(t, ast.Name)]
        if sorted(members) != sorted(RELS):
            raise Unsupported("PoseRelation members are %r" % members)
    except Exception as e:  # noqa: fail-closed whatever goes wrong
        return HEADER + "\n".join(APE_STUB + RPE_STUB) + "\nEnd Gen.\n", {"ape": str(e), "rpe": str(e)}
    parts = []
    for name, fn, stub_defs in (("ape", _translate_ape, APE_STUB), ("rpe", _translate_rpe, RPE_STUB)):
        try:
            parts += fn(classes)
        except Exception as e:  # noqa: fail-closed whatever goes wrong
            failed[name] = "%s: %s" % (type(e).__name__, e)
            parts += stub_defs
    return HEADER + "\n".join(parts) + "\nEnd Gen.\n", failed


HEADER = """(* GENERATED by harness/pyast_metrics.py from evo/core/metrics.py - regenerated on every run, do not edit. *)
From Coq Require Import List Arith Bool ZArith.
From Evo Require Import Num Linalg NpDsl Metrics.
From EvoGen Require Import LieGen.
Import ListNotations.
Local Open Scope num_scope.

Section Gen.
Context {T : Type} {ops : NumOps T}.
Variable angle_of : M3 T -> T.      (* lie.so3_log_angle(., degrees=False): oracle *)
Variable rad2deg : T -> T.          (* np.rad2deg *)

"""


def stub():
    return HEADER + "\n".join(APE_STUB + RPE_STUB) + "\nEnd Gen.\n"


METRIC_HELPERS = ["se3", "so3_from_se3", "se3_inverse", "relative_se3"]   # the lie_algebra functions MetricsGen builds on


def regenerate_ties(ctx, repo, coq_dir, only=None, metrics=True):
    """LieGen.v (+ MetricsGen.v) from the repository under test, shared by the C01, C02 and C09 checks; returns failure
    dicts.  `only`: the lie_algebra functions whose translation concerns the caller (None = all of them)."""
    from harness import pyast_np
    fails = []
    lie_path = os.path.join(coq_dir, "generated", "LieGen.v")
    met_path = os.path.join(coq_dir, "generated", "MetricsGen.v")
    try:
        text, lits, failed = pyast_np.translate_lie(repo)
    except Exception as e:  # noqa: fail-closed whatever goes wrong
        text, lits = pyast_np.lie_stub(), {"lit_1em06": 1e-06}
        failed = {n: "%s: %s" % (type(e).__name__, e) for n in pyast_np.LIE_ORDER}
    if lits != {"lit_1em06": 1e-06}:
        text = pyast_np.lie_stub()
        failed = {n: "float literals %r (the tie theorems instantiate atol = 1e-06 only)" % lits for n in pyast_np.LIE_ORDER}
    if pyast_np.write_if_changed(lie_path, text):
        ctx.notes.append("coq/generated/LieGen.v regenerated from %s (content changed)" % repo)
    relevant = sorted(k for k in failed if only is None or k in only)
    if relevant:
        fails.append({"kind": "obligation", "failing_input": False, "theorem": "Evo.LieTie.lie_gen_is_model (translator tie)",
                      "correspondence": "pyast_np: evo/core/lie_algebra.py",
                      "detail": "translation of the repository under test failed (fail-closed): " +
                                "; ".join("%s: %s" % (k, failed[k]) for k in relevant),
                      "case": None, "model_output": None, "impl_output": None})
    if not metrics:
        return fails
    text, mfailed = translate_metrics(repo)
    if pyast_np.write_if_changed(met_path, text):
        ctx.notes.append("coq/generated/MetricsGen.v regenerated from %s (content changed)" % repo)
    for part in sorted(mfailed):
        if metrics is True or part == metrics:
            fails.append({"kind": "obligation", "failing_input": False, "theorem": "Evo.MetricsTie%s (translator tie)" % part.capitalize(),
                          "correspondence": "pyast_metrics: evo/core/metrics.py (%s part)" % part.upper(),
                          "detail": "translation of the repository under test failed (fail-closed): " + mfailed[part],
                          "case": None, "model_output": None, "impl_output": None})
    return fails


if __name__ == "__main__":
    import sys
    t_, f_ = translate_metrics(sys.argv[1] if len(sys.argv) > 1 else "/repo")
    print(t_)
    print("(* failed: %r *)" % f_)
