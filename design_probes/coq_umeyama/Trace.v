From Coq Require Import Reals Lra Psatz Nsatz List.
Require Import LinR.
Local Open Scope R_scope.

Section Rot.
Variables a b c d e f g h i : R.
Hypothesis c1 : a*a + d*d + g*g = 1.
Hypothesis c2 : b*b + e*e + h*h = 1.
Hypothesis c3 : c*c + f*f + i*i = 1.
Hypothesis c12 : a*b + d*e + g*h = 0.
Hypothesis c13 : a*c + d*f + g*i = 0.
Hypothesis c23 : b*c + e*f + h*i = 0.
Hypothesis r1 : a*a + b*b + c*c = 1.
Hypothesis r2 : d*d + e*e + f*f = 1.
Hypothesis r3 : g*g + h*h + i*i = 1.
Hypothesis r12 : a*d + b*e + c*f = 0.
Hypothesis r13 : a*g + b*h + c*i = 0.
Hypothesis r23 : d*g + e*h + f*i = 0.
Hypothesis det1 : a*(e*i - f*h) - b*(d*i - f*g) + c*(d*h - e*g) = 1.
Lemma key : (h - f)*(h - f) + (c - g)*(c - g) + (d - b)*(d - b) = (1 + (a+e+i)) * (3 - (a+e+i)).
Proof. nsatz. Qed.
Lemma tr_ge_s : -1 <= a + e + i.
Proof.
  pose proof key as K.
  assert (Ha : a <= 1) by nra. assert (He : e <= 1) by nra. assert (Hi : i <= 1) by nra.
  assert (P : 0 <= (1 + (a+e+i)) * (3 - (a+e+i))).
  { rewrite <- K. clear. pose proof (Rle_0_sqr (h-f)); pose proof (Rle_0_sqr (c-g)); pose proof (Rle_0_sqr (d-b)); unfold Rsqr in *; lra. }
  destruct (Req_dec (a+e+i) 3) as [E|NE]; [lra|].
  assert (P3: 0 < 3 - (a+e+i)) by lra.
  destruct (Rle_dec (-1) (a+e+i)) as [L|L]; [exact L|].
  assert (N1: 1 + (a+e+i) < 0) by lra.
  pose proof (Rmult_lt_compat_r _ _ _ P3 N1) as M. lra.
Qed.
End Rot.

Lemma Orth_scalars w : Orth w ->
  let '(mkM3 a b c d e f g h i) := w in
  a*a + d*d + g*g = 1 /\ b*b + e*e + h*h = 1 /\ c*c + f*f + i*i = 1 /\
  a*b + d*e + g*h = 0 /\ a*c + d*f + g*i = 0 /\ b*c + e*f + h*i = 0 /\
  a*a + b*b + c*c = 1 /\ d*d + e*e + f*f = 1 /\ g*g + h*h + i*i = 1 /\
  a*d + b*e + c*f = 0 /\ a*g + b*h + c*i = 0 /\ d*g + e*h + f*i = 0.
Proof.
  destruct w as [a b c d e f g h i]. intros [H1 H2].
  unfold mm, mt, I3 in H1, H2; cbn in H1, H2.
  injection H1; injection H2; intros. repeat split; lra.
Qed.

Lemma trace_bound w d1 d2 d3 :
  Orth w -> d1 >= d2 -> d2 >= d3 -> d3 >= 0 ->
  m00 w * d1 + m11 w * d2 + m22 w * d3 <= d1 + d2 + det w * d3.
Proof.
  intros O G1 G2 G3. pose proof (Orth_scalars w O) as S. pose proof (Orth_det w O) as D.
  destruct w as [a b c d e f g h i]. destruct S as (c1&c2&c3&c12&c13&c23&r1&r2&r3&r12&r13&r23).
  cbn [m00 m11 m22].
  assert (A1 : a <= 1) by nra. assert (A2 : e <= 1) by nra. assert (A3 : i <= 1) by nra.
  destruct D as [D|D]; rewrite D.
  - assert (a*d1 <= 1*d1) by (apply Rmult_le_compat_r; lra).
    assert (e*d2 <= 1*d2) by (apply Rmult_le_compat_r; lra).
    assert (i*d3 <= 1*d3) by (apply Rmult_le_compat_r; lra). lra.
  - unfold det in D; cbn in D.
    assert (T : a + e + i <= 1).
    { pose proof (tr_ge_s (-a) (-b) (-c) (-d) (-e) (-f) (-g) (-h) (-i)) as T.
      assert (-1 <= -a + -e + -i); [apply T; nra | lra]. }
    replace (a*d1 + e*d2 + i*d3) with ((d1-d2)*a + (d2-d3)*(a+e) + d3*(a+e+i)) by ring.
    assert ((d1-d2)*a <= (d1-d2)*1) by (apply Rmult_le_compat_l; lra).
    assert ((d2-d3)*(a+e) <= (d2-d3)*2) by (apply Rmult_le_compat_l; lra).
    assert (d3*(a+e+i) <= d3*1) by (apply Rmult_le_compat_l; lra).
    lra.
Qed.

(* Rotation part of Umeyama: r = U S Vt is a proper rotation maximising <R, cov> *)
Section Umeyama_rot.
Variables (U Vt cov : M3) (d1 d2 d3 : R).
Hypothesis OU : Orth U.
Hypothesis OV : Orth Vt.
Hypothesis Hd : d1 >= d2 /\ d2 >= d3 /\ d3 >= 0.
Hypothesis Hcov : cov = mm (mm U (diag d1 d2 d3)) Vt.
Let s := det U * det Vt.
Let r := mm (mm U (diag 1 1 s)) Vt.

Lemma s_sign : s = 1 \/ s = -1.
Proof. unfold s. destruct (Orth_det U OU) as [->| ->], (Orth_det Vt OV) as [->| ->]; [left|right|right|left]; ring. Qed.

Lemma r_orth : Orth r.
Proof. unfold r. apply Orth_mm; [apply Orth_mm; [exact OU | apply Orth_diag_sign, s_sign] | exact OV]. Qed.

Lemma r_det : det r = 1.
Proof.
  unfold r. rewrite !det_mm. replace (det (diag 1 1 s)) with s by (unfold det, diag; cbn; ring).
  unfold s. pose proof (Orth_det_sq U OU). pose proof (Orth_det_sq Vt OV). nra.
Qed.

Lemma frob_as_trace R' : frob R' cov = tr (mm (mm (mm Vt (mt R')) U) (diag d1 d2 d3)).
Proof.
  rewrite frob_tr, Hcov.
  rewrite <- !mm_assoc. rewrite (tr_mm_comm _ Vt). rewrite <- !mm_assoc. reflexivity.
Qed.

Lemma frob_le R' : Orth R' -> det R' = 1 -> frob R' cov <= d1 + d2 + s * d3.
Proof.
  intros OR DR. rewrite frob_as_trace, tr_mm_diag.
  set (W := mm (mm Vt (mt R')) U).
  assert (OW : Orth W) by (unfold W; apply Orth_mm; [apply Orth_mm; [exact OV | apply Orth_mt, OR] | exact OU]).
  assert (DW : det W = s) by (unfold W, s; rewrite !det_mm, det_mt, DR; ring).
  destruct Hd as (G1&G2&G3). rewrite <- DW. apply trace_bound; assumption.
Qed.

Lemma frob_r : frob r cov = d1 + d2 + s * d3.
Proof.
  rewrite frob_as_trace, tr_mm_diag.
  assert (E : mm (mm Vt (mt r)) U = diag 1 1 s).
  { unfold r. rewrite !mt_mm. destruct OU as [U1 U2], OV as [V1 V2].
    replace (mt (diag 1 1 s)) with (diag 1 1 s) by reflexivity.
    rewrite <- !mm_assoc. rewrite V2, mm_I_l. rewrite mm_assoc, U1, mm_I_r. reflexivity. }
  rewrite E. cbn. ring.
Qed.

Theorem umeyama_rotation_optimal :
  Orth r /\ det r = 1 /\ forall R', Orth R' -> det R' = 1 -> frob R' cov <= frob r cov.
Proof. split; [apply r_orth|split; [apply r_det|]]. intros R' O D. rewrite frob_r. apply frob_le; assumption. Qed.
End Umeyama_rot.
Check umeyama_rotation_optimal.
Print Assumptions umeyama_rotation_optimal.
