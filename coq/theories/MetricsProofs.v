(* MetricsProofs.v - theorems about the APE/RPE model over R (properties C01, C02). *)
From Coq Require Import Reals Lra Psatz Lia List Arith Bool.
From Evo Require Import Num Linalg LinalgR Lie LieProofs Metrics.
Import ListNotations.
Local Open Scope R_scope.

Definition rad2degR (x : R) : R := x * (180 / PI).
Notation apeR := (ape angleR rad2degR).
Notation ape_pairR := (ape_pair angleR rad2degR).
Notation reduceR := (reduce_pose angleR rad2degR).
Notation rpeR := (rpe angleR rad2degR).
Notation rpe_pairR := (rpe_pair angleR rad2degR).

(* ---------- generic list facts ---------- *)
Lemma sequence_spec {A} (l : list (option A)) xs : sequence l = Some xs ->
  length xs = length l /\ forall k d, (k < length l)%nat -> nth k l None = Some (nth k xs d).
Proof.
  revert xs. induction l as [|[x|] r IH]; cbn; intros xs H; try discriminate.
  - injection H as <-. split; [reflexivity|intros; lia].
  - destruct (sequence r) as [ys|]; [|discriminate]. injection H as <-.
    destruct (IH ys eq_refl) as [L N]. split; [cbn; now rewrite L|].
    intros [|k] d Hk; cbn; [reflexivity|apply N; lia].
Qed.
Lemma sequence_all_some {A} (l : list (option A)) : (forall x, In x l -> x <> None) -> exists xs, sequence l = Some xs.
Proof.
  induction l as [|[x|] r IH]; cbn; intros H.
  - now exists [].
  - destruct IH as [ys E]; [intros; apply H; now right|]. rewrite E. now exists (x :: ys).
  - exfalso. apply (H None); [now left|reflexivity].
Qed.
Lemma sequence_map_ext {A B} (f g : A -> option B) l : (forall x, In x l -> f x = g x) ->
  sequence (map f l) = sequence (map g l).
Proof. intros H. f_equal. apply map_ext_in. exact H. Qed.
Lemma combine_map {A B} (f : A -> B) (a b : list A) :
  combine (map f a) (map f b) = map (fun p => (f (fst p), f (snd p))) (combine a b).
Proof. revert b. induction a as [|x a IH]; intros [|y b]; cbn; try reflexivity. now rewrite IH. Qed.
Lemma in_combine_Forall {A} (P : A -> Prop) (a b : list A) p :
  Forall P a -> Forall P b -> In p (combine a b) -> P (fst p) /\ P (snd p).
Proof.
  intros Fa Fb I. destruct p as [x y]. rewrite Forall_forall in Fa, Fb.
  split; [apply Fa; eapply in_combine_l; exact I|apply Fb; eapply in_combine_r; exact I].
Qed.

(* ---------- reductions of an error pose ---------- *)
Lemma norm_vsub_sym (a b : V3R) : norm (vsub a b) = norm (vsub b a).
Proof. unfold norm. f_equal. destruct a as [x y z], b as [u v w]. lin_unfold. ring. Qed.
Lemma pinv_pinv (p : PoseR) : Orth (prot p) -> pinv (pinv p) = p.
Proof.
  intros [_ O]. apply Pose_ext; cbn [pinv prot ptr]; [apply mt_mt|].
  rewrite mt_mt, mv_vopp, <- mv_mm, O, mv_I. destruct (ptr p) as [x y z]. v3eq.
Qed.
Lemma prel_swap (a b : PoseR) : Orth (prot a) -> prel b a = pinv (prel a b).
Proof.
  intros O. unfold prel. rewrite pinv_pmul by (cbn [pinv prot]; now apply Orth_mt).
  now rewrite pinv_pinv.
Qed.
Lemma nrm2_vopp (v : V3R) : nrm2 (vopp v) = nrm2 v.
Proof. destruct v as [x y z]. lin_unfold. ring. Qed.
Lemma msub_mt_I (r : M3R) : msub (mt r) I3 = mt (msub r I3).
Proof. destruct r; m3eq. Qed.
Lemma cos_angle_mt (r : M3R) : cos_angle (mt r) = cos_angle r.
Proof. unfold cos_angle. now rewrite tr_mt. Qed.

Lemma reduce_pinv rel (E : PoseR) : Orth (prot E) -> reduceR rel (pinv E) = reduceR rel E.
Proof.
  intros O. assert (Ot := Orth_mt _ O).
  assert (N : nrm2 (ptr (pinv E)) = nrm2 (ptr E)).
  { cbn [pinv ptr]. rewrite nrm2_vopp. now apply nrm2_mv_orth. }
  assert (F : fnorm2 (msub (prot (pinv E)) I3) = fnorm2 (msub (prot E) I3)).
  { cbn [pinv prot]. rewrite msub_mt_I. apply fnorm2_mt. }
  destruct rel; cbn [reduce_pose]; rnum; try reflexivity.
  - now rewrite F, N.
  - unfold norm. rnum. now rewrite N.
  - now rewrite F.
Qed.

(* ---------- APE, pair level ---------- *)
Lemma ptr_prel (a b : PoseR) : ptr (prel a b) = mv (mt (prot a)) (vsub (ptr b) (ptr a)).
Proof.
  unfold prel. cbn [pmul pinv prot ptr]. rewrite mv_vsub.
  destruct (mv (mt (prot a)) (ptr b)) as [x y z], (mv (mt (prot a)) (ptr a)) as [u v w]. v3eq.
Qed.
(* the translation part of E = est^-1 ref has the length of the position difference *)
Theorem ape_trans_is_E_translation (ref est : PoseR) : Orth (prot est) ->
  norm (ptr (relative_se3 est ref)) = norm (vsub (ptr est) (ptr ref)).
Proof.
  intros O. unfold relative_se3, norm. rnum. rewrite ptr_prel, nrm2_mv_orth by now apply Orth_mt.
  fold (norm (vsub (ptr ref) (ptr est))). fold (norm (vsub (ptr est) (ptr ref))). apply norm_vsub_sym.
Qed.
Theorem ape_full_sq (E : PoseR) x : reduceR full_transformation E = Some x ->
  x * x = fnorm2 (msub (prot E) I3) + nrm2 (ptr E).
Proof.
  cbn [reduce_pose]. rnum. intros H; injection H as <-. apply sqrt_sqrt.
  pose proof (fnorm2_nonneg (msub (prot E) I3)). pose proof (nrm2_nonneg (ptr E)). lra.
Qed.

Lemma vsub_pmul (t a b : PoseR) : vsub (ptr (pmul t a)) (ptr (pmul t b)) = mv (prot t) (vsub (ptr a) (ptr b)).
Proof.
  cbn [pmul ptr]. rewrite mv_vsub.
  destruct (mv (prot t) (ptr a)) as [x y z], (mv (prot t) (ptr b)) as [u v w], (ptr t) as [p q r]. v3eq.
Qed.
Theorem ape_pair_left_invariant rel (t ref est : PoseR) : Orth (prot t) ->
  ape_pairR rel (pmul t ref) (pmul t est) = ape_pairR rel ref est.
Proof.
  intros O. unfold ape_pair, relative_se3.
  destruct rel; try (now rewrite prel_left_invariant by exact O); try reflexivity;
    unfold norm; rnum; now rewrite vsub_pmul, nrm2_mv_orth.
Qed.
Theorem ape_pair_swap rel (a b : PoseR) : Orth (prot a) -> Orth (prot b) ->
  ape_pairR rel a b = ape_pairR rel b a.
Proof.
  intros Oa Ob. unfold ape_pair, relative_se3.
  assert (OE : Orth (prot (prel b a))) by (cbn [prel pmul pinv prot]; apply Orth_mm; [now apply Orth_mt|exact Oa]).
  destruct rel; try reflexivity;
    try (rewrite (prel_swap b a Ob); symmetry; apply reduce_pinv; exact OE);
    f_equal; apply norm_vsub_sym.
Qed.
Lemma vsub_self (v : V3R) : vsub v v = V0. Proof. destruct v; v3eq. Qed.
Lemma msub_self (m : M3R) : msub m m = M0. Proof. destruct m; m3eq. Qed.
Lemma reduce_identity rel : rel <> point_distance -> rel <> point_distance_error_ratio ->
  reduceR rel pI = Some 0.
Proof.
  intros N1 N2. assert (Z : fnorm2 (msub (@I3 R _) I3) = 0) by (rewrite msub_self; lin_unfold; ring).
  assert (Zt : nrm2 (ptr (@pI R _)) = 0) by (lin_unfold; ring).
  assert (A : angleR (prot (@pI R _)) = 0).
  { unfold angleR, cos_angle. rnum. cbn [pI prot]. replace ((tr I3 - 1) / (1 + 1)) with 1 by (lin_unfold; field).
    apply acos_1. }
  destruct rel; cbn [reduce_pose]; rnum; try congruence.
  - cbn [pI prot] in *. rewrite Z, Zt, Rplus_0_r. now rewrite sqrt_0.
  - unfold norm. rnum. rewrite Zt. now rewrite sqrt_0.
  - cbn [pI prot] in *. rewrite Z. now rewrite sqrt_0.
  - rewrite A, Rabs_R0. reflexivity.
  - rewrite A. unfold rad2degR. rewrite Rmult_0_l, Rabs_R0. reflexivity.
Qed.
Theorem ape_pair_zero rel (p : PoseR) : Orth (prot p) -> rel <> point_distance_error_ratio ->
  ape_pairR rel p p = Some 0.
Proof.
  intros O N. unfold ape_pair, relative_se3.
  destruct rel; try congruence; try (rewrite prel_self by exact O; apply reduce_identity; congruence);
    rewrite vsub_self; unfold norm; rnum; replace (nrm2 V0) with 0 by (lin_unfold; ring); now rewrite sqrt_0.
Qed.
Theorem ape_angle_range (ref est : PoseR) x : ape_pairR rotation_angle_rad ref est = Some x -> 0 <= x <= PI.
Proof.
  unfold ape_pair. cbn [reduce_pose]. rnum. intros H; injection H as <-.
  rewrite Rabs_pos_eq; [apply angle_range|apply (proj1 (angle_range _))].
Qed.
Theorem ape_deg_is_rad_scaled (ref est : PoseR) x y : ape_pairR rotation_angle_rad ref est = Some x ->
  ape_pairR rotation_angle_deg ref est = Some y -> y = x * (180 / PI).
Proof.
  unfold ape_pair. cbn [reduce_pose]. rnum. intros H1 H2; injection H1 as <-; injection H2 as <-. unfold rad2degR.
  rewrite Rabs_mult. f_equal. apply Rabs_pos_eq. apply Rlt_le. apply Rdiv_lt_0_compat; [lra|apply PI_RGT_0].
Qed.

(* ---------- APE, sequence level ---------- *)
Theorem ape_refuses_unequal rel (ref est : list PoseR) : length ref <> length est -> apeR rel ref est = None.
Proof. intros H. unfold ape. destruct (Nat.eqb_spec (length ref) (length est)); [contradiction|reflexivity]. Qed.
Lemma sequence_combine_nth {A B} (f : A * A -> option B) (da : A) (db : B) : forall (ref est : list A) errs,
  length ref = length est -> sequence (map f (combine ref est)) = Some errs ->
  length errs = length ref /\ forall k, (k < length ref)%nat -> f (nth k ref da, nth k est da) = Some (nth k errs db).
Proof.
  induction ref as [|a ref IH]; intros [|b est] errs E H; cbn in *; try discriminate.
  - injection H as <-. split; [reflexivity|intros; lia].
  - destruct (f (a, b)) as [x|] eqn:F; [|discriminate].
    destruct (sequence (map f (combine ref est))) as [ys|] eqn:S; [|discriminate]. injection H as <-.
    destruct (IH est ys ltac:(lia) S) as [L N]. split; [cbn; now rewrite L|].
    intros [|k] Hk; cbn; [exact F|apply N; lia].
Qed.
Theorem ape_one_value_per_pose rel (ref est : list PoseR) errs : apeR rel ref est = Some errs ->
  length ref = length est /\ length errs = length ref /\
  forall k, (k < length ref)%nat -> ape_pairR rel (nth k ref pI) (nth k est pI) = Some (nth k errs 0).
Proof.
  unfold ape. destruct (Nat.eqb_spec (length ref) (length est)) as [E|]; [|discriminate]. intros H.
  split; [exact E|].
  exact (sequence_combine_nth (fun p => ape_pairR rel (fst p) (snd p)) pI 0 ref est errs E H).
Qed.
Theorem ape_defined rel (ref est : list PoseR) : length ref = length est -> rel <> point_distance_error_ratio ->
  exists errs, apeR rel ref est = Some errs.
Proof.
  intros E N. unfold ape. rewrite E, Nat.eqb_refl. apply sequence_all_some.
  intros x I. apply in_map_iff in I. destruct I as (p & <- & _). unfold ape_pair, reduce_pose.
  destruct rel; congruence.
Qed.
Theorem ape_left_invariant rel (t : PoseR) (ref est : list PoseR) : Orth (prot t) ->
  apeR rel (map (pmul t) ref) (map (pmul t) est) = apeR rel ref est.
Proof.
  intros O. unfold ape. rewrite !map_length. destruct (Nat.eqb _ _); [|reflexivity].
  rewrite combine_map, map_map. cbn [fst snd]. apply sequence_map_ext. intros p _.
  now apply ape_pair_left_invariant.
Qed.
Theorem ape_swap rel (ref est : list PoseR) : Forall (fun p => Orth (prot p)) ref -> Forall (fun p => Orth (prot p)) est ->
  apeR rel est ref = apeR rel ref est.
Proof.
  intros Fr Fe. unfold ape. rewrite (Nat.eqb_sym (length est)). destruct (Nat.eqb _ _); [|reflexivity].
  f_equal. clear -Fr Fe. revert est Fe. induction Fr as [|a ref Ha Fr IH]; intros [|b est] Fe; cbn; try reflexivity.
  inversion Fe; subst. f_equal; [now apply ape_pair_swap|now apply IH].
Qed.
Theorem ape_zero_on_equal rel (tr : list PoseR) : Forall (fun p => Orth (prot p)) tr ->
  rel <> point_distance_error_ratio -> apeR rel tr tr = Some (repeat 0 (length tr)).
Proof.
  intros F N. unfold ape. rewrite Nat.eqb_refl. induction F as [|a tr Ha F IH]; cbn; [reflexivity|].
  rewrite ape_pair_zero by assumption. now rewrite IH.
Qed.

(* ---------- RPE ---------- *)
Theorem rpe_refuses_unequal rel pairs (ref est : list PoseR) : length ref <> length est -> rpeR rel pairs ref est = None.
Proof. intros H. unfold rpe. destruct (Nat.eqb_spec (length ref) (length est)); [contradiction|reflexivity]. Qed.

(* E = (Q_i^-1 Q_j)^-1 (P_i^-1 P_j) *)
Theorem rpe_E_def (Qi Qj Pi Pj : PoseR) :
  rpe_base Qi Qj Pi Pj = pmul (pinv (pmul (pinv Qi) Qj)) (pmul (pinv Pi) Pj).
Proof. reflexivity. Qed.

(* one value per selected pair; the reported ids are the pair END indices, same length and order -
   for the ratio relation after dropping zero reference distances from values and ids alike *)
Lemma rel_eq_dec (a b : PoseRelation) : {a = b} + {a <> b}.
Proof. decide equality. Qed.
Lemma rpe_nonratio rel pairs (ref est : list PoseR) : rel <> point_distance_error_ratio ->
  rpeR rel pairs ref est =
  if negb (Nat.eqb (length ref) (length est)) then None else
  match sequence (map (rpe_pairR rel ref est) pairs) with
  | Some errs => Some (errs, map snd pairs) | None => None end.
Proof. intros N. unfold rpe. destruct rel; try reflexivity. congruence. Qed.
Lemma sequence_map_nth {A B} (f : A -> option B) (d : A) (db : B) (l : list A) xs :
  sequence (map f l) = Some xs ->
  length xs = length l /\ forall k, (k < length l)%nat -> f (nth k l d) = Some (nth k xs db).
Proof.
  revert xs. induction l as [|a l IH]; cbn; intros xs H.
  - injection H as <-. split; [reflexivity|intros; lia].
  - destruct (f a) as [x|] eqn:F; [|discriminate].
    destruct (sequence (map f l)) as [ys|] eqn:S; [|discriminate]. injection H as <-.
    destruct (IH ys eq_refl) as [L N]. split; [cbn; now rewrite L|].
    intros [|k] Hk; cbn; [exact F|apply N; lia].
Qed.
Theorem rpe_one_value_per_pair rel pairs (ref est : list PoseR) errs ids : rpeR rel pairs ref est = Some (errs, ids) ->
  length ref = length est /\ length errs = length ids /\
  (rel <> point_distance_error_ratio ->
     ids = map snd pairs /\ forall k, (k < length pairs)%nat ->
       rpe_pairR rel ref est (nth k pairs (0, 0)%nat) = Some (nth k errs 0)) /\
  (rel = point_distance_error_ratio ->
     let kept := filter (fun p => nonzero_b (step_dist ref p)) pairs in
     ids = map snd kept /\
     errs = map (fun p => Rabs (step_dist ref p - step_dist est p) / step_dist ref p * 100) kept).
Proof.
  destruct (rel_eq_dec rel point_distance_error_ratio) as [->|N].
  - unfold rpe. destruct (Nat.eqb_spec (length ref) (length est)) as [E|]; [|discriminate]. cbn [negb].
    intros H. injection H as <- <-. split; [exact E|]. split; [now rewrite !map_length|].
    split; [congruence|]. intros _. cbn zeta. split; reflexivity.
  - rewrite rpe_nonratio by exact N.
    destruct (Nat.eqb_spec (length ref) (length est)) as [E|]; [|discriminate]. cbn [negb].
    destruct (sequence (map (rpe_pairR rel ref est) pairs)) as [es|] eqn:S; [|discriminate].
    intros H. injection H as <- <-. destruct (sequence_map_nth _ (0, 0)%nat 0 _ _ S) as [L Nn].
    split; [exact E|]. split; [now rewrite map_length|]. split; [|congruence].
    intros _. split; [reflexivity|exact Nn].
Qed.

(* drift invariance for a fixed pair list: reference and estimate may each be moved by their own rigid motion *)
Lemma nthp_map (t : PoseR) (l : list PoseR) i : (i < length l)%nat -> nthp (map (pmul t) l) i = pmul t (nthp l i).
Proof.
  intros H. unfold nthp. rewrite (nth_indep _ pI (pmul t pI)) by (now rewrite map_length). apply map_nth.
Qed.
Lemma step_dist_map (t : PoseR) (l : list PoseR) p : Orth (prot t) ->
  (fst p < length l)%nat -> (snd p < length l)%nat -> step_dist (map (pmul t) l) p = step_dist l p.
Proof.
  intros O H1 H2. unfold step_dist, norm. rnum. rewrite !nthp_map by assumption.
  now rewrite vsub_pmul, nrm2_mv_orth.
Qed.
Definition pairs_in_range (n : nat) (pairs : list (nat * nat)) : Prop :=
  Forall (fun p => (fst p < n)%nat /\ (snd p < n)%nat) pairs.

Lemma rpe_pair_drift rel (A B : PoseR) (ref est : list PoseR) p : Orth (prot A) -> Orth (prot B) ->
  (fst p < length ref)%nat -> (snd p < length ref)%nat -> length ref = length est ->
  rpe_pairR rel (map (pmul A) ref) (map (pmul B) est) p = rpe_pairR rel ref est p.
Proof.
  intros OA OB H1 H2 E. unfold rpe_pair, rpe_base, relative_se3.
  rewrite !step_dist_map by (try assumption; lia).
  rewrite !nthp_map by lia. rewrite !prel_left_invariant by assumption. reflexivity.
Qed.
Theorem rpe_drift_invariant rel pairs (A B : PoseR) (ref est : list PoseR) : Orth (prot A) -> Orth (prot B) ->
  pairs_in_range (length ref) pairs ->
  rpeR rel pairs (map (pmul A) ref) (map (pmul B) est) = rpeR rel pairs ref est.
Proof.
  intros OA OB R. unfold rpe. rewrite !map_length.
  destruct (Nat.eqb_spec (length ref) (length est)) as [E|]; [|reflexivity]. cbn [negb].
  unfold pairs_in_range in R. rewrite Forall_forall in R.
  assert (Hseq : forall r, sequence (map (rpe_pairR r (map (pmul A) ref) (map (pmul B) est)) pairs)
                          = sequence (map (rpe_pairR r ref est) pairs)).
  { intros r. apply sequence_map_ext. intros p Hp. destruct (R p Hp). now apply rpe_pair_drift. }
  destruct rel; rewrite ?Hseq; try reflexivity.
  assert (F : filter (fun p => nonzero_b (step_dist (map (pmul A) ref) p)) pairs
            = filter (fun p => nonzero_b (step_dist ref p)) pairs).
  { apply filter_ext_in. intros p Hp. destruct (R p Hp). now rewrite step_dist_map. }
  rewrite F. f_equal. f_equal. apply map_ext_in. intros p Hp. apply filter_In in Hp. destruct Hp as [Hp _].
  destruct (R p Hp). rewrite !step_dist_map by (try assumption; lia). reflexivity.
Qed.

(* same relative motions => zero error *)
Lemma step_dist_prel (l : list PoseR) p : Orth (prot (nthp l (fst p))) ->
  step_dist l p = norm (ptr (prel (nthp l (fst p)) (nthp l (snd p)))).
Proof.
  intros O. unfold step_dist, norm. rnum. rewrite ptr_prel, nrm2_mv_orth by now apply Orth_mt.
  f_equal. destruct (ptr (nthp l (fst p))) as [x y z], (ptr (nthp l (snd p))) as [u v w]. lin_unfold. ring.
Qed.
Theorem rpe_pair_zero_same_motion rel (ref est : list PoseR) p :
  Orth (prot (nthp ref (fst p))) -> Orth (prot (nthp est (fst p))) ->
  Orth (prot (nthp ref (snd p))) ->
  prel (nthp ref (fst p)) (nthp ref (snd p)) = prel (nthp est (fst p)) (nthp est (snd p)) ->
  rel <> point_distance_error_ratio -> rpe_pairR rel ref est p = Some 0.
Proof.
  intros O1 O2 O3 Hm N. unfold rpe_pair, rpe_base, relative_se3.
  assert (OQ : Orth (prot (prel (nthp ref (fst p)) (nthp ref (snd p))))).
  { cbn [prel pmul pinv prot]. apply Orth_mm; [now apply Orth_mt|exact O3]. }
  destruct rel; try congruence; try (rewrite <- Hm, prel_self by exact OQ; apply reduce_identity; congruence).
  rewrite !step_dist_prel by assumption. rewrite Hm. rnum.
  replace (_ - _) with 0 by ring. now rewrite Rabs_R0.
Qed.


(* ---------- RPE is symmetric in the two trajectories (all relations except the ratio, which divides by the
   reference's step length) ---------- *)
Lemma nthp_Orth (l : list PoseR) i : Forall (fun p => Orth (prot p)) l -> Orth (prot (nthp l i)).
Proof.
  intros F. unfold nthp. destruct (Nat.lt_ge_cases i (length l)) as [H|H].
  - rewrite Forall_forall in F. apply F, nth_In, H.
  - rewrite nth_overflow by exact H. apply Orth_I.
Qed.
Lemma prel_Orth (a b : PoseR) : Orth (prot a) -> Orth (prot b) -> Orth (prot (prel a b)).
Proof. intros Oa Ob. cbn [prel pmul pinv prot]. apply Orth_mm; [now apply Orth_mt|exact Ob]. Qed.
Theorem rpe_pair_swap rel (ref est : list PoseR) p :
  Forall (fun p => Orth (prot p)) ref -> Forall (fun p => Orth (prot p)) est ->
  rpe_pairR rel est ref p = rpe_pairR rel ref est p.
Proof.
  intros Fr Fe. unfold rpe_pair, rpe_base, relative_se3.
  set (Q := prel (nthp ref (fst p)) (nthp ref (snd p))). set (P := prel (nthp est (fst p)) (nthp est (snd p))).
  assert (OQ : Orth (prot Q)) by (apply prel_Orth; now apply nthp_Orth).
  assert (OP : Orth (prot P)) by (apply prel_Orth; now apply nthp_Orth).
  assert (OE : Orth (prot (prel Q P))) by (now apply prel_Orth).
  destruct rel; try (rewrite (prel_swap Q P OQ); apply reduce_pinv; exact OE);
    rnum; f_equal; apply Rabs_minus_sym.
Qed.
Theorem rpe_swap rel pairs (ref est : list PoseR) : rel <> point_distance_error_ratio ->
  Forall (fun p => Orth (prot p)) ref -> Forall (fun p => Orth (prot p)) est ->
  rpeR rel pairs est ref = rpeR rel pairs ref est.
Proof.
  intros Hrel Fr Fe. unfold rpe. rewrite (Nat.eqb_sym (length est)). destruct (Nat.eqb _ _); [|reflexivity]. cbn [negb].
  assert (Hseq : sequence (map (rpe_pairR rel est ref) pairs) = sequence (map (rpe_pairR rel ref est) pairs)).
  { apply sequence_map_ext. intros p _. now apply rpe_pair_swap. }
  destruct rel; rewrite ?Hseq; try reflexivity. now elim Hrel.
Qed.
(* the ratio is NOT symmetric: it divides by the step length of the trajectory in the reference role *)
Theorem rpe_ratio_not_symmetric : exists (ref est : list PoseR) pairs,
  Forall (fun p => Orth (prot p)) ref /\ Forall (fun p => Orth (prot p)) est /\
  rpeR point_distance_error_ratio pairs est ref <> rpeR point_distance_error_ratio pairs ref est.
Proof.
  exists [pI; mkPose I3 (mkV3 1 0 0)], [pI; mkPose I3 (mkV3 2 0 0)], [(0, 1)%nat].
  split; [repeat constructor; apply Orth_I|]. split; [repeat constructor; apply Orth_I|].
  unfold rpe. cbn [length Nat.eqb negb]. unfold nonzero_b, step_dist, nthp, norm. cbn [nth fst snd ptr pI filter map].
  lin_unfold. rnum.
  assert (S2 : sqrt ((0 - 2) * (0 - 2) + (0 - 0) * (0 - 0) + (0 - 0) * (0 - 0)) = 2)
    by (replace ((0 - 2) * (0 - 2) + (0 - 0) * (0 - 0) + (0 - 0) * (0 - 0)) with (2 * 2) by ring; apply sqrt_square; lra).
  assert (S1 : sqrt ((0 - 1) * (0 - 1) + (0 - 0) * (0 - 0) + (0 - 0) * (0 - 0)) = 1)
    by (replace ((0 - 1) * (0 - 1) + (0 - 0) * (0 - 0) + (0 - 0) * (0 - 0)) with (1 * 1) by ring; apply sqrt_square; lra).
  rewrite !S1, !S2.
  assert (E2 : Reqb 2 0 = false) by (unfold Reqb; destruct (Req_EM_T 2 0); [lra|reflexivity]).
  assert (E1 : Reqb 1 0 = false) by (unfold Reqb; destruct (Req_EM_T 1 0); [lra|reflexivity]).
  rewrite E1, E2. cbn [negb filter map snd]. rewrite ?S1, ?S2. intros H. injection H as H.
  lin_unfold. rnum. cbn [vx vy vz ptr prot fst snd nth] in H. rewrite ?S1, ?S2 in H. rewrite (Rabs_minus_sym 1 2) in H. replace (2 - 1) with 1 in H by ring. rewrite Rabs_R1 in H. lra.
Qed.




(* ---------- a common change of the body frame (right-multiplication of every pose of both trajectories by one rigid T)
   conjugates the RPE error pose, so the rotation-angle and rotation-part values do not depend on the body frame ---------- *)
Lemma prel_right (a b t : PoseR) : Orth (prot a) -> prel (pmul a t) (pmul b t) = pmul (pinv t) (pmul (prel a b) t).
Proof. intros O. unfold prel. rewrite pinv_pmul by exact O. now rewrite !pmul_assoc. Qed.
Lemma rpe_base_right (Qi Qj Pi Pj t : PoseR) : Orth (prot Qi) -> Orth (prot Qj) -> Orth (prot Pi) -> Orth (prot t) ->
  rpe_base (pmul Qi t) (pmul Qj t) (pmul Pi t) (pmul Pj t) = pmul (pinv t) (pmul (rpe_base Qi Qj Pi Pj) t).
Proof.
  intros OQi OQj OPi Ot. unfold rpe_base, relative_se3. rewrite (prel_right Qi Qj t OQi), (prel_right Pi Pj t OPi).
  set (Q := prel Qi Qj). set (P := prel Pi Pj).
  assert (OQ : Orth (prot Q)) by (apply prel_Orth; assumption).
  unfold prel. rewrite pinv_pmul by (cbn [pinv prot]; now apply Orth_mt).
  rewrite pinv_pmul by exact OQ. rewrite pinv_pinv by exact Ot.
  rewrite !pmul_assoc. f_equal. f_equal. rewrite <- !pmul_assoc. rewrite (pinv_right t Ot), pmul_I_l. reflexivity.
Qed.
Theorem rpe_rotation_values_body_frame_invariant (Qi Qj Pi Pj t : PoseR) rel :
  Orth (prot Qi) -> Orth (prot Qj) -> Orth (prot Pi) -> Orth (prot t) ->
  rel = rotation_angle_rad \/ rel = rotation_angle_deg ->
  reduceR rel (rpe_base (pmul Qi t) (pmul Qj t) (pmul Pi t) (pmul Pj t)) = reduceR rel (rpe_base Qi Qj Pi Pj).
Proof.
  intros OQi OQj OPi Ot Hrel. rewrite rpe_base_right by assumption.
  set (E := rpe_base Qi Qj Pi Pj).
  assert (A : angleR (prot (pmul (pinv t) (pmul E t))) = angleR (prot E)).
  { cbn [pmul pinv prot]. rewrite <- mm_assoc.
    rewrite <- (mt_mt (prot t)) at 2. apply angle_conjugation_invariant. now apply Orth_mt. }
  destruct Hrel as [-> | ->]; unfold reduce_pose; now rewrite A.
Qed.


(* ---------- the same for APE: the rotation-angle APE does not depend on the body-frame convention ---------- *)
Theorem ape_rotation_angle_body_frame_invariant rel (ref est t : PoseR) : Orth (prot est) -> Orth (prot t) ->
  rel = rotation_angle_rad \/ rel = rotation_angle_deg ->
  ape_pairR rel (pmul ref t) (pmul est t) = ape_pairR rel ref est.
Proof.
  intros Oe Ot Hrel.
  assert (A : angleR (prot (prel (pmul est t) (pmul ref t))) = angleR (prot (prel est ref))).
  { rewrite (prel_right est ref t Oe). cbn [pmul pinv prot]. rewrite <- mm_assoc.
    rewrite <- (mt_mt (prot t)) at 2. apply angle_conjugation_invariant. now apply Orth_mt. }
  destruct Hrel as [-> | ->]; unfold ape_pair, relative_se3, reduce_pose; now rewrite A.
Qed.
Theorem ape_rotation_angle_body_frame_invariant_traj rel (t : PoseR) (ref est : list PoseR) :
  Forall (fun p => Orth (prot p)) est -> Orth (prot t) -> rel = rotation_angle_rad \/ rel = rotation_angle_deg ->
  apeR rel (map (fun p => pmul p t) ref) (map (fun p => pmul p t) est) = apeR rel ref est.
Proof.
  intros Fe Ot Hrel. unfold ape. rewrite !map_length. destruct (Nat.eqb _ _); [|reflexivity]. f_equal.
  revert est Fe. induction ref as [|a ref IH]; intros [|b est] Fe; cbn [map combine]; try reflexivity.
  inversion Fe as [|? ? Hb Fe']; subst. f_equal; [now apply ape_rotation_angle_body_frame_invariant|now apply IH].
Qed.
