(* C07 - file conventions and rejection of malformed files. Property theorems only; proofs live in
   Evo.ReadersProofs and Evo.ReadersQuat.  [parse] is any numeric-token recogniser (float());
   a file is its byte sequence; [no_lone_cr]: CR occurs only in CRLF or as the last byte. *)
From Coq Require Import Ascii String.
From Coq Require Import Reals List Bool.
From Evo Require Import Num Linalg LinalgR FileFmt FileFmtProofs Readers ReadersProofs ReadersQuat ReadersWriter.
Import ListNotations.

(* --- the reader model returns exactly what the independently written convention returns, on every file --- *)
Theorem C07_read_tum_refines_spec :
  forall (T : Type) (ops : NumOps T) (parse : chars -> option T) (src : source) (f : chars),
  no_lone_cr f = true -> read_tum_file parse src f = tum_spec parse src f.
Proof. exact @read_tum_refines_spec. Qed.
Print Assumptions C07_read_tum_refines_spec.

Theorem C07_read_kitti_refines_spec :
  forall (T : Type) (ops : NumOps T) (parse : chars -> option T) (src : source) (f : chars),
  no_lone_cr f = true -> read_kitti_file parse src f = kitti_spec parse src f.
Proof. exact @read_kitti_refines_spec. Qed.
Print Assumptions C07_read_kitti_refines_spec.

Theorem C07_read_euroc_refines_spec :
  forall (T : Type) (ops : NumOps T) (parse : chars -> option T) (src : source) (f : chars),
  no_lone_cr f = true -> read_euroc_file parse src f = euroc_spec parse src f.
Proof. exact @read_euroc_refines_spec. Qed.
Print Assumptions C07_read_euroc_refines_spec.

(* '#' comment lines anywhere, LF/CRLF, and a UTF-8 BOM in front of a path are invisible *)
Theorem C07_comments_newlines_bom_ignored :
  forall (src : source) (f : chars), no_lone_cr f = true ->
  filter (fun l => negb (is_comment l)) (lines (decode src f)) = data_lines src f.
Proof. exact code_lines_are_data_lines. Qed.
Print Assumptions C07_comments_newlines_bom_ignored.

(* --- rejection: a defect in ANY data row rejects the whole file (never a partial load) --- *)
Theorem C07_tum_defect_in_any_row_rejected :
  forall (T : Type) (ops : NumOps T) (parse : chars -> option T) src f line,
  no_lone_cr f = true -> In line (data_lines src f) ->
  (length (fields SP line) <> 8 \/ exists tok, In tok (fields SP line) /\ parse tok = None) ->
  read_tum_file parse src f = None.
Proof. exact @tum_bad_row_rejected. Qed.
Print Assumptions C07_tum_defect_in_any_row_rejected.

Theorem C07_kitti_defect_in_any_row_rejected :
  forall (T : Type) (ops : NumOps T) (parse : chars -> option T) src f line,
  no_lone_cr f = true -> In line (data_lines src f) ->
  (length (fields SP line) <> 12 \/ exists tok, In tok (fields SP line) /\ parse tok = None) ->
  read_kitti_file parse src f = None.
Proof. exact @kitti_bad_row_rejected. Qed.
Print Assumptions C07_kitti_defect_in_any_row_rejected.

Theorem C07_euroc_defect_in_any_row_rejected :
  forall (T : Type) (ops : NumOps T) (parse : chars -> option T) src f first rest line,
  no_lone_cr f = true -> data_lines src f = first :: rest -> In line (first :: rest) ->
  (length (fields COMMA first) < 8 \/ length (fields COMMA line) <> length (fields COMMA first) \/
   exists tok, In tok (fields COMMA line) /\ parse tok = None) ->
  read_euroc_file parse src f = None.
Proof. exact @euroc_bad_row_rejected. Qed.
Print Assumptions C07_euroc_defect_in_any_row_rejected.

Theorem C07_no_data_rows_rejected :
  forall (T : Type) (ops : NumOps T) (parse : chars -> option T) src f,
  no_lone_cr f = true -> data_lines src f = [] ->
  read_tum_file parse src f = None /\ read_kitti_file parse src f = None /\ read_euroc_file parse src f = None.
Proof. exact @no_data_rows_rejected. Qed.
Print Assumptions C07_no_data_rows_rejected.

(* --- slots: which token of the i-th data line lands where --- *)
Theorem C07_tum_slots :
  forall (T : Type) (ops : NumOps T) (parse : chars -> option T) src f tr i line, no_lone_cr f = true ->
  read_tum_file parse src f = Some tr -> nth_error (data_lines src f) i = Some line ->
  exists t x y z qx qy qz qw vt vx vy vz vqx vqy vqz vqw,
    fields SP line = [t; x; y; z; qx; qy; qz; qw] /\
    parse t = Some vt /\ parse x = Some vx /\ parse y = Some vy /\ parse z = Some vz /\
    parse qx = Some vqx /\ parse qy = Some vqy /\ parse qz = Some vqz /\ parse qw = Some vqw /\
    nth_error tr i = Some (mkTP vt [vx; vy; vz] [vqw; vqx; vqy; vqz]).
Proof. exact @tum_slots. Qed.
Print Assumptions C07_tum_slots.

Theorem C07_kitti_slots :
  forall (T : Type) (ops : NumOps T) (parse : chars -> option T) src f tr i line, no_lone_cr f = true ->
  read_kitti_file parse src f = Some tr -> nth_error (data_lines src f) i = Some line ->
  exists v, traverse parse (fields SP line) = Some v /\ length v = 12 /\
    nth_error tr i = Some (v ++ [n0; n0; n0; n1]).
Proof. exact @kitti_slots. Qed.
Print Assumptions C07_kitti_slots.

Theorem C07_euroc_slots :
  forall (T : Type) (ops : NumOps T) (parse : chars -> option T) src f tr i line, no_lone_cr f = true ->
  read_euroc_file parse src f = Some tr -> nth_error (data_lines src f) i = Some line ->
  exists t x y z qw qx qy qz more vt vx vy vz vqw vqx vqy vqz,
    fields COMMA line = t :: x :: y :: z :: qw :: qx :: qy :: qz :: more /\
    parse t = Some vt /\ parse x = Some vx /\ parse y = Some vy /\ parse z = Some vz /\
    parse qw = Some vqw /\ parse qx = Some vqx /\ parse qy = Some vqy /\ parse qz = Some vqz /\
    nth_error tr i = Some (mkTP (ndiv vt ns_per_s) [vx; vy; vz] [vqw; vqx; vqy; vqz]).
Proof. exact @euroc_slots. Qed.
Print Assumptions C07_euroc_slots.

(* --- files evo writes (tokens joined by one blank, one "\n" per row) are read by the independent parser to the same poses --- *)
Theorem C07_written_tum_files_read_by_the_convention_spec :
  forall (T : Type) (ops : NumOps T) (fmt : T -> chars) (parse : chars -> option T) (ok : T -> Prop),
  (forall x, ok x -> parse (fmt x) = Some x) ->
  (forall x, ~ In SP (fmt x) /\ ~ In LF (fmt x) /\ ~ In CR (fmt x)) ->
  (forall x c r, fmt x = c :: r -> c <> HASH) ->
  forall tr : list (TP T), tr <> [] -> Forall tp_valid tr -> Forall (tp_ok ok) tr ->
  tum_spec parse FromHandle (render (write_tum fmt tr)) = Some tr.
Proof. exact @tum_spec_reads_written. Qed.
Print Assumptions C07_written_tum_files_read_by_the_convention_spec.

Theorem C07_written_kitti_files_read_by_the_convention_spec :
  forall (T : Type) (ops : NumOps T) (fmt : T -> chars) (parse : chars -> option T) (ok : T -> Prop),
  (forall x, ok x -> parse (fmt x) = Some x) ->
  (forall x, ~ In SP (fmt x) /\ ~ In LF (fmt x) /\ ~ In CR (fmt x)) ->
  (forall x c r, fmt x = c :: r -> c <> HASH) ->
  forall tr : list (list T), tr <> [] -> Forall pose_valid tr -> Forall (Forall ok) tr ->
  kitti_spec parse FromHandle (render (write_kitti fmt tr)) = Some tr.
Proof. exact @kitti_spec_reads_written. Qed.
Print Assumptions C07_written_kitti_files_read_by_the_convention_spec.

(* --- quaternion convention --- *)
Local Open Scope R_scope.
Theorem C07_quat_matrix_convention :
  forall eps4 : R, 0 < eps4 -> forall w x y z, eps4 <= 1 -> w * w + x * x + y * y + z * z = 1 ->
  quaternion_matrix eps4 w x y z = hamilton w x y z.
Proof. exact quat_matrix_convention. Qed.
Print Assumptions C07_quat_matrix_convention.

(* the textbook matrix is the matrix of v |-> q v q* for the Hamilton product, and a rotation *)
Theorem C07_hamilton_matrix_is_quaternion_conjugation :
  forall w x y z (v : V3 R), w * w + x * x + y * y + z * z = 1 ->
  qmul (qmul (w, mkV3 x y z) (0, v)) (qconj (w, mkV3 x y z)) = (0, mv (hamilton w x y z) v).
Proof. exact hamilton_is_conjugation. Qed.
Print Assumptions C07_hamilton_matrix_is_quaternion_conjugation.

Theorem C07_unit_quaternion_gives_rotation :
  forall w x y z, w * w + x * x + y * y + z * z = 1 -> SO3 (hamilton w x y z).
Proof. exact hamilton_SO3. Qed.
Print Assumptions C07_unit_quaternion_gives_rotation.

Theorem C07_quat_matrix_is_rotation_for_every_nonzero_quaternion :
  forall eps4 : R, 0 < eps4 -> forall w x y z, eps4 <= w * w + x * x + y * y + z * z -> SO3 (quaternion_matrix eps4 w x y z).
Proof. exact quat_matrix_SO3. Qed.
Print Assumptions C07_quat_matrix_is_rotation_for_every_nonzero_quaternion.

(* --- Sim(3) validation of transform files (np.allclose tolerances as parameters atol, rtol >= 0) --- *)
Theorem C07_is_sim3_decides :
  forall (atol rtol s : R) blk bottom,
  is_sim3 atol rtol s blk bottom = true <-> (0 < det blk /\ so3_within atol rtol (mscale (1 / s) blk) /\ bottom = [0; 0; 0; 1]).
Proof. exact is_sim3_decides. Qed.
Print Assumptions C07_is_sim3_decides.

Theorem C07_is_sim3_accepts :
  forall atol rtol, 0 <= atol -> 0 <= rtol -> forall s0 (r : M3 R) s, SO3 r -> 0 < s0 -> 0 < s ->
  s * s * s = det (mscale s0 r) -> is_sim3 atol rtol s (mscale s0 r) [0; 0; 0; 1] = true.
Proof. exact is_sim3_accepts. Qed.
Print Assumptions C07_is_sim3_accepts.

Theorem C07_is_sim3_rejects :
  forall (atol rtol s : R) blk bottom,
  (det blk <= 0 \/ bottom <> [0; 0; 0; 1] \/ ~ so3_within atol rtol (mscale (1 / s) blk)) ->
  is_sim3 atol rtol s blk bottom = false.
Proof.
  intros atol rtol s blk bottom [H|[H|H]].
  - now apply is_sim3_rejects_reflections_and_singular.
  - now apply is_sim3_rejects_wrong_bottom_row.
  - now apply is_sim3_rejects_beyond_tolerance.
Qed.
Print Assumptions C07_is_sim3_rejects.

Theorem C07_transform_must_be_4x4 :
  forall (atol rtol s : R) rows, load_transform_ok atol rtol s rows = true ->
  exists a b c t1 d e f t2 g h i t3 bottom,
    rows = [[a; b; c; t1]; [d; e; f; t2]; [g; h; i; t3]; bottom] /\ is_sim3 atol rtol s (mkM3 a b c d e f g h i) bottom = true.
Proof. exact load_transform_shape. Qed.
Print Assumptions C07_transform_must_be_4x4.

Theorem C07_json_transform_accepted :
  forall atol rtol, 0 <= atol -> 0 <= rtol -> forall eps4 x y z qx qy qz qw scale s, 0 < eps4 ->
  0 < scale -> 0 < s -> s * s * s = det (prot (transform_of_json eps4 x y z qx qy qz qw scale)) ->
  is_sim3 atol rtol s (prot (transform_of_json eps4 x y z qx qy qz qw scale)) [0; 0; 0; 1] = true.
Proof. exact json_transform_accepted. Qed.
Print Assumptions C07_json_transform_accepted.

(* non-vacuity *)
Theorem C07_example_quarter_turn : quaternion_matrix (/ 1000) 0 0 0 1 = mkM3 (-1) 0 0 0 (-1) 0 0 0 1.
Proof. exact quat_example. Qed.
Print Assumptions C07_example_quarter_turn.
