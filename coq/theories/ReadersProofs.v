(* ReadersProofs.v - the code-shaped reader model returns exactly what the convention specs return,
   on every file (quote-free, CR only in CRLF or as last byte), for every numeric-token oracle. *)
From Coq Require Import Ascii String.
From Coq Require Import List Arith Bool ZArith Lia.
From Evo Require Import Num Linalg FileFmt FileFmtProofs Readers.
Import ListNotations.

(* ---------- option plumbing ---------- *)
Lemma traverse_bind {A B C} (f : A -> option B) (g : B -> option C) (h : B -> C) (l : list A) :
  (forall x v, In x l -> f x = Some v -> g v = Some (h v)) ->
  traverse (fun x => match f x with Some v => g v | None => None end) l = option_map (map h) (traverse f l).
Proof.
  induction l as [|a l IH]; intros H; cbn; [reflexivity|].
  rewrite IH by (intros x v Hx; apply H; now right).
  destruct (f a) as [v|] eqn:Fa; [|reflexivity].
  rewrite (H a v (or_introl eq_refl) Fa). destruct (traverse f l); reflexivity.
Qed.

(* ---------- lines ---------- *)
Lemma lines_nonempty c r : lines (c :: r) <> [].
Proof. cbn. destruct (Ascii.eqb c LF); [discriminate|]. destruct (lines r); discriminate. Qed.

Lemma spec_lines_aux_spec s : forall cur,
  spec_lines_aux cur s =
  match s with
  | [] => match cur with [] => [] | _ => [rev cur] end
  | _ => match lines s with l :: ls => (rev cur ++ l) :: ls | [] => [] end
  end.
Proof.
  induction s as [|c r IH]; intros cur; [reflexivity|].
  cbn [spec_lines_aux lines]. destruct (Ascii.eqb c LF) eqn:E.
  - rewrite app_nil_r. f_equal. rewrite IH. destruct r as [|c' r']; [reflexivity|].
    destruct (lines (c' :: r')) eqn:L; [exfalso; eapply lines_nonempty; eauto|reflexivity].
  - rewrite IH. destruct r as [|c' r'].
    + cbn. reflexivity.
    + destruct (lines (c' :: r')) eqn:L; [exfalso; eapply lines_nonempty; eauto|].
      cbn [rev]. rewrite <- app_assoc. reflexivity.
Qed.

Lemma spec_lines_aux_nil s : spec_lines_aux [] s = lines s.
Proof.
  rewrite spec_lines_aux_spec. destruct s as [|c r]; [reflexivity|].
  destruct (lines (c :: r)) eqn:L; [exfalso; eapply lines_nonempty; eauto|reflexivity].
Qed.

Lemma strip_cr_nil : strip_cr [] = []. Proof. reflexivity. Qed.
Lemma strip_cr_single_cr : strip_cr [CR] = []. Proof. reflexivity. Qed.
Lemma strip_cr_cons c l : Ascii.eqb c CR = false -> strip_cr (c :: l) = c :: strip_cr l.
Proof.
  intros Hc. unfold strip_cr. cbn [rev].
  destruct (rev l) as [|z r] eqn:E.
  - assert (l = []) by (apply (f_equal (@rev ascii)) in E; rewrite rev_involutive in E; exact E). subst l.
    cbn. now rewrite Hc.
  - cbn [app]. destruct (Ascii.eqb z CR) eqn:Z; [|reflexivity].
    rewrite rev_app_distr. reflexivity.
Qed.

Lemma no_lone_cr_tail c r : no_lone_cr (c :: r) = true -> no_lone_cr r = true.
Proof. cbn. rewrite andb_true_iff. tauto. Qed.
Lemma no_lone_cr_skipn n : forall s, no_lone_cr s = true -> no_lone_cr (skipn n s) = true.
Proof. induction n as [|n IH]; intros [|c r] H; cbn; auto. apply IH. eapply no_lone_cr_tail; eauto. Qed.

Lemma lines_universal_nl_len n : forall s, length s <= n -> no_lone_cr s = true ->
  lines (universal_nl s) = map strip_cr (lines s).
Proof.
  induction n as [|n IH]; intros s Hn Hc.
  - destruct s; [reflexivity|cbn in Hn; lia].
  - destruct s as [|c r]; [reflexivity|]. cbn [length] in Hn.
    assert (Hr : no_lone_cr r = true) by (eapply no_lone_cr_tail; eauto).
    cbn [universal_nl]. destruct (Ascii.eqb c CR) eqn:Ec.
    + apply Ascii.eqb_eq in Ec. subst c.
      destruct r as [|c' r'].
      * reflexivity.
      * cbn in Hc. rewrite andb_true_iff in Hc. destruct Hc as [Hc' _]. rewrite Hc'.
        apply Ascii.eqb_eq in Hc'. subst c'.
        assert (Hr' : no_lone_cr r' = true) by (eapply no_lone_cr_tail; eauto).
        change (lines (LF :: universal_nl r')) with ([] :: lines (universal_nl r')).
        assert (L' : length r' <= n) by (cbn in Hn; lia).
        rewrite (IH r' L' Hr').
        change (lines (CR :: LF :: r')) with ([CR] :: lines r'). reflexivity.
    + assert (L' : length r <= n) by lia.
      cbn [lines]. destruct (Ascii.eqb c LF) eqn:El.
      * rewrite (IH r L' Hr). reflexivity.
      * rewrite (IH r L' Hr).
        destruct (lines r) as [|l ls]; cbn [map].
        -- rewrite strip_cr_cons by exact Ec. reflexivity.
        -- rewrite strip_cr_cons by exact Ec. reflexivity.
Qed.

Lemma lines_universal_nl s : no_lone_cr s = true -> lines (universal_nl s) = spec_lines s.
Proof. intros H. unfold spec_lines. rewrite spec_lines_aux_nil. eapply lines_universal_nl_len; eauto. Qed.

Lemma without_bom_decode src f :
  without_bom src f = match src with FromPath => if has_bom f then skipn 3 f else f | FromHandle => f end.
Proof.
  destruct src; [|destruct f; reflexivity].
  destruct f as [|a [|b [|c r]]]; reflexivity.
Qed.

(* the comment-filtered lines of the code = the data lines of the convention *)
Theorem code_lines_are_data_lines src f : no_lone_cr f = true ->
  filter (fun l => negb (is_comment l)) (lines (decode src f)) = data_lines src f.
Proof.
  intros H. unfold decode, data_lines. rewrite without_bom_decode.
  rewrite lines_universal_nl.
  - apply filter_ext. intros [|c l]; reflexivity.
  - destruct src; [|exact H]. destruct (has_bom f); [apply (no_lone_cr_skipn 3), H|exact H].
Qed.

(* ---------- fields ---------- *)
Lemma split_nonempty d s : split d s <> [].
Proof. destruct s as [|c r]; cbn; [discriminate|]. destruct (Ascii.eqb c d); [discriminate|]. destruct (split d r); discriminate. Qed.

Lemma fields_aux_spec d s : forall cur,
  fields_aux d cur s = match split d s with f :: fs => (rev cur ++ f) :: fs | [] => [rev cur] end.
Proof.
  induction s as [|c r IH]; intros cur; cbn [fields_aux split].
  - now rewrite app_nil_r.
  - destruct (Ascii.eqb c d).
    + rewrite app_nil_r. f_equal. rewrite IH. destruct (split d r) eqn:E; [exfalso; eapply split_nonempty; eauto|reflexivity].
    + rewrite IH. destruct (split d r) eqn:E; [exfalso; eapply split_nonempty; eauto|].
      cbn [rev]. now rewrite <- app_assoc.
Qed.
Lemma fields_split d s : fields d s = split d s.
Proof. unfold fields. rewrite fields_aux_spec. destruct (split d s) eqn:E; [exfalso; eapply split_nonempty; eauto|reflexivity]. Qed.

Lemma csv_row_fields d line : line <> [] -> csv_row d line = fields d line.
Proof. intros H. rewrite fields_split. destruct line; [congruence|reflexivity]. Qed.

(* a blank line is the empty row for the code and a single empty field for the convention:
   neither has k >= 2 entries *)
Lemma csv_row_len_eqb d line k : 2 <= k ->
  Nat.eqb (length (csv_row d line)) k = Nat.eqb (length (fields d line)) k.
Proof.
  intros Hk. destruct line as [|c r].
  - cbn. destruct k as [|[|k]]; try lia; reflexivity.
  - now rewrite csv_row_fields.
Qed.
Lemma csv_row_eq_fields_of_len d line k : 2 <= k -> length (csv_row d line) = k -> csv_row d line = fields d line.
Proof. intros Hk H. destruct line as [|c r]; [cbn in H; lia|now apply csv_row_fields]. Qed.

Section Refinement.
Context {T : Type} {ops : NumOps T}.
Variable parse : chars -> option T.

(* np.array(raw).astype(float) on rows of k >= 2 tokens = every row has exactly k numeric fields *)
Lemma matrix_rows d k (rows : list chars) : 2 <= k ->
  (if forallb (fun r => Nat.eqb (length r) k) (map (csv_row d) rows)
   then traverse (traverse parse) (map (csv_row d) rows) else None)
  = traverse (numeric_row parse d k) rows.
Proof.
  intros Hk. induction rows as [|l rows IH]; [reflexivity|].
  cbn [map forallb traverse]. unfold numeric_row at 1.
  rewrite <- (csv_row_len_eqb d l k Hk).
  destruct (Nat.eqb (length (csv_row d l)) k) eqn:E.
  - apply Nat.eqb_eq in E. rewrite <- (csv_row_eq_fields_of_len d l k Hk E).
    cbn [andb]. rewrite <- IH.
    destruct (traverse parse (csv_row d l)); [|destruct (forallb _ _); reflexivity].
    destruct (forallb _ _); reflexivity.
  - cbn [andb]. reflexivity.
Qed.

Lemma matrix_of_rows d (l0 : chars) (ls : list chars) : 2 <= length (csv_row d l0) ->
  matrix_of parse (map (csv_row d) (l0 :: ls)) = traverse (numeric_row parse d (length (csv_row d l0))) (l0 :: ls).
Proof.
  intros Hk. unfold matrix_of. cbn [map].
  change (csv_row d l0 :: map (csv_row d) ls) with (map (csv_row d) (l0 :: ls)).
  now apply matrix_rows.
Qed.

Lemma numeric_row_length d k line v : numeric_row parse d k line = Some v -> length v = k.
Proof.
  unfold numeric_row. destruct (Nat.eqb (length (fields d line)) k) eqn:E; [|discriminate].
  intros H. apply traverse_length in H. apply Nat.eqb_eq in E. congruence.
Qed.

(* the first row decides for the code; it must then be a row the convention accepts as well *)
Lemma first_row_rejected d k (l0 : chars) (ls : list chars) (g : list T -> option (list T)) : 2 <= k ->
  Nat.eqb (length (csv_row d l0)) k = false ->
  forall {B} (g : list T -> option B),
  traverse (fun line => match numeric_row parse d k line with Some v => g v | None => None end) (l0 :: ls) = None.
Proof.
  intros Hk E B g0. cbn [traverse]. unfold numeric_row at 1.
  rewrite <- (csv_row_len_eqb d l0 k Hk), E. reflexivity.
Qed.

Definition tum_build (r : list T) : TP T := mkTP (nth 0 r n0) (firstn 3 (skipn 1 r)) (roll1 (skipn 4 r)).
Lemma tum_pose_build v : length v = 8 -> tum_pose v = Some (tum_build v).
Proof. intros H. do 9 (destruct v as [|? v]; try discriminate). reflexivity. Qed.

Definition kitti_build (r : list T) : list T := firstn 12 r ++ [n0; n0; n0; n1].
Lemma kitti_pose_build v : length v = 12 -> kitti_pose v = Some (kitti_build v).
Proof. intros H. do 13 (destruct v as [|? v]; try discriminate). reflexivity. Qed.

Definition euroc_build (r : list T) : TP T :=
  mkTP (ndiv (nth 0 r n0) ns_per_s) (firstn 3 (skipn 1 r)) (firstn 4 (skipn 4 r)).
Lemma euroc_pose_build v : 8 <= length v -> euroc_pose v = Some (euroc_build v).
Proof. intros H. do 8 (destruct v as [|? v]; [cbn in H; lia|]). reflexivity. Qed.

Theorem read_tum_refines_spec src f : no_lone_cr f = true ->
  read_tum_file parse src f = tum_spec parse src f.
Proof.
  intros H. unfold read_tum_file, tum_spec, csv_read_matrix. rewrite (code_lines_are_data_lines src f H).
  destruct (data_lines src f) as [|l0 ls]; [reflexivity|].
  unfold read_tum. cbn [map].
  destruct (Nat.eqb (length (csv_row SP l0)) 8) eqn:E; cbn [negb].
  - apply Nat.eqb_eq in E.
    change (csv_row SP l0 :: map (csv_row SP) ls) with (map (csv_row SP) (l0 :: ls)).
    rewrite matrix_of_rows by lia. rewrite E.
    rewrite (traverse_bind (numeric_row parse SP 8) tum_pose tum_build).
    + destruct (traverse (numeric_row parse SP 8) (l0 :: ls)); reflexivity.
    + intros x v _ Hv. apply tum_pose_build. eapply numeric_row_length; eauto.
  - symmetry. apply (first_row_rejected SP 8 l0 ls (fun v => Some v)); [lia|exact E].
Qed.

Theorem read_kitti_refines_spec src f : no_lone_cr f = true ->
  read_kitti_file parse src f = kitti_spec parse src f.
Proof.
  intros H. unfold read_kitti_file, kitti_spec, csv_read_matrix. rewrite (code_lines_are_data_lines src f H).
  destruct (data_lines src f) as [|l0 ls]; [reflexivity|].
  unfold read_kitti. cbn [map].
  destruct (Nat.eqb (length (csv_row SP l0)) 12) eqn:E; cbn [negb].
  - apply Nat.eqb_eq in E.
    change (csv_row SP l0 :: map (csv_row SP) ls) with (map (csv_row SP) (l0 :: ls)).
    rewrite matrix_of_rows by lia. rewrite E.
    rewrite (traverse_bind (numeric_row parse SP 12) kitti_pose kitti_build).
    + destruct (traverse (numeric_row parse SP 12) (l0 :: ls)); reflexivity.
    + intros x v _ Hv. apply kitti_pose_build. eapply numeric_row_length; eauto.
  - symmetry. apply (first_row_rejected SP 12 l0 ls (fun v => Some v)); [lia|exact E].
Qed.

Theorem read_euroc_refines_spec src f : no_lone_cr f = true ->
  read_euroc_file parse src f = euroc_spec parse src f.
Proof.
  intros H. unfold read_euroc_file, euroc_spec, csv_read_matrix. rewrite (code_lines_are_data_lines src f H).
  destruct (data_lines src f) as [|l0 ls]; [reflexivity|].
  unfold read_euroc. cbn [map].
  destruct (Nat.ltb (length (csv_row COMMA l0)) 8) eqn:E.
  - apply Nat.ltb_lt in E.
    assert (E' : Nat.ltb (length (fields COMMA l0)) 8 = true).
    { apply Nat.ltb_lt. destruct l0 as [|c r]; [cbn; lia|]. rewrite <- csv_row_fields by discriminate. exact E. }
    rewrite E'. reflexivity.
  - apply Nat.ltb_ge in E.
    assert (Hne : l0 <> []) by (intros ->; cbn in E; lia).
    rewrite <- (csv_row_fields COMMA l0 Hne).
    assert (E' : Nat.ltb (length (csv_row COMMA l0)) 8 = false) by (apply Nat.ltb_ge; exact E).
    rewrite E'.
    change (csv_row COMMA l0 :: map (csv_row COMMA) ls) with (map (csv_row COMMA) (l0 :: ls)).
    rewrite matrix_of_rows by lia.
    set (k := length (csv_row COMMA l0)) in *.
    rewrite (traverse_bind (numeric_row parse COMMA k) euroc_pose euroc_build).
    + destruct (traverse (numeric_row parse COMMA k) (l0 :: ls)); reflexivity.
    + intros x v _ Hv. apply euroc_pose_build. erewrite numeric_row_length by eauto. exact E.
Qed.

(* ---------- consequences read off the specs: rejection classes and slots ---------- *)

(* a data line whose number of space separated fields is not 8 (too few, too many, trailing or doubled
   delimiter, blank line), or with a non-numeric field, anywhere in the file: the file is rejected *)
Theorem tum_bad_row_rejected src f line : no_lone_cr f = true -> In line (data_lines src f) ->
  (length (fields SP line) <> 8 \/ exists tok, In tok (fields SP line) /\ parse tok = None) ->
  read_tum_file parse src f = None.
Proof.
  intros H Hin Hbad. rewrite read_tum_refines_spec by exact H. unfold tum_spec.
  destruct (data_lines src f) as [|l0 ls] eqn:D; [destruct Hin|].
  apply traverse_None_iff. exists line. split; [exact Hin|].
  unfold numeric_row. destruct (Nat.eqb (length (fields SP line)) 8) eqn:E; [|reflexivity].
  apply Nat.eqb_eq in E. destruct Hbad as [Hb|[tok [Ht Hp]]]; [congruence|].
  assert (N : traverse parse (fields SP line) = None) by (apply traverse_None_iff; eauto).
  now rewrite N.
Qed.

Theorem kitti_bad_row_rejected src f line : no_lone_cr f = true -> In line (data_lines src f) ->
  (length (fields SP line) <> 12 \/ exists tok, In tok (fields SP line) /\ parse tok = None) ->
  read_kitti_file parse src f = None.
Proof.
  intros H Hin Hbad. rewrite read_kitti_refines_spec by exact H. unfold kitti_spec.
  destruct (data_lines src f) as [|l0 ls] eqn:D; [destruct Hin|].
  apply traverse_None_iff. exists line. split; [exact Hin|].
  unfold numeric_row. destruct (Nat.eqb (length (fields SP line)) 12) eqn:E; [|reflexivity].
  apply Nat.eqb_eq in E. destruct Hbad as [Hb|[tok [Ht Hp]]]; [congruence|].
  assert (N : traverse parse (fields SP line) = None) by (apply traverse_None_iff; eauto).
  now rewrite N.
Qed.

Theorem euroc_bad_row_rejected src f first rest line : no_lone_cr f = true ->
  data_lines src f = first :: rest -> In line (first :: rest) ->
  (length (fields COMMA first) < 8 \/ length (fields COMMA line) <> length (fields COMMA first) \/
   exists tok, In tok (fields COMMA line) /\ parse tok = None) ->
  read_euroc_file parse src f = None.
Proof.
  intros H D Hin Hbad. rewrite read_euroc_refines_spec by exact H. unfold euroc_spec. rewrite D.
  destruct (Nat.ltb (length (fields COMMA first)) 8) eqn:E; [reflexivity|].
  apply Nat.ltb_ge in E. destruct Hbad as [Hb|Hbad]; [lia|].
  apply traverse_None_iff. exists line. split; [exact Hin|].
  unfold numeric_row. destruct (Nat.eqb (length (fields COMMA line)) (length (fields COMMA first))) eqn:E2; [|reflexivity].
  apply Nat.eqb_eq in E2. destruct Hbad as [Hb|[tok [Ht Hp]]]; [congruence|].
  assert (N : traverse parse (fields COMMA line) = None) by (apply traverse_None_iff; eauto).
  now rewrite N.
Qed.

Theorem no_data_rows_rejected src f : no_lone_cr f = true -> data_lines src f = [] ->
  read_tum_file parse src f = None /\ read_kitti_file parse src f = None /\ read_euroc_file parse src f = None.
Proof.
  intros H D. rewrite read_tum_refines_spec, read_kitti_refines_spec, read_euroc_refines_spec by exact H.
  unfold tum_spec, kitti_spec, euroc_spec. rewrite D. auto.
Qed.

(* slots: the i-th pose of an accepted file comes from the i-th data line, token by token *)
Lemma traverse_nth_error {A B} (f : A -> option B) l l' i a : traverse f l = Some l' -> nth_error l i = Some a ->
  exists b, nth_error l' i = Some b /\ f a = Some b.
Proof. apply traverse_nth. Qed.

Theorem tum_slots src f tr i line : no_lone_cr f = true ->
  read_tum_file parse src f = Some tr -> nth_error (data_lines src f) i = Some line ->
  exists t x y z qx qy qz qw vt vx vy vz vqx vqy vqz vqw,
    fields SP line = [t; x; y; z; qx; qy; qz; qw] /\
    parse t = Some vt /\ parse x = Some vx /\ parse y = Some vy /\ parse z = Some vz /\
    parse qx = Some vqx /\ parse qy = Some vqy /\ parse qz = Some vqz /\ parse qw = Some vqw /\
    nth_error tr i = Some (mkTP vt [vx; vy; vz] [vqw; vqx; vqy; vqz]).
Proof.
  intros H R Hl. rewrite read_tum_refines_spec in R by exact H. unfold tum_spec in R.
  destruct (data_lines src f) as [|l0 ls] eqn:D; [discriminate|].
  destruct (traverse_nth _ _ _ _ _ R Hl) as [p [Hp Hrow]].
  unfold numeric_row in Hrow.
  destruct (Nat.eqb (length (fields SP line)) 8) eqn:E; [|discriminate].
  destruct (traverse parse (fields SP line)) as [v|] eqn:Tv; [|discriminate].
  apply Nat.eqb_eq in E.
  destruct (fields SP line) as [|t [|x [|y [|z [|qx [|qy [|qz [|qw [|? ?]]]]]]]]] eqn:F; try discriminate.
  cbn [traverse] in Tv.
  destruct (parse t) as [vt|] eqn:Pt; [|discriminate]. destruct (parse x) as [vx|] eqn:Px; [|discriminate].
  destruct (parse y) as [vy|] eqn:Py; [|discriminate]. destruct (parse z) as [vz|] eqn:Pz; [|discriminate].
  destruct (parse qx) as [vqx|] eqn:Pqx; [|discriminate]. destruct (parse qy) as [vqy|] eqn:Pqy; [|discriminate].
  destruct (parse qz) as [vqz|] eqn:Pqz; [|discriminate]. destruct (parse qw) as [vqw|] eqn:Pqw; [|discriminate].
  injection Tv as <-. cbn in Hrow. injection Hrow as <-.
  exists t, x, y, z, qx, qy, qz, qw, vt, vx, vy, vz, vqx, vqy, vqz, vqw. repeat split; try reflexivity; try assumption.
Qed.

Theorem kitti_slots src f tr i line : no_lone_cr f = true ->
  read_kitti_file parse src f = Some tr -> nth_error (data_lines src f) i = Some line ->
  exists v, traverse parse (fields SP line) = Some v /\ length v = 12 /\
    nth_error tr i = Some (v ++ [n0; n0; n0; n1]).
Proof.
  intros H R Hl. rewrite read_kitti_refines_spec in R by exact H. unfold kitti_spec in R.
  destruct (data_lines src f) as [|l0 ls] eqn:D; [discriminate|].
  destruct (traverse_nth _ _ _ _ _ R Hl) as [p [Hp Hrow]].
  destruct (numeric_row parse SP 12 line) as [v|] eqn:N; [|discriminate].
  pose proof (numeric_row_length _ _ _ _ N) as L. exists v.
  unfold numeric_row in N. destruct (Nat.eqb (length (fields SP line)) 12); [|discriminate].
  split; [exact N|]. split; [exact L|].
  rewrite kitti_pose_build in Hrow by exact L. injection Hrow as <-. rewrite Hp. f_equal. unfold kitti_build.
  rewrite firstn_all2 by lia. reflexivity.
Qed.

Theorem euroc_slots src f tr i line : no_lone_cr f = true ->
  read_euroc_file parse src f = Some tr -> nth_error (data_lines src f) i = Some line ->
  exists t x y z qw qx qy qz more vt vx vy vz vqw vqx vqy vqz,
    fields COMMA line = t :: x :: y :: z :: qw :: qx :: qy :: qz :: more /\
    parse t = Some vt /\ parse x = Some vx /\ parse y = Some vy /\ parse z = Some vz /\
    parse qw = Some vqw /\ parse qx = Some vqx /\ parse qy = Some vqy /\ parse qz = Some vqz /\
    nth_error tr i = Some (mkTP (ndiv vt ns_per_s) [vx; vy; vz] [vqw; vqx; vqy; vqz]).
Proof.
  intros H R Hl. rewrite read_euroc_refines_spec in R by exact H. unfold euroc_spec in R.
  destruct (data_lines src f) as [|l0 ls] eqn:D; [discriminate|].
  destruct (Nat.ltb (length (fields COMMA l0)) 8) eqn:E8; [discriminate|]. apply Nat.ltb_ge in E8.
  destruct (traverse_nth _ _ _ _ _ R Hl) as [p [Hp Hrow]].
  destruct (numeric_row parse COMMA (length (fields COMMA l0)) line) as [v|] eqn:N; [|discriminate].
  pose proof (numeric_row_length _ _ _ _ N) as L.
  unfold numeric_row in N. destruct (Nat.eqb (length (fields COMMA line)) (length (fields COMMA l0))) eqn:E; [|discriminate].
  apply Nat.eqb_eq in E.
  destruct (fields COMMA line) as [|t [|x [|y [|z [|qw [|qx [|qy [|qz more]]]]]]]] eqn:F; cbn in E; try lia.
  cbn [traverse] in N.
  destruct (parse t) as [vt|] eqn:Pt; [|discriminate]. destruct (parse x) as [vx|] eqn:Px; [|discriminate].
  destruct (parse y) as [vy|] eqn:Py; [|discriminate]. destruct (parse z) as [vz|] eqn:Pz; [|discriminate].
  destruct (parse qw) as [vqw|] eqn:Pqw; [|discriminate]. destruct (parse qx) as [vqx|] eqn:Pqx; [|discriminate].
  destruct (parse qy) as [vqy|] eqn:Pqy; [|discriminate]. destruct (parse qz) as [vqz|] eqn:Pqz; [|discriminate].
  destruct (traverse parse more) as [vm|]; [|discriminate]. injection N as <-.
  cbn in Hrow. injection Hrow as <-.
  exists t, x, y, z, qw, qx, qy, qz, more, vt, vx, vy, vz, vqw, vqx, vqy, vqz. repeat split; try reflexivity; try assumption.
Qed.

End Refinement.
