(* SubsampleRun.v - helpers for the correspondence run of C11 only (no part of the model): the
   implementation's output is compared with the model's inside Coq so that a case prints [None] on
   agreement and the model's value only on disagreement (keeps the case-file output small), and all index
   literals are binary integers (unary literals of trajectory size are too slow to type-check). *)
From Coq Require Import List Arith Bool ZArith.
From Evo Require Import Num Linalg Filters Subsample.
Import ListNotations.

Fixpoint eqb_list {A : Type} (eqb : A -> A -> bool) (l1 l2 : list A) : bool :=
  match l1, l2 with
  | [], [] => true
  | x :: r, y :: s => eqb x y && eqb_list eqb r s
  | _, _ => false
  end.
Definition eqb_option {A : Type} (eqb : A -> A -> bool) (o1 o2 : option A) : bool :=
  match o1, o2 with None, None => true | Some a, Some b => eqb a b | _, _ => false end.
Definition report {A : Type} (eqb : A -> A -> bool) (model impl : A) : option A :=
  if eqb model impl then None else Some model.

Definition zs (l : list nat) : list Z := map Z.of_nat l.
Definition ns (l : list Z) : list nat := map Z.to_nat l.
Definition report_ids (model : option (list nat)) (impl : option (list Z)) : option (option (list Z)) :=
  report (eqb_option (eqb_list Z.eqb)) (option_map zs model) impl.
Definition report_zids (model impl : option (list Z)) : option (option (list Z)) :=
  report (eqb_option (eqb_list Z.eqb)) model impl.
Definition report_parts (model : option (list (list nat))) (impl : option (list (list Z)))
  : option (option (list (list Z))) :=
  report (eqb_option (eqb_list (eqb_list Z.eqb))) (option_map (map zs) model) impl.
Definition report_merge {T : Type} {ops : NumOps T} (model impl : list T * list Z * list Z)
  : option (list T * list Z * list Z) :=
  report (fun a b => eqb_list neqb (fst (fst a)) (fst (fst b)) &&
                     eqb_list Z.eqb (snd (fst a)) (snd (fst b)) && eqb_list Z.eqb (snd a) (snd b)) model impl.
