(* ReadersWriter.v - files evo writes (FileFmt.write_tum / write_kitti rendered as text: tokens joined by
   one space, one "\n" per row - what numpy.savetxt(delimiter=" ") produces) are read by the independent
   convention specs of Readers.v to the same poses. *)
From Coq Require Import Ascii String.
From Coq Require Import List Arith Bool ZArith Lia.
From Evo Require Import Num Linalg FileFmt FileFmtProofs Readers ReadersProofs.
Import ListNotations.

Fixpoint join (d : ascii) (toks : list chars) : chars :=
  match toks with
  | [] => []
  | [t] => t
  | t :: r => t ++ d :: join d r
  end.
Definition render (rows : list (list chars)) : chars :=
  concat (map (fun row => join SP row ++ [LF]) rows).

Lemma eqb_neq_false (a b : ascii) : a <> b -> Ascii.eqb a b = false.
Proof. intros H. destruct (Ascii.eqb_spec a b); [contradiction|reflexivity]. Qed.

Lemma split_app_nodelim d t s : ~ In d t ->
  split d (t ++ s) = match split d s with f :: fs => (t ++ f) :: fs | [] => [t] end.
Proof.
  induction t as [|c t IH]; intros H; cbn [app].
  - destruct (split d s) eqn:E; [exfalso; eapply split_nonempty; eauto|reflexivity].
  - cbn [split]. rewrite eqb_neq_false by (intros E; apply H; left; now subst).
    rewrite IH by (intros I; apply H; now right).
    destruct (split d s) eqn:E; [exfalso; eapply split_nonempty; eauto|reflexivity].
Qed.

Lemma split_join d toks : toks <> [] -> (forall t, In t toks -> ~ In d t) -> split d (join d toks) = toks.
Proof.
  induction toks as [|t r IH]; intros Hne H; [congruence|].
  destruct r as [|t2 r'].
  - cbn [join]. rewrite <- (app_nil_r t) at 1. rewrite split_app_nodelim by (apply H; now left).
    cbn. now rewrite app_nil_r.
  - change (join d (t :: t2 :: r')) with (t ++ d :: join d (t2 :: r')).
    rewrite split_app_nodelim by (apply H; now left).
    cbn [split]. rewrite Ascii.eqb_refl. rewrite IH; [now rewrite app_nil_r|discriminate|].
    intros t0 I. apply H. now right.
Qed.

Lemma In_join c d toks : In c (join d toks) -> c = d \/ exists t, In t toks /\ In c t.
Proof.
  induction toks as [|t r IH]; [intros []|].
  destruct r as [|t2 r'].
  - cbn. intros H. right. exists t. split; [now left|exact H].
  - change (join d (t :: t2 :: r')) with (t ++ d :: join d (t2 :: r')).
    intros H. apply in_app_or in H. destruct H as [H|[H|H]].
    + right. exists t. split; [now left|exact H].
    + now left.
    + destruct (IH H) as [E|[t0 [I0 I1]]]; [now left|]. right. exists t0. split; [now right|exact I1].
Qed.

Lemma lines_app_noLF l s : ~ In LF l -> lines (l ++ LF :: s) = l :: lines s.
Proof.
  induction l as [|c l IH]; intros H; cbn [app lines].
  - now rewrite Ascii.eqb_refl.
  - rewrite eqb_neq_false by (intros E; apply H; left; now subst).
    rewrite IH by (intros I; apply H; now right). reflexivity.
Qed.
Lemma lines_render_gen (ls : list chars) : (forall l, In l ls -> ~ In LF l) ->
  lines (concat (map (fun l => l ++ [LF]) ls)) = ls.
Proof.
  induction ls as [|l ls IH]; intros H; [reflexivity|]. cbn [map concat].
  rewrite <- app_assoc. cbn [app]. rewrite lines_app_noLF by (apply H; now left).
  rewrite IH; [reflexivity|]. intros l0 I. apply H. now right.
Qed.
Lemma strip_cr_noCR l : ~ In CR l -> strip_cr l = l.
Proof.
  intros H. unfold strip_cr. destruct (rev l) as [|c r] eqn:E; [reflexivity|].
  rewrite eqb_neq_false; [reflexivity|]. intros Ec. apply H. apply in_rev. rewrite E. left. now subst.
Qed.

Lemma filter_all_true {A} (p : A -> bool) l : (forall x, In x l -> p x = true) -> filter p l = l.
Proof. induction l as [|a l IH]; intros H; cbn; [reflexivity|]. rewrite H by now left. f_equal. apply IH. intros x I. apply H. now right. Qed.

Section Written.
Context {T : Type} {ops : NumOps T}.
Variable fmt : T -> chars.
Variable parse : chars -> option T.
Variable ok : T -> Prop.
Hypothesis codec : forall x, ok x -> parse (fmt x) = Some x.
(* what a printed number looks like: no blank, no line break, no leading '#' *)
Hypothesis fmt_clean : forall x, ~ In SP (fmt x) /\ ~ In LF (fmt x) /\ ~ In CR (fmt x).
Hypothesis fmt_no_hash : forall x c r, fmt x = c :: r -> c <> HASH.

Definition text_of (rows : list (list T)) : chars := render (map (map fmt) rows).

Lemma line_chars c (row : list T) : In c (join SP (map fmt row)) -> c = SP \/ exists x, In c (fmt x).
Proof.
  intros H. apply In_join in H. destruct H as [E|[t [I0 I1]]]; [now left|].
  apply in_map_iff in I0. destruct I0 as [x [<- _]]. eauto.
Qed.
Lemma line_noLF (row : list T) : ~ In LF (join SP (map fmt row)).
Proof. intros H. apply line_chars in H. destruct H as [E|[x I]]; [discriminate|]. destruct (fmt_clean x) as [_ [N _]]. exact (N I). Qed.
Lemma line_noCR (row : list T) : ~ In CR (join SP (map fmt row)).
Proof. intros H. apply line_chars in H. destruct H as [E|[x I]]; [discriminate|]. destruct (fmt_clean x) as [_ [_ N]]. exact (N I). Qed.
Lemma line_not_comment (row : list T) :
  (fun l : chars => match l with c :: _ => negb (Ascii.eqb c HASH) | [] => true end) (join SP (map fmt row)) = true.
Proof.
  destruct row as [|x row]; [reflexivity|]. cbn [map].
  destruct (map fmt row) as [|t2 r'] eqn:E.
  - cbn [join]. destruct (fmt x) as [|c r] eqn:Fx; [reflexivity|].
    apply negb_true_iff, eqb_neq_false. eapply fmt_no_hash; eauto.
  - change (join SP (fmt x :: t2 :: r')) with (fmt x ++ SP :: join SP (t2 :: r')).
    destruct (fmt x) as [|c r] eqn:Fx; [reflexivity|]. cbn [app].
    apply negb_true_iff, eqb_neq_false. eapply fmt_no_hash; eauto.
Qed.

Lemma data_lines_text (rows : list (list T)) :
  data_lines FromHandle (text_of rows) = map (fun row => join SP (map fmt row)) rows.
Proof.
  unfold data_lines, text_of, render. cbn [without_bom]. unfold spec_lines. rewrite spec_lines_aux_nil.
  assert (E : concat (map (fun row => join SP row ++ [LF]) (map (map fmt) rows)) =
              concat (map (fun l => l ++ [LF]) (map (fun row => join SP (map fmt row)) rows)))
    by (rewrite !map_map; reflexivity).
  rewrite E. clear E.
  rewrite lines_render_gen.
  - rewrite map_map.
    rewrite (map_ext_in (fun row => strip_cr (join SP (map fmt row))) (fun row => join SP (map fmt row)))
      by (intros row _; apply strip_cr_noCR, line_noCR).
    apply filter_all_true. intros l I. apply in_map_iff in I. destruct I as [row [<- _]].
    apply line_not_comment.
  - intros l I. apply in_map_iff in I. destruct I as [row [<- _]]. apply line_noLF.
Qed.

Lemma numeric_row_written k (row : list T) : row <> [] -> length row = k -> Forall ok row ->
  numeric_row parse SP k (join SP (map fmt row)) = Some row.
Proof.
  intros Hne L Hok. unfold numeric_row. rewrite fields_split, split_join.
  - rewrite map_length, L, Nat.eqb_refl. apply traverse_map_in. rewrite Forall_forall in Hok. intros x I. apply codec, Hok, I.
  - destruct row; [congruence|discriminate].
  - intros t I. apply in_map_iff in I. destruct I as [x [<- _]]. destruct (fmt_clean x) as [N _]. exact N.
Qed.

(* TUM files evo writes are read by the independent convention spec to the same trajectory *)
Theorem tum_spec_reads_written (tr : list (TP T)) : tr <> [] -> Forall tp_valid tr -> Forall (tp_ok ok) tr ->
  tum_spec parse FromHandle (render (write_tum fmt tr)) = Some tr.
Proof.
  intros Hne Hv Hok. unfold write_tum, tum_spec.
  rewrite <- (map_map tum_row (map fmt)). fold (text_of (map tum_row tr)). rewrite data_lines_text.
  destruct tr as [|p0 rest]; [congruence|]. cbn [map].
  change (join SP (map fmt (tum_row p0)) :: map (fun row => join SP (map fmt row)) (map tum_row rest))
    with (map (fun p => join SP (map fmt (tum_row p))) (p0 :: rest)) || rewrite map_map.
  change (join SP (map fmt (tum_row p0)) :: map (fun p => join SP (map fmt (tum_row p))) rest)
    with (map (fun p => join SP (map fmt (tum_row p))) (p0 :: rest)).
  apply traverse_map_in. intros p Ip.
  rewrite Forall_forall in Hv, Hok.
  rewrite (numeric_row_written 8 (tum_row p)).
  - rewrite tum_pose_build by (apply tum_row_length, Hv, Ip). f_equal. apply tum_row_back, Hv, Ip.
  - unfold tum_row. discriminate.
  - apply tum_row_length, Hv, Ip.
  - apply (tum_row_ok ok), Hok, Ip.
Qed.

Theorem kitti_spec_reads_written (tr : list (list T)) : tr <> [] -> Forall pose_valid tr -> Forall (Forall ok) tr ->
  kitti_spec parse FromHandle (render (write_kitti fmt tr)) = Some tr.
Proof.
  intros Hne Hv Hok. unfold write_kitti, kitti_spec.
  rewrite <- (map_map (fun p => firstn (length p - 4) p) (map fmt)).
  fold (text_of (map (fun p => firstn (length p - 4) p) tr)). rewrite data_lines_text.
  destruct tr as [|p0 rest]; [congruence|]. rewrite map_map. cbn [map].
  change (join SP (map fmt (firstn (length p0 - 4) p0)) :: map (fun x => join SP (map fmt (firstn (length x - 4) x))) rest)
    with (map (fun x => join SP (map fmt (firstn (length x - 4) x))) (p0 :: rest)).
  apply traverse_map_in. intros p Ip.
  rewrite Forall_forall in Hv, Hok. destruct (Hv p Ip) as [L B].
  assert (L12 : length (firstn (length p - 4) p) = 12) by (rewrite firstn_length, L; reflexivity).
  rewrite (numeric_row_written 12 (firstn (length p - 4) p)).
  - rewrite kitti_pose_build by exact L12. f_equal. unfold kitti_build. apply kitti_row_back. split; assumption.
  - intros E. rewrite E in L12. discriminate.
  - exact L12.
  - specialize (Hok p Ip). rewrite Forall_forall in *. intros x I. apply Hok. eapply In_firstn; eauto.
Qed.
End Written.
