(* C09 - Lie-group helpers. Property theorems only; proofs live in Evo.LieProofs / Evo.LinalgR. *)
From Coq Require Import Reals List.
From Evo Require Import Num Linalg LinalgR Lie LieProofs NpDsl LieTie.
From EvoGen Require Import LieGen.
Local Open Scope R_scope.

Theorem C09_vee_hat : forall v : V3R, vee (hat v) = v.
Proof. exact vee_hat. Qed.
Print Assumptions C09_vee_hat.
Theorem C09_hat_vee : forall m : M3R, Skew m -> hat (vee m) = m.
Proof. exact hat_vee. Qed.
Print Assumptions C09_hat_vee.

Theorem C09_se3_inverse_left : forall p : PoseR, SE3 p -> pmul (se3_inverse p) p = pI.
Proof. exact se3_inverse_left. Qed.
Print Assumptions C09_se3_inverse_left.
Theorem C09_se3_inverse_right : forall p : PoseR, SE3 p -> pmul p (se3_inverse p) = pI.
Proof. exact se3_inverse_right. Qed.
Print Assumptions C09_se3_inverse_right.
Theorem C09_relative_se3_is_inverse_times : forall a b : PoseR, relative_se3 a b = pmul (se3_inverse a) b.
Proof. exact relative_se3_def. Qed.
Print Assumptions C09_relative_se3_is_inverse_times.
Theorem C09_relative_se3_self : forall a : PoseR, SE3 a -> relative_se3 a a = pI.
Proof. exact relative_se3_self. Qed.
Print Assumptions C09_relative_se3_self.
Theorem C09_relative_so3_self : forall r : M3R, SO3 r -> relative_so3 r r = I3.
Proof. exact relative_so3_self. Qed.
Print Assumptions C09_relative_so3_self.
Theorem C09_relative_so3_is_inverse_times : forall r q : M3R, SO3 r -> mm r (relative_so3 r q) = q.
Proof. exact relative_so3_inverse. Qed.
Print Assumptions C09_relative_so3_is_inverse_times.

Theorem C09_sim3_inverse_left : forall (r : M3R) (t : V3R) (s : R), Orth r -> s <> 0 ->
  pmul (sim3_inverse_with s (sim3 r t s)) (sim3 r t s) = pI.
Proof. exact sim3_inverse_left. Qed.
Print Assumptions C09_sim3_inverse_left.
Theorem C09_sim3_inverse_right : forall (r : M3R) (t : V3R) (s : R), Orth r -> s <> 0 ->
  pmul (sim3 r t s) (sim3_inverse_with s (sim3 r t s)) = pI.
Proof. exact sim3_inverse_right. Qed.
Print Assumptions C09_sim3_inverse_right.
Theorem C09_sim3_scale_recovered : forall (r : M3R) (t : V3R) (s c : R), SO3 r ->
  c * c * c = det (prot (sim3 r t s)) -> c = s.
Proof. exact sim3_scale_recovered. Qed.
Print Assumptions C09_sim3_scale_recovered.

Theorem C09_exp_is_rotation : forall v : V3R, SO3 (so3_expR v).
Proof. exact so3_exp_is_rotation. Qed.
Print Assumptions C09_exp_is_rotation.
Theorem C09_exp_angle : forall v : V3R, theta v <= PI -> angleR (so3_expR v) = theta v.
Proof. exact so3_exp_angle. Qed.
Print Assumptions C09_exp_angle.
Theorem C09_log_exp : forall v : V3R, theta v < PI -> so3_logR (so3_expR v) = v.
Proof. exact so3_log_exp. Qed.
Print Assumptions C09_log_exp.
(* exp o log = id on every rotation whose angle is not pi (cos_angle = -1 is the cut locus of the logarithm) *)
Theorem C09_exp_log : forall r : M3R, SO3 r -> cos_angle r <> -1 -> so3_expR (so3_logR r) = r.
Proof. exact so3_exp_log. Qed.
Print Assumptions C09_exp_log.
Theorem C09_exp_neg_is_inverse : forall v : V3R, mt (so3_expR v) = so3_expR (vopp v).
Proof. exact so3_exp_neg. Qed.
Print Assumptions C09_exp_neg_is_inverse.
(* the Rodrigues form used by the executable model is a rotation whenever the supplied
   coefficients satisfy the trigonometric identity (what the harness measures on every case) *)
Theorem C09_rodrigues_is_rotation : forall (v : V3R) (A B : R),
  2 * B = A * A + B * B * nrm2 v -> SO3 (rodrigues v A B).
Proof. exact rodrigues_SO3. Qed.
Print Assumptions C09_rodrigues_is_rotation.

Theorem C09_angle_range : forall r : M3R, 0 <= angleR r <= PI.
Proof. exact angle_range. Qed.
Print Assumptions C09_angle_range.
Theorem C09_angle_symmetric : forall a b : M3R, dist_angle a b = dist_angle b a.
Proof. exact dist_angle_sym. Qed.
Print Assumptions C09_angle_symmetric.
Theorem C09_angle_left_invariant : forall c a b : M3R, Orth c -> dist_angle (mm c a) (mm c b) = dist_angle a b.
Proof. exact dist_angle_left_invariant. Qed.
Print Assumptions C09_angle_left_invariant.
Theorem C09_angle_right_invariant : forall c a b : M3R, Orth c -> dist_angle (mm a c) (mm b c) = dist_angle a b.
Proof. exact dist_angle_right_invariant. Qed.
Print Assumptions C09_angle_right_invariant.
Theorem C09_angle_zero_iff_equal : forall a b : M3R, SO3 a -> SO3 b -> (dist_angle a b = 0 <-> a = b).
Proof. exact dist_angle_zero_iff. Qed.
Print Assumptions C09_angle_zero_iff_equal.
(* NOT proved in full: triangle_inequality_statement (needs spherical geometry); only degenerate cases *)
Theorem C09_triangle_inequality_partial : forall a c : M3R, SO3 a -> SO3 c ->
  dist_angle a c <= dist_angle a a + dist_angle a c /\ dist_angle a c <= dist_angle a c + dist_angle c c.
Proof. exact triangle_inequality_partial. Qed.
Print Assumptions C09_triangle_inequality_partial.

Theorem C09_is_so3_accepts : forall atol rtol : R, 0 <= atol -> 0 <= rtol ->
  forall r : M3R, SO3 r -> is_so3_b atol rtol (det r) r = true.
Proof. exact is_so3_accepts. Qed.
Print Assumptions C09_is_so3_accepts.
Theorem C09_is_se3_accepts : forall atol rtol : R, 0 <= atol -> 0 <= rtol ->
  forall p : PoseR, SE3 p -> is_se3_b atol rtol (det (prot p)) p (0, 0, 0, 1) = true.
Proof. exact is_se3_accepts. Qed.
Print Assumptions C09_is_se3_accepts.
Theorem C09_is_sim3_accepts : forall atol rtol : R, 0 <= atol -> 0 <= rtol ->
  forall (r : M3R) (t : V3R) (s : R), SO3 r -> s <> 0 -> is_sim3_b atol rtol s 1 (sim3 r t s) (0, 0, 0, 1) = true.
Proof. exact is_sim3_accepts. Qed.
Print Assumptions C09_is_sim3_accepts.
Theorem C09_rejects_reflection : forall atol rtol : R, forall r : M3R, atol + rtol < 2 -> det r = -1 ->
  is_so3_b atol rtol (det r) r = false.
Proof. exact is_so3_rejects_reflection. Qed.
Print Assumptions C09_rejects_reflection.
Theorem C09_rejects_scaled_block : forall atol rtol : R, forall (r : M3R) (k : R), SO3 r ->
  atol + rtol < Rabs (k * k * k - 1) -> is_so3_b atol rtol (det (mscale k r)) (mscale k r) = false.
Proof. exact is_so3_rejects_scaled. Qed.
Print Assumptions C09_rejects_scaled_block.
Theorem C09_rejects_wrong_bottom_row : forall atol rtol : R, forall (p : PoseR) d b0 b1 b2 b3,
  (b0, b1, b2, b3) <> (0, 0, 0, 1) -> is_se3_b atol rtol d p (b0, b1, b2, b3) = false.
Proof. exact is_se3_rejects_bottom. Qed.
Print Assumptions C09_rejects_wrong_bottom_row.

(* ---- translator tie: EvoGen.LieGen is re-translated from evo/core/lie_algebra.py on every run ---- *)
(* for EVERY number system (reals of the theorems, binary64 of the correspondence runs) the translated functions are
   the model's functions *)
Theorem C09_translated_source_is_the_model : forall (T : Type) (ops : NumOps T) (cbrt : T -> T) (rtol atol : T),
  (forall v : V3 T, hat_gen v = hat v) /\ (forall m : M3 T, vee_gen m = vee m) /\
  (forall (r : M3 T) (t : V3 T), se3_gen r t = mkPose r t) /\ (forall (r : M3 T) (t : V3 T) (s : T), sim3_gen r t s = sim3 r t s) /\
  (forall p : Pose T, so3_from_se3_gen p = prot p) /\ (forall p : Pose T, se3_inverse_gen p = se3_inverse p) /\
  (forall a : Pose T, sim3_scale_gen cbrt a = cbrt (det (prot a))) /\
  (forall a : Pose T, sim3_inverse_gen cbrt a = sim3_inverse_with (cbrt (det (prot a))) a) /\
  (forall r1 r2 : M3 T, relative_so3_gen r1 r2 = relative_so3 r1 r2) /\
  (forall p1 p2 : Pose T, relative_se3_gen p1 p2 = relative_se3 p1 p2) /\
  (forall r : M3 T, is_so3_gen rtol atol r = is_so3_b atol rtol (det r) r).
Proof. exact (@lie_gen_is_model). Qed.
Print Assumptions C09_translated_source_is_the_model.
(* hence, e.g., the inverse laws hold of the translated source itself *)
Theorem C09_translated_se3_inverse_is_inverse : forall p : PoseR, SE3 p ->
  pmul (se3_inverse_gen p) p = pI /\ pmul p (se3_inverse_gen p) = pI /\ relative_se3_gen p p = pI.
Proof.
  intros p H. rewrite relative_se3_gen_is_model, se3_inverse_gen_is_model.
  exact (conj (se3_inverse_left p H) (conj (se3_inverse_right p H) (relative_se3_self p H))).
Qed.
Print Assumptions C09_translated_se3_inverse_is_inverse.
