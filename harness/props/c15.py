"""C15 - evo_traj applies its options in the documented order and exports the result (evo/main_traj.py)."""
import copy
import itertools
import json
import math
import os
import shutil
import tempfile

import numpy as np

from harness import steps
from harness.common import cf, close, differential, hexf, unhex
from harness.props import c01
from harness.props.c01 import mk_poses, perturb, traj_from
from harness.props.c08 import EPS4, cpose
from harness.props.c09 import H, U, rand_rot

ID = "C15"
IMPORTS = "From Evo Require Import Num Linalg Lie Traj TrajCli.\n"
COQ_TARGETS = ["theories/TrajCli.vo", "generated/StepsC15.vo"]
TRUSTED = ["step order of main_traj.run re-extracted from the AST on every run (generated/StepsC15.v) and proved equal to the "
           "documented order (C15_step_order)",
           "the processed trajectories are produced by evo's components (each tied to its model by C05/C06/C07/C08/C11/C14/C04) "
           "orchestrated independently by the harness in the documented order, with numpy's generic 4x4 inverse for "
           "--invert_transform; the transform/projection tail is additionally evaluated in the Coq state machine Evo.Traj",
           "file readers/writers as in C06/C07; real-vs-binary64 gap measured"]
ASSUMPTIONS = ["input files valid; transformation files SE(3) or Sim(3)"]
WATCH = ["load_trajectories", "downsample", "motion_filter", "merge", "timestamps", "associate_trajectories", "align",
         "align_origin", "load_transform", "sim3_inverse", "se3_inverse", "transform", "project",
         "write_tum_trajectory_file", "write_kitti_poses_file"]


def regenerate(ctx):
    try:
        defs = [("main_traj_run", steps.extract("evo/main_traj.py", "run", WATCH))]
    except (steps.StepError, OSError, SyntaxError) as e:
        defs = [("main_traj_run", ["<extraction failed: %s>" % e])]
    steps.write_generated("StepsC15", defs)
    return []


def write_inputs(d, case):
    from evo.tools import file_interface
    fmt = case["fmt"]
    paths = []
    for k, tr in enumerate(case["trajs"]):
        poses = [U(p, (4, 4)) for p in tr["poses"]]
        stamps = [unhex(x) for x in tr["stamps"]]
        name = "ref" if tr.get("is_ref") else "t%d" % k
        base = d
        if case.get("same_names") and not tr.get("is_ref"):
            # one directory per run, every file with the reference's base name (only used together with --merge, where the
            # exports are merged_trajectory.* and the reference)
            base, name = os.path.join(d, "run%d" % k), "ref"
            os.makedirs(base, exist_ok=True)
        if fmt == "tum":
            p = os.path.join(base, name + ".txt")
            file_interface.write_tum_trajectory_file(p, traj_from(poses, stamps), confirm_overwrite=False)
        elif fmt == "kitti":
            p = os.path.join(base, name + ".txt")
            file_interface.write_kitti_poses_file(p, traj_from(poses), confirm_overwrite=False)
        else:
            from evo.core import transformations as tfm
            p = os.path.join(base, name + ".csv")
            with open(p, "w") as f:
                f.write("#timestamp [ns],p_x,p_y,p_z,q_w,q_x,q_y,q_z\n")
                for ps, t in zip(poses, stamps):
                    q = tfm.quaternion_from_matrix(ps)
                    f.write(",".join([str(int(round(t * 1e9)))] + [repr(float(x)) for x in list(ps[:3, 3]) + list(q)]) + "\n")
        paths.append((p, tr.get("is_ref", False)))
    return paths


def write_transform(d, case):
    tf = case["opts"].get("transform")
    if not tf:
        return None
    A = U(tf["A"], (4, 4))
    kind = tf["file"]
    if kind == "npy":
        p = os.path.join(d, "tf.npy")
        np.save(p, A.astype(np.int64) if tf.get("int_dtype") else A)   # a matrix written with integer literals
    elif kind == "txt":
        p = os.path.join(d, "tf.txt")
        np.savetxt(p, A)
    else:
        from evo.core import transformations as tfm
        s = float(np.cbrt(np.linalg.det(A[:3, :3])))
        M = np.eye(4)
        M[:3, :3] = A[:3, :3] / s
        q = tfm.quaternion_from_matrix(M)
        p = os.path.join(d, "tf.json")
        data = {"x": A[0, 3], "y": A[1, 3], "z": A[2, 3], "qw": q[0], "qx": q[1], "qy": q[2], "qz": q[3]}
        if abs(s - 1.0) > 1e-12:
            data["scale"] = s
        json.dump(data, open(p, "w"))
    return p


def read_export(path, kitti):
    from evo.tools import file_interface
    t = file_interface.read_kitti_poses_file(path) if kitti else file_interface.read_tum_trajectory_file(path)
    return {"poses": [H(p) for p in t.poses_se3], "stamps": None if kitti else H(t.timestamps)}


def independent(case, paths, tfpath):
    """the documented order, orchestrated by the harness with evo's components"""
    from evo.core import sync, trajectory
    from evo.tools import file_interface
    o, fmt = case["opts"], case["fmt"]
    rd = {"tum": file_interface.read_tum_trajectory_file, "kitti": file_interface.read_kitti_poses_file,
          "euroc": file_interface.read_euroc_csv_trajectory}[fmt]
    trajs = {p: rd(p) for p, is_ref in paths if not is_ref}
    refp = [p for p, is_ref in paths if is_ref]
    ref = rd(refp[0]) if refp else None
    if o.get("downsample"):
        for t in list(trajs.values()) + ([ref] if ref else []):
            t.downsample(o["downsample"])
    if o.get("motion_filter"):
        for t in list(trajs.values()) + ([ref] if ref else []):
            t.motion_filter(o["motion_filter"][0], o["motion_filter"][1], True)
    pre_merge = None
    if o.get("merge"):
        pre_merge = sorted(float(x) + float(o.get("t_offset") or 0.0) for t in trajs.values() for x in t.timestamps)
        trajs = {"merged_trajectory": trajectory.merge(list(trajs.values()))}
    if o.get("t_offset"):
        for t in trajs.values():
            t.timestamps = t.timestamps + o["t_offset"]
    pre_tail = {}
    synced = (fmt == "kitti" and ref) or o.get("sync") or o.get("align") or o.get("correct_scale") or o.get("align_origin")
    if synced:
        for name in list(trajs):
            if fmt == "kitti":
                rtmp = ref
            else:
                # (a SyncException only counts as a legitimate refusal when numpy confirms that no stamp pair is within max_diff)
                rtmp, trajs[name] = c01.associate_or_wrong_refusal(ref, trajs[name], o.get("t_max_diff", 0.01), 0.0)
            if o.get("align") or o.get("correct_scale"):
                trajs[name].align(rtmp, correct_scale=bool(o.get("correct_scale")),
                                  correct_only_scale=bool(o.get("correct_scale")) and not o.get("align"), n=o.get("n_to_align", -1))
            if o.get("align_origin"):
                trajs[name].align_origin(rtmp)
    for name, t in trajs.items():
        pre_tail[name] = [p.copy() for p in t.poses_se3]
    A = None
    if tfpath:
        A = file_interface.load_transform(tfpath)
        if o["transform"]["invert"]:
            A = np.linalg.inv(A)     # the true inverse, whatever the group
        for t in trajs.values():
            t.transform(A, right_mul=o["transform"]["right"], propagate=o["transform"]["propagate"])
    if o.get("plane"):
        for t in list(trajs.values()) + ([ref] if ref else []):
            t.project(trajectory.Plane(o["plane"]))
    return trajs, ref, pre_tail, A, pre_merge


def impl(case):
    from evo import main_traj, main_traj_parser
    from evo.core import lie_algebra as lie
    d = tempfile.mkdtemp(prefix="evo_verif_c15_")
    cwd = os.getcwd()
    try:
        paths = write_inputs(d, case)
        tfpath = write_transform(d, case)
        o, fmt = case["opts"], case["fmt"]
        argv = [fmt] + [p for p, is_ref in paths if not is_ref]
        refp = [p for p, is_ref in paths if is_ref]
        if refp:
            argv += ["--ref", refp[0]]
        for flag in ("merge", "sync", "align", "correct_scale", "align_origin"):
            if o.get(flag):
                argv.append("--" + flag)
        if o.get("downsample"):
            argv += ["--downsample", str(o["downsample"])]
        if o.get("motion_filter"):
            argv += ["--motion_filter", repr(o["motion_filter"][0]), repr(o["motion_filter"][1])]
        if o.get("t_offset"):
            argv += ["--t_offset", repr(o["t_offset"])]
        if o.get("n_to_align", -1) != -1:
            argv += ["--n_to_align", str(o["n_to_align"])]
        if o.get("plane"):
            argv += ["--project_to_plane", o["plane"]]
        if tfpath:
            argv += ["--transform_right" if o["transform"]["right"] else "--transform_left", tfpath]
            if o["transform"]["invert"]:
                argv.append("--invert_transform")
            if o["transform"]["propagate"]:
                argv.append("--propagate_transform")
        argv += ["--save_as_kitti" if case["export"] == "kitti" else "--save_as_tum", "--no_warnings", "--silent"]
        if o.get("plot"):   # figures are drawn BEFORE the export: drawing must not change what is exported
            argv += ["--save_plot", os.path.join(d, "figure.pdf"), "--plot_relative_time"]
        outd = os.path.join(d, "out")
        os.makedirs(outd)
        os.chdir(outd)
        from evo.tools.settings import SETTINGS
        seq0, corr0 = SETTINGS.euler_angle_sequence, SETTINGS.plot_pose_correspondences
        try:
            if o.get("euler_seq"):   # a user setting that concerns the roll/pitch/yaw PLOT only
                SETTINGS.euler_angle_sequence = o["euler_seq"]
            if o.get("pose_corr"):   # another plot-only user setting
                SETTINGS.plot_pose_correspondences = True
            args = main_traj_parser.parser().parse_args(argv)
            main_traj.run(args)
        except SystemExit as e:
            return {"refused": "exit %s" % e.code, "argv": argv[1:]}
        except Exception as e:  # noqa
            import traceback
            os.chdir(cwd)
            try:   # a refusal is fine when the documented processing order refuses in the same way
                independent(case, paths, tfpath)
            except Exception as e2:  # noqa
                if type(e2) is type(e):
                    return {"both_refused": type(e).__name__, "argv": argv[1:]}
            return {"exception": type(e).__name__ + ": " + str(e)[:150] + traceback.format_exc()[-400:], "argv": argv[1:]}
        finally:
            SETTINGS.euler_angle_sequence, SETTINGS.plot_pose_correspondences = seq0, corr0
            os.chdir(cwd)
        ext = ".kitti" if case["export"] == "kitti" else ".tum"
        exported = {f[:-len(ext)]: read_export(os.path.join(outd, f), case["export"] == "kitti")
                    for f in sorted(os.listdir(outd)) if f.endswith(ext)}
        try:
            trajs, ref, pre_tail, A, pre_merge = independent(case, paths, tfpath)
        except Exception as e:  # noqa
            import traceback
            return {"exception": "independent pipeline failed: " + type(e).__name__ + str(e)[:100] + traceback.format_exc()[-300:]}
        exp = {}
        for name, t in trajs.items():
            stem = name if name == "merged_trajectory" else os.path.splitext(os.path.basename(name))[0]
            exp[stem] = {"poses": [H(p) for p in t.poses_se3],
                         "stamps": H(t.timestamps) if hasattr(t, "timestamps") and case["export"] != "kitti" else None,
                         "pre_tail": [H(p) for p in pre_tail[name]]}
        if ref is not None:
            exp["ref"] = {"poses": [H(p) for p in ref.poses_se3],
                          "stamps": H(ref.timestamps) if hasattr(ref, "timestamps") and case["export"] != "kitti" else None}
        out = {"exported": exported, "expected": exp, "argv": argv[1:]}
        if pre_merge is not None and not (o.get("sync") or o.get("align") or o.get("correct_scale") or o.get("align_origin")):
            out["merged_union"] = [hexf(x) for x in pre_merge]
        if tfpath:
            from evo.tools import file_interface
            L = file_interface.load_transform(tfpath)
            out["loaded"] = H(L)
            out["sim"] = bool(lie.is_sim3(A) and not lie.is_se3(A)) if A is not None else False
        return out
    finally:
        os.chdir(cwd)
        shutil.rmtree(d, ignore_errors=True)


def expr(case, out):
    """Coq: the transform / inversion / projection tail on the poses that enter it"""
    if "expected" not in out:
        return "tt"
    o = case["opts"]
    items = []
    for stem in sorted(out["expected"]):
        if stem == "ref":
            continue
        pre = [U(p, (4, 4)) for p in out["expected"][stem]["pre_tail"]]
        tf = "None"
        if o.get("transform"):
            L = cpose(U(out["loaded"], (4, 4)))
            A = "(invert_loaded (fun x => newton_cbrt 400 x (nadd x n1)) %s)" % L if o["transform"]["invert"] else L
            tf = "(Some (%s, %s, %s, %s))" % (A, "true" if o["transform"]["right"] else "false",
                                              "true" if o["transform"]["propagate"] else "false", "true" if out.get("sim") else "false")
        pl = "None" if not o.get("plane") else "(Some %s)" % {"xy": "XY", "xz": "XZ", "yz": "YZ"}[o["plane"]]
        items.append("match run qfm_shep (fun x => newton_cbrt 400 x (nadd x n1)) %s (init_poses [%s] None) (tail_ops %s %s) with "
                     "Some s => map plist (poses_of %s s) | None => [] end"
                     % (cf(EPS4), "; ".join(cpose(p) for p in pre), tf, pl, cf(EPS4)))
    return "[" + "; ".join(items) + "]"


_sv, _mv = c01._sv, c01._mv


def judge(case, val, out):
    if "exception" in out:
        return _sv("unexpected exception: " + out["exception"])
    if "both_refused" in out:
        return None
    if "refused" in out:
        return None if case.get("expect_refusal") else _sv("evo_traj refused a valid configuration: %r" % out["argv"])
    exported, expected = out["exported"], out["expected"]
    if set(exported) != set(expected):
        return _sv("exported files %r, expected %r" % (sorted(exported), sorted(expected)))
    for stem in sorted(expected):
        e, x = expected[stem], exported[stem]
        ep = [U(p, (4, 4)) for p in e["poses"]]
        xp = [U(p, (4, 4)) for p in x["poses"]]
        scale = max([1.0] + [float(np.abs(p[:3, 3]).max()) for p in ep])
        if len(ep) != len(xp):
            return _sv("%s: exported %d poses, documented processing gives %d" % (stem, len(xp), len(ep)))
        for k, (a, b) in enumerate(zip(ep, xp)):
            if not np.allclose(a[:3, :3], b[:3, :3], atol=1e-7) or not np.allclose(a[:3, 3], b[:3, 3], rtol=1e-8, atol=1e-8 * scale):
                return _sv("%s: exported pose %d differs from the inputs processed in the documented order "
                           "(max deviation %.3g)" % (stem, k, float(np.abs(a - b).max())))
        if e["stamps"] is not None and [unhex(t) for t in e["stamps"]] != [unhex(t) for t in x["stamps"]]:
            return _sv("%s: exported timestamps differ from the documented processing" % stem)
    if out.get("merged_union") is not None and exported.get("merged_trajectory", {}).get("stamps") is not None:
        got = [unhex(t) for t in exported["merged_trajectory"]["stamps"]]
        want = [unhex(t) for t in out["merged_union"]]
        if len(got) != len(want) or any(abs(a - b) > 1e-6 for a, b in zip(got, want)):
            return _sv("merged export is not the time-sorted union of the input trajectories (%d stamps, sorted: %s)"
                       % (len(got), got == sorted(got)))
    stems = [s for s in sorted(expected) if s != "ref"]
    for stem, mposes in zip(stems, val):
        xp = [U(p, (4, 4)) for p in exported[stem]["poses"]]
        scale = max([1.0] + [float(np.abs(p[:3, 3]).max()) for p in xp])
        mp = [[float(v) for v in m] for m in mposes]
        if len(mp) != len(xp):
            return _mv("Coq tail model gives %d poses, export has %d" % (len(mp), len(xp)), "TrajCli.tail_ops")
        for k, (m, b) in enumerate(zip(mp, xp)):
            flat = list(b[:3, :3].reshape(9)) + list(b[:3, 3])
            if not np.allclose(flat[:9], m[:9], atol=1e-7) or not np.allclose(flat[9:], m[9:], rtol=1e-7, atol=1e-7 * scale):
                return _sv("%s: exported pose %d differs from the transform/inversion/projection of the model "
                           "(true inverse of the loaded matrix, then projection)" % (stem, k))
    return None


def gen(ctx):
    rng = ctx.np_rng(15)
    cases = []
    N = ctx.n(260, 1500)
    for i in range(N):
        fmt = ["tum", "tum", "euroc", "kitti"][i % 4]
        ntraj = int(rng.integers(1, 4))
        n = int(rng.integers(8, 30))
        base = mk_poses(rng, n, 3.0, 0.0, rot_mode="smooth")
        for k, p in enumerate(base):
            p[:3, 3] = [0.4 * k, math.sin(0.25 * k) * 2, 0.05 * k]
        stamps = [round(t, 3) for t in (1.5e9 + 0.1 * np.arange(n))]
        with_ref = bool(rng.random() < 0.7)
        trajs = []
        for j in range(ntraj):
            keep = sorted(rng.choice(n, size=int(rng.integers(max(5, n // 2), n + 1)), replace=False).tolist()) if fmt != "kitti" else list(range(n))
            s = float(rng.choice([1.0, 1.0, 2.0]))
            T = np.eye(4)
            T[:3, :3] = rand_rot(rng)
            T[:3, 3] = rng.normal(size=3) * 3
            ps = []
            for k in keep:
                q = perturb(rng, [base[k]], 0.03, 0.03)[0]
                q[:3, 3] /= s
                ps.append(T @ q)
            trajs.append({"poses": [H(p) for p in ps], "stamps": [hexf(stamps[k] + (0.001 * (j + 1) if fmt != "kitti" else 0.0)) for k in keep]})
        if with_ref:
            trajs.append({"poses": [H(p) for p in base], "stamps": [hexf(t) for t in stamps], "is_ref": True})
        o = {}
        # pairwise-covering style: each option switched on with probability, all interactions sampled over the run
        if rng.random() < 0.3:
            o["downsample"] = int(rng.choice([5, 12, 100]))
        if rng.random() < 0.25 and fmt != "kitti":
            o["motion_filter"] = [float(rng.choice([0.3, 1.0])), float(rng.choice([5.0, 30.0]))]
        if rng.random() < 0.2 and fmt != "kitti" and ntraj > 1:
            o["merge"] = True
        if rng.random() < 0.25 and fmt != "kitti":
            o["t_offset"] = float(rng.choice([0.002, -0.003, 0.006, -0.008]))   # the last two: applied twice they leave t_max_diff
        if with_ref:
            r = rng.random()
            if r < 0.25:
                o["align"] = True
            elif r < 0.4:
                o["align"], o["correct_scale"] = True, True
            elif r < 0.5:
                o["correct_scale"] = True
            elif r < 0.6:
                o["align_origin"] = True
            elif r < 0.7:
                o["sync"] = True
            elif r < 0.8:     # the only Umeyama option the parser allows together with --align_origin
                o["correct_scale"], o["align_origin"] = True, True
            if (o.get("align") or o.get("correct_scale")) and rng.random() < 0.3:
                o["n_to_align"] = 5
        if rng.random() < 0.55:
            A = np.eye(4)
            A[:3, :3] = rand_rot(rng)
            A[:3, 3] = rng.normal(size=3) * 2
            if rng.random() < 0.5:
                A[:3, :3] *= float(rng.choice([0.5, 2.0, 3.0]))
            right = bool(rng.random() < 0.5)
            # --propagate_transform only concerns right-multiplication; given with --transform_left it must be ignored
            o["transform"] = {"A": H(A), "file": str(rng.choice(["npy", "txt", "json"])), "right": right,
                              "invert": bool(rng.random() < 0.5), "propagate": bool(rng.random() < (0.5 if right else 0.3))}
            if i % 9 == 4:   # integer-valued SE(3)/Sim(3) (axis permutation, integer scale and offset) saved with an integer dtype
                perm = [np.eye(3), np.array([[0, -1, 0], [1, 0, 0], [0, 0, 1.0]]), np.array([[0, 0, 1], [1, 0, 0], [0, 1, 0.0]])][(i // 9) % 3]
                A = np.eye(4)
                A[:3, :3] = perm * float([1, 2, 2, 4][(i // 27) % 4])
                A[:3, 3] = np.rint(rng.normal(size=3) * 3)
                o["transform"].update({"A": H(A), "file": "npy", "int_dtype": True, "invert": bool((i // 9) % 4 != 3)})
        if rng.random() < 0.35:
            o["plane"] = str(rng.choice(["xy", "xz", "yz"]))
            if i % 3 == 1:
                o["euler_seq"] = ["rzyx", "szyx", "sxzy"][(i // 3) % 3]
        if o.get("merge") and (o.get("align") or o.get("correct_scale")) and o.get("n_to_align"):
            del o["n_to_align"]
        cases.append({"kind": "traj", "fmt": fmt, "trajs": trajs, "opts": o, "export": "kitti" if (fmt == "kitti" or i % 3 == 0) else "tum"})
        if o.get("merge") and with_ref and fmt != "kitti":
            cases[-1]["same_names"] = True
        if i % 40 == 9 and fmt != "kitti":
            o["plot"] = True
        if with_ref and o.get("plane") and i % 2:
            o["pose_corr"] = True
    # without processing options the export equals the input
    for fmt in ("tum", "kitti", "euroc"):
        ps = mk_poses(rng, 9, 50.0, 4.5e5)
        cases.append({"kind": "traj", "fmt": fmt, "opts": {}, "export": "kitti" if fmt == "kitti" else "tum", "identity": True,
                      "trajs": [{"poses": [H(p) for p in ps], "stamps": [hexf(1.5e9 + 0.125 * k) for k in range(9)]}]})
    return cases


def run(ctx, replay=None, proofs_ok=True):
    cases = [replay["case"]] if replay is not None else gen(ctx)
    failures, stats = differential(ctx, cases, imports=IMPORTS, impl=impl, expr=expr, judge=judge,
                                   nontrivial=lambda c, v, o: "exported" in o and bool(c["opts"]), per_file=10)
    hist = {}
    for c in cases:
        for k in c["opts"]:
            key = k if k != "transform" else "transform:%s:%s%s%s" % (c["opts"][k]["file"], "right" if c["opts"][k]["right"] else "left",
                                                                      ":inv" if c["opts"][k]["invert"] else "", ":prop" if c["opts"][k]["propagate"] else "")
            hist[key] = hist.get(key, 0) + 1
        hist["fmt:" + c["fmt"]] = hist.get("fmt:" + c["fmt"], 0) + 1
    cov = {"evaluations": stats["evaluations"], "distinct_nontrivial": stats["distinct_nontrivial"],
           "rule": "evo_traj runs (real argument parser + main_traj.run in a scratch working directory) on 1..3 TUM/KITTI/EuRoC files "
                   "+ optional --ref with randomly combined options (downsample, motion_filter, merge, t_offset, sync/align/"
                   "correct_scale/align_origin/n_to_align, transform left|right from npy/txt/json SE(3) or Sim(3) files, "
                   "invert, propagate, projection); exported .tum/.kitti files vs the documented order; non-trivial = at least one option",
           "samples": [{"fmt": c["fmt"], "opts": {k: (v if k != "transform" else {kk: vv for kk, vv in v.items() if kk != "A"}) for k, v in c["opts"].items()}}
                       for c in cases[:3]],
           "input_distribution": hist, "disagreements": stats["disagreements"]}
    return {"failures": failures, "coverage": cov}


LEVEL_TEXT = ("Coq: the ordered guarded processing calls of main_traj.run, re-extracted from the current source on every run, equal the "
              "documented order (downsample, motion filter, merge, time offset on non-reference trajectories only, per trajectory "
              "associate -> align -> origin, load -> invert -> transform, project trajectories then reference, export); the inverted "
              "transformation is a two-sided inverse of every loaded SE(3)/Sim(3) matrix (se3_inverse on Sim(3) refuted - regression "
              "witness F4); the transform/projection tail refines the state machine of C08. Tie: end-to-end runs of the real CLI code "
              "compared with an independent orchestration and with the Coq tail model.")
LEVEL_NOTE = ("Trusted: Coq kernel/VM, Reals axioms + classic, AST step extractor, evo's components (own properties) as building blocks "
              "of the independent orchestration, numpy's 4x4 inverse, file formats (C06/C07).")
TECHNIQUE = "AST step-order obligation proved by reflexivity + Coq group-law proof + end-to-end correspondence (independent orchestration, Coq tail model)"
