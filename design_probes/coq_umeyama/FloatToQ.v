From Coq Require Import ZArith QArith List.
From Coq Require Import PrimFloat FloatOps SpecFloat.
Import ListNotations.
Definition f2q (f : float) : option Q :=
  match Prim2SF f with
  | S754_zero _ => Some 0%Q
  | S754_finite s m e => let v := (if (0 <=? e)%Z then inject_Z (Zpos m * 2 ^ e) else (Zpos m # (Z.to_pos (2 ^ (- e))))) in
                         Some (if s then Qopp v else v)
  | _ => None end.
Eval vm_compute in f2q 0x1.999999999999ap-4%float.
Eval vm_compute in f2q (-1.5e9)%float.
Eval vm_compute in option_map Qred (f2q (PrimFloat.add 0.5 0.25)%float).
(* exactness test: float sum vs Q sum *)
Definition exact_add (a b : float) : bool :=
  match f2q a, f2q b, f2q (PrimFloat.add a b) with
  | Some x, Some y, Some z => Qeq_bool (x + y) z | _,_,_ => false end.
Eval vm_compute in (exact_add 0.1 0.2, exact_add 0.5 0.25, exact_add 1.5e9 0x1p-20).
Print Assumptions f2q.
