From Coq Require Import Reals Lra Psatz Nsatz.
Local Open Scope R_scope.
Record M4 := mkM4 { a00 : R; a01 : R; a02 : R; a03 : R; a10 : R; a11 : R; a12 : R; a13 : R; a20 : R; a21 : R; a22 : R; a23 : R; a30 : R; a31 : R; a32 : R; a33 : R }.
Definition mm4 (x y : M4) := mkM4 (a00 x * a00 y + a01 x * a10 y + a02 x * a20 y + a03 x * a30 y) (a00 x * a01 y + a01 x * a11 y + a02 x * a21 y + a03 x * a31 y) (a00 x * a02 y + a01 x * a12 y + a02 x * a22 y + a03 x * a32 y) (a00 x * a03 y + a01 x * a13 y + a02 x * a23 y + a03 x * a33 y) (a10 x * a00 y + a11 x * a10 y + a12 x * a20 y + a13 x * a30 y) (a10 x * a01 y + a11 x * a11 y + a12 x * a21 y + a13 x * a31 y) (a10 x * a02 y + a11 x * a12 y + a12 x * a22 y + a13 x * a32 y) (a10 x * a03 y + a11 x * a13 y + a12 x * a23 y + a13 x * a33 y) (a20 x * a00 y + a21 x * a10 y + a22 x * a20 y + a23 x * a30 y) (a20 x * a01 y + a21 x * a11 y + a22 x * a21 y + a23 x * a31 y) (a20 x * a02 y + a21 x * a12 y + a22 x * a22 y + a23 x * a32 y) (a20 x * a03 y + a21 x * a13 y + a22 x * a23 y + a23 x * a33 y) (a30 x * a00 y + a31 x * a10 y + a32 x * a20 y + a33 x * a30 y) (a30 x * a01 y + a31 x * a11 y + a32 x * a21 y + a33 x * a31 y) (a30 x * a02 y + a31 x * a12 y + a32 x * a22 y + a33 x * a32 y) (a30 x * a03 y + a31 x * a13 y + a32 x * a23 y + a33 x * a33 y).
Definition I4 := mkM4 1 0 0 0 0 1 0 0 0 0 1 0 0 0 0 1.
Definition se3_inverse (p : M4) := mkM4 (a00 p) (a10 p) (a20 p) (- (a00 p * a03 p + a10 p * a13 p + a20 p * a23 p)) (a01 p) (a11 p) (a21 p) (- (a01 p * a03 p + a11 p * a13 p + a21 p * a23 p)) (a02 p) (a12 p) (a22 p) (- (a02 p * a03 p + a12 p * a13 p + a22 p * a23 p)) (0) (0) (0) (1).
Definition relative_se3 p q := mm4 (se3_inverse p) q.
Definition SE3 (p : M4) : Prop :=
  a00 p*a00 p + a10 p*a10 p + a20 p*a20 p = 1 /\ a01 p*a01 p + a11 p*a11 p + a21 p*a21 p = 1 /\ a02 p*a02 p + a12 p*a12 p + a22 p*a22 p = 1 /\
  a00 p*a01 p + a10 p*a11 p + a20 p*a21 p = 0 /\ a00 p*a02 p + a10 p*a12 p + a20 p*a22 p = 0 /\ a01 p*a02 p + a11 p*a12 p + a21 p*a22 p = 0 /\
  a00 p*a00 p + a01 p*a01 p + a02 p*a02 p = 1 /\ a10 p*a10 p + a11 p*a11 p + a12 p*a12 p = 1 /\ a20 p*a20 p + a21 p*a21 p + a22 p*a22 p = 1 /\
  a00 p*a10 p + a01 p*a11 p + a02 p*a12 p = 0 /\ a00 p*a20 p + a01 p*a21 p + a02 p*a22 p = 0 /\ a10 p*a20 p + a11 p*a21 p + a12 p*a22 p = 0 /\
  a30 p = 0 /\ a31 p = 0 /\ a32 p = 0 /\ a33 p = 1.
Lemma M4_ext x y : a00 x = a00 y -> a01 x = a01 y -> a02 x = a02 y -> a03 x = a03 y -> a10 x = a10 y -> a11 x = a11 y -> a12 x = a12 y -> a13 x = a13 y -> a20 x = a20 y -> a21 x = a21 y -> a22 x = a22 y -> a23 x = a23 y -> a30 x = a30 y -> a31 x = a31 y -> a32 x = a32 y -> a33 x = a33 y -> x = y.
Proof. destruct x, y; cbn; intros; subst; reflexivity. Qed.
Ltac m4eq := apply M4_ext; unfold mm4, se3_inverse, relative_se3, I4; cbn; ring.
Lemma mm4_assoc x y z : mm4 (mm4 x y) z = mm4 x (mm4 y z). Proof. destruct x,y,z; m4eq. Qed.
Lemma mm4_I_l x : mm4 I4 x = x. Proof. destruct x; m4eq. Qed.
Lemma inv_left p : SE3 p -> mm4 (se3_inverse p) p = I4.
Proof. destruct p. unfold SE3; cbn. intros (H1&H2&H3&H4&H5&H6&_&_&_&_&_&_&B0&B1&B2&B3). subst.
  apply M4_ext; unfold mm4, se3_inverse, I4; cbn; nsatz. Qed.
Lemma inv_mm p q : SE3 p -> a30 q = 0 -> a31 q = 0 -> a32 q = 0 -> a33 q = 1 ->
  se3_inverse (mm4 p q) = mm4 (se3_inverse q) (se3_inverse p).
Proof. destruct p,q; unfold SE3; cbn. intros (H1&H2&H3&H4&H5&H6&_&_&_&_&_&_&B0&B1&B2&B3) ? ? ? ?; subst.
  apply M4_ext; unfold mm4, se3_inverse; cbn; try ring; nsatz. Qed.
Theorem rel_left_invariant t a b : SE3 t -> SE3 a -> relative_se3 (mm4 t a) (mm4 t b) = relative_se3 a b.
Proof.
  intros Ht Ha. unfold relative_se3.
  assert (Bt : a30 t = 0 /\ a31 t = 0 /\ a32 t = 0 /\ a33 t = 1) by (unfold SE3 in Ht; tauto).
  assert (Ba : a30 a = 0 /\ a31 a = 0 /\ a32 a = 0 /\ a33 a = 1) by (unfold SE3 in Ha; tauto).
  destruct Bt as (?&?&?&?), Ba as (?&?&?&?).
  rewrite inv_mm by assumption. rewrite mm4_assoc, <- (mm4_assoc (se3_inverse t) t b), (inv_left t Ht), mm4_I_l. reflexivity.
Qed.
