import os, random, zipfile, io, json, copy
os.chdir("/tmp/scratch/w01")
import numpy as np
from evo import main_ape, main_ape_parser, main_rpe, main_rpe_parser, common_ape_rpe as common
from evo.core import lie_algebra as lie, sync, trajectory, metrics
from evo.core.metrics import Unit
from evo.core.trajectory import PoseTrajectory3D, Plane
from evo.tools import file_interface as fi
from scipy.spatial.transform import Rotation
rng=np.random.default_rng(9); random.seed(9)
def rnd_traj(n,t0=1.5e9,dt=0.1,jit=0.004):
    p=np.zeros(3); poses=[]
    for i in range(n):
        p=p+rng.normal(size=3)*0.5
        poses.append(lie.se3(Rotation.random(random_state=int(rng.integers(1<<30))).as_matrix(),p.copy()))
    return PoseTrajectory3D(poses_se3=poses,timestamps=t0+np.arange(n)*dt+rng.random(n)*jit)
ref=rnd_traj(60); est=rnd_traj(45,1.5e9+0.3,0.1)
fi.write_tum_trajectory_file("ref.txt",ref); fi.write_tum_trajectory_file("est.txt",est)
pa=main_ape_parser.parser(); pr=main_rpe_parser.parser()
rels={"full":metrics.PoseRelation.full_transformation,"trans_part":metrics.PoseRelation.translation_part,"rot_part":metrics.PoseRelation.rotation_part,"angle_deg":metrics.PoseRelation.rotation_angle_deg,"angle_rad":metrics.PoseRelation.rotation_angle_rad,"point_distance":metrics.PoseRelation.point_distance,"point_distance_error_ratio":metrics.PoseRelation.point_distance_error_ratio}
def load_zip(p):
    z=zipfile.ZipFile(p); out={}
    for n in z.namelist():
        if n.endswith(".npy"): out[n[:-4]]=np.load(io.BytesIO(z.read(n)))
    out["info"]=json.loads(z.read("info.json")); out["stats"]=json.loads(z.read("stats.json")); return out
nbad=0;nrun=0
for it in range(300):
    kind=random.choice(["ape","rpe"])
    o={"rel":random.choice(list(rels))}
    if kind=="ape" and o["rel"]=="point_distance_error_ratio": o["rel"]="full"
    c=random.random()
    if c<0.3: o["align"]=True
    elif c<0.45: o["align_origin"]=True
    if random.random()<0.3: o["correct_scale"]=True
    if (o.get("align") or o.get("correct_scale")) and random.random()<0.3: o["n"]=random.choice([5,20])
    if random.random()<0.3: o["downsample"]=random.choice([10,30])
    if random.random()<0.2: o["mf"]=(random.choice([0.3,1.0]),random.choice([10.0,500.0]))
    o["md"]=random.choice([0.01,0.03,0.06]); 
    if random.random()<0.4: o["off"]=random.choice([0.02,-0.02,0.3,-0.3])
    if random.random()<0.3: o["ts"]=1.5e9+1.0
    if random.random()<0.3: o["te"]=1.5e9+4.0
    if random.random()<0.3: o["proj"]=random.choice(["xy","xz","yz"])
    if kind=="rpe":
        o["du"]=random.choice("fmd"); o["delta"]={"f":random.choice([1,3]),"m":random.choice([1.0,2.5]),"d":random.choice([30.0,90.0])}[o["du"]]
        if random.random()<0.4: o["ap"]=True
        if random.random()<0.3: o["pfr"]=True
    a=["tum","ref.txt","est.txt","-r",o["rel"],"--save_results","out.zip","--no_warnings","--silent","--t_max_diff",str(o["md"])]
    if o.get("align"): a+=["-a"]
    if o.get("align_origin"): a+=["--align_origin"]
    if o.get("correct_scale"): a+=["-s"]
    if o.get("n"): a+=["--n_to_align",str(o["n"])]
    if o.get("downsample"): a+=["--downsample",str(o["downsample"])]
    if o.get("mf"): a+=["--motion_filter",str(o["mf"][0]),str(o["mf"][1])]
    if o.get("off"): a+=["--t_offset",str(o["off"])]
    if o.get("ts"): a+=["--t_start",repr(o["ts"])]
    if o.get("te"): a+=["--t_end",repr(o["te"])]
    if o.get("proj"): a+=["--project_to_plane",o["proj"]]
    if kind=="rpe":
        a+=["-d",str(o["delta"]),"-u",o["du"]]
        if o.get("ap"): a+=["--all_pairs"]
        if o.get("pfr"): a+=["--pairs_from_reference"]
    if os.path.exists("out.zip"): os.remove("out.zip")
    # reference
    def refpipe():
        r=fi.read_tum_trajectory_file("ref.txt"); e=fi.read_tum_trajectory_file("est.txt")
        if o.get("downsample"): r.downsample(o["downsample"]); e.downsample(o["downsample"])
        if o.get("mf"): r.motion_filter(*o["mf"],True); e.motion_filter(*o["mf"],True)
        if o.get("ts") or o.get("te"): r.reduce_to_time_range(o.get("ts"),o.get("te"))
        r,e=sync.associate_trajectories(r,e,o["md"],o.get("off",0.0))
        e_un=copy.deepcopy(e)
        only=bool(o.get("correct_scale")) and not o.get("align")
        if o.get("align") or o.get("correct_scale"): e.align(r,bool(o.get("correct_scale")),only,n=o.get("n",-1))
        if o.get("align_origin"): e.align_origin(r)
        e_al=copy.deepcopy(e)
        if o.get("proj"): r.project(Plane(o["proj"])); e.project(Plane(o["proj"]))
        if kind=="ape": m=metrics.APE(rels[o["rel"]])
        else: m=metrics.RPE(rels[o["rel"]],o["delta"],{"f":Unit.frames,"m":Unit.meters,"d":Unit.degrees}[o["du"]],0.1,bool(o.get("ap")),bool(o.get("pfr")))
        m.process_data((r,e))
        ts=e.timestamps if kind=="ape" else e.timestamps[m.delta_ids]
        return m.error,ts,e_un,e_al
    try: exp=refpipe(); eexc=None
    except Exception as ex: eexc=type(ex).__name__
    try: (main_ape if kind=="ape" else main_rpe).run((pa if kind=="ape" else pr).parse_args(a)); gexc=None
    except SystemExit: gexc="SystemExit"
    except Exception as ex: gexc=type(ex).__name__
    nrun+=1
    if eexc or gexc:
        if eexc!=gexc: nbad+=1; print("EXC",kind,o,eexc,gexc)
        continue
    z=load_zip("out.zip")
    if len(z["error_array"])!=len(exp[0]) or not np.allclose(z["error_array"],exp[0],rtol=1e-9,atol=1e-12) or not np.array_equal(z["timestamps"],exp[1]):
        nbad+=1; print("MISMATCH",kind,o,len(z["error_array"]),len(exp[0]))
    if "alignment_transformation_sim3" in z:
        T=z["alignment_transformation_sim3"]; pred=(T[:3,:3]@exp[2].positions_xyz.T).T+T[:3,3]
        if not np.allclose(pred,exp[3].positions_xyz,atol=1e-7): print("recorded-T mismatch (F1)",{k:o.get(k) for k in ("align","correct_scale","align_origin")})
print("runs",nrun,"bad",nbad)
