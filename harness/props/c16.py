"""C16 - no mutation of inputs, no aliasing between derived objects.

Dynamic side of the heap/footprint model Evo.Heap (coq/theories/Heap.v):
 (a) every public computing/writing function of evo.core / evo.tools (module introspection + explicit call table)
     is called on valid inputs with deep bit-level snapshots of all argument objects before/after;
 (b) histories: derive B from A (deepcopy / associate / split_* with and without a cut / merge / constructors),
     mutate B (transform / scale / project / reduce / align ...), re-inspect every other object bitwise after
     every single call (raw attributes and public views, caches populated in both orders);
 (c) the sharing graph of all arrays of all objects after the history (`is`, np.shares_memory) is compared with the
     location graph the Coq model computes (vm_compute) for the same history, plus which caches exist, pose counts,
     the projected flag, result handles and the number of pre-existing arrays written in place per call.
"""
import copy
import importlib
import inspect
import io
import json
import os
import tempfile

import numpy as np

from harness.common import cbool, cnat, cnatlist, differential, HarnessError

ID = "C16"
IMPORTS = "From Evo Require Import Heap.\n"
COQ_TARGETS = ["theories/HeapProofs.vo"]
TRUSTED = [
    "model Evo.Heap written by hand from evo/core/trajectory.py, sync.py, metrics.py, result.py, geometry.py, "
    "filters.py, evo/tools/file_interface.py, pandas_bridge.py, plot.py; tie = differential run: location graph, "
    "cache presence, pose counts, result handles, in-place write counts of the model (vm_compute) vs. "
    "np.shares_memory / `is` / byte snapshots of the implementation on every history",
    "numpy semantics assumed by the model: np.array(x), fancy indexing a[ids], np.dot, np.concatenate, s*a allocate "
    "new arrays; basic slicing of a Python list builds a new list of the same elements; copy.deepcopy copies every "
    "array once per identity (observed on every case through the sharing graph)",
    "byte snapshots (ndarray.tobytes + dtype + shape) and copy.deepcopy are trusted to observe / reproduce objects",
    "contents of cells are abstract in the model (content oracle mk is universally quantified): numeric results of "
    "the operations are the subject of C01-C15, not of C16",
]
ASSUMPTIONS = [
    "valid inputs: trajectories with >= 1 pose, SE(3) matrices, strictly increasing timestamps; ids in range",
    "the constructor sharing its poses_se3 argument list with the caller is construction, not derivation: it is "
    "observed and compared with the model but judged only through the stated clauses (arguments unchanged; copies, "
    "associated trajectories, split parts, merged trajectories independent under later operations)",
    "ROS bag I/O, TF caches, contextily map tiles, interactive windows are outside the property (not called)",
]
LEVEL_TEXT = (
    "Machine-checked theorems (Coq, no axioms) over a heap/footprint model of evo's trajectory objects: frame rule for "
    "every call, the current code writes no pre-existing cell, readers (metrics, statistics, umeyama, matching, id "
    "pairs, merges, DataFrame conversion, writers, plots) and derivations leave the views of all existing objects "
    "unchanged, and the view of an object is unchanged by every history (any length) of calls that operate on other "
    "objects - copies, associated, merged trajectories and split parts alike; for copies/associated/merged this holds "
    "even with an in-place project(); the old behaviour (in-place project on shared pose cells, split_* returning "
    "[self]) is refuted by witnesses. The model is tied to the code on every run by comparing its location graph "
    "with the implementation's sharing graph on systematic 2/3-step and random histories and by bit-level snapshots "
    "of every argument of every public function.")
LEVEL_NOTE = (
    "Trusted: Coq kernel/VM; the hand-written model's correspondence (tested on every run, not proved); numpy/CPython "
    "allocation semantics; snapshot machinery. Theorems are closed under the global context (no axioms).")
TECHNIQUE = ("Coq proof (footprints, separation invariant, induction over operation histories) + model/implementation "
             "correspondence of the location graph by vm_compute + bit-level argument snapshots")

LAZY = ("_positions_xyz", "_orientations_quat_wxyz", "_poses_se3")
PLANES = ("xy", "xz", "yz")


# ================================================================== snapshots
def snap(o, depth=0):
    """Deep, bit-level, hashable-free description of an object (compared with ==)."""
    from evo.core.trajectory import PosePath3D
    from evo.core.result import Result
    from evo.core.metrics import PE
    if depth > 8:
        return ("deep", type(o).__name__)
    if isinstance(o, np.ndarray):
        if o.dtype == object:
            return ("ndo", tuple(o.shape), [snap(x, depth + 1) for x in o.ravel().tolist()])
        return ("nd", str(o.dtype), tuple(o.shape), o.tobytes())
    if isinstance(o, np.generic):
        return ("npg", str(o.dtype), o.tobytes())
    if isinstance(o, (PosePath3D, Result, PE)):
        return ("obj", type(o).__name__, [(k, snap(v, depth + 1)) for k, v in o.__dict__.items()])
    if isinstance(o, dict):
        return ("dict", [(snap(k, depth + 1), snap(v, depth + 1)) for k, v in o.items()])
    if isinstance(o, (list, tuple)):
        return (type(o).__name__, [snap(x, depth + 1) for x in o])
    try:
        import pandas as pd
        if isinstance(o, pd.DataFrame):
            return ("df", snap(o.to_numpy(), depth + 1), snap(o.index.to_numpy(), depth + 1),
                    [str(c) for c in o.columns])
    except Exception:   # noqa
        pass
    if isinstance(o, float):
        return ("float", o.hex())
    if isinstance(o, (int, bool, str, bytes, type(None))):
        return (type(o).__name__, o)
    return ("repr", type(o).__name__, repr(o)[:200])


def views(o):
    """What can be seen through the public attributes; computed on a deep copy so that the object is not touched."""
    from evo.core.trajectory import PosePath3D, PoseTrajectory3D
    if not isinstance(o, PosePath3D):
        return snap(o)
    c = copy.deepcopy(o)
    out = {"class": type(c).__name__, "num_poses": c.num_poses,
           "positions_xyz": snap(c.positions_xyz), "orientations_quat_wxyz": snap(c.orientations_quat_wxyz),
           "poses_se3": snap(list(c.poses_se3)), "meta": snap(c.meta), "projected": c._projected}
    for name in ("distances", "path_length", "speeds", "timestamps"):
        if name in ("speeds", "timestamps") and not isinstance(c, PoseTrajectory3D):
            continue
        try:
            out[name] = snap(getattr(c, name))
        except Exception as e:   # noqa  (e.g. speeds with equal stamps): the refusal itself is the view
            out[name] = ("raises", type(e).__name__)
    return out


def raw(o):
    from evo.core.trajectory import PosePath3D
    if isinstance(o, PosePath3D):
        return {k: snap(v) for k, v in o.__dict__.items()}
    return {"_": snap(o)}


def diff_arg(before_raw, before_view, o):
    """None if object o still equals its snapshots, else a short description of the first difference."""
    from evo.core.trajectory import PosePath3D
    now = raw(o)
    for k, v in before_raw.items():
        if k not in now:
            return "attribute %s disappeared" % k
        if now[k] != v:
            return "attribute %s changed" % k
    for k in now:
        if k not in before_raw and not (isinstance(o, PosePath3D) and k in LAZY):
            return "new attribute %s" % k
    if isinstance(o, PosePath3D):
        nv = views(o)
        for k, v in before_view.items():
            if nv.get(k) != v:
                return "view %s changed" % k
    return None


# ================================================================== inputs
def rot(rng):
    q = rng.normal(size=4)
    q /= np.linalg.norm(q)
    w, x, y, z = q
    return np.array([[1 - 2 * (y * y + z * z), 2 * (x * y - z * w), 2 * (x * z + y * w)],
                     [2 * (x * y + z * w), 1 - 2 * (x * x + z * z), 2 * (y * z - x * w)],
                     [2 * (x * z - y * w), 2 * (y * z + x * w), 1 - 2 * (x * x + y * y)]])


def se3_of(r, t):
    m = np.eye(4)
    m[:3, :3] = r
    m[:3, 3] = t
    return m


def raw_data(seed, n):
    """n poses: unit steps, 1 s sampling (+- 1 ms jitter); a fast 30 m step before pose 3 and a 10 s time gap with a
    25 m jump before pose 6 - the same stamps for every seed, so that association is unambiguous."""
    rng = np.random.default_rng([1603, int(seed)])
    steps = rng.normal(size=(n, 3))
    steps /= np.linalg.norm(steps, axis=1)[:, None]
    if n > 3:
        steps[3] *= 30.0
    if n > 6:
        steps[6] *= 25.0
    xyz = np.cumsum(steps, axis=0)
    ts = 100.0 + np.arange(n) + 10.0 * (np.arange(n) >= 6) + 0.001 * rng.uniform(-1.0, 1.0, n)
    poses = [se3_of(rot(rng), xyz[i]) for i in range(n)]
    return poses, ts


def make_traj(mode, n, seed, stamped=True):
    from evo.core.trajectory import PosePath3D, PoseTrajectory3D
    import evo.core.transformations as tr
    poses, ts = raw_data(seed, n)
    if mode == "mat":
        return PoseTrajectory3D(poses_se3=poses, timestamps=ts) if stamped else PosePath3D(poses_se3=poses)
    xyz = np.array([p[:3, 3] for p in poses])
    quat = np.array([tr.quaternion_from_matrix(p) for p in poses])
    return PoseTrajectory3D(xyz, quat, ts) if stamped else PosePath3D(xyz, quat)


# ================================================================== history interpreter (implementation side)
class Violation(Exception):
    pass


def _cuts_time(t, thr):
    return [int(i) + 1 for i in np.where(np.diff(np.asarray(t.timestamps)) > thr)[0]]


def _step_lengths(t):
    p = np.asarray(copy.deepcopy(t).positions_xyz)
    return np.linalg.norm(p[1:] - p[:-1], axis=1)


def _cuts_dist(t, thr):
    return [int(i) + 1 for i in np.where(_step_lengths(t) > thr)[0]]


def _cuts_speed(t, thr):
    return [int(i) + 1 for i in np.where(_step_lengths(t) / np.diff(np.asarray(t.timestamps)) > thr)[0]]


def _match_ids(ts_a, ts_b, max_diff):
    """independent nearest matching (inputs are built so that it is unambiguous)"""
    ia, ib = [], []
    short_is_a = len(ts_a) <= len(ts_b)
    s, l = (ts_a, ts_b) if short_is_a else (ts_b, ts_a)
    for i, x in enumerate(s):
        j = int(np.argmin(np.abs(l - x)))
        if abs(l[j] - x) <= max_diff:
            (ia if short_is_a else ib).append(i)
            (ib if short_is_a else ia).append(j)
    return ia, ib


def run_history(hist):
    """Execute the history on the implementation. Returns a JSON-able observation."""
    from evo.core import sync, trajectory, lie_algebra as lie, filters
    from evo.core.trajectory import PosePath3D, PoseTrajectory3D, Plane, TrajectoryException
    env, coq, steps, violations, aliased = [], [], [], [], {}
    planes = {"xy": Plane.XY, "xz": Plane.XZ, "yz": Plane.YZ}
    tr_rng = np.random.default_rng(77)

    def add_results(objs_):
        hs = []
        for r in objs_:
            found = [k for k, e in enumerate(env) if e is r]
            if found:
                hs.append(found[0])
                aliased[found[0]] = True
            else:
                env.append(r)
                hs.append(len(env) - 1)
        return hs

    res_stack = []

    def resolve(x):
        if isinstance(x, list) and x and x[0] in ("r", "r2"):
            rs = res_stack[-1 if x[0] == "r" else -2]
            return rs[x[1] % len(rs)]
        if isinstance(x, list):
            return [resolve(y) for y in x]
        return x

    for pos, c in enumerate(hist):
        op = c[0]
        c = [c[0]] + [resolve(x) if (k < 2 or op in ("assoc", "merge", "align", "align_origin")) and not (
            op == "reduce" and k == 1) else x for k, x in enumerate(c[1:])]
        subject = c[1] if op in ("transform", "scale", "project", "reduce", "downsample", "time_range",
                                 "motion_filter", "align", "align_origin") else None
        before = [(raw(o), views(o)) if k != subject else None for k, o in enumerate(env)]
        # every array reachable from any object, to see which are written in place
        held = []
        for o in env:
            if isinstance(o, PosePath3D):
                for v in o.__dict__.values():
                    if isinstance(v, np.ndarray):
                        held.append(v)
                    elif isinstance(v, list):
                        held.extend(x for x in v if isinstance(x, np.ndarray))
        uniq = {id(a): a for a in held}
        held_bytes = {k: a.tobytes() for k, a in uniq.items()}
        subj_view = views(env[subject]) if subject is not None else None
        res, term, note = [], None, {}
        try:
            if op == "init":
                _, mode, n, seed, stamped = c
                res = add_results([make_traj(mode, n, seed, stamped)])
                term = "CInit %s %s %s" % (cnat(0 if mode == "mat" else 1), cnat(n), cbool(stamped))
            elif op == "get":
                _, i, g = c
                {"pos": lambda t: t.positions_xyz, "quat": lambda t: t.orientations_quat_wxyz,
                 "poses": lambda t: t.poses_se3}[g](env[i])
                term = "CGet %s %s" % (cnat(i), {"pos": "GPos", "quat": "GQuat", "poses": "GPoses"}[g])
            elif op == "transform":
                _, i, rm, prop, kind = c
                t = se3_of(rot(tr_rng), tr_rng.normal(size=3))
                if kind == "sim3":
                    t = lie.sim3(t[:3, :3], t[:3, 3], 1.75)
                tb = t.tobytes()
                env[i].transform(t, right_mul=rm, propagate=prop)
                if t.tobytes() != tb:
                    violations.append({"step": pos, "what": "transform() changed its matrix argument"})
                term = "CTransform %s %s %s %s" % (cnat(i), cbool(rm), cbool(prop), cbool(kind == "sim3"))
            elif op == "scale":
                env[c[1]].scale(c[2])
                term = "CScale %s" % cnat(c[1])
            elif op == "project":
                try:
                    env[c[1]].project(planes[c[2]])
                except TrajectoryException:
                    note["raised"] = "TrajectoryException"
                term = "CProject %s %s" % (cnat(c[1]), cnat(PLANES.index(c[2])))
            elif op == "reduce":
                n0 = env[c[1]].num_poses
                ids = {"drop1": [k for k in range(n0) if k != 1 or n0 < 2], "even": list(range(0, n0, 2)),
                       "head": list(range(max(1, n0 - 1)))}[c[2]] if isinstance(c[2], str) else list(c[2])
                arg = np.array(ids, dtype=int) if c[1] % 2 else list(ids)
                ab = snap(arg)
                env[c[1]].reduce_to_ids(arg)
                if snap(arg) != ab:
                    violations.append({"step": pos, "what": "reduce_to_ids() changed its ids argument"})
                term = "CReduce %s %s" % (cnat(c[1]), cnatlist(ids))
            elif op == "downsample":
                n0 = env[c[1]].num_poses
                env[c[1]].downsample(c[2])
                if n0 > c[2]:
                    term = "CReduce %s %s" % (cnat(c[1]), cnatlist(np.linspace(0, n0 - 1, c[2], dtype=int).tolist()))
            elif op == "time_range":
                t = env[c[1]]
                ts = np.asarray(t.timestamps)
                lo, hi = ts[min(1, len(ts) - 1)], ts[-1]
                ids = [int(k) for k in np.where((ts >= lo) & (ts <= hi))[0]]
                t.reduce_to_time_range(lo, hi)
                term = "CReduce %s %s" % (cnat(c[1]), cnatlist(ids))
            elif op == "motion_filter":
                t = env[c[1]]
                ids = [int(k) for k in filters.filter_by_motion(copy.deepcopy(t).poses_se3, c[2], c[3])]
                t.motion_filter(c[2], c[3])
                term = "CMotionFilter %s %s" % (cnat(c[1]), cnatlist(ids))
            elif op == "align":
                _, i, ref, cs, only = c
                nn = -1 if env[i].num_poses == env[ref].num_poses else 3
                env[i].align(env[ref], correct_scale=cs, correct_only_scale=only, n=nn)
                term = "CAlign %s %s %s %s" % (cnat(i), cnat(ref), cbool(cs), cbool(only))
            elif op == "align_origin":
                env[c[1]].align_origin(env[c[2]])
                term = "CAlignOrigin %s %s" % (cnat(c[1]), cnat(c[2]))
            elif op == "copy":
                res = add_results([copy.deepcopy(env[c[1]])])
                term = "CCopy %s" % cnat(c[1])
            elif op == "assoc":
                _, a, b, maxd = c
                ia, ib = _match_ids(np.asarray(env[a].timestamps), np.asarray(env[b].timestamps), maxd)
                r1, r2 = sync.associate_trajectories(env[a], env[b], max_diff=maxd)
                res = add_results([r1, r2])
                term = "CAssoc %s %s %s %s" % (cnat(a), cnat(b), cnatlist(ia), cnatlist(ib))
            elif op == "merge":
                srcs = list(c[1])
                lst = [env[k] for k in srcs]
                res = add_results([trajectory.merge(lst)])
                if len(lst) != len(srcs) or any(x is not env[k] for x, k in zip(lst, srcs)):
                    violations.append({"step": pos, "what": "merge() changed its list argument"})
                term = "CMerge %s" % cnatlist(srcs)
            elif op == "split":
                _, kind, src, thr = c
                t = env[src]
                if kind == "time":
                    cuts, parts = _cuts_time(t, thr), t.split_time_gaps(thr)
                elif kind == "dist":
                    cuts, parts = _cuts_dist(t, thr), t.split_distance_gaps(thr)
                else:
                    cuts, parts = _cuts_speed(t, thr), t.split_speed_outliers(thr)
                res = add_results(list(parts))
                term = "CSplit %s %s %s" % ({"time": "SplitTime", "dist": "SplitDist", "speed": "SplitSpeed"}[kind],
                                            cnat(src), cnatlist(cuts))
            elif op == "ctor_poses":
                _, src, share_meta = c
                t = env[src]
                kw = {"meta": t.meta} if share_meta else {}
                if isinstance(t, PoseTrajectory3D):
                    r = PoseTrajectory3D(poses_se3=t.poses_se3, timestamps=t.timestamps, **kw)
                else:
                    r = PosePath3D(poses_se3=t.poses_se3, **kw)
                res = add_results([r])
                term = "CCtorPoses %s %s" % (cnat(src), cbool(share_meta))
            elif op == "ctor_pq":
                t = env[c[1]]
                if isinstance(t, PoseTrajectory3D):
                    r = PoseTrajectory3D(t.positions_xyz, t.orientations_quat_wxyz, t.timestamps)
                else:
                    r = PosePath3D(t.positions_xyz, t.orientations_quat_wxyz)
                res = add_results([r])
                term = "CCtorPQ %s" % cnat(c[1])
            else:
                raise HarnessError("unknown history command %r" % (c,))
        except HarnessError:
            raise
        except Exception as e:   # noqa
            return {"error": "%s at step %d (%r): %s" % (type(e).__name__, pos, c, str(e)[:200])}
        # ---- every object other than the one operated on must be bit-for-bit what it was
        for k, b in enumerate(before):
            if b is None:
                continue
            d = diff_arg(b[0], b[1], env[k])
            if d is not None:
                violations.append({"step": pos, "what": "object %d (not operated on) changed during %s: %s"
                                                        % (k, op, d)})
        # ---- an operation through a handle that IS its source object changes the source
        if subject is not None and aliased.get(subject) and views(env[subject]) != subj_view:
            violations.append({"step": pos, "what": "object %d was returned as a derived object but is its source "
                                                    "itself; %s on it changed the source" % (subject, op)})
        written = sum(1 for k, a in uniq.items() if a.tobytes() != held_bytes[k])
        changed = subject is not None and views(env[subject]) != subj_view
        if res:
            res_stack.append(res)
        if term is not None:
            coq.append(term)
            steps.append({"res": res, "written": written, "changed": bool(changed), **note})
    return {"coq": coq, "steps": steps, "violations": violations, "graph": graph_of(env),
            "aliased": sorted(aliased)}


def graph_of(env):
    """Per object: n, projected, and slots; slots share a label iff they are the same array / list / dict."""
    from evo.core.trajectory import PosePath3D
    slots = []   # (handle, field, index, python object)
    shape = []
    for h, o in enumerate(env):
        if not isinstance(o, PosePath3D):
            shape.append(None)
            continue
        d = o.__dict__
        sh = {"n": int(o.num_poses), "proj": bool(o._projected), "pos": "_positions_xyz" in d,
              "quat": "_orientations_quat_wxyz" in d, "poses": len(d["_poses_se3"]) if "_poses_se3" in d else None,
              "stamps": "timestamps" in d}
        shape.append(sh)
        if sh["pos"]:
            slots.append((h, "pos", 0, d["_positions_xyz"]))
        if sh["quat"]:
            slots.append((h, "quat", 0, d["_orientations_quat_wxyz"]))
        if sh["poses"] is not None:
            slots.append((h, "lid", 0, d["_poses_se3"]))
            for k, p in enumerate(d["_poses_se3"]):
                slots.append((h, "pose", k, p))
        if sh["stamps"]:
            slots.append((h, "stamps", 0, d["timestamps"]))
        slots.append((h, "meta", 0, d["meta"]))
    labels = []
    for i, (_, _, _, x) in enumerate(slots):
        lab = i
        for j in range(i):
            y = slots[j][3]
            same = x is y
            if not same and isinstance(x, np.ndarray) and isinstance(y, np.ndarray):
                same = bool(np.may_share_memory(x, y)) and bool(np.shares_memory(x, y))
            if same:
                lab = labels[j]
                break
        labels.append(lab)
    return {"shape": shape, "slots": [[h, f, k] for h, f, k, _ in slots], "labels": labels}


def model_graph(objs_dump):
    """Same canonical form from the model's dump (list of objects as lists of location lists)."""
    slots, locs, shape = [], [], []
    for h, o in enumerate(objs_dump):
        head = o[0]
        if head[0] != 0:
            shape.append(None)
            continue
        _, n, proj = head
        pos, quat, lid, poses, stamps, meta = o[1], o[2], o[3], o[4], o[5], o[6]
        shape.append({"n": n, "proj": bool(proj), "pos": bool(pos), "quat": bool(quat),
                      "poses": len(poses) if lid else None, "stamps": bool(stamps)})
        if pos:
            slots.append([h, "pos", 0]); locs.append(pos[0])
        if quat:
            slots.append([h, "quat", 0]); locs.append(quat[0])
        if lid:
            slots.append([h, "lid", 0]); locs.append(lid[0])
            for k, l in enumerate(poses):
                slots.append([h, "pose", k]); locs.append(l)
        if stamps:
            slots.append([h, "stamps", 0]); locs.append(stamps[0])
        slots.append([h, "meta", 0]); locs.append(meta[0])
    first = {}
    labels = []
    for i, l in enumerate(locs):
        first.setdefault(l, i)
        labels.append(first[l])
    return {"shape": shape, "slots": slots, "labels": labels}


# ================================================================== history cases: expression, judge, generators
def hist_expr(case, out):
    if "coq" not in out:
        return "tt"
    h = "[" + "; ".join(out["coq"]) + "]"
    return "[report cfg_new %s; report cfg_old %s]" % (h, h)


def _cmp_graph(mg, ig):
    if mg["shape"] != ig["shape"]:
        for h, (a, b) in enumerate(zip(mg["shape"], ig["shape"])):
            if a != b:
                return "object %d: model %r, implementation %r" % (h, a, b)
        return "number of objects: model %d, implementation %d" % (len(mg["shape"]), len(ig["shape"]))
    if mg["slots"] != ig["slots"]:
        return "slot lists differ"
    for i, (a, b) in enumerate(zip(mg["labels"], ig["labels"])):
        if a != b:
            s = mg["slots"][i]
            tgt = mg["slots"][b] if b != i else None
            if b != i and a == i:
                return "%r of object %d is shared with %r of object %d in the implementation, fresh in the model" % (
                    s[1:], s[0], tgt[1:], tgt[0])
            return "%r of object %d: model shares with slot %r, implementation with slot %r" % (
                s[1:], s[0], mg["slots"][a], ig["slots"][b])
    return None


def hist_judge(case, val, out):
    if "error" in out:
        return {"kind": "model-vs-impl", "failing_input": False, "correspondence": "Heap.exec (history ran into an "
                "exception on the implementation)", "detail": out["error"]}
    if out["violations"]:
        v = out["violations"][0]
        return {"kind": "spec-violation", "failing_input": True,
                "detail": "history %s: step %d: %s" % (json.dumps(case["hist"]), v["step"], v["what"])}
    (new_objs, new_log), (old_objs, old_log) = val
    mg, ig = model_graph(new_objs), out["graph"]
    why = _cmp_graph(mg, ig)
    if why is None:
        for k, (st, (w, res)) in enumerate(zip(out["steps"], new_log)):
            if list(res) != list(st["res"]):
                why = "call %d (%s): result handles model %r, implementation %r" % (k, out["coq"][k], list(res), st["res"])
                break
            if len(w) != st["written"]:
                why = "call %d (%s): pre-existing arrays written in place: model %d, implementation %d" % (
                    k, out["coq"][k], len(w), st["written"])
                break
        if why is None and len(new_log) != len(out["steps"]):
            why = "log lengths differ"
    if why is None:
        return None
    old_matches = _cmp_graph(model_graph(old_objs), ig) is None and all(
        list(res) == list(st["res"]) and len(w) == st["written"] for st, (w, res) in zip(out["steps"], old_log))
    return {"kind": "model-vs-impl", "failing_input": False, "correspondence": "Heap.report cfg_new (location graph)",
            "detail": why + ("; the implementation matches the OLD model cfg_old (regression of fix 6234e49 / "
                             "ce2eb42)" if old_matches else "")}


MUTS = [
    ["transform", False, False, "se3"], ["transform", True, False, "se3"], ["transform", True, True, "se3"],
    ["transform", False, False, "sim3"], ["transform", True, True, "sim3"],
    ["scale", 2.5], ["project", "xy"], ["project", "xz"], ["project", "yz"],
    ["reduce", "drop1"], ["reduce", "even"], ["downsample", 3], ["time_range"], ["motion_filter", 0.5, 0.3],
    ["align", 0, False, False], ["align", 0, True, False], ["align", 0, False, True], ["align", 1, True, False],
    ["align_origin", 0], ["align_origin", 1],
]
SHRINKING = ("reduce", "downsample", "time_range", "motion_filter")


def _mut(m, b):
    return [m[0], b] + list(m[1:])


# (name, commands, number of derived objects) ; src = handle of the source, oth = the other trajectory
def derivations(src, oth):
    return [
        ("copy", [["copy", src]], 1),
        ("assoc", [["assoc", src, oth, 0.01]], 2),
        ("assoc_swapped", [["assoc", oth, src, 0.01]], 2),
        ("split_time_cut", [["split", "time", src, 5.0]], 2),
        ("split_time_nocut", [["split", "time", src, 1e6]], 1),
        ("split_dist_cut", [["split", "dist", src, 10.0]], 3),
        ("split_dist_nocut", [["split", "dist", src, 1e6]], 1),
        ("split_speed_cut", [["split", "speed", src, 10.0]], 2),
        ("split_speed_nocut", [["split", "speed", src, 1e6]], 1),
        ("merge_two", [["merge", [src, oth]]], 1),
        ("merge_one", [["merge", [src]]], 1),
        ("reduce_on_copy", [["copy", src], ["reduce", ["r", 0], "even"]], 1),
        ("ctor_poses", [["ctor_poses", src, False]], 1),
        ("ctor_poses_meta", [["ctor_poses", src, True]], 1),
        ("ctor_pq", [["ctor_pq", src]], 1),
    ]


WARMS = [[], ["pos"], ["poses"], ["pos", "quat", "poses"]]
N_A, N_O = 10, 8


def mk_hist(mode, seed, warm, body, after):
    h = [["init", mode, N_A, seed, True], ["init", "pq" if mode == "mat" else "mat", N_O, seed + 1, True]]
    h += [["get", 0, g] for g in warm]
    h += body
    h += [["get", 0, g] for g in after]
    return {"kind": "history", "hist": h}


def systematic_histories(ctx):
    """2-step: every derivation x every mutation x both storage modes x cache states of A (quick: every 3rd)."""
    cases, k = [], 0
    for mode in ("mat", "pq"):
        for wi, warm in enumerate(WARMS):
            for dname, dcmds, nres in derivations(0, 1):
                for m in MUTS:
                    k += 1
                    if ctx.quick and (k + wi) % 3 != 0:
                        continue
                    b = ["r", (k // 3) % nres]
                    cases.append(mk_hist(mode, 10 + k % 7, warm, dcmds + [_mut(m, b)], WARMS[(k // 5) % len(WARMS)]))
    return cases


def three_step_histories(ctx):
    """derive; mutate B twice (with reads in between) / derive again from B and mutate the grandchild and B."""
    rng, cases = ctx.rng, []
    ders = derivations(0, 1)
    for k in range(ctx.n(200, 8000)):
        mode = "mat" if k % 2 else "pq"
        warm = WARMS[rng.randrange(len(WARMS))]
        dname, dcmds, nres = ders[rng.randrange(len(ders))]
        b = ["r", rng.randrange(nres)]
        if k % 3 == 0:
            d2 = [d for d in derivations(b, 0) if d[0] in ("copy", "split_dist_cut", "split_dist_nocut", "merge_one",
                                                             "merge_two", "ctor_poses", "ctor_pq", "split_time_nocut",
                                                             "split_speed_nocut", "reduce_on_copy")]
            _, dcmds2, nres2 = d2[rng.randrange(len(d2))]
            c = ["r", rng.randrange(nres2)]
            safe = [m for m in MUTS if m[0] in ("transform", "scale", "project", "align_origin")]
            body = dcmds + dcmds2 + [_mut(safe[rng.randrange(len(safe))], c),
                                     _mut(safe[rng.randrange(len(safe))], ["r2", b[1]])]
            if dcmds2[0][0] == "copy" and len(dcmds2) == 2:
                body = dcmds + dcmds2 + [_mut(safe[rng.randrange(len(safe))], c)]
        else:
            m1 = MUTS[rng.randrange(len(MUTS))]
            pool = [m for m in MUTS if not (m1[0] in SHRINKING and (m[0] in SHRINKING or m[0] == "align"))]
            m2 = pool[rng.randrange(len(pool))]
            body = dcmds + [_mut(m1, b), ["get", b, ["pos", "quat", "poses"][k % 3]], _mut(m2, b)]
            if k % 4 == 0:   # and finally the source itself: the derived objects must not change either
                safe = [m for m in MUTS if m[0] in ("transform", "scale", "project")]
                body.append(_mut(safe[rng.randrange(len(safe))], 0))
        cases.append(mk_hist(mode, 20 + k % 11, warm, body, WARMS[rng.randrange(len(WARMS))]))
    return cases
