(* SyncProofs.v - theorems about the Sync model at the real-number instance. *)
From Coq Require Import Reals Lra Lia List Arith Bool Permutation Sorted.
From Evo Require Import Num Sync.
Import ListNotations.
Local Open Scope R_scope.

(* ---------- argmin ---------- *)
Lemma argmin_aux_spec : forall (l : list R) best bv i (pre : list R),
  length pre = i -> (best < i)%nat -> nth best pre 0 = bv ->
  (forall k, (k < i)%nat -> bv <= nth k pre 0) ->
  (forall k, (k < best)%nat -> bv < nth k pre 0) ->
  let j := argmin_aux best bv i l in
  (j < i + length l)%nat /\
  (forall k, (k < i + length l)%nat -> nth j (pre ++ l) 0 <= nth k (pre ++ l) 0) /\
  (forall k, (k < j)%nat -> nth j (pre ++ l) 0 < nth k (pre ++ l) 0).
Proof.
  induction l as [|x r IH]; intros best bv i pre Hlen Hb Hnth Hmin Hfirst; cbn [argmin_aux].
  - rewrite app_nil_r, Nat.add_0_r. subst bv. auto.
  - rnum. destruct (Rltb x bv) eqn:L.
    + apply Rltb_true in L.
      specialize (IH i x (S i) (pre ++ [x])).
      rewrite app_length in IH. cbn [length] in IH.
      assert (H1 : (length pre + 1 = S i)%nat) by lia.
      assert (H2 : (i < S i)%nat) by lia.
      assert (H3 : nth i (pre ++ [x]) 0 = x)
        by (rewrite app_nth2 by lia; rewrite Hlen, Nat.sub_diag; reflexivity).
      assert (H4 : forall k, (k < S i)%nat -> x <= nth k (pre ++ [x]) 0).
      { intros k Hk. destruct (Nat.eq_dec k i) as [->|Ne]; [rewrite H3; lra|].
        rewrite app_nth1 by lia. specialize (Hmin k ltac:(lia)). lra. }
      assert (H5 : forall k, (k < i)%nat -> x < nth k (pre ++ [x]) 0).
      { intros k Hk. rewrite app_nth1 by lia. specialize (Hmin k ltac:(lia)). lra. }
      specialize (IH H1 H2 H3 H4 H5).
      rewrite <- app_assoc in IH. cbn [app] in IH. cbn [length].
      replace (i + S (length r))%nat with (S i + length r)%nat by lia. exact IH.
    + apply Rltb_false in L.
      specialize (IH best bv (S i) (pre ++ [x])).
      rewrite app_length in IH. cbn [length] in IH.
      assert (H1 : (length pre + 1 = S i)%nat) by lia.
      assert (H2 : (best < S i)%nat) by lia.
      assert (H3 : nth best (pre ++ [x]) 0 = bv) by (rewrite app_nth1 by lia; exact Hnth).
      assert (H4 : forall k, (k < S i)%nat -> bv <= nth k (pre ++ [x]) 0).
      { intros k Hk. destruct (Nat.eq_dec k i) as [->|Ne].
        - rewrite app_nth2 by lia. rewrite Hlen, Nat.sub_diag. cbn. lra.
        - rewrite app_nth1 by lia. apply Hmin. lia. }
      assert (H5 : forall k, (k < best)%nat -> bv < nth k (pre ++ [x]) 0).
      { intros k Hk. rewrite app_nth1 by lia. apply Hfirst; exact Hk. }
      specialize (IH H1 H2 H3 H4 H5).
      rewrite <- app_assoc in IH. cbn [app] in IH. cbn [length].
      replace (i + S (length r))%nat with (S i + length r)%nat by lia. exact IH.
Qed.

(* numpy.argmin on a non-empty list: in range, minimal, and the FIRST minimal index *)
Lemma argmin_spec (l : list R) : l <> [] ->
  (argmin l < length l)%nat /\
  (forall k, (k < length l)%nat -> nth (argmin l) l 0 <= nth k l 0) /\
  (forall k, (k < argmin l)%nat -> nth (argmin l) l 0 < nth k l 0).
Proof.
  destruct l as [|x r]; [congruence|intros _]. unfold argmin.
  pose proof (argmin_aux_spec r 0%nat x 1%nat [x] eq_refl ltac:(lia) eq_refl) as H.
  cbn [app length] in *. apply H.
  - intros k Hk. assert (k = 0)%nat by lia. subst. cbn. lra.
  - intros k Hk. lia.
Qed.

Lemma NoDup_snoc {A} (l : list A) x : NoDup l -> ~ In x l -> NoDup (l ++ [x]).
Proof.
  induction l as [|a r IH]; cbn; intros ND Hn; [constructor; [tauto|constructor]|].
  inversion ND as [|? ? Ha ND']; subst. constructor.
  - intros I. apply in_app_or in I. destruct I as [I|[E|[]]]; [tauto|subst; tauto].
  - apply IH; tauto.
Qed.

(* ---------- the association table ---------- *)
Section Table.
Notation tableR := (list (nat * (R * nat))).

Lemma lookup_in j (b : tableR) v : lookup j b = Some v -> In (j, v) b.
Proof.
  induction b as [|[k w] r IH]; cbn; [discriminate|].
  destruct (Nat.eqb_spec k j) as [->|Ne]; intros H.
  - injection H as ->. now left.
  - right; auto.
Qed.
Lemma lookup_none j (b : tableR) : lookup j b = None -> ~ In j (map fst b).
Proof.
  induction b as [|[k w] r IH]; cbn; [tauto|].
  destruct (Nat.eqb_spec k j) as [->|Ne]; [discriminate|].
  intros H [E|I]; [congruence|]. exact (IH H I).
Qed.
Lemma keys_replace j v (b : tableR) : map fst (replace j v b) = map fst b.
Proof.
  induction b as [|[k w] r IH]; cbn; [reflexivity|].
  destruct (Nat.eqb k j); cbn; [reflexivity|]. now rewrite IH.
Qed.
Lemma in_replace j v (b : tableR) x :
  NoDup (map fst b) -> In x (replace j v b) -> x = (j, v) \/ (In x b /\ fst x <> j).
Proof.
  induction b as [|[k w] r IH]; cbn; [tauto|]. intros ND.
  inversion ND as [|? ? Hk ND']; subst.
  destruct (Nat.eqb_spec k j) as [->|Ne]; cbn.
  - intros [<-|I]; [now left|]. right. split; [now right|].
    intros E. apply Hk. rewrite <- E. now apply in_map.
  - intros [<-|I]; [right; split; [now left|exact Ne]|].
    destruct (IH ND' I) as [->|[I' N]]; [now left|right; split; [now right|exact N]].
Qed.
Lemma replace_in_new j v w (b : tableR) : In (j, w) b -> In (j, v) (replace j v b).
Proof.
  induction b as [|[k u] r IH]; cbn; [tauto|].
  destruct (Nat.eqb_spec k j) as [->|Ne]; cbn; [now left|].
  intros [E|I]; [congruence|right; auto].
Qed.
Lemma replace_in_other j v k w (b : tableR) : k <> j -> In (k, w) b -> In (k, w) (replace j v b).
Proof.
  intros Ne. induction b as [|[k' u] r IH]; cbn; [tauto|].
  destruct (Nat.eqb_spec k' j) as [->|Ne']; cbn.
  - intros [E|I]; [congruence|now right].
  - intros [E|I]; [now left|right; auto].
Qed.
End Table.

(* ---------- sorting ---------- *)
Lemma insert_perm p l : Permutation (insert_pair p l) (p :: l).
Proof.
  induction l as [|q r IH]; cbn; [reflexivity|].
  destruct (Nat.leb (fst p) (fst q)); [reflexivity|].
  rewrite IH. apply perm_swap.
Qed.
Lemma isort_perm l : Permutation (isort l) l.
Proof. induction l as [|p r IH]; cbn; [reflexivity|]. rewrite insert_perm. now constructor. Qed.

Definition le1 (p q : nat * nat) := (fst p <= fst q)%nat.
Lemma insert_sorted p l : StronglySorted le1 l -> StronglySorted le1 (insert_pair p l).
Proof.
  induction l as [|q r IH]; cbn; intros S.
  - constructor; constructor.
  - inversion S as [|? ? S' F]; subst.
    destruct (Nat.leb_spec (fst p) (fst q)) as [L|L].
    + constructor; [exact S|]. constructor; [exact L|].
      eapply Forall_impl; [|exact F]. unfold le1; intros; lia.
    + constructor; [apply IH; exact S'|].
      eapply Permutation_Forall; [symmetry; apply insert_perm|].
      constructor; [unfold le1; lia|exact F].
Qed.
Lemma isort_sorted l : StronglySorted le1 (isort l).
Proof. induction l as [|p r IH]; cbn; [constructor|now apply insert_sorted]. Qed.

Definition lt1 (p q : nat * nat) := (fst p < fst q)%nat.
Lemma sorted_nodup_strict l :
  StronglySorted le1 l -> NoDup (map fst l) -> StronglySorted lt1 l.
Proof.
  induction 1 as [|p r S IH F]; cbn; intros ND; [constructor|].
  inversion ND as [|? ? Hn ND']; subst.
  constructor; [auto|].
  rewrite Forall_forall in *. intros q Hq. specialize (F q Hq). unfold le1, lt1 in *.
  assert (fst p <> fst q) by (intros E; apply Hn; rewrite E; now apply in_map). lia.
Qed.

(* ---------- the main invariant ---------- *)
Section Matching.
Variables (s1 s2 : list R) (maxd off : R).
Hypothesis s2_nonempty : s2 <> [].

Definition D (i j : nat) : R := Rabs (nth j s2 0 + off - nth i s1 0).
Definition candR (i : nat) := cand s2 off maxd (nth i s1 0).

Lemma diffs_nth x j : (j < length s2)%nat ->
  nth j (diffs s2 off x) 0 = Rabs (nth j s2 0 + off - x).
Proof.
  unfold diffs. rnum. clear s2_nonempty. revert j.
  induction s2 as [|a r IH]; intros j Hj; cbn in *; [lia|].
  destruct j as [|j]; [reflexivity|]. apply IH. lia.
Qed.
Lemma diffs_nonempty x : diffs s2 off x <> [].
Proof. unfold diffs. destruct s2; [congruence|cbn; congruence]. Qed.

Lemma cand_spec i j d : candR i = Some (j, d) ->
  (j < length s2)%nat /\ d = D i j /\ d <= maxd /\
  (forall k, (k < length s2)%nat -> D i j <= D i k) /\
  (forall k, (k < j)%nat -> D i j < D i k).
Proof.
  unfold candR, cand. set (x := nth i s1 0). rnum.
  destruct (argmin_spec (diffs s2 off x) (diffs_nonempty x)) as (Hr & Hm & Hf).
  unfold diffs in Hr at 2. rewrite map_length in Hr.
  destruct (Rleb _ maxd) eqn:L; [|discriminate].
  intros E; injection E as <- <-. apply Rleb_true in L.
  rewrite diffs_nth in * by exact Hr.
  repeat split; try assumption.
  - intros k Hk. specialize (Hm k). unfold diffs in Hm at 1. rewrite map_length in Hm.
    specialize (Hm Hk). rewrite diffs_nth in Hm by exact Hk. exact Hm.
  - intros k Hk. specialize (Hf k Hk). rewrite diffs_nth in Hf by lia. exact Hf.
Qed.

Definition Inv (b : list (nat * (R * nat))) (k : nat) : Prop :=
  NoDup (map fst b) /\
  (forall j d i, In (j, (d, i)) b -> (i < k)%nat /\ candR i = Some (j, d)) /\
  (forall i j d, (i < k)%nat -> candR i = Some (j, d) ->
     exists d' i', In (j, (d', i')) b /\ d' <= d).

Lemma inv_step b k : Inv b k -> Inv (upd b k (candR k)) (S k).
Proof.
  intros (ND & Hsound & Hcompl). unfold upd.
  destruct (candR k) as [[j dj]|] eqn:C.
  2:{ repeat split; [exact ND| | |].
      - apply Hsound in H. destruct H; lia.
      - apply Hsound in H. tauto.
      - intros i j d Hi Ci. destruct (Nat.eq_dec i k) as [->|Ne]; [congruence|].
        apply (Hcompl i j d); [lia|exact Ci]. }
  destruct (lookup j b) as [[d0 i0]|] eqn:L.
  - rnum. destruct (Rltb dj d0) eqn:Lt.
    + apply Rltb_true in Lt. pose proof (lookup_in _ _ _ L) as I0.
      repeat split.
      * rewrite keys_replace; exact ND.
      * destruct (in_replace _ _ _ _ ND H) as [E|[I N]].
        -- injection E as -> -> ->. lia.
        -- apply Hsound in I. destruct I; lia.
      * destruct (in_replace _ _ _ _ ND H) as [E|[I N]].
        -- injection E as -> -> ->. exact C.
        -- apply Hsound in I. tauto.
      * intros i j' d Hi Ci. destruct (Nat.eq_dec i k) as [->|Ne].
        -- rewrite C in Ci. injection Ci as <- <-. exists dj, k. split; [|lra].
           eapply replace_in_new; exact I0.
        -- destruct (Hcompl i j' d ltac:(lia) Ci) as (d' & i' & I' & Le).
           destruct (Nat.eq_dec j' j) as [->|Nj].
           ++ exists dj, k. split; [eapply replace_in_new; exact I0|].
              assert (E : (d', i') = (d0, i0)).
              { clear -ND I' I0. induction b as [|[a c] r IH]; cbn in *; [tauto|].
                inversion ND as [|? ? Hn ND']; subst.
                destruct I' as [E1|I1], I0 as [E2|I2].
                - congruence.
                - exfalso. injection E1 as -> _. apply Hn.
                  change j with (fst (j, (d0, i0))). now apply in_map.
                - exfalso. injection E2 as -> _. apply Hn.
                  change j with (fst (j, (d', i'))). now apply in_map.
                - auto. }
              injection E as -> ->. lra.
           ++ exists d', i'. split; [apply replace_in_other; assumption|exact Le].
    + apply Rltb_false in Lt. pose proof (lookup_in _ _ _ L) as I0.
      repeat split; [exact ND| | |].
      * apply Hsound in H. destruct H; lia.
      * apply Hsound in H. tauto.
      * intros i j' d Hi Ci. destruct (Nat.eq_dec i k) as [->|Ne].
        -- rewrite C in Ci. injection Ci as <- <-. exists d0, i0. split; [exact I0|exact Lt].
        -- apply (Hcompl i j' d); [lia|exact Ci].
  - pose proof (lookup_none _ _ L) as Nk. repeat split.
    + rewrite map_app. cbn. apply NoDup_snoc; assumption.
    + apply in_app_or in H. destruct H as [I|[E|[]]].
      * apply Hsound in I. destruct I; lia.
      * injection E as -> -> ->. lia.
    + apply in_app_or in H. destruct H as [I|[E|[]]].
      * apply Hsound in I. tauto.
      * injection E as -> -> ->. exact C.
    + intros i j' d Hi Ci. destruct (Nat.eq_dec i k) as [->|Ne].
      * rewrite C in Ci. injection Ci as <- <-. exists dj, k. split; [|lra].
        apply in_or_app. right. now left.
      * destruct (Hcompl i j' d ltac:(lia) Ci) as (d' & i' & I' & Le).
        exists d', i'. split; [apply in_or_app; now left|exact Le].
Qed.
End Matching.

(* ---------- lifting the invariant over the whole loop ---------- *)
Section Main.
Variables (s1 s2 : list R) (maxd off : R).
Hypothesis s2_nonempty : s2 <> [].
Notation Dm := (D s1 s2 off).
Notation candm := (candR s1 s2 maxd off).

Lemma run_inv : forall r pre b, s1 = pre ++ r -> Inv s1 s2 maxd off b (length pre) ->
  Inv s1 s2 maxd off (run s2 off maxd r (length pre) b) (length s1).
Proof.
  induction r as [|x r IH]; intros pre b E I; cbn [run].
  - rewrite app_nil_r in E. subst pre. exact I.
  - assert (Hx : nth (length pre) s1 0 = x).
    { rewrite E, app_nth2 by lia. now rewrite Nat.sub_diag. }
    specialize (IH (pre ++ [x]) (upd b (length pre) (cand s2 off maxd x))).
    rewrite app_length in IH. cbn [length] in IH. rewrite Nat.add_1_r in IH.
    apply IH; [rewrite <- app_assoc; exact E|].
    rewrite <- Hx. apply inv_step; exact I.
Qed.

Lemma inv_init : Inv s1 s2 maxd off [] 0.
Proof. repeat split; cbn; try constructor; try tauto; intros; lia. Qed.

Definition final_table := run s2 off maxd s1 0 [].
Lemma final_inv : Inv s1 s2 maxd off final_table (length s1).
Proof. apply (run_inv s1 [] [] eq_refl inv_init). Qed.

Lemma in_matching i j :
  In (i, j) (matching s1 s2 maxd off) <-> exists d, In (j, (d, i)) final_table.
Proof.
  unfold matching. fold final_table. split.
  - intros H. apply (Permutation_in _ (isort_perm _)) in H.
    apply in_map_iff in H. destruct H as ([j' [d i']] & E & I). cbn in E.
    injection E as -> ->. now exists d.
  - intros [d I]. apply (Permutation_in _ (Permutation_sym (isort_perm _))).
    apply in_map_iff. exists (j, (d, i)). split; [reflexivity|exact I].
Qed.

(* S1 + S3: every produced pair is in range, within max_diff, and j is a nearest
   (indeed the first nearest) counterpart of i *)
Theorem matching_sound i j : In (i, j) (matching s1 s2 maxd off) ->
  (i < length s1)%nat /\ (j < length s2)%nat /\ Dm i j <= maxd /\
  (forall k, (k < length s2)%nat -> Dm i j <= Dm i k) /\
  candm i = Some (j, Dm i j).
Proof.
  intros H. apply in_matching in H. destruct H as [d I].
  destruct final_inv as (_ & Hs & _). destruct (Hs _ _ _ I) as [Hi C].
  destruct (cand_spec s1 s2 maxd off s2_nonempty _ _ _ C) as (Hj & -> & Hd & Hm & _).
  repeat split; assumption.
Qed.

(* S2: increasing in the driving index, no pose of either list used twice *)
Theorem matching_sorted : StronglySorted lt1 (matching s1 s2 maxd off).
Proof.
  apply sorted_nodup_strict; [apply isort_sorted|].
  destruct final_inv as (ND & Hs & _).
  unfold matching. fold final_table.
  eapply Permutation_NoDup; [apply Permutation_map; symmetry; apply isort_perm|].
  rewrite map_map. cbn.
  apply NoDup_map_inv in ND as NDb.
  clear -ND NDb Hs. induction final_table as [|[j [d i]] r IH]; cbn; [constructor|].
  inversion ND as [|? ? Hn ND']; subst. inversion NDb as [|? ? Hn' NDb']; subst.
  constructor.
  - intros I. apply in_map_iff in I. destruct I as ([j' [d' i']] & E & I). cbn in E. subst i'.
    destruct (Hs j d i (or_introl eq_refl)) as [_ C1].
    destruct (Hs j' d' i (or_intror I)) as [_ C2].
    rewrite C1 in C2. injection C2 as <- <-. apply Hn.
    change j with (fst (j, (d, i))). now apply in_map.
  - apply IH; try assumption. intros; apply Hs; now right.
Qed.

Theorem matching_injective : NoDup (map snd (matching s1 s2 maxd off)).
Proof.
  destruct final_inv as (ND & _ & _). unfold matching. fold final_table.
  eapply Permutation_NoDup; [apply Permutation_map; symmetry; apply isort_perm|].
  rewrite map_map. cbn. exact ND.
Qed.

(* S4: a counterpart j that is the nearest one (within max_diff) of some pose i is given
   to a closest contender; hence an uncontended pose is always paired. *)
Theorem matching_complete i j d : (i < length s1)%nat -> candm i = Some (j, d) ->
  exists i', In (i', j) (matching s1 s2 maxd off) /\ Dm i' j <= Dm i j.
Proof.
  intros Hi C. destruct final_inv as (_ & Hs & Hc).
  destruct (Hc i j d Hi C) as (d' & i' & I & Le).
  exists i'. split; [apply in_matching; now exists d'|].
  destruct (Hs _ _ _ I) as [_ C'].
  destruct (cand_spec s1 s2 maxd off s2_nonempty _ _ _ C) as (_ & -> & _).
  destruct (cand_spec s1 s2 maxd off s2_nonempty _ _ _ C') as (_ & -> & _). exact Le.
Qed.

Corollary matching_uncontended i j d : (i < length s1)%nat -> candm i = Some (j, d) ->
  (forall i' d', (i' < length s1)%nat -> candm i' = Some (j, d') -> i' = i) ->
  In (i, j) (matching s1 s2 maxd off).
Proof.
  intros Hi C U. destruct (matching_complete i j d Hi C) as (i' & I & _).
  destruct (matching_sound _ _ I) as (Hi' & _ & _ & _ & C').
  now rewrite <- (U i' _ Hi' C').
Qed.

(* what "cand" means: the nearest counterpart lies within max_diff, or nothing does *)
Lemma cand_none i : candm i = None -> forall k, (k < length s2)%nat -> maxd < Dm i k.
Proof.
  unfold candR, cand. set (x := nth i s1 0). rnum.
  destruct (argmin_spec (diffs s2 off x) (diffs_nonempty s2 off s2_nonempty x)) as (Hr & Hm & _).
  unfold diffs in Hr at 2. rewrite map_length in Hr.
  destruct (Rleb _ maxd) eqn:L; [discriminate|]. intros _ k Hk. apply Rleb_false in L.
  specialize (Hm k). unfold diffs in Hm at 1. rewrite map_length in Hm. specialize (Hm Hk).
  rewrite !diffs_nth in * by assumption. unfold D. fold x. lra.
Qed.
Lemma cand_some i : (exists k, (k < length s2)%nat /\ Dm i k <= maxd) -> exists j, candm i = Some (j, Dm i j).
Proof.
  intros (k & Hk & Le). destruct (candm i) as [[j d]|] eqn:C.
  - exists j. destruct (cand_spec s1 s2 maxd off s2_nonempty _ _ _ C) as (_ & -> & _). reflexivity.
  - pose proof (cand_none i C k Hk). lra.
Qed.
End Main.

(* ---------- time order on the searched side ---------- *)
Lemma sorted_nth (l : list R) : StronglySorted Rlt l ->
  forall i j, (i < j)%nat -> (j < length l)%nat -> nth i l 0 < nth j l 0.
Proof.
  induction 1 as [|a r S IH F]; cbn; intros i j Hij Hj; [lia|].
  destruct j as [|j]; [lia|]. destruct i as [|i].
  - rewrite Forall_forall in F. apply F. apply nth_In. lia.
  - apply IH; lia.
Qed.
Lemma sorted_le_nth (l : list R) : StronglySorted Rle l ->
  forall i j, (i <= j)%nat -> (j < length l)%nat -> nth i l 0 <= nth j l 0.
Proof.
  induction 1 as [|a r S IH F]; cbn; intros i j Hij Hj; [lia|].
  destruct j as [|j]; [assert (i = 0)%nat by lia; subst; lra|]. destruct i as [|i].
  - rewrite Forall_forall in F. apply F. apply nth_In. lia.
  - apply IH; lia.
Qed.
Lemma NoDup_map_eq {A B} (f : A -> B) (l : list A) p q :
  NoDup (map f l) -> In p l -> In q l -> f p = f q -> p = q.
Proof.
  induction l as [|a r IH]; cbn; [tauto|]. intros ND.
  inversion ND as [|? ? Hn ND']; subst.
  intros [<-|Ip] [<-|Iq] E; try reflexivity.
  - exfalso. apply Hn. rewrite E. now apply in_map.
  - exfalso. apply Hn. rewrite <- E. now apply in_map.
  - auto.
Qed.

Section TimeOrder.
Variables (s1 s2 : list R) (maxd off : R).
Hypothesis s2_nonempty : s2 <> [].
Hypothesis s1_sorted : StronglySorted Rle s1.
Hypothesis s2_sorted : StronglySorted Rlt s2.

Lemma nearest_monotone i i' j j' d d' : (i <= i')%nat -> (i' < length s1)%nat ->
  candR s1 s2 maxd off i = Some (j, d) -> candR s1 s2 maxd off i' = Some (j', d') -> (j <= j')%nat.
Proof.
  intros Hii Hi' C C'.
  destruct (cand_spec _ _ _ _ s2_nonempty _ _ _ C) as (Hj & _ & _ & _ & Hf).
  destruct (cand_spec _ _ _ _ s2_nonempty _ _ _ C') as (Hj' & _ & _ & Hm' & _).
  destruct (le_lt_dec j j') as [L|L]; [exact L|exfalso].
  specialize (Hf j' L). specialize (Hm' j Hj).
  pose proof (sorted_nth s2 s2_sorted j' j L Hj) as Hab.
  pose proof (sorted_le_nth s1 s1_sorted i i' Hii Hi') as Hx.
  unfold D in *. revert Hf Hm'. unfold Rabs.
  repeat destruct (Rcase_abs _); intros; lra.
Qed.

(* S2 in full: the pairs are strictly increasing in BOTH indices (time order on both sides) *)
Definition lt_both (p q : nat * nat) := (fst p < fst q)%nat /\ (snd p < snd q)%nat.
Theorem matching_time_order : StronglySorted lt_both (matching s1 s2 maxd off).
Proof.
  pose proof (matching_sorted s1 s2 maxd off) as S.
  pose proof (matching_injective s1 s2 maxd off) as ND.
  assert (Hsound := matching_sound s1 s2 maxd off s2_nonempty).
  set (m := matching s1 s2 maxd off) in *.
  assert (K : forall p q, In p m -> In q m -> lt1 p q -> lt_both p q).
  { intros [i j] [i' j'] Ip Iq L. unfold lt1, lt_both in *. cbn in *. split; [exact L|].
    destruct (Hsound _ _ Ip) as (_ & _ & _ & _ & C).
    destruct (Hsound _ _ Iq) as (Hi' & _ & _ & _ & C').
    pose proof (nearest_monotone i i' j j' _ _ ltac:(lia) Hi' C C') as Le.
    assert (j <> j').
    { intros E. pose proof (NoDup_map_eq snd m (i, j) (i', j') ND Ip Iq E) as E2.
      injection E2 as ->. lia. }
    lia. }
  clearbody m. clear -S K. induction S as [|p r S IH F]; [constructor|].
  constructor.
  - apply IH. intros; apply K; try (now right); assumption.
  - rewrite Forall_forall in *. intros q Hq. apply K; [now left|now right|exact (F q Hq)].
Qed.
End TimeOrder.

(* ---------- associate_trajectories ---------- *)
Section Associate.
Context {A : Type}.
Variables (t1 t2 : list (R * A)) (maxd off : R).

Lemma reduce_in_range (t : list (R * A)) ids : Forall (fun i => (i < length t)%nat) ids ->
  length (reduce_to_ids t ids) = length ids /\
  forall k i, nth_error ids k = Some i -> nth_error (reduce_to_ids t ids) k = nth_error t i.
Proof.
  induction 1 as [|i r Hi F IH]; cbn; [split; [reflexivity|intros [|k] i; discriminate]|].
  destruct (nth_error t i) as [x|] eqn:E.
  2:{ apply nth_error_None in E. lia. }
  destruct IH as [IH1 IH2]. cbn. split; [now rewrite IH1|].
  intros [|k] i'; cbn; [intros H; injection H as <-; now rewrite E|apply IH2].
Qed.

(* Both results have the length of the pair list; the k-th result poses are the input poses
   (stamp and payload together) at the k-th index pair; the pairs are exactly the matching of
   the shorter against the longer stamp list with the offset sign the code uses; "nothing
   matches" is the error. *)
Definition swap_pairs (m : list (nat * nat)) := map (fun p => (snd p, fst p)) m.
Definition assoc_pairs : list (nat * nat) :=
  if Nat.ltb (length t1) (length t2)
  then matching (stamps t1) (stamps t2) maxd off
  else swap_pairs (matching (stamps t2) (stamps t1) maxd (- off)).

Theorem associate_spec : t1 <> [] -> t2 <> [] ->
  match associate t1 t2 maxd off with
  | None => assoc_pairs = []
  | Some (r1, r2) =>
      assoc_pairs <> [] /\
      length r1 = length assoc_pairs /\ length r2 = length assoc_pairs /\
      forall k i j, nth_error assoc_pairs k = Some (i, j) ->
        nth_error r1 k = nth_error t1 i /\ nth_error r2 k = nth_error t2 j
  end.
Proof.
  intros N1 N2. unfold associate, assoc_pairs. rnum.
  assert (S1 : stamps t1 <> []) by (destruct t1; cbn; congruence).
  assert (S2 : stamps t2 <> []) by (destruct t2; cbn; congruence).
  destruct (Nat.ltb (length t1) (length t2)).
  - set (m := matching (stamps t1) (stamps t2) maxd off).
    assert (Hs := matching_sound (stamps t1) (stamps t2) maxd off S2). fold m in Hs.
    assert (F1 : Forall (fun i => (i < length t1)%nat) (map fst m)).
    { rewrite Forall_forall. intros i Hi. apply in_map_iff in Hi. destruct Hi as ([i' j] & <- & I).
      destruct (Hs _ _ I) as (H & _). unfold stamps in H. now rewrite map_length in H. }
    assert (F2 : Forall (fun j => (j < length t2)%nat) (map snd m)).
    { rewrite Forall_forall. intros j Hj. apply in_map_iff in Hj. destruct Hj as ([i j'] & <- & I).
      destruct (Hs _ _ I) as (_ & H & _). unfold stamps in H. now rewrite map_length in H. }
    destruct (reduce_in_range t1 _ F1) as [L1 E1]. destruct (reduce_in_range t2 _ F2) as [L2 E2].
    rewrite map_length in L1, L2.
    destruct m as [|p r] eqn:Em; [reflexivity|]. rewrite <- Em in *.
    split; [rewrite Em; discriminate|]. split; [exact L1|]. split; [exact L2|].
    intros k i j Hk. split; [apply E1|apply E2]; rewrite nth_error_map, Hk; reflexivity.
  - set (m := matching (stamps t2) (stamps t1) maxd (- off)).
    assert (Hs := matching_sound (stamps t2) (stamps t1) maxd (- off) S1). fold m in Hs.
    assert (F1 : Forall (fun i => (i < length t2)%nat) (map fst m)).
    { rewrite Forall_forall. intros i Hi. apply in_map_iff in Hi. destruct Hi as ([i' j] & <- & I).
      destruct (Hs _ _ I) as (H & _). unfold stamps in H. now rewrite map_length in H. }
    assert (F2 : Forall (fun j => (j < length t1)%nat) (map snd m)).
    { rewrite Forall_forall. intros j Hj. apply in_map_iff in Hj. destruct Hj as ([i j'] & <- & I).
      destruct (Hs _ _ I) as (_ & H & _). unfold stamps in H. now rewrite map_length in H. }
    destruct (reduce_in_range t2 _ F1) as [L1 E1]. destruct (reduce_in_range t1 _ F2) as [L2 E2].
    rewrite map_length in L1, L2. unfold swap_pairs.
    destruct m as [|p r] eqn:Em; [reflexivity|]. rewrite <- Em in *.
    split; [rewrite Em; discriminate|]. rewrite map_length.
    split; [exact L2|]. split; [exact L1|].
    intros k i j Hk. rewrite nth_error_map in Hk.
    destruct (nth_error m k) as [[a b]|] eqn:Ek; [|discriminate]. cbn in Hk. injection Hk as <- <-.
    split; [apply E2|apply E1]; rewrite nth_error_map, Ek; reflexivity.
Qed.

(* whichever input is longer, the pair condition is |t1_i - (t2_j + off)| <= max_diff *)
Theorem associate_offset_sign i j : t1 <> [] -> t2 <> [] -> In (i, j) assoc_pairs ->
  Rabs (nth i (stamps t1) 0 - (nth j (stamps t2) 0 + off)) <= maxd.
Proof.
  intros N1 N2. unfold assoc_pairs.
  assert (S1 : stamps t1 <> []) by (destruct t1; cbn; congruence).
  assert (S2 : stamps t2 <> []) by (destruct t2; cbn; congruence).
  destruct (Nat.ltb (length t1) (length t2)); intros I.
  - destruct (matching_sound _ _ _ _ S2 _ _ I) as (_ & _ & H & _). unfold D in H.
    rewrite <- Rabs_Ropp. replace (- (nth i (stamps t1) 0 - (nth j (stamps t2) 0 + off)))
      with (nth j (stamps t2) 0 + off - nth i (stamps t1) 0) by ring. exact H.
  - unfold swap_pairs in I. apply in_map_iff in I. destruct I as ([a b] & E & I). cbn in E.
    injection E as <- <-.
    destruct (matching_sound _ _ _ _ S1 _ _ I) as (_ & _ & H & _). unfold D in H.
    replace (nth b (stamps t1) 0 - (nth a (stamps t2) 0 + off))
      with (nth b (stamps t1) 0 + - off - nth a (stamps t2) 0) by ring. exact H.
Qed.
(* both associated trajectories come out in increasing time order (no pose of either used twice) *)
Lemma sorted_lt_le (l : list R) : StronglySorted Rlt l -> StronglySorted Rle l.
Proof.
  induction 1 as [|a r S IH F]; constructor; [exact IH|]. eapply Forall_impl; [|exact F]. intros b Hb. now apply Rlt_le.
Qed.
Lemma swap_sorted (m : list (nat * nat)) : StronglySorted lt_both m -> StronglySorted lt_both (swap_pairs m).
Proof.
  induction 1 as [|p r S IH F]; cbn; constructor; [exact IH|].
  rewrite Forall_forall in *. intros q Hq. apply in_map_iff in Hq. destruct Hq as (q0 & <- & Hq0).
  destruct (F q0 Hq0) as [Ha Hb]. split; cbn; assumption.
Qed.
Theorem associate_time_order : t1 <> [] -> t2 <> [] ->
  StronglySorted Rlt (stamps t1) -> StronglySorted Rlt (stamps t2) -> StronglySorted lt_both assoc_pairs.
Proof.
  intros N1 N2 S1 S2. unfold assoc_pairs.
  assert (E1 : stamps t1 <> []) by (destruct t1; cbn; congruence).
  assert (E2 : stamps t2 <> []) by (destruct t2; cbn; congruence).
  destruct (Nat.ltb (length t1) (length t2)).
  - apply matching_time_order; [exact E2|now apply sorted_lt_le|exact S2].
  - apply swap_sorted. apply matching_time_order; [exact E1|now apply sorted_lt_le|exact S1].
Qed.
End Associate.

(* ---------- regression witness for finding F2 (pre-repair code) ---------- *)
Module OldWitness.
Import PrimFloat.
Local Open Scope float_scope.
Definition w_s1 : list float := [0; 0x1p-10].
Definition w_s2 : list float := [0; 1; 2].
Definition w_maxd : float := 0x1p-6.
Definition w_off : float := 0.
(* the old loop, run in binary64 exactly as numpy does, uses pose 0 of the longer list twice *)
Lemma matching_old_uses_pose_twice :
  matching_old w_s1 w_s2 w_maxd w_off = [(0, 0); (1, 0)]%nat.
Proof. vm_compute. reflexivity. Qed.
Lemma matching_new_on_witness :
  matching w_s1 w_s2 w_maxd w_off = [(0, 0)]%nat.
Proof. vm_compute. reflexivity. Qed.
End OldWitness.

(* ---------- the executable checker is sound, and the model passes it ---------- *)
Lemma incr_b_sorted l : incr_b l = true -> StronglySorted lt l.
Proof.
  induction l as [|a r IH]; [constructor|]. destruct r as [|b r']; [repeat constructor|].
  cbn [incr_b]. intros H. apply andb_prop in H. destruct H as [H1 H2]. apply Nat.ltb_lt in H1.
  specialize (IH H2). constructor; [exact IH|].
  inversion IH as [|? ? S F]; subst. constructor; [exact H1|].
  eapply Forall_impl; [|exact F]. cbn. intros; lia.
Qed.

Theorem match_spec_b_sound (s1 s2 : list R) maxd off m :
  match_spec_b s1 s2 maxd off m = true ->
  (forall i j, In (i, j) m -> (i < length s1)%nat /\ (j < length s2)%nat /\ D s1 s2 off i j <= maxd /\
     forall k, (k < length s2)%nat -> D s1 s2 off i j <= D s1 s2 off i k) /\
  StronglySorted lt (map fst m) /\ StronglySorted lt (map snd m) /\
  (forall i j d, (i < length s1)%nat -> candR s1 s2 maxd off i = Some (j, d) -> exists i', In (i', j) m).
Proof.
  unfold match_spec_b. intros H.
  apply andb_prop in H. destruct H as [H Hc]. apply andb_prop in H. destruct H as [H H2].
  apply andb_prop in H. destruct H as [H0 H1].
  split; [|split; [now apply incr_b_sorted|split; [now apply incr_b_sorted|]]].
  - intros i j I. rewrite forallb_forall in H0. specialize (H0 _ I). unfold pair_ok_b in H0. cbn [fst snd] in H0.
    apply andb_prop in H0. destruct H0 as [H0 Hn]. apply andb_prop in H0. destruct H0 as [H0 Hd].
    apply andb_prop in H0. destruct H0 as [Hi Hj]. apply Nat.ltb_lt in Hi, Hj.
    unfold dist in *. rnum. apply Rleb_true in Hd. repeat split; try assumption.
    intros k Hk. rewrite forallb_forall in Hn. specialize (Hn k). apply Rleb_true. apply Hn.
    apply in_seq. lia.
  - intros i j d Hi C. unfold complete_b in Hc. rewrite forallb_forall in Hc.
    specialize (Hc i ltac:(apply in_seq; lia)). unfold candR in C. rnum. rewrite C in Hc.
    apply existsb_exists in Hc. destruct Hc as ([i' j'] & I & E). cbn in E. apply Nat.eqb_eq in E. subst j'.
    now exists i'.
Qed.
