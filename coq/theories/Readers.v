(* Readers.v - character-level executable model of evo's text readers
   (evo/tools/file_interface.py: has_utf8_bom, csv_read_matrix, read_tum_trajectory_file,
   read_kitti_poses_file, read_euroc_csv_trajectory), of transformations.quaternion_matrix,
   lie.is_so3 / is_sim3 and of load_transform(_json)'s validation; and, independently of the
   code, the published file conventions as specifications (tum_spec, kitti_spec, euroc_spec).
   Numeric-token recognition (float() / numpy astype(float)) is the parameter [parse].
   A file is its sequence of bytes. Definitions only; proofs in ReadersProofs.v. *)
From Coq Require Import Ascii String.
From Coq Require Import List Arith Bool ZArith.
From Evo Require Import Num Linalg FileFmt.
Import ListNotations.
Local Open Scope num_scope.

Definition chars := list ascii.
Definition LF : ascii := "010"%char.
Definition CR : ascii := "013"%char.
Definition SP : ascii := " "%char.
Definition COMMA : ascii := ","%char.
Definition HASH : ascii := "#"%char.
Definition BOM : chars := ["239"; "187"; "191"]%char.

(* ============================== the code-shaped model ============================== *)

(* has_utf8_bom: at least 3 bytes and the first three are EF BB BF *)
Definition has_bom (f : chars) : bool :=
  match f with
  | a :: b :: c :: _ => Ascii.eqb a "239" && Ascii.eqb b "187" && Ascii.eqb c "191"
  | _ => false
  end.

(* text mode (open(path), TextIOWrapper): universal newlines, "\r\n" and "\r" become "\n" *)
Fixpoint universal_nl (s : chars) : chars :=
  match s with
  | [] => []
  | c :: r =>
      if Ascii.eqb c CR
      then match r with
           | c' :: r' => if Ascii.eqb c' LF then LF :: universal_nl r' else LF :: universal_nl r
           | [] => [LF]
           end
      else c :: universal_nl r
  end.

(* iterating over the text yields lines; csv.reader drops the terminator.  [lines] returns the lines
   without terminators; text after the last "\n" is a line only if non-empty *)
Fixpoint lines (s : chars) : list chars :=
  match s with
  | [] => []
  | c :: r => if Ascii.eqb c LF then [] :: lines r
              else match lines r with
                   | [] => [[c]]
                   | l :: ls => (c :: l) :: ls
                   end
  end.

(* csv.reader(delimiter=d) on a quote-free line: split at every d; an empty line is the empty row *)
Fixpoint split (d : ascii) (s : chars) : list chars :=
  match s with
  | [] => [[]]
  | c :: r => if Ascii.eqb c d then [] :: split d r
              else match split d r with
                   | [] => [[c]]
                   | f :: fs => (c :: f) :: fs
                   end
  end.
Definition csv_row (d : ascii) (line : chars) : list chars :=
  match line with [] => [] | _ => split d line end.

Definition is_comment (line : chars) : bool :=
  match line with c :: _ => Ascii.eqb c HASH | [] => false end.

(* how the file is handed over: a path (BOM skipped by seek(3)) or an open text handle (no byte position) *)
Inductive source := FromPath | FromHandle.

Definition decode (src : source) (f : chars) : chars :=
  universal_nl (match src with FromPath => if has_bom f then skipn 3 f else f | FromHandle => f end).

Definition csv_read_matrix (src : source) (d : ascii) (f : chars) : list (list chars) :=
  map (csv_row d) (filter (fun l => negb (is_comment l)) (lines (decode src f))).

Section ReadersModel.
Context {T : Type} {ops : NumOps T}.
Variable parse : chars -> option T.

Definition read_tum_file (src : source) (f : chars) : option (list (TP T)) :=
  read_tum parse (csv_read_matrix src SP f).
Definition read_kitti_file (src : source) (f : chars) : option (list (list T)) :=
  read_kitti parse (csv_read_matrix src SP f).
Definition read_euroc_file (src : source) (f : chars) : option (list (TP T)) :=
  read_euroc parse (csv_read_matrix src COMMA f).

(* ============================== the conventions, written independently ============================== *)

(* lines are separated by LF or CRLF; nothing follows the last terminator *)
Fixpoint spec_lines_aux (cur : chars) (s : chars) : list chars :=
  match s with
  | [] => match cur with [] => [] | _ => [rev cur] end
  | c :: r => if Ascii.eqb c LF then rev cur :: spec_lines_aux [] r else spec_lines_aux (c :: cur) r
  end.
Definition strip_cr (l : chars) : chars :=
  match rev l with
  | c :: r => if Ascii.eqb c CR then rev r else l
  | [] => l
  end.
Definition spec_lines (f : chars) : list chars := map strip_cr (spec_lines_aux [] f).

(* the fields of a line: maximal pieces between delimiters (a line with k delimiters has k+1 fields) *)
Fixpoint fields_aux (d : ascii) (cur : chars) (s : chars) : list chars :=
  match s with
  | [] => [rev cur]
  | c :: r => if Ascii.eqb c d then rev cur :: fields_aux d [] r else fields_aux d (c :: cur) r
  end.
Definition fields (d : ascii) (line : chars) : list chars := fields_aux d [] line.

(* the data lines: everything that is not a '#' comment line; a UTF-8 byte order mark in front of the
   file is not part of the text (only a path gives access to the bytes) *)
Definition without_bom (src : source) (f : chars) : chars :=
  match src, f with
  | FromPath, a :: b :: c :: r => if Ascii.eqb a "239" && Ascii.eqb b "187" && Ascii.eqb c "191" then r else f
  | _, _ => f
  end.
Definition data_lines (src : source) (f : chars) : list chars :=
  filter (fun l => match l with c :: _ => negb (Ascii.eqb c HASH) | [] => true end) (spec_lines (without_bom src f)).

(* a data row of exactly k numeric fields *)
Definition numeric_row (d : ascii) (k : nat) (line : chars) : option (list T) :=
  let fs := fields d line in
  if Nat.eqb (length fs) k then traverse parse fs else None.

(* TUM: "timestamp tx ty tz qx qy qz qw", space separated *)
Definition tum_pose (v : list T) : option (TP T) :=
  match v with
  | [t; x; y; z; qx; qy; qz; qw] => Some (mkTP t [x; y; z] [qw; qx; qy; qz])
  | _ => None
  end.
Definition tum_spec (src : source) (f : chars) : option (list (TP T)) :=
  match data_lines src f with
  | [] => None
  | rows => traverse (fun line => match numeric_row SP 8 line with Some v => tum_pose v | None => None end) rows
  end.

(* KITTI: 12 entries = the first three rows of the 4x4 pose matrix, row-major *)
Definition kitti_pose (v : list T) : option (list T) :=
  match v with
  | [a; b; c; d; e; f; g; h; i; j; k; l] => Some [a; b; c; d;  e; f; g; h;  i; j; k; l;  n0; n0; n0; n1]
  | _ => None
  end.
Definition kitti_spec (src : source) (f : chars) : option (list (list T)) :=
  match data_lines src f with
  | [] => None
  | rows => traverse (fun line => match numeric_row SP 12 line with Some v => kitti_pose v | None => None end) rows
  end.

(* EuRoC: a comma separated table of numbers with at least 8 columns:
   "timestamp[ns], p_x, p_y, p_z, q_w, q_x, q_y, q_z, ..." *)
Definition euroc_pose (v : list T) : option (TP T) :=
  match v with
  | t :: x :: y :: z :: qw :: qx :: qy :: qz :: _ => Some (mkTP (t /! ns_per_s) [x; y; z] [qw; qx; qy; qz])
  | _ => None
  end.
Definition euroc_spec (src : source) (f : chars) : option (list (TP T)) :=
  match data_lines src f with
  | [] => None
  | (first :: _) as rows =>
      let k := length (fields COMMA first) in
      if Nat.ltb k 8 then None
      else traverse (fun line => match numeric_row COMMA k line with Some v => euroc_pose v | None => None end) rows
  end.

End ReadersModel.

(* the files the conventions talk about: no quote character, and CR only as part of CRLF or as the last byte *)
Definition DQ : ascii := """"%char.
Fixpoint no_lone_cr (s : chars) : bool :=
  match s with
  | [] => true
  | c :: r => (if Ascii.eqb c CR then match r with c' :: _ => Ascii.eqb c' LF | [] => true end else true) && no_lone_cr r
  end.

(* ============================== quaternions and Sim(3) ============================== *)
Section Quat.
Context {T : Type} {ops : NumOps T}.

Variable eps4 : T.     (* _EPS = numpy.finfo(float).eps * 4 *)
Definition two : T := n1 +! n1.

(* transformations.quaternion_matrix([w, x, y, z])[:3, :3] *)
Definition quaternion_matrix (w x y z : T) : M3 T :=
  let n := w *! w +! x *! x +! y *! y +! z *! z in
  if n <?! eps4 then I3
  else
    let k := nsqrt (two /! n) in
    let qw := w *! k in let qx := x *! k in let qy := y *! k in let qz := z *! k in
    mkM3 (n1 -! qy *! qy -! qz *! qz) (qx *! qy -! qz *! qw) (qx *! qz +! qy *! qw)
         (qx *! qy +! qz *! qw) (n1 -! qx *! qx -! qz *! qz) (qy *! qz -! qx *! qw)
         (qx *! qz -! qy *! qw) (qy *! qz +! qx *! qw) (n1 -! qx *! qx -! qy *! qy).

(* numpy.allclose(a, b, atol=1e-6) with the default rtol=1e-5:  |a - b| <= atol + rtol * |b| *)
Variable atol rtol : T.
Definition close_to (a b : T) : bool := nabs (a -! b) <=?! (atol +! rtol *! nabs b).

(* lie.is_so3 *)
Definition is_so3 (r : M3 T) : bool :=
  let g := mm (mt r) r in
  close_to (det r) n1 &&
  (close_to (m00 g) n1 && close_to (m01 g) n0 && close_to (m02 g) n0 &&
   close_to (m10 g) n0 && close_to (m11 g) n1 && close_to (m12 g) n0 &&
   close_to (m20 g) n0 && close_to (m21 g) n0 && close_to (m22 g) n1).

(* lie.is_sim3(p) for a 4x4 matrix given as (upper-left block, bottom row); [s] is the value of
   sim3_scale(p) = det(block) ** (1/3).  For det <= 0 numpy produces nan (negative base) or inf
   (1/0) and every comparison fails: modelled by the explicit test on the determinant. *)
Definition is_sim3 (s : T) (blk : M3 T) (bottom : list T) : bool :=
  (n0 <?! det blk) && is_so3 (mscale (n1 /! s) blk) &&
  match bottom with
  | [a; b; c; d] => neqb a n0 && neqb b n0 && neqb c n0 && neqb d n1
  | _ => false
  end.

(* load_transform: shape (4,4) and is_sim3; a matrix is its list of rows *)
Definition load_transform_ok (s : T) (rows : list (list T)) : bool :=
  match rows with
  | [[a; b; c; _]; [d; e; f; _]; [g; h; i; _]; bottom] => is_sim3 s (mkM3 a b c d e f g h i) bottom
  | _ => false
  end.

(* load_transform_json: lie.sim3(quaternion_matrix([qw,qx,qy,qz])[:3,:3], [x,y,z], scale) *)
Definition transform_of_json (x y z qx qy qz qw scale : T) : Pose T :=
  mkPose (mscale scale (quaternion_matrix qw qx qy qz)) (mkV3 x y z).

End Quat.

(* binary64 constants of the code *)
Definition F_eps4 : PrimFloat.float := Eval vm_compute in PrimFloat.div PrimFloat.one (PrimFloat.of_uint63 (Uint63.of_Z 1125899906842624)).
Definition F_atol : PrimFloat.float := Eval vm_compute in PrimFloat.div PrimFloat.one (PrimFloat.of_uint63 (Uint63.of_Z 1000000)).
Definition F_rtol : PrimFloat.float := Eval vm_compute in PrimFloat.div PrimFloat.one (PrimFloat.of_uint63 (Uint63.of_Z 100000)).

(* numeric-token oracle for the correspondence runs: the finite table float() produced *)
Fixpoint chars_eqb (a b : chars) : bool :=
  match a, b with
  | [], [] => true
  | x :: a', y :: b' => Ascii.eqb x y && chars_eqb a' b'
  | _, _ => false
  end.
Fixpoint parse_tbl {V} (tbl : list (string * V)) (tok : chars) : option V :=
  match tbl with
  | [] => None
  | (k, v) :: r => if chars_eqb (list_ascii_of_string k) tok then Some v else parse_tbl r tok
  end.
(* bytes given by number (for BOM, CR, LF, non-ASCII) *)
Definition bs (l : list nat) : string := string_of_list_ascii (map ascii_of_nat l).

Section RView.
Context {T : Type}.
Definition M3_view (m : M3 T) : list T := [m00 m; m01 m; m02 m; m10 m; m11 m; m12 m; m20 m; m21 m; m22 m].
Definition pose_view (p : Pose T) : list T * list T := (M3_view (prot p), [vx (ptr p); vy (ptr p); vz (ptr p)]).
End RView.

(* helpers for the case files of the correspondence runs *)
Definition NL : string := bs [10].
Definition CRLF : string := bs [13; 10].
Section RView2.
Context {T : Type} {ops : NumOps T}.
Definition pose_rows (p : Pose T) : list (list T) :=
  let r := prot p in let t := ptr p in
  [[m00 r; m01 r; m02 r; vx t]; [m10 r; m11 r; m12 r; vy t]; [m20 r; m21 r; m22 r; vz t]; [n0; n0; n0; n1]].
End RView2.
