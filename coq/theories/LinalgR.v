(* LinalgR.v - real-number facts about Linalg: ring identities, orthogonal matrices, SE(3) poses. *)
From Coq Require Import Reals Lra Psatz Nsatz List.
From Evo Require Import Num Linalg.
Import ListNotations.
Local Open Scope R_scope.

Notation V3R := (V3 R).
Notation M3R := (M3 R).
Notation PoseR := (Pose R).

Ltac lin_unfold := cbv [prel pmul pinv pI sim3 dist norm nrm2 fnorm2 frob dot det tr mm mt mv I3 V0 M0
  diag madd msub mscale outer vadd vsub vscale vopp prot ptr vx vy vz m00 m01 m02 m10 m11 m12 m20 m21 m22
  n0 n1 nadd nsub nmul ndiv nopp nsqrt nabs nleb nltb neqb nofZ R_ops] in *.
Ltac m3eq := lin_unfold; f_equal; ring.
Ltac v3eq := lin_unfold; f_equal; ring.

Lemma M3_ext (a b : M3R) : m00 a = m00 b -> m01 a = m01 b -> m02 a = m02 b -> m10 a = m10 b -> m11 a = m11 b ->
  m12 a = m12 b -> m20 a = m20 b -> m21 a = m21 b -> m22 a = m22 b -> a = b.
Proof. destruct a, b; cbn; intros; subst; reflexivity. Qed.
Lemma V3_ext (a b : V3R) : vx a = vx b -> vy a = vy b -> vz a = vz b -> a = b.
Proof. destruct a, b; cbn; intros; subst; reflexivity. Qed.
Lemma Pose_ext (a b : PoseR) : prot a = prot b -> ptr a = ptr b -> a = b.
Proof. destruct a, b; cbn; intros; subst; reflexivity. Qed.

Lemma mm_assoc (a b c : M3R) : mm (mm a b) c = mm a (mm b c). Proof. destruct a,b,c; m3eq. Qed.
Lemma mt_mm (a b : M3R) : mt (mm a b) = mm (mt b) (mt a). Proof. destruct a,b; m3eq. Qed.
Lemma mt_mt (a : M3R) : mt (mt a) = a. Proof. destruct a; reflexivity. Qed.
Lemma mm_I_l (a : M3R) : mm I3 a = a. Proof. destruct a; m3eq. Qed.
Lemma mm_I_r (a : M3R) : mm a I3 = a. Proof. destruct a; m3eq. Qed.
Lemma mt_I : mt (@I3 R _) = I3. Proof. reflexivity. Qed.
Lemma mv_mm (a b : M3R) v : mv (mm a b) v = mv a (mv b v). Proof. destruct a,b,v; v3eq. Qed.
Lemma mv_I (v : V3R) : mv I3 v = v. Proof. destruct v; v3eq. Qed.
Lemma mv_vadd (a : M3R) u v : mv a (vadd u v) = vadd (mv a u) (mv a v). Proof. destruct a,u,v; v3eq. Qed.
Lemma mv_vsub (a : M3R) u v : mv a (vsub u v) = vsub (mv a u) (mv a v). Proof. destruct a,u,v; v3eq. Qed.
Lemma mv_vopp (a : M3R) u : mv a (vopp u) = vopp (mv a u). Proof. destruct a,u; v3eq. Qed.
Lemma mv_vscale (a : M3R) k u : mv a (vscale k u) = vscale k (mv a u). Proof. destruct a,u; v3eq. Qed.
Lemma vadd_assoc (a b c : V3R) : vadd (vadd a b) c = vadd a (vadd b c). Proof. destruct a,b,c; v3eq. Qed.
Lemma vadd_comm (a b : V3R) : vadd a b = vadd b a. Proof. destruct a,b; v3eq. Qed.
Lemma vadd_0_r (a : V3R) : vadd a V0 = a. Proof. destruct a; v3eq. Qed.
Lemma vadd_0_l (a : V3R) : vadd V0 a = a. Proof. destruct a; v3eq. Qed.
Lemma vadd_vopp (a : V3R) : vadd (vopp a) a = V0. Proof. destruct a; v3eq. Qed.
Lemma det_mm (a b : M3R) : det (mm a b) = det a * det b. Proof. destruct a,b; lin_unfold; ring. Qed.
Lemma det_mt (a : M3R) : det (mt a) = det a. Proof. destruct a; lin_unfold; ring. Qed.
Lemma det_I : det (@I3 R _) = 1. Proof. lin_unfold; ring. Qed.
Lemma det_mscale k (a : M3R) : det (mscale k a) = k * k * k * det a. Proof. destruct a; lin_unfold; ring. Qed.
Lemma tr_mm_comm (a b : M3R) : tr (mm a b) = tr (mm b a). Proof. destruct a,b; lin_unfold; ring. Qed.
Lemma tr_mt (a : M3R) : tr (mt a) = tr a. Proof. destruct a; lin_unfold; ring. Qed.
Lemma frob_tr (a b : M3R) : frob a b = tr (mm (mt a) b). Proof. destruct a,b; lin_unfold; ring. Qed.
Lemma nrm2_nonneg (v : V3R) : 0 <= nrm2 v. Proof. destruct v as [x y z]; lin_unfold; nra. Qed.
Lemma fnorm2_nonneg (a : M3R) : 0 <= fnorm2 a. Proof. destruct a as [a b c d e f g h i]; lin_unfold; repeat apply Rplus_le_le_0_compat; nra. Qed.
Lemma fnorm2_mt (a : M3R) : fnorm2 (mt a) = fnorm2 a. Proof. destruct a; lin_unfold; ring. Qed.

(* orthogonal matrices and rotations *)
Definition Orth (m : M3R) : Prop := mm (mt m) m = I3 /\ mm m (mt m) = I3.
Definition SO3 (m : M3R) : Prop := Orth m /\ det m = 1.
Definition SE3 (p : PoseR) : Prop := SO3 (prot p).

Lemma Orth_I : Orth I3. Proof. split; m3eq. Qed.
Lemma Orth_mt m : Orth m -> Orth (mt m).
Proof. intros [H1 H2]; split; rewrite ?mt_mt; assumption. Qed.
Lemma Orth_mm a b : Orth a -> Orth b -> Orth (mm a b).
Proof.
  intros [A1 A2] [B1 B2]; split; rewrite mt_mm.
  - rewrite mm_assoc, <- (mm_assoc (mt a) a b), A1, mm_I_l. exact B1.
  - rewrite mm_assoc, <- (mm_assoc b (mt b) (mt a)), B2, mm_I_l. exact A2.
Qed.
Lemma Orth_det_sq m : Orth m -> det m * det m = 1.
Proof. intros [H _]. rewrite <- (det_mt m) at 1. rewrite <- det_mm, H. apply det_I. Qed.
Lemma Orth_det m : Orth m -> det m = 1 \/ det m = -1.
Proof. intros H. pose proof (Orth_det_sq m H). assert (E : (det m - 1)*(det m + 1) = 0) by lra.
  destruct (Rmult_integral _ _ E); [left|right]; lra. Qed.
Lemma SO3_I : SO3 I3. Proof. split; [apply Orth_I|apply det_I]. Qed.
Lemma SO3_mt m : SO3 m -> SO3 (mt m).
Proof. intros [O D]; split; [now apply Orth_mt|now rewrite det_mt]. Qed.
Lemma SO3_mm a b : SO3 a -> SO3 b -> SO3 (mm a b).
Proof. intros [Oa Da] [Ob Db]; split; [now apply Orth_mm|rewrite det_mm, Da, Db; ring]. Qed.
Lemma nrm2_mv_orth m v : Orth m -> nrm2 (mv m v) = nrm2 v.
Proof.
  intros [H _]. destruct m as [a b c d e f g h i], v as [x y z]. lin_unfold. injection H; clear H; intros. nsatz.
Qed.
Lemma fnorm2_mm_orth_l q a : Orth q -> fnorm2 (mm q a) = fnorm2 a.
Proof.
  intros [H _]. unfold fnorm2. rewrite !frob_tr, mt_mm, mm_assoc, <- (mm_assoc (mt q) q a), H, mm_I_l. reflexivity.
Qed.
Lemma fnorm2_mm_orth_r q a : Orth q -> fnorm2 (mm a q) = fnorm2 a.
Proof.
  intros O. rewrite <- fnorm2_mt, mt_mm. rewrite fnorm2_mm_orth_l by now apply Orth_mt. apply fnorm2_mt.
Qed.

(* poses *)
Lemma pmul_assoc (a b c : PoseR) : pmul (pmul a b) c = pmul a (pmul b c).
Proof.
  apply Pose_ext; cbn [pmul prot ptr]; [apply mm_assoc|].
  rewrite mv_mm, mv_vadd, vadd_assoc. reflexivity.
Qed.
Lemma pmul_I_l (a : PoseR) : pmul pI a = a.
Proof. destruct a as [r t]. apply Pose_ext; cbn [pmul pI prot ptr]; [apply mm_I_l|]. rewrite mv_I. apply vadd_0_r. Qed.
Lemma pmul_I_r (a : PoseR) : pmul a pI = a.
Proof. destruct a as [[] []]. apply Pose_ext; [m3eq|v3eq]. Qed.
Lemma pinv_left (p : PoseR) : Orth (prot p) -> pmul (pinv p) p = pI.
Proof.
  intros [H _]. apply Pose_ext; cbn [pmul pinv pI prot ptr]; [exact H|].
  rewrite vadd_comm. apply vadd_vopp.
Qed.
Lemma pinv_right (p : PoseR) : Orth (prot p) -> pmul p (pinv p) = pI.
Proof.
  intros [_ H]. apply Pose_ext; cbn [pmul pinv pI prot ptr]; [exact H|].
  rewrite mv_vopp, <- mv_mm, H, mv_I. apply vadd_vopp.
Qed.
Lemma vopp_vadd (a b : V3R) : vopp (vadd a b) = vadd (vopp a) (vopp b). Proof. destruct a,b; v3eq. Qed.
Lemma pinv_pmul (p q : PoseR) : Orth (prot p) -> pinv (pmul p q) = pmul (pinv q) (pinv p).
Proof.
  intros [H _]. apply Pose_ext; cbn [pmul pinv prot ptr]; [apply mt_mm|].
  rewrite mt_mm, mv_mm, mv_vadd, <- (mv_mm (mt (prot p)) (prot p)), H, mv_I.
  rewrite mv_vadd, vopp_vadd, mv_vopp, vadd_comm. reflexivity.
Qed.
(* relative poses are invariant under a common left rigid motion *)
Lemma prel_left_invariant (t a b : PoseR) : Orth (prot t) -> prel (pmul t a) (pmul t b) = prel a b.
Proof.
  intros O. unfold prel. rewrite pinv_pmul by exact O.
  rewrite pmul_assoc, <- (pmul_assoc (pinv t) t b), pinv_left by exact O. now rewrite pmul_I_l.
Qed.
Lemma prel_self (a : PoseR) : Orth (prot a) -> prel a a = pI.
Proof. apply pinv_left. Qed.
Lemma SE3_pmul a b : SE3 a -> SE3 b -> SE3 (pmul a b). Proof. apply SO3_mm. Qed.
Lemma SE3_pinv a : SE3 a -> SE3 (pinv a). Proof. apply SO3_mt. Qed.
Lemma SE3_pI : SE3 pI. Proof. apply SO3_I. Qed.

(* ---------- scalar facts about rotations (used by C09 angle bounds and C03 trace bound) ---------- *)
Section Rot.
Variables a b c d e f g h i : R.
Hypothesis c1 : a*a + d*d + g*g = 1.
Hypothesis c2 : b*b + e*e + h*h = 1.
Hypothesis c3 : c*c + f*f + i*i = 1.
Hypothesis c12 : a*b + d*e + g*h = 0.
Hypothesis c13 : a*c + d*f + g*i = 0.
Hypothesis c23 : b*c + e*f + h*i = 0.
Hypothesis r1 : a*a + b*b + c*c = 1.
Hypothesis r2 : d*d + e*e + f*f = 1.
Hypothesis r3 : g*g + h*h + i*i = 1.
Hypothesis r12 : a*d + b*e + c*f = 0.
Hypothesis r13 : a*g + b*h + c*i = 0.
Hypothesis r23 : d*g + e*h + f*i = 0.
Hypothesis det1 : a*(e*i - f*h) - b*(d*i - f*g) + c*(d*h - e*g) = 1.
Lemma rot_key : (h - f)*(h - f) + (c - g)*(c - g) + (d - b)*(d - b) = (1 + (a+e+i)) * (3 - (a+e+i)).
Proof. nsatz. Qed.
Lemma rot_tr_ge : -1 <= a + e + i.
Proof.
  pose proof rot_key as K.
  assert (Ha : a <= 1) by nra. assert (He : e <= 1) by nra. assert (Hi : i <= 1) by nra.
  assert (P : 0 <= (1 + (a+e+i)) * (3 - (a+e+i))).
  { rewrite <- K. clear. pose proof (Rle_0_sqr (h-f)); pose proof (Rle_0_sqr (c-g)); pose proof (Rle_0_sqr (d-b)); unfold Rsqr in *; lra. }
  destruct (Req_dec (a+e+i) 3) as [E|NE]; [lra|].
  assert (P3: 0 < 3 - (a+e+i)) by lra.
  destruct (Rle_dec (-1) (a+e+i)) as [L|L]; [exact L|].
  assert (N1: 1 + (a+e+i) < 0) by lra.
  pose proof (Rmult_lt_compat_r _ _ _ P3 N1) as M. lra.
Qed.
End Rot.

Lemma Orth_scalars (w : M3R) : Orth w ->
  let '(mkM3 a b c d e f g h i) := w in
  a*a + d*d + g*g = 1 /\ b*b + e*e + h*h = 1 /\ c*c + f*f + i*i = 1 /\
  a*b + d*e + g*h = 0 /\ a*c + d*f + g*i = 0 /\ b*c + e*f + h*i = 0 /\
  a*a + b*b + c*c = 1 /\ d*d + e*e + f*f = 1 /\ g*g + h*h + i*i = 1 /\
  a*d + b*e + c*f = 0 /\ a*g + b*h + c*i = 0 /\ d*g + e*h + f*i = 0.
Proof.
  destruct w as [a b c d e f g h i]. intros [H1 H2]. lin_unfold.
  injection H1; injection H2; intros. repeat split; lra.
Qed.

Lemma SO3_trace_bounds (w : M3R) : SO3 w -> -1 <= tr w <= 3.
Proof.
  intros [O D]. pose proof (Orth_scalars w O) as S.
  destruct w as [a b c d e f g h i]. destruct S as (c1&c2&c3&c12&c13&c23&r1&r2&r3&r12&r13&r23).
  lin_unfold. split.
  - apply (rot_tr_ge a b c d e f g h i); assumption.
  - assert (a <= 1) by nra. assert (e <= 1) by nra. assert (i <= 1) by nra. lra.
Qed.

(* ||R - I||_F^2 = 6 - 2 tr R for orthogonal R: a rotation with trace 3 is the identity *)
Lemma fnorm2_sub_I (w : M3R) : Orth w -> fnorm2 (msub w I3) = 6 - 2 * tr w.
Proof.
  intros O. pose proof (Orth_scalars w O) as S.
  destruct w as [a b c d e f g h i]. destruct S as (c1&c2&c3&_&_&_&_&_&_&_&_&_).
  lin_unfold. nsatz.
Qed.
Lemma fnorm2_zero (w : M3R) : fnorm2 w = 0 -> w = M0.
Proof.
  destruct w as [a b c d e f g h i]. lin_unfold. intros H.
  assert (forall x, 0 <= x * x) by (intros; nra).
  apply M3_ext; cbn; nra.
Qed.
Lemma Orth_tr3_is_I (w : M3R) : Orth w -> tr w = 3 -> w = I3.
Proof.
  intros O E. pose proof (fnorm2_sub_I w O) as F. rewrite E in F.
  assert (Z : fnorm2 (msub w I3) = 0) by lra. apply fnorm2_zero in Z.
  destruct w as [a b c d e f g h i]. lin_unfold. injection Z; intros. apply M3_ext; cbn; lra.
Qed.
