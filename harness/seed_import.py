"""Import an independently written seeded change from /tmp/seed_out_<P>/<X>.* into /verif/seeded/<P>-<X>/ after
re-verifying it: baseline tests unchanged with the change, demo passes without / fails with it, and record what
the property's check reports (python -m harness.seed_import C03 A [--tier quick])."""
import json
import os
import re
import shutil
import subprocess
import sys
import tempfile

VERIF = os.path.dirname(os.path.dirname(os.path.abspath(__file__)))


def sh(cmd, **kw):
    return subprocess.run(cmd, shell=True, stdout=subprocess.PIPE, stderr=subprocess.STDOUT, text=True, **kw)


def main():
    prop, x = sys.argv[1], sys.argv[2]
    chk_prop = os.environ.get("CHECK_WITH", prop)   # a change may be the business of a neighbouring property's check
    src = os.environ.get("SEED_OUT_PREFIX", "/tmp/seed_out_") + prop
    patch, demo, meta = (os.path.join(src, "%s%s" % (x, s)) for s in (".diff", "_demo.py", "_meta.json"))
    wt = tempfile.mkdtemp(prefix="seedimp_")
    os.rmdir(wt)
    assert sh("git -C /repo worktree add -q %s HEAD" % wt).returncode == 0
    try:
        env = "cd %s && HOME=$(mktemp -d) PYTHONPATH=%s" % (wt, wt)
        d0 = sh("%s /venv/bin/python -W ignore %s" % (env, demo)).returncode
        assert sh("git -C %s apply %s" % (wt, patch)).returncode == 0, "patch does not apply"
        tests = sh("%s /venv/bin/python -m pytest -q -p no:cacheprovider --timeout=900 --continue-on-collection-errors | tail -1" % env).stdout.strip()
        d1 = sh("%s /venv/bin/python -W ignore %s" % (env, demo)).returncode
        chk = sh("cd %s && EVO_REPO=%s ./check %s --tier quick" % (VERIF, wt, chk_prop))
        lines = [l for l in chk.stdout.split("\n") if l.startswith(("VIOLATION", "OK ", "KNOWN", "HARNESS"))]
        replay_detail = None
        m = re.search(r"replay=(\S+)", "\n".join(lines))
        if m and os.path.exists(m.group(1)):
            replay_detail = json.load(open(m.group(1))).get("detail")
    finally:
        # the mutated run rewrote generated translations and evidence from the mutated tree: restore the committed ones
        sh("git -C %s checkout -- coq/generated evidence" % VERIF)
        sh("git -C /repo worktree remove --force %s" % wt)
        shutil.rmtree(wt, ignore_errors=True)
    out = os.path.join(VERIF, "seeded", "%s-%s" % (prop, x))
    os.makedirs(out, exist_ok=True)
    shutil.copy(patch, os.path.join(out, "patch.diff"))
    shutil.copy(demo, os.path.join(out, "demo.py"))
    m0 = json.load(open(meta)) if os.path.exists(meta) else {}
    ok = ("82 passed" in tests) and d0 == 0 and d1 != 0
    m0.update({"property": prop, "origin": "written by an independent sub-agent that saw only the property text and a scratch worktree",
               "verified_by_lead": {"baseline_tests_with_change": tests, "demo_exit_without_change": d0, "demo_exit_with_change": d1,
                                    "accepted": ok,
                                    "commands": ["git worktree add <wt> HEAD; git -C <wt> apply patch.diff",
                                                 "pytest (BASELINE.json cmd) in <wt>", "python demo.py with PYTHONPATH=<wt>",
                                                 "EVO_REPO=<wt> ./check %s --tier quick" % chk_prop]},
               "check_result": {"check": chk_prop, "exit": chk.returncode, "lines": lines[:4], "first_replay_detail": replay_detail}})
    json.dump(m0, open(os.path.join(out, "meta.json"), "w"), indent=1)
    print(prop, x, "accepted" if ok else "REJECTED", "| check exit", chk.returncode, "|", (lines[0] if lines else "")[:120])


if __name__ == "__main__":
    main()
