import numpy as np, itertools
from evo.core import filters, lie_algebra as lie, metrics
from evo.core.units import Unit
def poses_from_steps(steps, rots=None):
    x=0.0; P=[]
    xs=[0.0]
    for s in steps: x+=s; xs.append(x)
    for k,x in enumerate(xs):
        R=np.eye(3) if rots is None else lie.so3_exp(np.array([0,0,1.0])*rots[k])
        P.append(lie.se3(R,np.array([x,0,0])))
    return P,xs
bad=0;tot=0
for n in range(2,7):
  for steps in itertools.product([0,1,2,3],repeat=n-1):
    P,xs=poses_from_steps(steps)
    for delta in [1,2,3,4,5]:
        tot+=1
        pairs=filters.filter_pairs_by_path(P,delta,0.0,False)
        # spec: chain
        ok=all(0<=i<j<n for i,j in pairs) and all(pairs[k][1]==pairs[k+1][0] for k in range(len(pairs)-1))
        for i,j in pairs:
            ok&= xs[j]-xs[i]>=delta and all(xs[m]-xs[i]<delta for m in range(i+1,j))
        # first start = first pose reaching delta from 0
        reach=[m for m in range(n) if xs[m]-xs[0]>=delta]
        if pairs:
            ok&= pairs[0][0]==reach[0]
            ok&= all(xs[m]-xs[pairs[-1][1]]<delta for m in range(pairs[-1][1],n))
        else:
            # no pairs: either never reach, or after first reach rest never reaches
            if reach:
                ok&= all(xs[m]-xs[reach[0]]<delta for m in range(reach[0],n))
        if not ok: bad+=1; print("BAD consec",steps,delta,pairs) if bad<5 else None
        for tol in [0,0.5,1]:
            ap=filters.filter_pairs_by_path(P,delta,tol,True)
            exp=[]
            for i in range(n-1):
                c=[(abs(xs[j]-xs[i]-delta),j) for j in range(i+1,n)]
                m=min(c)
                if m[0]<=tol: exp.append((i,m[1]))
            if ap!=exp: bad+=1; print("BAD allpairs",steps,delta,tol,ap,exp) if bad<10 else None
print("path",tot,bad)
# angle
bad=0
for n in range(2,6):
  for rs in itertools.product([0,1,2,3],repeat=n-1):
    ang=np.cumsum([0]+[r*np.pi/2 for r in rs])
    P,_=poses_from_steps([1]*(n-1),ang)
    for delta in [90,180]:
        pairs=filters.filter_pairs_by_angle(P,delta,0.0,True,False)
        # consecutive angles
        ca=[min(r,4-r)*90 for r in rs]
        exp=[];acc=0;start=0
        for k,a in enumerate(ca):
            acc+=a
            if acc>=delta: exp.append((start,k+1)); acc=0; start=k+1
        if pairs!=exp: bad+=1; print("BAD angle consec", rs, delta, pairs, exp)
        ap=filters.filter_pairs_by_angle(P,delta,delta*0.1,True,True)
        def rel(i,j):
            d=(sum(rs[i:j]))%4; return min(d,4-d)*90
        exp=[(i,j) for i in range(n-1) for j in range(i+1,n) if delta*0.9<=rel(i,j)<=delta*1.1]
        if ap!=exp: bad+=1; print("BAD angle all", rs, delta, ap, exp)
print("angle bad",bad)
