import numpy as np
from evo.core import lie_algebra as lie, metrics
from evo.core.trajectory import PosePath3D
from scipy.spatial.transform import Rotation
rng=np.random.default_rng(0)
worst={}
def upd(k,v): worst[k]=max(worst.get(k,0),v)
for it in range(4000):
    ax=rng.normal(size=3); ax/=np.linalg.norm(ax)
    kind=it%4
    th={0:rng.uniform(0,np.pi),1:10.0**rng.uniform(-16,-3),2:np.pi-10.0**rng.uniform(-12,-3),3:rng.choice([np.pi/2,np.pi,np.pi-1e-12,1e-16])}[kind]
    v=ax*th
    R=lie.so3_exp(v)
    upd("orth",np.abs(R.T@R-np.eye(3)).max())
    assert lie.is_so3(R)
    v2=lie.so3_log(R)
    # compare up to sign at pi
    e=min(np.linalg.norm(v2-v),np.linalg.norm(v2+v) if th>np.pi-1e-6 else 9)
    upd(f"logexp kind{kind}",e/max(th,1e-300) if kind==1 else e)
    a=lie.so3_log_angle(R); upd(f"angle kind{kind}",abs(a-th)/ (th if kind==1 else 1))
    # se3 inverse with big translations
    t=rng.normal(size=3)*10.0**rng.uniform(-6,9)
    P=lie.se3(R,t); I=P@lie.se3_inverse(P); upd("se3inv rel",np.abs(I-np.eye(4)).max()/max(1,np.abs(t).max()))
    s=10.0**rng.uniform(-4,4); S=lie.sim3(R,t,s); upd("sim3 scale rel",abs(lie.sim3_scale(S)-s)/s)
    I=S@lie.sim3_inverse(S); upd("sim3inv rel",np.abs(I-np.eye(4)).max()/max(1,np.abs(t).max()))
    assert lie.is_sim3(S), (s,)
    assert lie.is_se3(P)
print(worst)
# APE angle near pi / 0 between poses
for th in (1e-12,1e-9,np.pi-1e-12,np.pi-1e-9, np.pi):
    A=lie.se3(Rotation.random(random_state=1).as_matrix(),np.zeros(3)); ax=np.array([1,2,2.])/3
    B=lie.se3(A[:3,:3]@lie.so3_exp(ax*th),np.zeros(3))
    m=metrics.APE(metrics.PoseRelation.rotation_angle_rad); m.process_data((PosePath3D(poses_se3=[A]),PosePath3D(poses_se3=[B])))
    print(th, m.error[0], abs(m.error[0]-th))
