(* ResultMergeProofs.v - theorems about the merge_results / evo_res table model at the real instance. *)
From Coq Require Import Reals Lra Lia List Arith Bool Ascii String ZArith.
From Evo Require Import Num ResultMerge.
Import ListNotations.
Local Open Scope R_scope.

Definition sumR (l : list R) : R := fold_right Rplus 0 l.
Definition mean (l : list R) : R := sumR l / INR (List.length l).

Lemma Some_inj {A} (a b : A) : Some a = Some b -> a = b.
Proof. intros H. injection H. auto. Qed.

(* ---------- dictionaries ---------- *)
Lemma mem_In k l : mem k l = true <-> In k l.
Proof.
  unfold mem. rewrite existsb_exists. split.
  - intros [x [Hx E]]. apply String.eqb_eq in E. now subst.
  - intros H. exists k. split; [exact H|apply String.eqb_refl].
Qed.

Lemma keys_eq_spec a b : keys_eq a b = true <-> (forall k, In k a <-> In k b).
Proof.
  unfold keys_eq. rewrite andb_true_iff, !forallb_forall. split.
  - intros [H1 H2] k. split; intros H; [apply mem_In, H1, H|apply mem_In, H2, H].
  - intros H. split; intros k Hk; apply mem_In, H, Hk.
Qed.

Lemma get_map_val {V W} (g : string -> V -> W) k (d : dict V) :
  get k (map (fun kv => (fst kv, g (fst kv) (snd kv))) d) = option_map (g k) (get k d).
Proof.
  induction d as [|[k' v] r IH]; cbn; [reflexivity|].
  destruct (String.eqb_spec k' k) as [->|Ne]; [reflexivity|exact IH].
Qed.

Lemma keys_map_val {V W} (g : string -> V -> W) (d : dict V) :
  keys (map (fun kv => (fst kv, g (fst kv) (snd kv))) d) = keys d.
Proof. unfold keys. rewrite map_map. apply map_ext. reflexivity. Qed.

Lemma get_Some_In {V} k (d : dict V) v : get k d = Some v -> In k (keys d).
Proof.
  induction d as [|[k' w] r IH]; cbn; [discriminate|].
  destruct (String.eqb_spec k' k) as [->|Ne]; intros H; [now left|right; apply IH, H].
Qed.
Lemma In_get_Some {V} k (d : dict V) : In k (keys d) -> exists v, get k d = Some v.
Proof.
  induction d as [|[k' w] r IH]; cbn; [tauto|].
  destruct (String.eqb_spec k' k) as [->|Ne]; intros H; [eauto|].
  destruct H as [E|H]; [congruence|apply IH, H].
Qed.

(* ---------- all_adjacent of an equivalence = pairwise ---------- *)
Section Adjacent.
Context {A : Type} (f : A -> A -> bool).
Hypothesis f_refl : forall a, f a a = true.
Hypothesis f_sym : forall a b, f a b = true -> f b a = true.
Hypothesis f_trans : forall a b c, f a b = true -> f b c = true -> f a c = true.

Lemma all_adjacent_head : forall l a, all_adjacent f (a :: l) = true <-> (forall x, In x l -> f a x = true).
Proof.
  induction l as [|b r IH]; intros a.
  - cbn. split; [intros _ x []|reflexivity].
  - change (all_adjacent f (a :: b :: r)) with (f a b && all_adjacent f (b :: r)).
    rewrite andb_true_iff, IH. split.
    + intros [H1 H2] x [<-|Hx]; [exact H1|]. eapply f_trans; [exact H1|apply H2, Hx].
    + intros H. split; [apply H; now left|]. intros x Hx.
      eapply f_trans; [apply f_sym, H; now left|apply H; now right].
Qed.

Lemma all_adjacent_pairwise l : all_adjacent f l = true <-> (forall x y, In x l -> In y l -> f x y = true).
Proof.
  destruct l as [|a r]; [cbn; split; [intros _ x y []|reflexivity]|].
  rewrite all_adjacent_head. split.
  - intros H x y Hx Hy.
    assert (Ha : forall z, In z (a :: r) -> f a z = true) by (intros z [<-|Hz]; [apply f_refl|apply H, Hz]).
    eapply f_trans; [apply f_sym, Ha, Hx|apply Ha, Hy].
  - intros H x Hx. apply H; [now left|now right].
Qed.
End Adjacent.

Lemma keys_eq_refl a : keys_eq a a = true. Proof. apply keys_eq_spec. tauto. Qed.
Lemma keys_eq_sym a b : keys_eq a b = true -> keys_eq b a = true.
Proof. rewrite !keys_eq_spec. intros H k. symmetry. apply H. Qed.
Lemma keys_eq_trans a b c : keys_eq a b = true -> keys_eq b c = true -> keys_eq a c = true.
Proof. rewrite !keys_eq_spec. intros H1 H2 k. rewrite H1. apply H2. Qed.

Lemma nat_list_eqb_spec a b : nat_list_eqb a b = true <-> a = b.
Proof.
  unfold nat_list_eqb. rewrite andb_true_iff, Nat.eqb_eq, forallb_forall. split.
  - intros [HL H]. revert b HL H. induction a as [|x a IH]; intros [|y b] HL H; cbn in *; try discriminate; [reflexivity|].
    f_equal.
    + apply Nat.eqb_eq. apply (H (x, y)). now left.
    + apply IH; [lia|]. intros p Hp. apply H. now right.
  - intros ->. split; [reflexivity|]. intros [x y] Hp.
    cbn. apply Nat.eqb_eq. revert Hp. clear. induction b as [|z b IH]; cbn; [tauto|].
    intros [E|Hp]; [congruence|apply IH, Hp].
Qed.

(* ---------- sums ---------- *)
Lemma sumR_app a b : sumR (a ++ b) = sumR a + sumR b.
Proof. unfold sumR. induction a as [|x a IH]; cbn [app fold_right]; [ring|rewrite IH; ring]. Qed.

Section Merge.
Context {I : Type}.
Notation Res := (Result R I).

(* every input has exactly the keys of the merged result *)
Definition same_keys (rs : list Res) : Prop :=
  forall r r', In r rs -> In r' rs ->
    (forall k, In k (keys (arrays r)) <-> In k (keys (arrays r'))) /\
    (forall k, In k (keys (stats r)) <-> In k (keys (stats r'))).

Definition keys_ok_b (rs : list Res) : bool :=
  all_adjacent keys_eq (map (fun r => keys (arrays r)) rs) && all_adjacent keys_eq (map (fun r => keys (stats r)) rs).

Lemma keys_ok_spec rs : keys_ok_b rs = true <-> same_keys rs.
Proof.
  unfold keys_ok_b, same_keys. rewrite andb_true_iff.
  rewrite !(all_adjacent_pairwise keys_eq keys_eq_refl keys_eq_sym keys_eq_trans).
  split.
  - intros [H1 H2] r r' Hr Hr'. split; apply keys_eq_spec; [apply H1|apply H2]; apply in_map_iff; eauto.
  - intros H. split; intros x y Hx Hy; apply in_map_iff in Hx, Hy;
      destruct Hx as [r [<- Hr]], Hy as [r' [<- Hr']]; apply keys_eq_spec; apply (H r r' Hr Hr').
Qed.

(* equal array lengths per key (keys of the first result) across all inputs *)
Definition same_sizes (rs : list Res) : Prop :=
  forall r r' k, In r rs -> In r' rs -> In k (keys (arrays (hd r rs))) ->
    List.length (getd [] k (arrays r)) = List.length (getd [] k (arrays r')).

Lemma map_eq_pointwise {A B} (f g : A -> B) l : map f l = map g l <-> (forall x, In x l -> f x = g x).
Proof.
  induction l as [|a l IH]; cbn; [split; [intros _ x []|reflexivity]|]. split.
  - intros H. injection H as H1 H2. intros x [<-|Hx]; [exact H1|apply IH; assumption].
  - intros H. f_equal; [apply H; now left|apply IH; intros x Hx; apply H; now right].
Qed.

Lemma choose_strategy_spec (rs : list Res) : rs <> [] ->
  (choose_strategy rs = Average <-> same_sizes rs).
Proof.
  destruct rs as [|first rest]; [congruence|intros _].
  unfold choose_strategy, same_sizes. cbn [hd].
  set (f := nat_list_eqb).
  assert (Hr : forall a, f a a = true) by (intros; apply nat_list_eqb_spec; reflexivity).
  assert (Hs : forall a b, f a b = true -> f b a = true) by (intros a b H; apply nat_list_eqb_spec in H; apply nat_list_eqb_spec; congruence).
  assert (Ht : forall a b c, f a b = true -> f b c = true -> f a c = true)
    by (intros a b c H1 H2; apply nat_list_eqb_spec in H1, H2; apply nat_list_eqb_spec; congruence).
  destruct (all_adjacent f (map (size_list first) (first :: rest))) eqn:E.
  - split; [intros _|reflexivity].
    pose proof (proj1 (all_adjacent_pairwise f Hr Hs Ht _) E) as E2.
    intros r r' k Hin Hin' Hk.
    assert (H : f (size_list first r) (size_list first r') = true) by (apply E2; apply in_map; assumption).
    apply nat_list_eqb_spec in H. unfold size_list in H.
    apply (proj1 (map_eq_pointwise _ _ _) H k Hk).
  - split; [discriminate|]. intros H. exfalso.
    assert (E' : all_adjacent f (map (size_list first) (first :: rest)) = true).
    { apply (all_adjacent_pairwise f Hr Hs Ht). intros x y Hx Hy.
      apply in_map_iff in Hx, Hy. destruct Hx as [r [<- Hin]], Hy as [r' [<- Hin']].
      apply nat_list_eqb_spec. unfold size_list. apply map_eq_pointwise. intros k Hk. apply H; assumption. }
    congruence.
Qed.

(* ---------- the summation loop ---------- *)
Definition vsum (a : list R) (ls : list (list R)) : list R := fold_left vadd_list ls a.

Lemma vadd_list_length (a b : list R) : List.length b = List.length a -> List.length (vadd_list a b) = List.length a.
Proof. revert b; induction a as [|x a IH]; intros [|y b] H; cbn in *; try lia. f_equal. apply IH. lia. Qed.
Lemma vadd_list_nth (a b : list R) i : List.length b = List.length a -> nth i (vadd_list a b) 0 = nth i a 0 + nth i b 0.
Proof.
  revert b i; induction a as [|x a IH]; intros [|y b] i H; cbn in *; try lia.
  - destruct i; cbn; ring.
  - destruct i; [rnum; reflexivity|apply IH; lia].
Qed.

Lemma vsum_spec ls : forall a, (forall l, In l ls -> List.length l = List.length a) ->
  List.length (vsum a ls) = List.length a /\
  forall i, nth i (vsum a ls) 0 = nth i a 0 + sumR (map (fun l => nth i l 0) ls).
Proof.
  induction ls as [|l ls IH]; intros a H; unfold vsum; cbn [fold_left map sumR fold_right].
  - split; [reflexivity|intros; ring].
  - assert (Hl : List.length l = List.length a) by (apply H; now left).
    assert (P : forall l', In l' ls -> List.length l' = List.length (vadd_list a l)).
    { intros l' Hl'. rewrite vadd_list_length by exact Hl. apply H. now right. }
    destruct (IH (vadd_list a l) P) as [L N].
    fold (vsum (vadd_list a l) ls). split.
    + rewrite L. apply vadd_list_length, Hl.
    + intros i. rewrite N, vadd_list_nth by exact Hl. unfold sumR; cbn [fold_right]; ring.
Qed.

Definition acc_stats (rest : list Res) (k : string) (v : R) : R :=
  v + sumR (map (fun r => getd 0 k (stats r)) rest).
Definition acc_arrays (st : strategy) (rest : list Res) (k : string) (a : list R) : list R :=
  match st with
  | Average => vsum a (map (fun r => getd [] k (arrays r)) rest)
  | Append => a ++ List.concat (map (fun r => getd [] k (arrays r)) rest)
  end.

Lemma map_val_ext {V W} (g h : string -> V -> W) (d : dict V) :
  (forall k v, g k v = h k v) ->
  map (fun kv => (fst kv, g (fst kv) (snd kv))) d = map (fun kv => (fst kv, h (fst kv) (snd kv))) d.
Proof. intros H. apply map_ext. intros [k v]. cbn. now rewrite H. Qed.

Lemma fold_step st (rest : list Res) : forall m,
  let m' := fold_left (step st) rest m in
  info m' = info m /\
  stats m' = map (fun kv => (fst kv, acc_stats rest (fst kv) (snd kv))) (stats m) /\
  arrays m' = map (fun kv => (fst kv, acc_arrays st rest (fst kv) (snd kv))) (arrays m).
Proof.
  induction rest as [|r rest IH]; intros m; cbn [fold_left].
  - cbn. repeat split.
    + rewrite <- (map_id (stats m)) at 1. apply map_ext. intros [k v]. unfold acc_stats. cbn. f_equal. ring.
    + rewrite <- (map_id (arrays m)) at 1. apply map_ext. intros [k v]. unfold acc_arrays. cbn. f_equal.
      destruct st; cbn; [reflexivity|now rewrite app_nil_r].
  - destruct (IH (step st m r)) as [H1 [H2 H3]]. cbn zeta. rewrite H1, H2, H3. cbn [step info stats arrays].
    repeat split.
    + rewrite map_map. apply map_ext. intros [k v]. cbn [fst snd]. f_equal. unfold acc_stats, sumR. cbn [map fold_right].
      rnum. ring.
    + rewrite map_map. apply map_ext. intros [k v]. cbn [fst snd]. f_equal. unfold acc_arrays.
      destruct st; cbn [map List.concat]; [reflexivity|now rewrite app_assoc].
Qed.

Lemma ncount_R (rs : list Res) : ncount rs = INR (List.length rs).
Proof. unfold ncount. rnum. symmetry. apply INR_IZR_INZ. Qed.

Lemma Merged_inj (a b : Res) : Merged a = Merged b -> a = b.
Proof. intros H. injection H. auto. Qed.
Lemma merge_results_unfold (first second : Res) rest :
  merge_results (first :: second :: rest) =
  if keys_ok_b (first :: second :: rest)
  then Merged (finish (choose_strategy (first :: second :: rest)) (ncount (first :: second :: rest))
                 (fold_left (step (choose_strategy (first :: second :: rest))) (second :: rest) first))
  else KeyMismatch.
Proof. reflexivity. Qed.

(* merge of two or more results, unfolded *)
Lemma merge_two_or_more (first second : Res) rest m :
  merge_results (first :: second :: rest) = Merged m ->
  let rs := first :: second :: rest in
  let st := choose_strategy rs in
  let n := INR (List.length rs) in
  same_keys rs /\ info m = info first /\
  stats m = map (fun kv => (fst kv, acc_stats (second :: rest) (fst kv) (snd kv) / n)) (stats first) /\
  arrays m = match st with
             | Average => map (fun kv => (fst kv, map (fun x => x / n) (acc_arrays Average (second :: rest) (fst kv) (snd kv)))) (arrays first)
             | Append => map (fun kv => (fst kv, acc_arrays Append (second :: rest) (fst kv) (snd kv))) (arrays first)
             end.
Proof.
  intros H. cbn zeta. rewrite merge_results_unfold in H.
  destruct (keys_ok_b (first :: second :: rest)) eqn:K; [|discriminate].
  apply Merged_inj in H. subst m. split; [apply keys_ok_spec, K|].
  set (st := choose_strategy (first :: second :: rest)).
  destruct (fold_step st (second :: rest) first) as [H1 [H2 H3]]. cbn zeta in *.
  unfold finish. cbn [info stats arrays]. rewrite H1, H2, H3, ncount_R.
  repeat split.
  - rewrite map_map. apply map_ext. intros [k v]. reflexivity.
  - destruct st; [|reflexivity]. rewrite map_map. apply map_ext. intros [k v]. reflexivity.
Qed.

(* --- statistics: arithmetic mean over all inputs --- *)
Theorem merge_stats_mean (rs : list Res) m : merge_results rs = Merged m ->
  keys (stats m) = keys (stats (hd m rs)) /\
  forall k v, get k (stats m) = Some v -> v = mean (map (fun r => getd 0 k (stats r)) rs).
Proof.
  destruct rs as [|first [|second rest]]; intros H.
  - discriminate.
  - apply Merged_inj in H. subst m. cbn [hd]. split; [reflexivity|]. intros k v Hk.
    assert (E0 : getd 0 k (stats first) = v) by (unfold getd; now rewrite Hk).
    unfold mean, sumR. cbn [map fold_right List.length INR]. rewrite E0. field.
  - destruct (merge_two_or_more _ _ _ _ H) as [_ [_ [Hs _]]]. cbn [hd]. rewrite Hs. split.
    + apply (keys_map_val (fun k v => acc_stats (second :: rest) k v / INR (List.length (first :: second :: rest)))).
    + intros k v Hk.
      rewrite (get_map_val (fun k v => acc_stats (second :: rest) k v / INR (List.length (first :: second :: rest)))) in Hk.
      destruct (get k (stats first)) as [v0|] eqn:G; [|discriminate]. cbn [option_map] in Hk. apply Some_inj in Hk. subst.
      assert (E0 : getd 0 k (stats first) = v0) by (unfold getd; now rewrite G).
      unfold mean, acc_stats. rewrite map_length. cbn [map sumR fold_right]. rewrite E0. reflexivity.
Qed.

(* --- arrays --- *)
Theorem merge_arrays_average (rs : list Res) m : merge_results rs = Merged m -> same_sizes rs ->
  keys (arrays m) = keys (arrays (hd m rs)) /\
  forall k a, get k (arrays m) = Some a ->
    List.length a = List.length (getd [] k (arrays (hd m rs))) /\
    forall i, (i < List.length a)%nat -> nth i a 0 = mean (map (fun r => nth i (getd [] k (arrays r)) 0) rs).
Proof.
  destruct rs as [|first [|second rest]]; intros H S.
  - discriminate.
  - apply Merged_inj in H. subst m. cbn [hd]. split; [reflexivity|]. intros k a Hk.
    assert (E0 : getd [] k (arrays first) = a) by (unfold getd; now rewrite Hk). rewrite E0.
    split; [reflexivity|]. intros i _. unfold mean, sumR. cbn [map fold_right List.length INR]. rewrite E0. field.
  - destruct (merge_two_or_more _ _ _ _ H) as [_ [_ [_ Ha]]]. cbn [hd].
    set (rs := first :: second :: rest) in *.
    assert (St : choose_strategy rs = Average) by (apply choose_strategy_spec; [discriminate|exact S]).
    rewrite St in Ha. rewrite Ha. split.
    + apply (keys_map_val (fun k v => map (fun x => x / INR (List.length rs)) (acc_arrays Average (second :: rest) k v))).
    + intros k a Hk.
      rewrite (get_map_val (fun k v => map (fun x => x / INR (List.length rs)) (acc_arrays Average (second :: rest) k v))) in Hk.
      destruct (get k (arrays first)) as [a0|] eqn:G; [|discriminate]. cbn [option_map] in Hk. apply Some_inj in Hk. subst.
      assert (Hk : In k (keys (arrays first))) by (eapply get_Some_In; eauto).
      assert (E0 : getd [] k (arrays first) = a0) by (unfold getd; now rewrite G).
      unfold acc_arrays.
      assert (P : forall l, In l (map (fun r => getd [] k (arrays r)) (second :: rest)) -> List.length l = List.length a0).
      { intros l Hl. apply in_map_iff in Hl. destruct Hl as [r [<- Hr]]. rewrite <- E0.
        apply (S r first k); [right; exact Hr|now left|exact Hk]. }
      destruct (vsum_spec (map (fun r => getd [] k (arrays r)) (second :: rest)) a0 P) as [L N].
      rewrite map_length, L, E0. split; [reflexivity|]. intros i Hi.
      rewrite (nth_indep _ 0 (0 / INR (List.length rs))) by (rewrite map_length, L; exact Hi).
      rewrite (map_nth (fun x => x / INR (List.length rs))). rewrite N.
      unfold mean. rewrite map_length. subst rs. cbn [map sumR fold_right]. rewrite E0, map_map. reflexivity.
Qed.

Theorem merge_arrays_append (rs : list Res) m : merge_results rs = Merged m -> ~ same_sizes rs ->
  keys (arrays m) = keys (arrays (hd m rs)) /\
  forall k a, get k (arrays m) = Some a -> a = List.concat (map (fun r => getd [] k (arrays r)) rs).
Proof.
  destruct rs as [|first [|second rest]]; intros H S.
  - discriminate.
  - exfalso. apply S. intros r r' k [<-|[]] [<-|[]] _. reflexivity.
  - destruct (merge_two_or_more _ _ _ _ H) as [_ [_ [_ Ha]]]. cbn [hd].
    set (rs := first :: second :: rest) in *.
    assert (St : choose_strategy rs = Append).
    { destruct (choose_strategy rs) eqn:E; [|reflexivity]. exfalso. apply S. apply choose_strategy_spec; [discriminate|exact E]. }
    rewrite St in Ha. rewrite Ha. split.
    + apply (keys_map_val (fun k v => acc_arrays Append (second :: rest) k v)).
    + intros k a Hk. rewrite (get_map_val (fun k v => acc_arrays Append (second :: rest) k v)) in Hk.
      destruct (get k (arrays first)) as [a0|] eqn:G; [|discriminate]. cbn [option_map] in Hk. apply Some_inj in Hk. subst.
      assert (E0 : getd [] k (arrays first) = a0) by (unfold getd; now rewrite G).
      unfold acc_arrays. subst rs. cbn [map List.concat]. rewrite E0. reflexivity.
Qed.

(* --- info of the first; singleton; refusal --- *)
Theorem merge_info_first (rs : list Res) m : merge_results rs = Merged m -> info m = info (hd m rs).
Proof.
  destruct rs as [|first [|second rest]]; intros H; [discriminate|injection H as <-; reflexivity|].
  destruct (merge_two_or_more _ _ _ _ H) as [_ [Hi _]]. exact Hi.
Qed.

Theorem merge_single (r : Res) : merge_results [r] = Merged r.
Proof. reflexivity. Qed.

Theorem merge_empty : merge_results (@nil Res) = NoResults.
Proof. reflexivity. Qed.

Theorem merge_refuses_iff (rs : list Res) : (2 <= List.length rs)%nat ->
  (merge_results rs = KeyMismatch <-> ~ same_keys rs) /\
  ((exists m, merge_results rs = Merged m) <-> same_keys rs).
Proof.
  destruct rs as [|first [|second rest]]; cbn [List.length]; try lia. intros _.
  rewrite merge_results_unfold.
  pose proof (keys_ok_spec (first :: second :: rest)) as K.
  destruct (keys_ok_b (first :: second :: rest)).
  - assert (S : same_keys (first :: second :: rest)) by (apply K; reflexivity).
    split; split; intros H; try tauto; try discriminate. eexists; reflexivity.
  - assert (S : ~ same_keys (first :: second :: rest)) by (intros S; apply K in S; discriminate).
    split; split; intros H; try tauto. destruct H as [m H]; discriminate.
Qed.

(* every input has the keys of the merge: the defaults of getd are never used *)
Theorem merge_keys_all (rs : list Res) m r : merge_results rs = Merged m -> In r rs ->
  (forall k, In k (keys (stats r)) <-> In k (keys (stats m))) /\
  (forall k, In k (keys (arrays r)) <-> In k (keys (arrays m))).
Proof.
  destruct rs as [|first [|second rest]]; intros H Hr; [discriminate| |].
  - injection H as <-. destruct Hr as [<-|[]]. tauto.
  - destruct (merge_stats_mean _ _ H) as [Ks _].
    assert (Ka : keys (arrays m) = keys (arrays first)).
    { destruct (merge_two_or_more _ _ _ _ H) as [_ [_ [_ Ha]]]. rewrite Ha.
      destruct (choose_strategy (first :: second :: rest)).
      - apply (keys_map_val (fun k v => map (fun x => x / INR (List.length (first :: second :: rest))) (acc_arrays Average (second :: rest) k v))).
      - apply (keys_map_val (fun k v => acc_arrays Append (second :: rest) k v)). }
    destruct (merge_two_or_more _ _ _ _ H) as [S _]. cbn [hd] in Ks. rewrite Ks, Ka.
    destruct (S r first Hr ltac:(now left)) as [A B]. split; assumption.
Qed.
End Merge.

(* ---------- regression witness for finding F8 (positional size comparison) ---------- *)
Definition w_r1 : Result R unit := mkResult tt [] [("a"%string, [1; 2; 3]); ("b"%string, [4])].
Definition w_r2 : Result R unit := mkResult tt [] [("b"%string, [1; 2; 3]); ("a"%string, [4])].
Lemma old_strategy_averages_unequal_lengths :
  choose_strategy_old [w_r1; w_r2] = Average /\ choose_strategy [w_r1; w_r2] = Append /\ ~ same_sizes [w_r1; w_r2].
Proof.
  split; [reflexivity|]. split; [reflexivity|].
  intros S. specialize (S w_r1 w_r2 "a"%string ltac:(now left) ltac:(right; now left) ltac:(now left)).
  cbn in S. discriminate.
Qed.

(* ---------- non-vacuity: two results, average and append ---------- *)
Example merge_example_average :
  exists m, merge_results [mkResult tt [("rmse"%string, 1)] [("e"%string, [1; 3])];
                           mkResult tt [("rmse"%string, 3)] [("e"%string, [3; 5])]] = Merged m /\
            get "rmse"%string (stats m) = Some ((1 + 3) / (IZR 2)).
Proof. eexists. split; [reflexivity|]. cbn. reflexivity. Qed.

(* ---------- table ---------- *)
Lemma nodup_b_spec l : nodup_b l = true <-> NoDup l.
Proof.
  induction l as [|a r IH]; cbn; [split; [constructor|reflexivity]|].
  rewrite andb_true_iff, negb_true_iff, IH. split.
  - intros [H1 H2]. constructor; [|exact H2]. intros Hin.
    assert (E : existsb (String.eqb a) r = true) by (apply existsb_exists; exists a; split; [exact Hin|apply String.eqb_refl]).
    congruence.
  - intros H. inversion H as [|? ? Hn Hd]; subst. split; [|exact Hd].
    destruct (existsb (String.eqb a) r) eqn:E; [|reflexivity].
    apply existsb_exists in E. destruct E as [x [Hx E]]. apply String.eqb_eq in E. subst. contradiction.
Qed.

Theorem table_rows {T} (uf : bool) (fs : list (@ResFile T)) :
  match table uf fs with
  | Some rows =>
      NoDup (map (label_of uf) fs) /\ List.length rows = List.length fs /\
      forall i f, nth_error fs i = Some f -> nth_error rows i = Some (label_of uf f, fstats f)
  | None => ~ NoDup (map (label_of uf) fs)
  end.
Proof.
  unfold table. pose proof (nodup_b_spec (map (label_of uf) fs)) as N.
  destruct (nodup_b (map (label_of uf) fs)).
  - split; [apply N; reflexivity|]. split; [apply map_length|].
    intros i f H. rewrite nth_error_map, H. reflexivity.
  - intros D. apply N in D. discriminate.
Qed.

Theorem label_rule {T} (uf : bool) (f : @ResFile T) :
  label_of uf f = if uf then fname f else match est_name f with Some e => basename e | None => "unnamed_result"%string end.
Proof. reflexivity. Qed.

Theorem table_merged_row (rs : list (Result R (option string))) :
  match table_merged rs with
  | Some (lab, row) => exists m, merge_results rs = Merged m /\ lab = label_of_info (info (hd m rs)) /\ row = stats m
  | None => forall m, merge_results rs <> Merged m
  end.
Proof.
  unfold table_merged. destruct (merge_results rs) as [| |m] eqn:E; try (intros m; discriminate).
  exists m. split; [reflexivity|]. split; [|reflexivity]. f_equal. symmetry.
  pose proof (merge_info_first rs m E) as H. now rewrite H.
Qed.

(* basename: no '/' is left, and a name without '/' is unchanged *)
Lemma basename_aux_noslash s : forall acc, (forall c, In c (list_ascii_of_string acc) -> c <> "/"%char) ->
  forall c, In c (list_ascii_of_string (basename_aux s acc)) -> c <> "/"%char.
Proof.
  induction s as [|c0 s IH]; intros acc Hacc c; cbn [basename_aux]; [apply Hacc|].
  destruct (Ascii.eqb_spec c0 "/"%char) as [->|Ne].
  - apply IH. cbn. tauto.
  - apply IH. intros c1 H1.
    assert (E : list_ascii_of_string (acc ++ String c0 EmptyString) = list_ascii_of_string acc ++ [c0]).
    { clear. induction acc; cbn; [reflexivity|now rewrite IHacc]. }
    rewrite E in H1. apply in_app_or in H1. destruct H1 as [H1|[<-|[]]]; [apply Hacc, H1|exact Ne].
Qed.
Theorem basename_no_slash s c : In c (list_ascii_of_string (basename s)) -> c <> "/"%char.
Proof. apply basename_aux_noslash. cbn. tauto. Qed.
